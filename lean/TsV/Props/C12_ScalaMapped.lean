import TsV.Lemmas.C12_ScalaMapped
import TsV.Props.C12
/-!
# C12_ScalaMapped — Scala's unsigned aliases and `type_mappings` entries keyed by built-in types

C12: "helper definitions are emitted when the generated code uses them".  Scala prints `UByte` / `UShort` / `UInt` /
`ULong` for the unsigned primitives and must then write `type UByte = Byte …` into the package object
(`unsigned_integer_used`).  `format_special_type` of Scala never consults `type_mappings`, so a table entry whose key
is a built-in type (`"u8" = "Long"`, `"Vec<u8>" = "…"`) changes nothing in the text: the field is still printed `UByte`.
A scan that *did* consult the table ("`u8` is mapped, so no alias is needed") would drop the alias block while the text
still uses the aliases.

`Props/C12.lean: C12_scala` already quantifies over **every** configuration, tables with such keys included
(`C12_scala_any_table` spells the instance out).  What this module adds:

* `table_seen_at_names_only`: the only keys `format_type` looks up for a type expression are the names of the user
  types in it (`names t`: `Simple` ids and `Generic` heads) — two tables that agree on them give the same text and the
  same "prints an alias name" answer; `special_ignores_table`: an expression without names (primitives, `Vec`, `Option`,
  `HashMap`, arrays, slices, to any depth) is printed the same under every table, and prints an alias name iff the scan
  finds an unsigned primitive in it.
* `scan_ignores_table`: whether the alias block is written is the same under every two configurations.
* `C12_ScalaMapped : C12_ScalaMapped_full`: under every configuration, if a formatted type of the module is built from
  special types only and contains an unsigned primitive, then (a) every text printed for it mentions an alias name —
  the same text as under the empty table — and (b) the alias block is in the file record and in the rendered text.
* `mapped_u8_example` (kernel-checked): `[scala.type_mappings] "u8" = "Long"`, `struct St { f0: u8 }` — the parameter is
  printed `f0: UByte`, the package object starts with the alias block; same file as without the entry.

Nothing is false on the model.  `tools/c12.py: mapped_builtin_part` checks the implementation; the named case was replayed on the real
generator through the runner (same text with and without the entry: `f0: UByte`, alias block present).
-/
namespace TsV.C12_ScalaMapped
open TsV TsV.Lang TsV.C12L TsV.C12

/-- the table is consulted at the names of user types only -/
theorem table_seen_at_names_only (cfg cfg' : Lang.Scala.Cfg) (gens gens' : List Str) (t : RustType)
    (h : ∀ n ∈ names t, mapGet cfg.typeMappings n = mapGet cfg'.typeMappings n) :
    Lang.Scala.formatType cfg gens t = Lang.Scala.formatType cfg' gens' t ∧ Scala.unsignedIn cfg t = Scala.unsignedIn cfg' t :=
  ⟨formatType_agree cfg cfg' gens gens' t h, unsignedIn_agree cfg cfg' t h⟩

/-- an expression built from special types only: same text under every table (and every generic context), and it
prints an alias name exactly when the scan finds an unsigned primitive -/
theorem special_ignores_table (cfg cfg' : Lang.Scala.Cfg) (gens gens' : List Str) (t : RustType) (h : names t = []) :
    Lang.Scala.formatType cfg gens t = Lang.Scala.formatType cfg' gens' t ∧
    Scala.unsignedIn cfg t = Lang.Scala.usesUnsigned t :=
  ⟨formatType_agree cfg cfg' gens gens' t (by rw [h]; intro n hn; cases hn), unsignedIn_of_no_names cfg t h⟩

/-- the leaf itself: whatever the table says about `"u8"`, `u8` is printed `UByte` -/
theorem prim_ignores_table (cfg : Lang.Scala.Cfg) (gens : List Str) (p : Prim) :
    Lang.Scala.formatType cfg gens (.prim p) = Lang.Scala.formatType {} [] (.prim p) :=
  (special_ignores_table cfg {} gens [] (.prim p) rfl).1

/-- whether the alias block is written does not depend on the configuration at all -/
theorem scan_ignores_table (cfg cfg' : Lang.Scala.Cfg) (d : ParsedData) (f f' : Lang.Scala.ScFile)
    (h : Lang.Scala.fileFacts cfg d = .ok f) (h' : Lang.Scala.fileFacts cfg' d = .ok f') :
    Scala.definesUnsigned f = Scala.definesUnsigned f' := by
  rw [Scala.fileFacts_defines cfg d f h, Scala.fileFacts_defines cfg' d f' h']

/-- `C12_scala` at a table extended by any entries (keys that are built-in types included): it was already covered -/
theorem C12_scala_any_table (cfg : Lang.Scala.Cfg) (extra : List (Str × Str)) (d : ParsedData) (f : Lang.Scala.ScFile)
    (hf : Lang.Scala.fileFacts { cfg with typeMappings := extra ++ cfg.typeMappings } d = .ok f)
    (hu : Scala.used { cfg with typeMappings := extra ++ cfg.typeMappings } d = true) :
    Scala.definesUnsigned f = true ∧ Lang.Scala.unsignedAliases <:+: Lang.Scala.renderFile f :=
  C12_scala_text _ d f hf hu

def C12_ScalaMapped_full : Prop :=
  ∀ (cfg : Lang.Scala.Cfg) (d : ParsedData) (f : Lang.Scala.ScFile), Lang.Scala.fileFacts cfg d = .ok f →
    ∀ t ∈ Scala.formatted d, names t = [] → Lang.Scala.usesUnsigned t = true →
      (∀ gens s, Lang.Scala.formatType cfg gens t = .ok s →
        Lang.Scala.formatType {} [] t = .ok s ∧ ∃ n ∈ Scala.aliasNames, n <:+: s) ∧
      Scala.definesUnsigned f = true ∧ Lang.Scala.unsignedAliases <:+: Lang.Scala.renderFile f

/-- **the alias block is written whenever a printed built-in type text uses an alias, under every table** -/
theorem C12_ScalaMapped : C12_ScalaMapped_full := by
  intro cfg d f hf t ht hn hu
  have hin : Scala.unsignedIn cfg t = true := by rw [unsignedIn_of_no_names cfg t hn]; exact hu
  refine ⟨?_, ?_⟩
  · intro gens s hs
    refine ⟨?_, Scala.formatType_mentions cfg gens t s hs hin⟩
    rw [← (special_ignores_table cfg {} gens [] t hn).1]; exact hs
  · refine C12_scala_text cfg d f hf ?_
    simp only [Scala.used, List.any_eq_true]
    exact ⟨t, ht, hin⟩

/-! ## the named case: `[scala.type_mappings] "u8" = "Long"`, `struct St { f0: u8 }` -/

def mappedCfg : Lang.Scala.Cfg := { package := s%"com.example", typeMappings := [(s%"u8", s%"Long")] }
def mappedData : ParsedData := { structs := [mkStruct s%"St" [mkField s%"f0" (.prim .u8)]] }

/-- the file, field by field: the parameter is `f0: UByte`, the package object starts with the alias block; the very
same record as without the table entry -/
theorem mapped_u8_example :
    Lang.Scala.fileFacts mappedCfg mappedData = .ok
      { header := none, parent := some s%"com", last := s%"example",
        packageObject := some (true, []),
        packageBody := some ([{ comments := [], name := s%"St", generics := [],
                                params := [{ comments := [], name := s%"f0", ty := s%"UByte", default := [] }] }], []) } ∧
    Lang.Scala.fileFacts mappedCfg mappedData = Lang.Scala.fileFacts { mappedCfg with typeMappings := [] } mappedData := by
  constructor <;> decide +kernel

/-- the hypotheses of `C12_ScalaMapped` are met by it, and the conclusion read on the text -/
theorem mapped_mem : (RustType.prim .u8) ∈ Scala.formatted mappedData := by
  show RustType.prim .u8 ∈ [RustType.prim .u8]
  exact List.mem_singleton.2 rfl

example : (RustType.prim .u8) ∈ Scala.formatted mappedData ∧ names (.prim .u8) = [] ∧
    Lang.Scala.usesUnsigned (.prim .u8) = true := ⟨mapped_mem, rfl, rfl⟩

example (f : Lang.Scala.ScFile) (h : Lang.Scala.fileFacts mappedCfg mappedData = .ok f) :
    Lang.Scala.unsignedAliases <:+: Lang.Scala.renderFile f :=
  (C12_ScalaMapped mappedCfg mappedData f h (.prim .u8) mapped_mem rfl rfl).2.2

/-- a deeper one: `Option<HashMap<String, Vec<u16>>>` with `"Vec<u16>"`, `"u16"` and `"Option<HashMap>"` all in the table -/
example : Lang.Scala.formatType { typeMappings := [(s%"Vec<u16>", s%"Seq[Int]"), (s%"u16", s%"Int"), (s%"Option<HashMap>", s%"X")] } []
      (.option (.hashMap (.prim .string) (.vec (.prim .u16)))) = .ok s%"Option[Map[String, Vector[UShort]]]" := by
  decide +kernel

/-- contrast (why the statement is about *built-in* keys): a key that is a user type's name is consulted, the whole
application is replaced and its arguments are never printed -/
example : Lang.Scala.formatType { typeMappings := [(s%"Foo", s%"Bar")] } [] (.generic s%"Foo" [.prim .u8]) = .ok s%"Bar" ∧
    names (.generic s%"Foo" [.prim .u8]) = [s%"Foo"] := by decide +kernel

end TsV.C12_ScalaMapped
