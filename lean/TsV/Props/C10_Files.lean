import TsV.Props.C10
import TsV.Lemmas.C10_Files_TypeScript
import TsV.Lemmas.C10_Files_Swift
import TsV.Lemmas.C10_Files_Go
import TsV.Lemmas.C10_Files_GoAcr
import TsV.Lemmas.C10_Files_Python
/-!
# C10, continued — whole output files are lexically closed, for all six back ends  (PARTIAL)

`TsV.Props.C10` proves lexical closure (`wellBracketed`) declaration by declaration, and file by file
for Kotlin and Scala.  This file lifts everything to the **files of a run** (`generateAll`):

* `C10_typescript_files`, `C10_swift_files`, `C10_go_files`: header (version comment), import lines
  (TypeScript, multi-file), the `ReviverFunc` / `ReplacerFunc` helpers of TypeScript's `end_file`,
  Swift's `CodableVoid` tail and `Codable.swift`, Go's `package` line and import block, and all
  declarations in between; the printer state threaded through the items and through the crates
  carries an invariant (`TS.StOk`, `GoF.StOk`) because it is printed (Date reviver keys, import paths).
* `C10_go_enum`: Go enums **from the parsed enum** (unit and algebraic), not only from fact records.
* `C10_go_acronyms`, `C10_variant_closed`, `C10_go_item`: Go with a non-empty `uppercase_acronyms` (every
  acronym an identifier fragment): the acronym pass returns a *variant* of its argument, variants of
  closed texts are closed, hence every Go declaration and file is closed with any such acronym list.
* `C10_python_item`, `C10_python_files`: Python, w.r.t. the Python automaton `C10LexPy`: structs, unit
  enums, algebraic enums, aliases, constants; every docstring is a closed literal **for every doc
  text** (`python_docstring_closed`); the whole file with its import / `TypeVar` header and the custom
  (de)serialiser functions.
* `C10_kotlin_files`, `C10_scala_files`: the existing file theorems lifted to `generateAll`.
* `C10_lexical_partial`: the combined statement — for every language, every file `generateAll` writes
  is `lexOk`, provided the configuration is in scope (`CfgIn`), the external functions are
  (`ExtIn`), and every job / item is (`JobIn`, `ItemIn`).  `CfgIn`, `JobIn`, `ItemIn` are decidable
  (the examples at the end check them with `decide +kernel`); `ExtIn` is two universally quantified
  assumptions on the external Unicode / snake-case functions.

Not proved here: the declaration *grammar* (only checked, see `TsV.Props.C10`).
-/
namespace TsV.C10
open TsV TsV.Lang TsV.C10Lex TsV.Generate TsV.C10Spec TsV.C10Files

abbrev Job := Str × ParsedData × Option Pipeline.ScopedCrateTypes

/-! ## the scope predicates of the combined statement -/

/-- what the comment syntax of a language tolerates in doc text: TypeScript anything but `*/` (and
since the C15 repair that too: the hypothesis is kept for uniformity), the line-comment languages
anything but a line break (Python: only the `#` comments of a union need it, docstrings need nothing) -/
def DocsIn : TsV.Lang → List Str → Prop
  | .typescript => fun cs => Known_DocTerminator cs = false
  | _ => fun cs => Known_DocLineBreak cs = false

instance (L : TsV.Lang) (cs : List Str) : Decidable (DocsIn L cs) := by
  cases L <;> unfold DocsIn <;> infer_instance

/-- the lexer at declaration level (TypeScript declarations are checked with `<`/`>` as brackets) -/
def declLex : TsV.Lang → LexCfg
  | .typescript => C10TypeScript.T
  | .python => Py.P0
  | l => lexCfg l

/-- one parsed item is in scope for a back end: names over `[A-Za-z0-9_-]`, identifiers where the back
end derives identifiers, type trees over such names, balanced type overrides, harmless doc text; for
Swift also: the decorator / generic-constraint lists computed for the item consist of balanced strings -/
def ItemIn (E : Ext) (lang : LangCfg) (it : RustItem) : Prop :=
  ItemScope (langOf lang) (declLex (langOf lang)) (DocsIn (langOf lang)) it ∧
  (match lang with
   | .swift cfg => Sw.itemDecorWb E.U cfg it = true
   | _ => True)

instance (E : Ext) (lang : LangCfg) (it : RustItem) : Decidable (ItemIn E lang it) := by
  unfold ItemIn
  cases lang <;> infer_instance

/-- the Scala package name is a dotted identifier fragment (with or without a dot: since the `fix:`
commit 653aee1 a name without a dot is its own innermost package) -/
def scalaPackageOk (cfg : Scala.Cfg) : Prop := Dotted cfg.package

instance (cfg : Scala.Cfg) : Decidable (scalaPackageOk cfg) := by
  unfold scalaPackageOk; infer_instance

def versionOk (v : Option Str) : Prop := ∀ x, v = some x → Dotted x
instance (v : Option Str) : Decidable (versionOk v) := by unfold versionOk; infer_instance

/-- the configuration is in scope: balanced type mappings, identifier-fragment prefixes, dotted
version / package texts, balanced default decorators (Swift), acronyms that are identifier fragments (Go) -/
def CfgIn : LangCfg → Prop
  | .typescript cfg => (∀ p ∈ cfg.typeMappings, wellBracketed C10TypeScript.T p.2 = true) ∧ versionOk cfg.versionHeader
  | .kotlin cfg => KeyStr cfg.pfx ∧ (∀ p ∈ cfg.typeMappings, wellBracketed C10Kotlin.K p.2 = true) ∧
      versionOk cfg.versionHeader ∧ Dotted cfg.package
  | .swift cfg => KeyStr cfg.pfx ∧ (∀ p ∈ cfg.typeMappings, wellBracketed C10Swift.W p.2 = true) ∧ Sw.FileOk cfg
  | .scala cfg => (∀ p ∈ cfg.typeMappings, wellBracketed C10Scala.S p.2 = true) ∧ versionOk cfg.versionHeader ∧
      scalaPackageOk cfg
  | .go cfg => (∀ a ∈ cfg.uppercaseAcronyms, IdentStr a) ∧ (∀ p ∈ cfg.typeMappings, wellBracketed C10Go.G p.2 = true) ∧
      GoF.FileOk cfg
  | .python cfg => Py.CfgOk cfg ∧ versionOk cfg.versionHeader

instance (lang : LangCfg) : Decidable (CfgIn lang) := by
  cases lang <;> unfold CfgIn <;> infer_instance

def importsOk (imports : Option Pipeline.ScopedCrateTypes) : Prop :=
  ∀ i, imports = some i → ∀ p ∈ i, Dotted p.1 ∧ ∀ t ∈ p.2, Dotted t
instance (i : Option Pipeline.ScopedCrateTypes) : Decidable (importsOk i) := by unfold importsOk; infer_instance

/-- what reaches the text from a job besides its items: crate name (Kotlin's `package` line) and
the import lists (TypeScript, Kotlin) -/
def JobIn : LangCfg → Job → Prop
  | .typescript _, j => importsOk j.2.2
  | .kotlin _, j => Dotted j.2.1.crateName ∧ importsOk j.2.2
  | _, _ => True

instance (lang : LangCfg) (j : Job) : Decidable (JobIn lang j) := by
  cases lang <;> unfold JobIn <;> infer_instance

/-- the assumptions on the external functions: Rust's case mapping restricted to ASCII is the ASCII
case mapping (TypeScript / Python constant names, Go receiver names, Python member names), and
`convert_case`'s snake-casing keeps names over `[A-Za-z0-9_-]` in that alphabet (Python) -/
def ExtIn (E : Ext) : LangCfg → Prop
  | .typescript _ | .go _ => E.U.AsciiCorrect
  | .python _ => E.U.AsciiCorrect ∧ Py.SnakeOk E
  | _ => True

/-! ## TypeScript -/

/-- **TypeScript, all files of a run** -/
theorem C10_typescript_files (E : Ext) (hU : E.U.AsciiCorrect) (cfg : TypeScript.Cfg) (hc : CfgIn (.typescript cfg))
    (multi : Bool) (jobs : List Job)
    (hj : ∀ j ∈ jobs, JobIn (.typescript cfg) j ∧ ∀ it ∈ C12L.itemsOf j.2.1, ItemIn E (.typescript cfg) it)
    (outs : List (Str × Str)) (h : TypeScript.generateAll E cfg multi jobs = .ok outs) :
    ∀ o ∈ outs, lexOk .typescript o.2 = true := by
  intro o ho
  have hjobs : TS.JobsOk cfg jobs := by
    intro j hjm
    obtain ⟨h1, h2⟩ := hj j hjm
    refine ⟨⟨hc.2, h1⟩, fun it hit => ?_⟩
    have := (h2 it hit).1
    have e : (fun cs => Known_DocTerminator cs = false) = C10TypeScript.DocsOk := by
      funext cs; exact propext (docsOk_typescript cs).symm
    simp only [langOf, declLex, DocsIn] at this
    rw [e] at this
    exact this
  exact (TS.generateFrom_nb E.U hU hc.1 jobs [] TS.stOk_nil hjobs outs h o ho).wb

/-! ## Swift -/

theorem docs_lineBreak (D : List Str → Prop) (hD : ∀ cs, D cs ↔ ∀ c ∈ cs, '\n' ∉ c) :
    (fun cs => Known_DocLineBreak cs = false) = D := by
  funext cs
  exact propext (by rw [hD]; simp [Known_DocLineBreak])

/-- **Swift, all files of a run** (`Codable.swift` included) -/
theorem C10_swift_files (E : Ext) (cfg : Swift.Cfg) (hc : CfgIn (.swift cfg)) (multi : Bool) (jobs : List Job)
    (hj : ∀ j ∈ jobs, ∀ it ∈ C12L.itemsOf j.2.1, ItemIn E (.swift cfg) it)
    (outs : List (Str × Str)) (h : Swift.generateAll E cfg multi jobs = .ok outs) :
    ∀ o ∈ outs, lexOk .swift o.2 = true := by
  intro o ho
  have hjobs : Sw.JobsOk E.U cfg jobs := by
    intro j hjm it hit
    obtain ⟨h1, h2⟩ := hj j hjm it hit
    refine ⟨?_, h2⟩
    simp only [langOf, declLex, DocsIn, lexCfg] at h1
    rw [docs_lineBreak C10Swift.DocsOk (fun _ => Iff.rfl)] at h1
    exact h1
  exact (Sw.generateAll_nb E ⟨hc.1, hc.2.1⟩ hc.2.2 multi jobs hjobs outs h o ho).wb

/-! ## Go -/

/-- **Go enums from the parsed enum** (unit and algebraic; with `uppercase_acronyms = []`) -/
theorem C10_go_enum (U : UnicodeOps) (hU : U.AsciiCorrect) (cfg : Go.Cfg) (H : C10Go.CfgOk cfg) (e : RustEnum)
    (hs : EnumScope .go C10Go.G (fun cs => Known_DocLineBreak cs = false) e) (customStructs : List Str)
    (st : Go.Imports) (text : Str) (st' : Go.Imports) (h : Go.writeEnum U cfg e customStructs st = .ok (text, st')) :
    wellBracketed C10Go.G text = true := by
  rw [docs_lineBreak C10Go.DocsOk (fun _ => Iff.rfl)] at hs
  exact (GoF.writeEnum_nb U hU H e hs customStructs st text st' h).wb

/-- **the acronym pass returns a variant of its argument**: same length, and at every position the
same character, or an identifier character where the argument has an identifier character — when the
acronyms are identifier fragments and the Unicode parameter is ASCII-correct -/
theorem C10_go_acronyms (U : UnicodeOps) (hU : U.AsciiCorrect) (cfg : Go.Cfg)
    (hA : ∀ a ∈ cfg.uppercaseAcronyms, IdentStr a) (name r : Str) (h : Go.acr U cfg name = .ok r) :
    GoAcr.VarStr r name := GoAcr.acr_var U hU hA name r h

/-- … and a variant of a lexically closed text is lexically closed (identifier characters are inert in
every lexer state) -/
theorem C10_variant_closed (lx : LexCfg) (x y : Str) (h : GoAcr.VarStr x y) (hy : wellBracketed lx y = true) :
    wellBracketed lx x = true := (GoAcr.nb_var h (nb_of_wb hy)).wb

/-- **Go, every item kind, with an acronym list**: structs, aliases, constants, unit and algebraic
enums (from the parsed item) -/
theorem C10_go_item (U : UnicodeOps) (hU : U.AsciiCorrect) (cfg : Go.Cfg) (H : GoAcr.CfgOk' cfg) (it : RustItem)
    (hs : ItemScope .go C10Go.G (fun cs => Known_DocLineBreak cs = false) it) (customStructs : List Str)
    (st : Go.Imports) (text : Str) (st' : Go.Imports) (h : Go.writeItem U cfg customStructs it st = .ok (text, st')) :
    wellBracketed C10Go.G text = true := by
  rw [docs_lineBreak C10Go.DocsOk (fun _ => Iff.rfl)] at hs
  exact (GoAcr.writeItem_nb' U hU H customStructs it hs st text st' h).wb

/-- **Go, all files of a run** (any acronym list of identifier fragments) -/
theorem C10_go_files (E : Ext) (hU : E.U.AsciiCorrect) (cfg : Go.Cfg) (hc : CfgIn (.go cfg)) (multi : Bool)
    (jobs : List Job) (hj : ∀ j ∈ jobs, ∀ it ∈ C12L.itemsOf j.2.1, ItemIn E (.go cfg) it)
    (outs : List (Str × Str)) (h : Go.generateAll E cfg multi jobs = .ok outs) :
    ∀ o ∈ outs, lexOk .go o.2 = true := by
  intro o ho
  have hjobs : GoF.JobsOk jobs := by
    intro j hjm it hit
    have h1 := (hj j hjm it hit).1
    simp only [langOf, declLex, DocsIn, lexCfg] at h1
    rw [docs_lineBreak C10Go.DocsOk (fun _ => Iff.rfl)] at h1
    exact h1
  exact (GoAcr.generateFrom_nb' E.U hU ⟨hc.1, hc.2.1⟩ hc.2.2 jobs [] GoF.stOk_nil hjobs outs h o ho).wb

/-! ## Python -/

/-- **every docstring the Python back end writes is a closed `\"\"\"` literal, whatever the doc
text** (backslashes doubled, `\"\"\"` escaped: C15's `py_escape_ok` carried to the lexer) -/
theorem python_docstring_closed (indent : Nat) (cs : List Str) :
    C10LexPy.wellBracketedPy (Python.docstring indent cs) = true := (Py.docstring_nbp indent cs).wb

/-- **Python, every item kind**: the text written for a struct (`class …(BaseModel)`), a unit enum
(`class …(str, Enum)`), an algebraic enum (inner classes, the `…Types` enumeration, the variant classes,
the `Union[…]` alias), a type alias, a constant is closed for the Python automaton -/
theorem C10_python_item (E : Ext) (hU : E.U.AsciiCorrect) (hS : Py.SnakeOk E) (cfg : Python.Cfg) (H : Py.CfgOk cfg)
    (it : RustItem) (hs : ItemScope .python Py.P0 (fun cs => Known_DocLineBreak cs = false) it)
    (st : Python.St) (text : Str) (st' : Python.St) (h : Python.writeItem E cfg it st = .ok (text, st')) :
    C10LexPy.wellBracketedPy text = true := by
  rw [docs_lineBreak Py.DocsOk (fun _ => Iff.rfl)] at hs
  exact (Py.writeItem_ok E hU hS H it hs st text st' h).1.wb

/-- **Python, all files of a run** -/
theorem C10_python_files (E : Ext) (hU : E.U.AsciiCorrect) (hS : Py.SnakeOk E) (cfg : Python.Cfg)
    (hc : CfgIn (.python cfg)) (multi : Bool) (jobs : List Job)
    (hj : ∀ j ∈ jobs, ∀ it ∈ C12L.itemsOf j.2.1, ItemIn E (.python cfg) it)
    (outs : List (Str × Str)) (h : Python.generateAll E cfg multi jobs = .ok outs) :
    ∀ o ∈ outs, lexOk .python o.2 = true := by
  intro o ho
  have hjobs : Py.JobsOk jobs := by
    intro j hjm it hit
    have h1 := (hj j hjm it hit).1
    simp only [langOf, declLex, DocsIn] at h1
    rw [docs_lineBreak Py.DocsOk (fun _ => Iff.rfl)] at h1
    exact h1
  exact (Py.generateFrom_ok E hU hS hc.1 hc.2 jobs {} Py.stOk_empty hjobs outs h o ho).wb

/-! ## Kotlin and Scala: the file theorems of `TsV.Props.C10`, for all files of a run -/

theorem kotlin_generateFrom (cfg : Kotlin.Cfg) (hc : CfgIn (.kotlin cfg)) (E : Ext) :
    ∀ (jobs : List Job), (∀ j ∈ jobs, JobIn (.kotlin cfg) j ∧ ∀ it ∈ C12L.itemsOf j.2.1, ItemIn E (.kotlin cfg) it) →
      ∀ outs, Kotlin.generateFrom cfg jobs = .ok outs → ∀ o ∈ outs, wellBracketed C10Kotlin.K o.2 = true
  | [], _, outs, h => by simp only [Kotlin.generateFrom] at h; cases h; simp
  | (crate, d, imps) :: rest, hj, outs, h => by
    simp only [Kotlin.generateFrom] at h
    obtain ⟨text, hg, h⟩ := obind_ok h
    obtain ⟨outs', ho, h⟩ := obind_ok h
    cases h
    obtain ⟨⟨hcr, himp⟩, hit⟩ := hj (crate, d, imps) (by simp)
    have hfile : wellBracketed C10Kotlin.K text = true := by
      refine C10_kotlin_file cfg ⟨hc.1, hc.2.1⟩ d imps ⟨hc.2.2.1, hc.2.2.2, hcr, himp⟩ ?_ text hg
      intro items hitems it hmem
      have h1 := (hit it (mem_of_generateOrder hitems hmem)).1
      simp only [langOf, declLex, DocsIn, lexCfg] at h1
      rw [docs_lineBreak C10Kotlin.DocsOk (fun _ => Iff.rfl)] at h1
      exact h1
    intro o hoo
    rcases List.mem_cons.1 hoo with rfl | hoo
    · exact hfile
    · exact kotlin_generateFrom cfg hc E rest (fun j hjm => hj j (by simp [hjm])) outs' ho o hoo

/-- **Kotlin, all files of a run** -/
theorem C10_kotlin_files (E : Ext) (cfg : Kotlin.Cfg) (hc : CfgIn (.kotlin cfg)) (multi : Bool) (jobs : List Job)
    (hj : ∀ j ∈ jobs, JobIn (.kotlin cfg) j ∧ ∀ it ∈ C12L.itemsOf j.2.1, ItemIn E (.kotlin cfg) it)
    (outs : List (Str × Str)) (h : Kotlin.generateAll E cfg multi jobs = .ok outs) :
    ∀ o ∈ outs, lexOk .kotlin o.2 = true :=
  kotlin_generateFrom cfg hc E jobs hj outs h

theorem scala_generateFrom (cfg : Scala.Cfg) (hc : CfgIn (.scala cfg)) (E : Ext) :
    ∀ (jobs : List Job), (∀ j ∈ jobs, ∀ it ∈ C12L.itemsOf j.2.1, ItemIn E (.scala cfg) it) →
      ∀ outs, Scala.generateFrom cfg jobs = .ok outs → ∀ o ∈ outs, wellBracketed C10Scala.S o.2 = true
  | [], _, outs, h => by simp only [Scala.generateFrom] at h; cases h; simp
  | (crate, d, imps) :: rest, hj, outs, h => by
    simp only [Scala.generateFrom] at h
    obtain ⟨text, hg, h⟩ := obind_ok h
    obtain ⟨outs', ho, h⟩ := obind_ok h
    cases h
    have hit : ∀ it ∈ C12L.itemsOf d, ItemScope .scala C10Scala.S C10Scala.DocsOk it := by
      intro it hmem
      have h1 := (hj (crate, d, imps) (by simp) it hmem).1
      simp only [langOf, declLex, DocsIn, lexCfg] at h1
      rw [docs_lineBreak C10Scala.DocsOk (fun _ => Iff.rfl)] at h1
      exact h1
    have hd : C10Scala.DataOk d :=
      ⟨fun s hs => hit (.struct s) (by simp [C12L.itemsOf, hs]), fun e he => hit (.enum e) (by simp [C12L.itemsOf, he]),
       fun a ha => hit (.alias a) (by simp [C12L.itemsOf, ha])⟩
    have hfile := C10_scala_file cfg hc.1 d hd hc.2.1 hc.2.2 text hg
    intro o hoo
    rcases List.mem_cons.1 hoo with rfl | hoo
    · exact hfile
    · exact scala_generateFrom cfg hc E rest (fun j hjm => hj j (by simp [hjm])) outs' ho o hoo

/-- **Scala, all files of a run** -/
theorem C10_scala_files (E : Ext) (cfg : Scala.Cfg) (hc : CfgIn (.scala cfg)) (multi : Bool) (jobs : List Job)
    (hj : ∀ j ∈ jobs, ∀ it ∈ C12L.itemsOf j.2.1, ItemIn E (.scala cfg) it)
    (outs : List (Str × Str)) (h : Scala.generateAll E cfg multi jobs = .ok outs) :
    ∀ o ∈ outs, lexOk .scala o.2 = true :=
  scala_generateFrom cfg hc E jobs hj outs h

/-! ## the combined statement -/

/-- **C10, lexical layer, partial**: for every language, every file of a run is lexically closed —
provided the configuration, the external functions, the jobs and every item of every job are in scope. -/
theorem C10_lexical_partial (E : Ext) (lang : LangCfg) (multi : Bool) (jobs : List Job)
    (hE : ExtIn E lang) (hc : CfgIn lang)
    (hj : ∀ j ∈ jobs, JobIn lang j ∧ ∀ it ∈ C12L.itemsOf j.2.1, ItemIn E lang it)
    (outs : List (Str × Str)) (h : generateAll E multi jobs lang = .ok outs) :
    ∀ o ∈ outs, lexOk (langOf lang) o.2 = true := by
  cases lang with
  | typescript cfg => exact C10_typescript_files E hE cfg hc multi jobs hj outs h
  | kotlin cfg => exact C10_kotlin_files E cfg hc multi jobs hj outs h
  | swift cfg => exact C10_swift_files E cfg hc multi jobs (fun j hjm => (hj j hjm).2) outs h
  | scala cfg => exact C10_scala_files E cfg hc multi jobs (fun j hjm => (hj j hjm).2) outs h
  | go cfg => exact C10_go_files E hE cfg hc multi jobs (fun j hjm => (hj j hjm).2) outs h
  | python cfg => exact C10_python_files E hE.1 hE.2 cfg hc multi jobs (fun j hjm => (hj j hjm).2) outs h

/-! ## non-vacuity: a two-item program per language that meets every hypothesis, and for which the run succeeds -/

def item2 : RustStruct :=
  { exStruct with comments := [s%" an item /* ("], fields := [{ exField with comments := [s%" the \"id\" (raw) {"] }] }

def dateField : RustField :=
  { id := ⟨s%"created_at", s%"createdAt", true⟩, ty := .prim .dateTime, comments := [s%" when \"\"\" \\"], hasDefault := true,
    decorators := [] }

/-- with a `DateTime` field: TypeScript writes the `ReviverFunc` / `ReplacerFunc` footer, Go imports
`time`, Python writes the datetime (de)serialisers -/
def item2d : RustStruct := { item2 with fields := item2.fields ++ [dateField] }

/-- a two-item program: `struct Item<T>` and the tagged `enum Shape<T>` -/
def data2 : ParsedData := { structs := [item2], enums := [exEnum], crateName := s%"my_crate", multiFile := true }
def data2d : ParsedData := { data2 with structs := [item2d] }

theorem order2 : Pipeline.generateOrder data2 = some [.struct item2, .enum exEnum] :=
  topsort_pair _ _ (by decide +kernel)
theorem order2d : Pipeline.generateOrder data2d = some [.struct item2d, .enum exEnum] :=
  topsort_pair _ _ (by decide +kernel)

theorem snakeOk_ascii : Py.SnakeOk asciiExt := fun _ h => h

/-! ### TypeScript (multi-file: import lines; `Date`: the reviver / replacer footer) -/

def tsCfg : TypeScript.Cfg :=
  { typeMappings := [(s%"Foo", s%"Record<string, [number, string]>")], versionHeader := some s%"1.13.2" }
def tsJob : Job := (s%"my_crate", data2d, some [(s%"other_crate", [s%"Bar", s%"Foo"])])

example : ExtIn asciiExt (.typescript tsCfg) := UnicodeOps.ascii_correct
example : CfgIn (.typescript tsCfg) := by decide +kernel
example : JobIn (.typescript tsCfg) tsJob ∧ ∀ it ∈ C12L.itemsOf tsJob.2.1, ItemIn asciiExt (.typescript tsCfg) it := by
  decide +kernel
example : (generateAll asciiExt true [tsJob] (.typescript tsCfg)).isOk = true := by
  obtain ⟨⟨body, st⟩, hw⟩ := ok_of_isOk (x := TypeScript.writeItems UnicodeOps.ascii tsCfg [.struct item2d, .enum exEnum] [])
    (by decide +kernel)
  simp [generateAll, TypeScript.generateAll, TypeScript.generateFrom, TypeScript.generate, tsJob, order2d, asciiExt, hw,
    Outcome.bind, Outcome.isOk]

/-! ### Kotlin -/

def ktCfg : Kotlin.Cfg :=
  { pfx := s%"OP", typeMappings := [(s%"Foo", s%"Map<String, List<Int>>")], package := s%"com.example",
    versionHeader := some s%"1.13.2" }
def ktJob : Job := (s%"my_crate", data2, some [(s%"other_crate", [s%"Bar"])])

example : CfgIn (.kotlin ktCfg) := by decide +kernel
example : JobIn (.kotlin ktCfg) ktJob ∧ ∀ it ∈ C12L.itemsOf ktJob.2.1, ItemIn asciiExt (.kotlin ktCfg) it := by
  decide +kernel
example : (generateAll asciiExt true [ktJob] (.kotlin ktCfg)).isOk = true := by
  obtain ⟨ds, hw⟩ := ok_of_isOk (x := Kotlin.itemsFacts ktCfg [.struct item2, .enum exEnum]) (by decide +kernel)
  simp [generateAll, Kotlin.generateAll, Kotlin.generateFrom, Kotlin.generate, ktJob, order2, hw, Outcome.bind, Outcome.isOk]

/-! ### Swift (single file: the `CodableVoid` tail is not triggered here; multi-file run below) -/

def swCfg : Swift.Cfg :=
  { pfx := s%"OP", versionHeader := some s%"1.13.2", defaultDecorators := [s%"Sendable"],
    codablevoidConstraints := [s%"Equatable"] }
def swJob : Job := (s%"my_crate", data2, none)

example : CfgIn (.swift swCfg) := by decide +kernel
example : ∀ it ∈ C12L.itemsOf swJob.2.1, ItemIn asciiExt (.swift swCfg) it := by decide +kernel
example : (generateAll asciiExt false [swJob] (.swift swCfg)).isOk = true := by
  obtain ⟨⟨body, st⟩, hw⟩ := ok_of_isOk (x := Swift.writeItems UnicodeOps.ascii swCfg [.struct item2, .enum exEnum] false)
    (by decide +kernel)
  simp [generateAll, Swift.generateAll, Swift.generateFrom, Swift.generate, swJob, order2, asciiExt, hw,
    Outcome.bind, Outcome.isOk]

/-! ### Scala -/

def scCfg : Scala.Cfg :=
  { package := s%"com.example", typeMappings := [(s%"Foo", s%"Map[String, Vector[Int]]")], versionHeader := some s%"1.13.2" }

example : CfgIn (.scala scCfg) := by decide +kernel
example : ∀ it ∈ C12L.itemsOf data2, ItemIn asciiExt (.scala scCfg) it := by decide +kernel
example : (generateAll asciiExt false [(s%"my_crate", data2, none)] (.scala scCfg)).isOk = true := by decide +kernel
/-- a package name without a dot is in scope too (the repaired finding `scala-package-without-dot`) -/
example : CfgIn (.scala { scCfg with package := s%"pkg" }) ∧
    (generateAll asciiExt false [(s%"my_crate", data2, none)] (.scala { scCfg with package := s%"pkg" })).isOk = true := by
  decide +kernel

/-! ### Go (`DateTime`: the import block lists `encoding/json` and `time`) -/

def goCfg : Go.Cfg :=
  { package := s%"proto", typeMappings := [(s%"Foo", s%"map[string][]int")], versionHeader := some s%"1.13.2",
    uppercaseAcronyms := [s%"id", s%"url"] }
def goJob : Job := (s%"my_crate", data2d, none)

example : ExtIn asciiExt (.go goCfg) := UnicodeOps.ascii_correct
example : CfgIn (.go goCfg) := by decide +kernel
example : ∀ it ∈ C12L.itemsOf goJob.2.1, ItemIn asciiExt (.go goCfg) it := by decide +kernel
example : (generateAll asciiExt false [goJob] (.go goCfg)).isOk = true := by
  obtain ⟨⟨body, st⟩, hw⟩ := ok_of_isOk (x := Go.writeItems UnicodeOps.ascii goCfg
    (Go.typesMappingToStruct [.struct item2d, .enum exEnum]) [.struct item2d, .enum exEnum] (Go.addImport [] s%"encoding/json"))
    (by decide +kernel)
  simp [generateAll, Go.generateAll, Go.generateFrom, Go.generate, goJob, order2d, asciiExt, hw, Outcome.bind, Outcome.isOk]

/-! ### Python (`DateTime`: the `Annotated[…]` field and the custom functions; doc text with `\"\"\"` and a backslash) -/

def pyCfg : Python.Cfg := { typeMappings := [(s%"Foo", s%"Dict[str, List[int]]")], versionHeader := some s%"1.13.2" }
def pyJob : Job := (s%"my_crate", data2d, none)

example : ExtIn asciiExt (.python pyCfg) := ⟨UnicodeOps.ascii_correct, snakeOk_ascii⟩
example : CfgIn (.python pyCfg) := by decide +kernel
example : ∀ it ∈ C12L.itemsOf pyJob.2.1, ItemIn asciiExt (.python pyCfg) it := by decide +kernel
example : (generateAll asciiExt false [pyJob] (.python pyCfg)).isOk = true := by
  obtain ⟨⟨body, st⟩, hw⟩ := ok_of_isOk (x := Python.writeItems asciiExt pyCfg [.struct item2d, .enum exEnum] {})
    (by decide +kernel)
  simp [generateAll, Python.generateAll, Python.generateFrom, Python.generate, pyJob, order2d, hw, Outcome.bind, Outcome.isOk]

/-! ### Swift, multi-file, with a unit type: `Codable.swift` is written and covered -/

def voidAlias : RustTypeAlias :=
  { id := ⟨s%"Nothing", s%"Nothing", false⟩, genericTypes := [], ty := .prim .unit, comments := [s%" Rust's ()"],
    decorators := {}, isRedacted := false }
def dataVoid : ParsedData := { aliases := [voidAlias], structs := [item2], crateName := s%"my_crate", multiFile := true }
def swJobVoid : Job := (s%"my_crate", dataVoid, some [])

theorem orderVoid : Pipeline.generateOrder dataVoid = some [.alias voidAlias, .struct item2] :=
  topsort_pair _ _ (by decide +kernel)

example : ∀ it ∈ C12L.itemsOf swJobVoid.2.1, ItemIn asciiExt (.swift swCfg) it := by decide +kernel
example : (generateAll asciiExt true [swJobVoid] (.swift swCfg)).bind (fun o => .ok (o.map (·.1))) =
    .ok [s%"my_crate", s%"<post>/Codable.swift"] := by
  have hst : (Swift.writeItems UnicodeOps.ascii swCfg [.alias voidAlias, .struct item2] false).bind (fun r => .ok r.2) = .ok true := by
    decide +kernel
  cases hw : Swift.writeItems UnicodeOps.ascii swCfg [.alias voidAlias, .struct item2] false with
  | ok r =>
    obtain ⟨body, st⟩ := r
    rw [hw] at hst
    simp only [Outcome.bind, Outcome.ok.injEq] at hst
    subst hst
    simp [generateAll, Swift.generateAll, Swift.generateFrom, Swift.generate, Swift.postGeneration, swJobVoid, orderVoid,
      asciiExt, hw, Outcome.bind]
  | err e => rw [hw] at hst; cases hst
  | panic e => rw [hw] at hst; cases hst

/-! ### the item-level theorems: Go enums (unit and algebraic, with acronyms), Python items, the acronym pass -/

def unitEnum2 : RustEnum :=
  { keys := none, id := ⟨s%"UserRole", s%"user-role", true⟩, genericTypes := [], comments := [s%" roles"],
    variants := [.unit ⟨s%"ApiAdmin", s%"api-admin", true⟩ [s%" all rights"], .unit ⟨s%"Guest", s%"Guest", false⟩ []],
    decorators := {}, isRecursive := false, isRedacted := false }

example : C10Go.CfgOk { package := s%"proto" } := ⟨rfl, by decide⟩
example : EnumScope .go C10Go.G (fun cs => Known_DocLineBreak cs = false) unitEnum2 := by decide +kernel
example : (Go.writeEnum UnicodeOps.ascii { package := s%"proto" } unitEnum2 [] []).isOk = true := by decide +kernel

example : GoAcr.CfgOk' goCfg := by decide +kernel
example : ItemScope .go C10Go.G (fun cs => Known_DocLineBreak cs = false) (.enum unitEnum2) := by decide +kernel
example : ItemScope .go C10Go.G (fun cs => Known_DocLineBreak cs = false) (.enum exEnum) := by decide +kernel
/-- `ApiAdmin` with the acronym `api`: the constant is `UserRoleAPIAdmin` -/
example : (Go.writeEnum UnicodeOps.ascii { goCfg with uppercaseAcronyms := [s%"api"] } unitEnum2 [] []).bind
    (fun r => .ok r.1) =
    .ok s%"//  roles\ntype UserRole string\nconst (\n\t//  all rights\n\tUserRoleAPIAdmin UserRole = \"api-admin\"\n\tUserRoleGuest UserRole = \"Guest\"\n)\n" := by
  decide +kernel
example : Go.acr UnicodeOps.ascii goCfg s%"UserIdOfUrl" = .ok s%"UserIDOfURL" := by decide +kernel
example : GoAcr.VarStr s%"map[UserID]URL" s%"map[UserId]Url" :=
  C10_go_acronyms UnicodeOps.ascii UnicodeOps.ascii_correct goCfg (by decide) _ _ (by decide +kernel)

example : Py.CfgOk pyCfg := by decide +kernel
example : ItemScope .python Py.P0 (fun cs => Known_DocLineBreak cs = false) (.enum exEnum) := by decide +kernel
example : ItemScope .python Py.P0 (fun cs => Known_DocLineBreak cs = false) (.enum unitEnum2) := by decide +kernel
example : ItemScope .python Py.P0 (fun cs => Known_DocLineBreak cs = false) (.struct item2d) := by decide +kernel
example : (Python.writeItem asciiExt pyCfg (.enum unitEnum2) {}).isOk = true := by decide +kernel
/-- a doc line that tries to close the docstring and ends in a backslash -/
example : Python.docstring 1 [s%"\"\"\" ) \\"] = s%"    \"\"\"\n    \\\"\\\"\\\" ) \\\\\n    \"\"\"\n" := by decide +kernel

end TsV.C10
