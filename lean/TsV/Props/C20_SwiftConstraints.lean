import TsV.Lemmas.C20_SwiftConstraints
/-!
# C20, Swift's file-only settings reach every declaration

`default_generic_constraints`, `default_decorators` and `codablevoid_constraints` exist only in
`typeshare.toml` ("settings only in the file … are applied unchanged").  How far do they reach?

* `C20_SwiftConstraints` (`C20_SwiftConstraints_full`): in every struct declaration, every enum
  declaration and every helper struct of a struct variant, the generic clause names exactly the
  declaration's parameters, in order, and the constraint list printed for *each* parameter contains
  `Codable` and every configured constraint (each entry split at `&` and trimmed, as
  `GenericConstraints::from_config` does) — whether or not the item carries
  `swiftGenericConstraints` of its own (the helper structs inherit the enum's).  The conformance list
  of each of these declarations contains `Codable` and every `default_decorators` entry, and the
  `CodableVoid` declaration carries these and every `codablevoid_constraints` entry.
  `constraints_exact`: nothing else is printed (defaults, or the item's own for that parameter).
* the facts are what is rendered: `writeStruct_clause`, `writeEnum_clause`, `constraint_in_text`.
* **aliases**: `write_type_alias` prints `<T, U>` without any constraint.  The statement with
  aliases inside the quantifier (`AliasClause_full`) is false: `C20_SwiftConstraints_alias_not`.
-/
namespace TsV.C20_SwiftConstraints
open TsV TsV.Lang TsV.Lang.Swift TsV.C20S

/-- **the statement**: every struct, every enum, every helper struct; `CodableVoid` -/
def C20_SwiftConstraints_full : Prop :=
  ∀ (U : UnicodeOps) (cfg : Cfg),
    (∀ (rs : RustStruct) (st st' : St) (s : SwiftStruct), structFacts U cfg rs st = .ok (s, st') →
      Reaches U cfg s.generics rs.genericTypes ∧ DecoratorsReach cfg s.conformances) ∧
    (∀ (e : RustEnum) (st st' : St) (ss : List SwiftStruct) (se : SwiftEnum),
      enumFacts U cfg e st = .ok (ss, se, st') →
      Reaches U cfg se.generics e.genericTypes ∧ DecoratorsReach cfg se.conformances ∧
      ss.length = (structVariants e).length ∧
      ∀ p ∈ (structVariants e).zip ss,
        Reaches U cfg p.2.generics
          (anonymousStruct e (anonymousStructName e p.1.1.original) p.1.1.original p.1.2).genericTypes ∧
        DecoratorsReach cfg p.2.conformances) ∧
    (DecoratorsReach cfg (codableVoidConformances cfg) ∧
      ∀ d ∈ cfg.codablevoidConstraints, d ∈ codableVoidConformances cfg)

theorem zip_of_map_eq {α β γ} (f : β → γ) (g : α → γ) : ∀ (l : List α) (ss : List β), ss.map f = l.map g →
    ss.length = l.length ∧ ∀ p ∈ l.zip ss, f p.2 = g p.1
  | [], [], _ => ⟨rfl, fun p hp => by simp at hp⟩
  | [], _ :: _, h => by simp at h
  | _ :: _, [], h => by simp at h
  | a :: l, b :: ss, h => by
    simp only [List.map_cons, List.cons.injEq] at h
    obtain ⟨hl, hz⟩ := zip_of_map_eq f g l ss h.2
    refine ⟨by simp [hl], fun p hp => ?_⟩
    simp only [List.zip_cons_cons, List.mem_cons] at hp
    rcases hp with rfl | hp
    · exact h.1
    · exact hz p hp

/-- **C20_SwiftConstraints.**  The model satisfies the statement. -/
theorem C20_SwiftConstraints : C20_SwiftConstraints_full := by
  intro U cfg
  refine ⟨?_, ?_, codableVoid_reach cfg⟩
  · intro rs st st' s h
    obtain ⟨hg, hc⟩ := structFacts_clauses U cfg rs st st' s h
    rw [hg, hc]
    exact ⟨genericParams_reaches U cfg _ _, structConformances_reach cfg _⟩
  · intro e st st' ss se h
    obtain ⟨hg, hc, hss⟩ := enumFacts_clauses U cfg e st st' ss se h
    rw [hg, hc]
    obtain ⟨hl, hz⟩ := zip_of_map_eq _ _ _ _ hss
    refine ⟨genericParams_reaches U cfg _ _, enumConformances_reach cfg e, hl, fun p hp => ?_⟩
    have := hz p hp
    simp only [Prod.mk.injEq] at this
    rw [this.1, this.2]
    exact ⟨genericParams_reaches U cfg _ _, structConformances_reach cfg _⟩

/-- nothing else is printed for a parameter: a default constraint, or one the item itself gives
for a parameter in `swiftGenericConstraints` -/
theorem constraints_exact (U : UnicodeOps) (cfg : Cfg) (dm : DecoratorMap) (gens : List Str) :
    ∀ p ∈ genericParams U cfg dm gens, ∀ c,
      c ∈ p.constraints → c = codable ∨ c ∈ configured U cfg ∨
        ∃ gcs gc, dm.swiftGenericConstraints = some gcs ∧ gc ∈ gcs ∧
          ∃ name own rest, splitChar ':' gc = name :: own :: rest ∧ c ∈ ownConstraints U own := by
  intro p hp c hc
  rcases genericParams_only U cfg dm gens p hp c hc with h | h
  · rcases (mem_defaultConstraints U cfg c).1 h with h | h
    · exact Or.inl h
    · exact Or.inr (Or.inl h)
  · exact Or.inr (Or.inr h)

/-- the default decorators come first, in the configured order, right after `Codable` -/
theorem struct_conformances_prefix (U : UnicodeOps) (cfg : Cfg) (rs : RustStruct) (st st' : St) (s : SwiftStruct)
    (h : structFacts U cfg rs st = .ok (s, st')) : (codable :: cfg.defaultDecorators) <+: s.conformances := by
  rw [(structFacts_clauses U cfg rs st st' s h).2]
  exact structConformances_prefix cfg _

/-! ## the facts are what is printed -/

/-- what follows the head line of a struct declaration -/
def structRest (U : UnicodeOps) (s : SwiftStruct) : Str :=
  s.props.flatMap (renderProp U) ++
  (if s.explicitCodingKeys then renderCodingKeys s.codingKeys else []) ++
  (if s.props.isEmpty then [] else nl) ++
  s%"\tpublic init(" ++ Str.intercalate s%", " (s.initParams.map renderInitParam) ++ s%") {" ++
  s.initAssigns.flatMap renderInitAssign ++
  (if s.props.isEmpty then [] else s%"\n\t") ++ s%"}\n" ++
  s%"}\n"

/-- the head line of a struct declaration: name, generic clause, conformance list -/
theorem renderStruct_head (U : UnicodeOps) (s : SwiftStruct) :
    renderStruct U s = nl ++ comments U 0 s.comments ++ s%"public struct " ++ s.name ++
      renderGenericClause s.generics ++ s%": " ++ Str.intercalate s%", " s.conformances ++ s%" {\n" ++ structRest U s := by
  simp only [renderStruct, structRest, List.append_assoc]

theorem writeStruct_clause (U : UnicodeOps) (cfg : Cfg) (rs : RustStruct) (st st' : St) (txt : Str)
    (h : writeStruct U cfg rs st = .ok (txt, st')) :
    ∃ s, structFacts U cfg rs st = .ok (s, st') ∧
      txt = nl ++ comments U 0 s.comments ++ s%"public struct " ++ s.name ++ renderGenericClause s.generics ++ s%": " ++
        Str.intercalate s%", " s.conformances ++ s%" {\n" ++ structRest U s := by
  unfold writeStruct at h
  obtain ⟨s, st1, h1, h⟩ := bindPair h
  simp only [Outcome.ok.injEq, Prod.mk.injEq] at h
  obtain ⟨rfl, rfl⟩ := h
  exact ⟨s, h1, renderStruct_head U s⟩

/-- what follows the head line of an enum declaration -/
def enumRest (U : UnicodeOps) (e : SwiftEnum) : Str :=
  (match e.codable with
   | none => e.cases.flatMap (renderUnitCase U)
   | some _ => e.cases.flatMap (renderAlgebraicCase U)) ++
  (if e.codingKeys.isEmpty then [] else renderCodingKeys e.codingKeys) ++
  (match e.codable with
   | none => []
   | some a => renderCodable a) ++
  s%"}\n"

theorem renderEnum_head (U : UnicodeOps) (e : SwiftEnum) :
    renderEnum U e = comments U 0 e.comments ++ s%"public " ++ (if e.indirect then s%"indirect " else []) ++ s%"enum " ++
      e.name ++ renderGenericClause e.generics ++ s%": " ++ Str.intercalate s%", " e.conformances ++ s%" {\n" ++
      enumRest U e := by
  simp only [renderEnum, enumRest, List.append_assoc]
  cases e.codable <;> rfl

/-- an enum: the helper structs rendered, then the enum's head line -/
theorem writeEnum_clause (U : UnicodeOps) (cfg : Cfg) (e : RustEnum) (st st' : St) (txt : Str)
    (h : writeEnum U cfg e st = .ok (txt, st')) :
    ∃ ss se, enumFacts U cfg e st = .ok (ss, se, st') ∧
      txt = nl ++ ss.flatMap (renderStruct U) ++ (comments U 0 se.comments ++
        s%"public " ++ (if se.indirect then s%"indirect " else []) ++ s%"enum " ++ se.name ++
        renderGenericClause se.generics ++ s%": " ++ Str.intercalate s%", " se.conformances ++ s%" {\n" ++ enumRest U se) := by
  unfold writeEnum at h
  obtain ⟨ss, r, h1, h⟩ := bindPair h
  obtain ⟨se, st1⟩ := r
  simp only [Outcome.ok.injEq, Prod.mk.injEq] at h
  obtain ⟨rfl, rfl⟩ := h
  exact ⟨ss, se, h1, by rw [renderEnum_head]⟩

/-- every constraint of a parameter is in the clause's text (`name: C1 & C2`, clauses joined by `, `) -/
theorem constraint_in_text {ps : List GenericParam} {p : GenericParam} {c : Str} (hp : p ∈ ps)
    (hc : c ∈ p.constraints) : c <:+: renderGenericClause ps := constraint_printed hp hc

/-- the `CodableVoid` declaration, as text -/
theorem codableVoid_text (cfg : Cfg) :
    writeCodable cfg =
      s%"\n/// () isn't codable, so we use this instead to represent Rust's unit type\npublic struct CodableVoid: " ++
        Str.intercalate s%", " (codableVoidConformances cfg) ++ s%" {}" ++ nl := writeCodable_eq cfg

/-! ## aliases -/

/-- what `write_type_alias` prints: the parameters bare -/
theorem writeAlias_clause (U : UnicodeOps) (cfg : Cfg) (a : RustTypeAlias) (st st' : St) (txt : Str)
    (h : writeAlias U cfg a st = .ok (txt, st')) :
    ∃ ty, formatType cfg a.genericTypes a.ty st = .ok (ty, st') ∧
      txt = nl ++ comments U 0 a.comments ++ s%"public typealias " ++ kw (cfg.pfx ++ a.id.renamed) ++
        genericSuffix a.genericTypes ++ s%" = " ++ ty ++ nl := by
  unfold writeAlias at h
  obtain ⟨ty, st1, h1, h⟩ := bindPair h
  simp only [Outcome.ok.injEq, Prod.mk.injEq] at h
  obtain ⟨rfl, rfl⟩ := h
  exact ⟨ty, h1, rfl⟩

/-- the alias clause of the statement as THM8 words it ("struct / enum / alias declaration"): the
generic clause an alias prints is the constrained clause `generic_constraints` computes -/
def AliasClause_full : Prop :=
  ∀ (U : UnicodeOps) (cfg : Cfg) (a : RustTypeAlias),
    genericSuffix a.genericTypes = renderGenericClause (genericParams U cfg a.decorators a.genericTypes)

/-- `type Page<T> = Vec<T>;` -/
def exAlias : RustTypeAlias :=
  { id := ⟨s%"Page", s%"Page", false⟩, genericTypes := [s%"T"], ty := .vec (.simple s%"T"), comments := [],
    decorators := {}, isRedacted := false }

def exCfg : Cfg := { defaultGenericConstraints := [s%"Sendable & Hashable", s%"Equatable"], defaultDecorators := [s%"Deco", s%"Alpha"],
                     codablevoidConstraints := [s%"Sendable"], pfx := s%"P" }

/-- **aliases get no constraint at all**, not even `Codable` -/
theorem C20_SwiftConstraints_alias_not : ¬ AliasClause_full := by
  intro H
  have := H .ascii exCfg exAlias
  revert this
  decide +kernel

def aliasText : Option Str :=
  match writeAlias .ascii exCfg exAlias false with
  | .ok (t, _) => some t
  | _ => none

example : aliasText = some s%"\npublic typealias PPage<T> = [T]\n" := by decide +kernel
example : renderGenericClause (genericParams .ascii exCfg exAlias.decorators exAlias.genericTypes) =
    s%"<T: Codable & Equatable & Hashable & Sendable>" := by decide +kernel

/-! ## non-vacuity -/

example : configured .ascii exCfg = [s%"Sendable", s%"Hashable", s%"Equatable"] := by decide +kernel

/-- `#[typeshare(swiftGenericConstraints = "T: Comparable & Hashable")] struct Annotated<T, U> { t: T, u: U }` -/
def exStruct : RustStruct :=
  { id := ⟨s%"Annotated", s%"Annotated", false⟩, genericTypes := [s%"T", s%"U"],
    fields := [{ id := ⟨s%"t", s%"t", false⟩, ty := .simple s%"T", comments := [], hasDefault := false, decorators := [] },
               { id := ⟨s%"u", s%"u", false⟩, ty := .simple s%"U", comments := [], hasDefault := false, decorators := [] }],
    comments := [], decorators := { swiftGenericConstraints := some [s%"T: Comparable & Hashable"], swift := some [s%"Zeta"] },
    isRedacted := false }

def structHead (cfg : Cfg) (rs : RustStruct) : Option (List GenericParam × List Str) :=
  match structFacts .ascii cfg rs false with
  | .ok (s, _) => some (s.generics, s.conformances)
  | _ => none

/-- the annotated parameter keeps its own constraints and gets the configured ones; the other one
gets the configured ones; the default decorators precede the struct's own -/
example : structHead exCfg exStruct = some
    ([⟨s%"T", [s%"Codable", s%"Comparable", s%"Equatable", s%"Hashable", s%"Sendable"]⟩,
      ⟨s%"U", [s%"Codable", s%"Equatable", s%"Hashable", s%"Sendable"]⟩],
     [s%"Codable", s%"Deco", s%"Alpha", s%"Zeta"]) := by decide +kernel

/-- `#[typeshare(swiftGenericConstraints = "K: Comparable")] #[serde(tag = "t", content = "c")]
enum Choice<K, V> { One(K), Two { k: K }, Three { v: Vec<V> } }` -/
def exEnum : RustEnum :=
  { id := ⟨s%"Choice", s%"Choice", false⟩, genericTypes := [s%"K", s%"V"], comments := [],
    decorators := { swiftGenericConstraints := some [s%"K: Comparable"] }, isRedacted := false,
    keys := some (s%"t", s%"c"), isRecursive := false,
    variants := [.tuple ⟨s%"One", s%"One", false⟩ [] (.simple s%"K"),
      .anonymousStruct ⟨s%"Two", s%"Two", false⟩ []
        [{ id := ⟨s%"k", s%"k", false⟩, ty := .simple s%"K", comments := [], hasDefault := false, decorators := [] }],
      .anonymousStruct ⟨s%"Three", s%"Three", false⟩ []
        [{ id := ⟨s%"v", s%"v", false⟩, ty := .vec (.simple s%"V"), comments := [], hasDefault := false, decorators := [] }]] }

def enumHeads (cfg : Cfg) (e : RustEnum) : Option (List (Str × List GenericParam) × List GenericParam × List Str) :=
  match enumFacts .ascii cfg e false with
  | .ok (ss, se, _) => some (ss.map (fun s => (s.name, s.generics)), se.generics, se.conformances)
  | _ => none

/-- the helper structs inherit the enum's own constraint on `K` and get the configured ones -/
example : enumHeads exCfg exEnum = some
    ([(s%"PChoiceTwoInner", [⟨s%"K", [s%"Codable", s%"Comparable", s%"Equatable", s%"Hashable", s%"Sendable"]⟩]),
      (s%"PChoiceThreeInner", [⟨s%"V", [s%"Codable", s%"Equatable", s%"Hashable", s%"Sendable"]⟩])],
     [⟨s%"K", [s%"Codable", s%"Comparable", s%"Equatable", s%"Hashable", s%"Sendable"]⟩,
      ⟨s%"V", [s%"Codable", s%"Equatable", s%"Hashable", s%"Sendable"]⟩],
     [s%"Codable", s%"Deco", s%"Alpha"]) := by decide +kernel

example : writeCodable exCfg =
    s%"\n/// () isn't codable, so we use this instead to represent Rust's unit type\npublic struct CodableVoid: Codable, Deco, Alpha, Sendable {}\n" := by
  decide +kernel

/-- the hypotheses of the struct and enum clauses are met by the examples -/
example : ∃ s st', structFacts .ascii exCfg exStruct false = .ok (s, st') ∧ Reaches .ascii exCfg s.generics [s%"T", s%"U"] := by
  have hok : (structFacts .ascii exCfg exStruct false).isOk = true := by decide +kernel
  cases h : structFacts .ascii exCfg exStruct false with
  | ok p => exact ⟨p.1, p.2, rfl, ((C20_SwiftConstraints .ascii exCfg).1 exStruct false p.2 p.1 h).1⟩
  | err e => rw [h] at hok; simp [Outcome.isOk] at hok
  | panic s => rw [h] at hok; simp [Outcome.isOk] at hok

end TsV.C20_SwiftConstraints
