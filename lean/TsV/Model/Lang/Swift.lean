import TsV.Model.Lang.Common
/-!
# Model of `core/src/language/swift.rs`

The printer has one bit of mutable state, `should_emit_codable_void` (an `AtomicBool` that
`format_special_type` sets whenever it *formats* the unit type `()`); every function that can
format a type takes the bit and returns the new one, and `generateFrom` threads it through the
items of one file and through the files of one run (the same `Swift` value is reused).

Declarations are built as fact records first (`StoredProp`, `CodingKey`, `InitParam`, `EnumCase`,
`DecodeArm`, `EncodeArm`, `SwiftStruct`, `SwiftEnum`) and turned into text by `render*`, so that
theorems can speak about what a declaration binds while the correspondence compares bytes.
-/
namespace TsV.Lang.Swift
open TsV TsV.Lang

structure Cfg where
  typeMappings : List (Str × Str) := []
  versionHeader : Option Str := none     -- `some version` when the header is written
  pfx : Str := []
  defaultDecorators : List Str := []
  defaultGenericConstraints : List Str := []
  codablevoidConstraints : List Str := []

/-- `should_emit_codable_void` -/
abbrev St := Bool

/-! ## small helpers -/

/-- `SWIFT_KEYWORDS` -/
def keywords : List Str :=
  [s%"associatedtype", s%"class", s%"deinit", s%"enum", s%"extension", s%"fileprivate", s%"func",
   s%"import", s%"init", s%"inout", s%"internal", s%"let", s%"operator", s%"private", s%"protocol",
   s%"public", s%"rethrows", s%"static", s%"struct", s%"subscript", s%"typealias", s%"var",
   s%"break", s%"case", s%"continue", s%"default", s%"defer", s%"do", s%"else", s%"fallthrough",
   s%"for", s%"guard", s%"if", s%"in", s%"repeat", s%"return", s%"switch", s%"where", s%"while",
   s%"as", s%"Any", s%"catch", s%"false", s%"is", s%"nil", s%"super", s%"self", s%"Self", s%"throw",
   s%"throws", s%"true", s%"try", s%"Protocol", s%"Type"]

/-- `swift_keyword_aware_rename` -/
def kw (name : Str) : Str := if keywords.contains name then s%"`" ++ name ++ s%"`" else name

/-- `parser::remove_dash_from_identifier` -/
def removeDash (s : Str) : Str := Str.replaceChar s '-' ['_']

/-- `str::split(char)`: always at least one piece -/
def splitChar (c : Char) (s : Str) : List Str :=
  go s []
where
  go : Str → Str → List Str
    | [], cur => [cur.reverse]
    | x :: rest, cur => if x = c then cur.reverse :: go rest [] else go rest (x :: cur)

/-- `str::trim_end` -/
def trimEnd (U : UnicodeOps) (s : Str) : Str := (s.reverse.dropWhile U.isWhite).reverse

def codable : Str := s%"Codable"

/-- `write_comments` / `write_comment`: one `/// ` line per comment, trailing white space removed -/
def comments (U : UnicodeOps) (indent : Nat) (cs : List Str) : Str :=
  cs.flatMap fun c => tabs indent ++ s%"/// " ++ trimEnd U c ++ nl

/-! ## generic constraints -/

/-- `GenericConstraints::split_constraints` -/
def splitConstraints (U : UnicodeOps) (s : Str) : List Str := (splitChar '&' s).map U.trim

/-- `GenericConstraints::from_config(cfg.default_generic_constraints).get_constraints()`:
a `BTreeSet<String>` that always contains `Codable` -/
def defaultConstraints (U : UnicodeOps) (cfg : Cfg) : List Str :=
  Parser.toSet Str.lt (codable :: cfg.defaultGenericConstraints.flatMap (splitConstraints U))

/-- one generic parameter of a declaration with its `&`-joined constraints (a sorted set) -/
structure GenericParam where
  name : Str
  constraints : List Str
deriving Repr, Inhabited, DecidableEq

/-- the `HashMap<&str, BTreeSet<&str>>` of `generic_constraints`, as the list of insertions in
the order they are made (the annotation set is a `BTreeSet`, so sorted).  Only `get` is used on the
map, so its iteration order is immaterial; a later insertion for the same name overwrites. -/
def annotatedConstraints (U : UnicodeOps) (defaults : List Str) (dm : DecoratorMap) : List (Str × List Str) :=
  match dm.swiftGenericConstraints with
  | none => []
  | some gcs => gcs.filterMap fun gc =>
    match splitChar ':' gc with
    | name :: cs :: _ => some (name, Parser.toSet Str.lt ((splitChar '&' cs).map U.trim ++ defaults))
    | _ => none

/-- `Swift::generic_constraints` as data -/
def genericParams (U : UnicodeOps) (cfg : Cfg) (dm : DecoratorMap) (gens : List Str) : List GenericParam :=
  let defaults := defaultConstraints U cfg
  let ann := (annotatedConstraints U defaults dm).reverse
  gens.map fun g =>
    match ann.find? (·.1 == g) with
    | some (_, cs) => ⟨g, cs⟩
    | none => ⟨g, defaults⟩

def renderGenericParams (ps : List GenericParam) : Str :=
  Str.intercalate s%", " (ps.map fun p => p.name ++ s%": " ++ Str.intercalate s%" & " p.constraints)

/-- `(!generic_types.is_empty()).then(|| format!("<{generic_names_and_constraints}>"))` -/
def renderGenericClause (ps : List GenericParam) : Str :=
  if ps.isEmpty then [] else s%"<" ++ renderGenericParams ps ++ s%">"

/-! ## types -/

/-- `Swift::format_simple_type` -/
def formatSimple (cfg : Cfg) (gens : List Str) (base : Str) : Str :=
  match mapGet cfg.typeMappings base with
  | some m => m
  | none => if gens.contains base then base else cfg.pfx ++ base

mutual
  /-- `Language::format_type` for Swift (`format_special_type` does *not* consult the type map) -/
  def formatType (cfg : Cfg) (gens : List Str) : RustType → St → Outcome (Str × St)
    | .simple id, st => .ok (formatSimple cfg gens id, st)
    | .generic id ps, st =>
      match mapGet cfg.typeMappings id with
      | some m => .ok (m, st)
      | none =>
        match formatTypes cfg gens ps st with
        | .ok (strs, st') =>
          .ok (formatSimple cfg gens id ++ (if strs.isEmpty then [] else angle strs), st')
        | .err e => .err e
        | .panic s => .panic s
    | .vec r, st => (formatType cfg gens r st).bind fun (s, st) => .ok (s%"[" ++ s ++ s%"]", st)
    | .array r _, st => (formatType cfg gens r st).bind fun (s, st) => .ok (s%"[" ++ s ++ s%"]", st)
    | .slice r, st => (formatType cfg gens r st).bind fun (s, st) => .ok (s%"[" ++ s ++ s%"]", st)
    | .option r, st => (formatType cfg gens r st).bind fun (s, st) => .ok (s ++ s%"?", st)
    | .hashMap k v, st =>
      (formatType cfg gens k st).bind fun (ks, st) =>
      (formatType cfg gens v st).bind fun (vs, st) => .ok (s%"[" ++ ks ++ s%": " ++ vs ++ s%"]", st)
    | .prim p, st =>
      match p with
      | .unit => .ok (s%"CodableVoid", true)
      | .string => .ok (s%"String", st)
      | .char => .ok (s%"Unicode.Scalar", st)
      | .i8 => .ok (s%"Int8", st)
      | .u8 => .ok (s%"UInt8", st)
      | .i16 => .ok (s%"Int16", st)
      | .u16 => .ok (s%"UInt16", st)
      | .usize => .ok (s%"UInt", st)
      | .isize => .ok (s%"Int", st)
      | .i32 => .ok (s%"Int32", st)
      | .u32 => .ok (s%"UInt32", st)
      | .i54 | .i64 => .ok (s%"Int64", st)
      | .u53 | .u64 => .ok (s%"UInt64", st)
      | .bool => .ok (s%"Bool", st)
      | .f32 => .ok (s%"Float", st)
      | .f64 => .ok (s%"Double", st)
      | .dateTime => .err (.formatError s%"UnsupportedSpecialType")
  def formatTypes (cfg : Cfg) (gens : List Str) : List RustType → St → Outcome (List Str × St)
    | [], st => .ok ([], st)
    | t :: ts, st =>
      (formatType cfg gens t st).bind fun (s, st) =>
      (formatTypes cfg gens ts st).bind fun (ss, st) => .ok (s :: ss, st)
end

/-- `match f.type_override(Swift) { Some(t) => t, None => self.format_type(..)? }` -/
def fieldType (cfg : Cfg) (gens : List Str) (f : RustField) (st : St) : Outcome (Str × St) :=
  match typeOverride f .swift with
  | some t => .ok (t, st)
  | none => formatType cfg gens f.ty st

/-! ## structs -/

/-- one `public let` line -/
structure StoredProp where
  comments : List Str
  name : Str            -- as printed (dashes replaced, keywords in back-ticks)
  ty : Str
  optional : Bool       -- the extra `?` of a `#[serde(default)]` field that is not an `Option`
deriving Repr, Inhabited, DecidableEq

/-- one case of a `CodingKeys` enum -/
structure CodingKey where
  caseName : Str              -- as printed
  rawValue : Option Str       -- ` = "raw"` (written verbatim between the quotes)
deriving Repr, Inhabited, DecidableEq

/-- one parameter of the memberwise `init` -/
structure InitParam where
  label : Str           -- dashes replaced, keywords *not* escaped
  ty : Str
  optional : Bool
deriving Repr, Inhabited, DecidableEq

/-- `self.<member> = <param>` -/
structure InitAssign where
  member : Str          -- dashes replaced, keywords not escaped
  param : Str           -- dashes replaced, keywords in back-ticks
deriving Repr, Inhabited, DecidableEq

structure SwiftStruct where
  comments : List Str
  name : Str                        -- type name as printed (prefix, back-ticks)
  generics : List GenericParam
  conformances : List Str
  props : List StoredProp
  codingKeys : List CodingKey
  explicitCodingKeys : Bool         -- `should_write_coding_keys`
  initParams : List InitParam
  initAssigns : List InitAssign
deriving Repr, Inhabited, DecidableEq

/-- the printed member name of a field: `remove_dash_from_identifier(swift_keyword_aware_rename(renamed))` -/
def memberName (f : RustField) : Str := removeDash (kw f.id.renamed)

/-- the `coding_keys.push(..)` of one field -/
def fieldCodingKey (f : RustField) : CodingKey :=
  if f.id.renamed.contains '-' then ⟨memberName f, some f.id.renamed⟩ else ⟨memberName f, none⟩

def fieldOptional (f : RustField) : Bool := f.hasDefault && !f.ty.isOptional

/-- first loop of `write_struct` -/
def storedProps (cfg : Cfg) (gens : List Str) : List RustField → St → Outcome (List StoredProp × St)
  | [], st => .ok ([], st)
  | f :: fs, st =>
    (fieldType cfg gens f st).bind fun (ty, st) =>
    (storedProps cfg gens fs st).bind fun (rest, st) =>
      .ok ({ comments := f.comments, name := memberName f, ty, optional := fieldOptional f } :: rest, st)

/-- second loop of `write_struct` (the types are formatted again) -/
def initParams (cfg : Cfg) (gens : List Str) : List RustField → St → Outcome (List InitParam × St)
  | [], st => .ok ([], st)
  | f :: fs, st =>
    (fieldType cfg gens f st).bind fun (ty, st) =>
    (initParams cfg gens fs st).bind fun (rest, st) =>
      .ok ({ label := removeDash f.id.renamed, ty, optional := fieldOptional f } :: rest, st)

/-- `Codable`, then the configured default decorators -/
def defaultDecorators (cfg : Cfg) : List Str := codable :: cfg.defaultDecorators

/-- the conformance list of a struct -/
def structConformances (cfg : Cfg) (dm : DecoratorMap) : List Str :=
  match dm.swift with
  | some decs => defaultDecorators cfg ++ decs.filter (· != codable)
  | none => defaultDecorators cfg

/-- `write_struct` as facts -/
def structFacts (U : UnicodeOps) (cfg : Cfg) (rs : RustStruct) (st : St) : Outcome (SwiftStruct × St) :=
  (storedProps cfg rs.genericTypes rs.fields st).bind fun (props, st) =>
  (initParams cfg rs.genericTypes rs.fields st).bind fun (params, st) =>
    .ok ({ comments := rs.comments,
           name := kw (cfg.pfx ++ rs.id.renamed),
           generics := genericParams U cfg rs.decorators rs.genericTypes,
           conformances := structConformances cfg rs.decorators,
           props,
           codingKeys := rs.fields.map fieldCodingKey,
           explicitCodingKeys := rs.fields.any fun f => f.id.renamed.contains '-',
           initParams := params,
           initAssigns := rs.fields.map fun f => ⟨removeDash f.id.renamed, memberName f⟩ }, st)

def renderProp (U : UnicodeOps) (p : StoredProp) : Str :=
  comments U 1 p.comments ++ s%"\tpublic let " ++ p.name ++ s%": " ++ p.ty ++
    (if p.optional then s%"?" else []) ++ nl

def renderCodingKey (k : CodingKey) : Str :=
  match k.rawValue with
  | some r => k.caseName ++ s%" = \"" ++ r ++ s%"\""
  | none => k.caseName

/-- the nested `enum CodingKeys` (preceded by an empty line) -/
def renderCodingKeys (ks : List CodingKey) : Str :=
  s%"\n\tenum CodingKeys: String, CodingKey, Codable {\n\t\tcase " ++
    Str.intercalate s%",\n\t\t\t" (ks.map renderCodingKey) ++ s%"\n\t}\n"

def renderInitParam (p : InitParam) : Str :=
  p.label ++ s%": " ++ p.ty ++ (if p.optional then s%"?" else [])

def renderInitAssign (a : InitAssign) : Str := s%"\n\t\tself." ++ a.member ++ s%" = " ++ a.param

def renderStruct (U : UnicodeOps) (s : SwiftStruct) : Str :=
  nl ++ comments U 0 s.comments ++
  s%"public struct " ++ s.name ++ renderGenericClause s.generics ++ s%": " ++
    Str.intercalate s%", " s.conformances ++ s%" {\n" ++
  s.props.flatMap (renderProp U) ++
  (if s.explicitCodingKeys then renderCodingKeys s.codingKeys else []) ++
  (if s.props.isEmpty then [] else nl) ++
  s%"\tpublic init(" ++ Str.intercalate s%", " (s.initParams.map renderInitParam) ++ s%") {" ++
  s.initAssigns.flatMap renderInitAssign ++
  (if s.props.isEmpty then [] else s%"\n\t") ++ s%"}\n" ++
  s%"}\n"

/-- `write_struct` -/
def writeStruct (U : UnicodeOps) (cfg : Cfg) (rs : RustStruct) (st : St) : Outcome (Str × St) :=
  (structFacts U cfg rs st).bind fun (s, st) => .ok (renderStruct U s, st)

/-! ## type aliases -/

/-- `write_type_alias` -/
def writeAlias (U : UnicodeOps) (cfg : Cfg) (a : RustTypeAlias) (st : St) : Outcome (Str × St) :=
  (formatType cfg a.genericTypes a.ty st).bind fun (ty, st) =>
    .ok (nl ++ comments U 0 a.comments ++ s%"public typealias " ++ kw (cfg.pfx ++ a.id.renamed) ++
         genericSuffix a.genericTypes ++ s%" = " ++ ty ++ nl, st)

/-! ## enums -/

/-- the associated value of a case -/
structure Payload where
  ty : Str              -- as printed between the parentheses
  optional : Bool       -- the Rust payload is an `Option` (decode falls back to `decodeNil`)
deriving Repr, Inhabited, DecidableEq

structure EnumCase where
  comments : List Str
  caseName : Str        -- `variant_name`: camel-cased original (algebraic: `_` before a leading digit)
  printedName : Str     -- `swift_keyword_aware_rename(variant_name)`, what the `case` line declares
  wireName : Str        -- `id.renamed`, the serialised name
  payload : Option Payload
deriving Repr, Inhabited, DecidableEq

/-- one arm of the `switch type` in `init(from:)`; holes: content key -/
inductive DecodeArm where
  | unit (caseName : Str)
  | content (caseName : Str) (ty : Str) (nilFallback : Bool)
deriving Repr, Inhabited, DecidableEq

/-- one arm of the `switch self` in `encode(to:)`; holes: tag key, content key -/
inductive EncodeArm where
  | unit (caseName : Str)
  | content (caseName : Str)
deriving Repr, Inhabited, DecidableEq

/-- the hand-written `Codable` conformance of an algebraic enum -/
structure AlgebraicCodable where
  tagKey : Str
  contentKey : Str
  typeName : Str
  decodeArms : List DecodeArm
  encodeArms : List EncodeArm
deriving Repr, Inhabited, DecidableEq

structure SwiftEnum where
  comments : List Str
  indirect : Bool
  name : Str
  generics : List GenericParam
  conformances : List Str
  cases : List EnumCase
  codingKeys : List CodingKey                -- empty for a unit (raw-value) enum
  codable : Option AlgebraicCodable          -- `none` for a unit (raw-value) enum
deriving Repr, Inhabited, DecidableEq

/-- the name `make_anonymous_struct_name` gives, *without* the prefix -/
def anonymousStructName (e : RustEnum) (variantOriginal : Str) : Str :=
  e.id.renamed ++ variantOriginal ++ s%"Inner"

/-- `variant_name` of an algebraic enum's variant -/
def algebraicCaseName (U : UnicodeOps) (v : RustEnumVariant) : Str :=
  let n := Rename.toCamel U v.id.original
  match n with
  | c :: _ => if Str.isAsciiDigit c then s%"_" ++ n else n
  | [] => n

/-- one variant of an algebraic enum -/
def algebraicCase (U : UnicodeOps) (cfg : Cfg) (e : RustEnum) (v : RustEnumVariant) (st : St) : Outcome (EnumCase × St) :=
  let name := algebraicCaseName U v
  let mk (p : Option Payload) : EnumCase :=
    { comments := v.comments, caseName := name, printedName := kw name, wireName := v.id.renamed, payload := p }
  match v with
  | .unit _ _ => .ok (mk none, st)
  | .tuple _ _ ty =>
    (formatType cfg e.genericTypes ty st).bind fun (t, st) =>
      .ok (mk (some ⟨kw t, ty.isOptional⟩), st)
  | .anonymousStruct id _ fields =>
    let gens := (fields.flatMap fun f => e.genericTypes.filter fun g => f.ty.containsType g).eraseDups
    .ok (mk (some ⟨cfg.pfx ++ anonymousStructName e id.original ++ genericSuffix gens, false⟩), st)

def algebraicCases (U : UnicodeOps) (cfg : Cfg) (e : RustEnum) : List RustEnumVariant → St → Outcome (List EnumCase × St)
  | [], st => .ok ([], st)
  | v :: vs, st =>
    (algebraicCase U cfg e v st).bind fun (c, st) =>
    (algebraicCases U cfg e vs st).bind fun (cs, st) => .ok (c :: cs, st)

/-- one variant of a unit enum -/
def unitCase (U : UnicodeOps) (v : RustEnumVariant) : EnumCase :=
  let name := Rename.toCamel U v.id.original
  { comments := v.comments, caseName := name, printedName := kw name, wireName := v.id.renamed, payload := none }

/-- `coding_keys.push(..)` of an algebraic variant -/
def caseCodingKey (c : EnumCase) : CodingKey :=
  if c.caseName == c.wireName then ⟨c.printedName, none⟩ else ⟨c.printedName, some c.wireName⟩

/-- `decoding_cases.push(..)`; a payload case uses the *unescaped* name -/
def decodeArmOf (c : EnumCase) : DecodeArm :=
  match c.payload with
  | none => .unit c.caseName
  | some p => .content c.caseName p.ty p.optional

/-- `encoding_cases.push(..)`; a unit case uses the escaped name, a payload case the unescaped one -/
def encodeArmOf (c : EnumCase) : EncodeArm :=
  match c.payload with
  | none => .unit c.printedName
  | some _ => .content c.caseName

/-- `determine_decorators` -/
def enumConformances (cfg : Cfg) (e : RustEnum) : List Str :=
  let always := match e.keys with
    | none => s%"String" :: defaultDecorators cfg
    | some _ => defaultDecorators cfg
  always ++ (match e.decorators.swift with
    | some decs => decs.filter fun d => !always.contains d
    | none => [])

/-- `write_types_for_anonymous_structs` -/
def anonymousStructs (U : UnicodeOps) (cfg : Cfg) (e : RustEnum) :
    List (Id × List RustField) → St → Outcome (List SwiftStruct × St)
  | [], st => .ok ([], st)
  | (id, fields) :: rest, st =>
    (structFacts U cfg (anonymousStruct e (anonymousStructName e id.original) id.original fields) st).bind
      fun (s, st) =>
    (anonymousStructs U cfg e rest st).bind fun (ss, st) => .ok (s :: ss, st)

/-- `write_enum` as facts: the structs generated for the struct variants, then the enum -/
def enumFacts (U : UnicodeOps) (cfg : Cfg) (e : RustEnum) (st : St) :
    Outcome (List SwiftStruct × SwiftEnum × St) :=
  let name := kw (cfg.pfx ++ e.id.renamed)
  (anonymousStructs U cfg e (structVariants e) st).bind fun (structs, st) =>
  (match e.keys with
   | none => Outcome.ok (e.variants.map (unitCase U), st)
   | some _ => algebraicCases U cfg e e.variants st).bind fun (cases, st) =>
    .ok (structs,
         { comments := e.comments,
           indirect := e.isRecursive,
           name,
           generics := genericParams U cfg e.decorators e.genericTypes,
           conformances := enumConformances cfg e,
           cases,
           codingKeys := (match e.keys with | none => [] | some _ => cases.map caseCodingKey),
           codable := e.keys.map fun (tag, content) =>
             { tagKey := tag, contentKey := content, typeName := name,
               decodeArms := cases.map decodeArmOf, encodeArms := cases.map encodeArmOf } }, st)

/-- the `case` line of a raw-value (unit) enum -/
def renderUnitCase (U : UnicodeOps) (c : EnumCase) : Str :=
  comments U 1 c.comments ++ s%"\tcase " ++ c.printedName ++
    (if c.wireName == c.caseName then [] else s%" = " ++ debugStr c.wireName) ++ nl

/-- the `case` line of an algebraic enum -/
def renderAlgebraicCase (U : UnicodeOps) (c : EnumCase) : Str :=
  comments U 1 c.comments ++ s%"\tcase " ++ c.printedName ++
    (match c.payload with | some p => s%"(" ++ p.ty ++ s%")" | none => []) ++ nl

def renderDecodeArm (contentKey : Str) : DecodeArm → Str
  | .unit n =>
    s%"\n\t\t\tcase ." ++ n ++ s%":\n\t\t\t\tself = ." ++ n ++ s%"\n\t\t\t\treturn"
  | .content n ty nilFallback =>
    -- the `Option` template starts with twelve spaces, the others with three tabs
    (if nilFallback then s%"\n            case ." else s%"\n\t\t\tcase .") ++ n ++
    s%":\n\t\t\t\tif let content = try? container.decode(" ++ ty ++ s%".self, forKey: ." ++ contentKey ++
    s%") {\n\t\t\t\t\tself = ." ++ n ++ s%"(content)\n\t\t\t\t\treturn\n\t\t\t\t}" ++
    (if nilFallback then
      s%"\n\t\t\t\telse if let isNil = try? container.decodeNil(forKey: ." ++ contentKey ++
      s%"), isNil {\n\t\t\t\t\tself = ." ++ n ++ s%"(nil)\n\t\t\t\t\treturn\n\t\t\t\t}"
    else [])

def renderEncodeArm (tagKey contentKey : Str) : EncodeArm → Str
  | .unit n =>
    s%"\n\t\tcase ." ++ n ++ s%":\n\t\t\ttry container.encode(CodingKeys." ++ n ++ s%", forKey: ." ++ tagKey ++ s%")"
  | .content n =>
    s%"\n\t\tcase ." ++ n ++ s%"(let content):\n\t\t\ttry container.encode(CodingKeys." ++ n ++
    s%", forKey: ." ++ tagKey ++ s%")\n\t\t\ttry container.encode(content, forKey: ." ++ contentKey ++ s%")"

def renderCodable (a : AlgebraicCodable) : Str :=
  s%"\n\tprivate enum ContainerCodingKeys: String, CodingKey {\n\t\tcase " ++ a.tagKey ++ s%", " ++ a.contentKey ++
  s%"\n\t}\n\n\tpublic init(from decoder: Decoder) throws {\n" ++
  s%"\t\tlet container = try decoder.container(keyedBy: ContainerCodingKeys.self)\n" ++
  s%"\t\tif let type = try? container.decode(CodingKeys.self, forKey: ." ++ a.tagKey ++ s%") {\n" ++
  s%"\t\t\tswitch type {" ++ a.decodeArms.flatMap (renderDecodeArm a.contentKey) ++ s%"\n\t\t\t}\n\t\t}\n" ++
  s%"\t\tthrow DecodingError.typeMismatch(" ++ a.typeName ++
  s%".self, DecodingError.Context(codingPath: decoder.codingPath, debugDescription: \"Wrong type for " ++
  a.typeName ++ s%"\"))\n\t}\n\n" ++
  s%"\tpublic func encode(to encoder: Encoder) throws {\n" ++
  s%"\t\tvar container = encoder.container(keyedBy: ContainerCodingKeys.self)\n" ++
  s%"\t\tswitch self {" ++ a.encodeArms.flatMap (renderEncodeArm a.tagKey a.contentKey) ++ s%"\n\t\t}\n\t}\n"

/-- the enum declaration itself (after the leading empty line and the generated structs) -/
def renderEnum (U : UnicodeOps) (e : SwiftEnum) : Str :=
  comments U 0 e.comments ++
  s%"public " ++ (if e.indirect then s%"indirect " else []) ++ s%"enum " ++ e.name ++
    renderGenericClause e.generics ++ s%": " ++ Str.intercalate s%", " e.conformances ++ s%" {\n" ++
  (match e.codable with
   | none => e.cases.flatMap (renderUnitCase U)
   | some _ => e.cases.flatMap (renderAlgebraicCase U)) ++
  (if e.codingKeys.isEmpty then [] else renderCodingKeys e.codingKeys) ++
  (match e.codable with
   | none => []
   | some a => renderCodable a) ++
  s%"}\n"

/-- `write_enum` -/
def writeEnum (U : UnicodeOps) (cfg : Cfg) (e : RustEnum) (st : St) : Outcome (Str × St) :=
  (enumFacts U cfg e st).bind fun (structs, se, st) =>
    .ok (nl ++ structs.flatMap (renderStruct U) ++ renderEnum U se, st)

/-! ## files -/

/-- `begin_file` -/
def beginFile (cfg : Cfg) : Str :=
  (match cfg.versionHeader with
   | some v => s%"/*\n Generated by typeshare " ++ v ++ s%"\n */\n\n"
   | none => []) ++ s%"import Foundation\n"

/-- `get_codable_contents` -/
def codableContents (cfg : Cfg) : Str :=
  let decs := defaultDecorators cfg ++ cfg.codablevoidConstraints
  let decs := if decs.contains codable then decs else decs ++ [codable]
  s%"\n/// () isn't codable, so we use this instead to represent Rust's unit type\npublic struct CodableVoid: " ++
    Str.intercalate s%", " decs ++ s%" {}"

/-- `write_codable` -/
def writeCodable (cfg : Cfg) : Str := codableContents cfg ++ nl

/-- `end_file` -/
def endFile (cfg : Cfg) (multiFile : Bool) (st : St) : Str :=
  if st && !multiFile then writeCodable cfg else []

def writeItem (U : UnicodeOps) (cfg : Cfg) (it : RustItem) (st : St) : Outcome (Str × St) :=
  match it with
  | .struct s => writeStruct U cfg s st
  | .enum e => writeEnum U cfg e st
  | .alias a => writeAlias U cfg a st
  | .const _ => .err (.formatError s%"ConstUnsupported")   -- an io error since the `fix:` commit bf55905 (was `todo!()`)

def writeItems (U : UnicodeOps) (cfg : Cfg) : List RustItem → St → Outcome (Str × St)
  | [], st => .ok ([], st)
  | it :: its, st =>
    (writeItem U cfg it st).bind fun (a, st) =>
    (writeItems U cfg its st).bind fun (b, st) => .ok (a ++ b, st)

/-- `Language::generate_types` for one output file (`write_imports` writes nothing); `st0` is the
state left by the files generated before this one -/
def generate (U : UnicodeOps) (cfg : Cfg) (multiFile : Bool) (d : ParsedData) (st0 : St) : Outcome (Str × St) :=
  match Pipeline.generateOrder d with
  | none => .panic s%"topsort"
  | some items =>
    (writeItems U cfg items st0).bind fun (body, st) =>
      .ok (beginFile cfg ++ body ++ endFile cfg multiFile st, st)

/-- all crate files of one run, the state threaded through the crates in map order -/
def generateFrom (U : UnicodeOps) (cfg : Cfg) (multiFile : Bool) :
    List (Str × ParsedData × Option Pipeline.ScopedCrateTypes) → St → Outcome (List (Str × Str) × St)
  | [], st => .ok ([], st)
  | (crate, d, _) :: rest, st =>
    (generate U cfg multiFile d st).bind fun (text, st) =>
    (generateFrom U cfg multiFile rest st).bind fun (outs, st) => .ok ((crate, text) :: outs, st)

/-- `post_generation` into an empty output folder: the files it creates -/
def postGeneration (cfg : Cfg) (multiFile : Bool) (st : St) : List (Str × Str) :=
  if st && multiFile then [(s%"<post>/Codable.swift", writeCodable cfg)] else []

/-- all output files of one run: `jobs` are the crates in map order with their reconciled data and
(in multi-file mode) the imports `used_imports` computed.  Returns (crate ↦ text) in the same order
(plus, for Swift in multi-file mode, what `post_generation` writes, under the key
`<post>/<file name>`). -/
def generateAll (E : Ext) (cfg : Cfg) (multiFile : Bool)
    (jobs : List (Str × ParsedData × Option Pipeline.ScopedCrateTypes)) : Outcome (List (Str × Str)) :=
  (generateFrom E.U cfg multiFile jobs false).bind fun (outs, st) =>
    .ok (outs ++ postGeneration cfg multiFile st)

end TsV.Lang.Swift
