//! Source text -> the abstract syn AST the Lean model consumes (op `ast`), and token-level
//! mutations of a source text (op `ast_mutate`).
//!
//! The s-expression printed here is, character for character, what
//! `tools/common.py::sx(tools/syn_gen.py::sx_file(f, text))` prints for an abstract file `f`
//! rendered to `text`.  What each node keeps is what `lean/TsV/Model/{Syn,Visitor,Parser}.lean` read,
//! which in turn is what `/repo/core/src/{parser,visitors,rust_types,target_os_check}.rs` read.
//!
//! Everything typeshare never looks at (bodies, visibility, bounds, where clauses, discriminants …)
//! is dropped, except for the `syn::Path`s the real visitor's `visit_path` would be called on and
//! the items nested in expressions / bodies: those are kept in `other` items so that the import
//! collection of multi-file mode sees the same paths.  A path of one segment can never be an import
//! (`crate_candidate != type_candidate`), so only paths of two or more segments are kept as extras.
use proc_macro2::{Group, Ident, Span, TokenStream, TokenTree};
use quote::ToTokens;
use serde_json::{json, Value};
use syn::ext::IdentExt;
use syn::parse::ParseBuffer;
use syn::punctuated::Punctuated;
use syn::visit::Visit;
use syn::Token;

// ------------------------------------------------------------------ abstract AST

#[derive(Clone, Debug)]
pub enum Lit {
    S(String),
    I(String, String),
    O,
}

#[derive(Clone, Debug)]
pub enum Meta {
    P(Vec<String>),
    NV(Vec<String>, Option<Lit>),
    L(Vec<String>, bool, Vec<Meta>),
}

#[derive(Clone, Debug)]
pub enum Ty {
    Tuple(Vec<Ty>),
    Ref(Box<Ty>),
    Path(Vec<String>, String, Vec<Ty>),
    Array(Box<Ty>, Option<String>),
    Slice(Box<Ty>),
    Other,
}

#[derive(Clone, Debug)]
pub struct Field {
    attrs: Vec<Meta>,
    ident: Option<String>,
    ty: Ty,
}

#[derive(Clone, Debug)]
pub enum Fields {
    Named(Vec<Field>),
    Unnamed(Vec<Field>),
    Unit,
}

#[derive(Clone, Debug)]
pub struct Variant {
    attrs: Vec<Meta>,
    ident: String,
    fields: Fields,
}

#[derive(Clone, Debug)]
pub enum Generic {
    Ty(String),
    Lt,
    Const,
}

#[derive(Clone, Debug)]
pub enum UseTree {
    Path(String, Box<UseTree>),
    Name(String),
    Rename(String, String),
    Glob,
    Group(Vec<UseTree>),
}

#[derive(Clone, Debug)]
pub enum Item {
    Struct(Vec<Meta>, String, Vec<Generic>, Fields),
    Enum(Vec<Meta>, String, Vec<Generic>, Vec<Variant>),
    Alias(Vec<Meta>, String, Vec<Generic>, Ty),
    Const(Vec<Meta>, String, Ty, Option<Lit>),
    Use(UseTree),
    Mod(Vec<Meta>, String, Vec<Item>),
    Other(Vec<Vec<String>>, Vec<Item>),
}

// ------------------------------------------------------------------ printing (common.sx format)

fn w_str(out: &mut String, s: &str) {
    out.push('"');
    for ch in s.chars() {
        match ch {
            '"' => out.push_str("\\\""),
            '\\' => out.push_str("\\\\"),
            '\n' => out.push_str("\\n"),
            '\r' => out.push_str("\\r"),
            '\t' => out.push_str("\\t"),
            c if (c as u32) < 32 || (c as u32) > 126 => {
                out.push_str(&format!("\\u{{{:x}}}", c as u32));
            }
            c => out.push(c),
        }
    }
    out.push('"');
}

fn w_strs(out: &mut String, v: &[String]) {
    out.push('(');
    for (i, s) in v.iter().enumerate() {
        if i > 0 {
            out.push(' ');
        }
        w_str(out, s);
    }
    out.push(')');
}

fn w_list<T>(out: &mut String, v: &[T], f: impl Fn(&mut String, &T)) {
    out.push('(');
    for (i, x) in v.iter().enumerate() {
        if i > 0 {
            out.push(' ');
        }
        f(out, x);
    }
    out.push(')');
}

fn w_lit(out: &mut String, l: &Option<Lit>) {
    match l {
        None => out.push_str("none"),
        Some(Lit::S(s)) => {
            out.push_str("(s ");
            w_str(out, s);
            out.push(')');
        }
        Some(Lit::I(v, suf)) => {
            out.push_str("(i ");
            out.push_str(v);
            out.push(' ');
            w_str(out, suf);
            out.push(')');
        }
        Some(Lit::O) => out.push('o'),
    }
}

fn w_meta(out: &mut String, m: &Meta) {
    match m {
        Meta::P(segs) => {
            out.push_str("(p");
            for s in segs {
                out.push(' ');
                w_str(out, s);
            }
            out.push(')');
        }
        Meta::NV(segs, l) => {
            out.push_str("(nv ");
            w_strs(out, segs);
            out.push(' ');
            w_lit(out, l);
            out.push(')');
        }
        Meta::L(segs, parsed, args) => {
            out.push_str("(l ");
            w_strs(out, segs);
            out.push_str(if *parsed { " true" } else { " false" });
            if *parsed {
                for a in args {
                    out.push(' ');
                    w_meta(out, a);
                }
            }
            out.push(')');
        }
    }
}

fn w_attrs(out: &mut String, attrs: &[Meta]) {
    w_list(out, attrs, |o, a| w_meta(o, a));
}

pub fn w_ty(out: &mut String, t: &Ty) {
    match t {
        Ty::Tuple(es) => {
            out.push_str("(tuple");
            for e in es {
                out.push(' ');
                w_ty(out, e);
            }
            out.push(')');
        }
        Ty::Ref(e) => {
            out.push_str("(ref ");
            w_ty(out, e);
            out.push(')');
        }
        Ty::Path(quals, last, args) => {
            out.push_str("(path ");
            w_strs(out, quals);
            out.push(' ');
            w_str(out, last);
            for a in args {
                out.push(' ');
                w_ty(out, a);
            }
            out.push(')');
        }
        Ty::Array(e, n) => {
            out.push_str("(array ");
            w_ty(out, e);
            out.push(' ');
            match n {
                Some(n) => out.push_str(n),
                None => out.push_str("none"),
            }
            out.push(')');
        }
        Ty::Slice(e) => {
            out.push_str("(slice ");
            w_ty(out, e);
            out.push(')');
        }
        Ty::Other => out.push_str("other"),
    }
}

fn w_field(out: &mut String, f: &Field) {
    out.push_str("(f ");
    w_attrs(out, &f.attrs);
    out.push(' ');
    match &f.ident {
        Some(i) => w_str(out, i),
        None => out.push_str("none"),
    }
    out.push(' ');
    w_ty(out, &f.ty);
    out.push(')');
}

fn w_fields(out: &mut String, fs: &Fields) {
    match fs {
        Fields::Unit => out.push_str("unit"),
        Fields::Named(v) | Fields::Unnamed(v) => {
            out.push_str(if matches!(fs, Fields::Named(_)) {
                "(named"
            } else {
                "(unnamed"
            });
            for f in v {
                out.push(' ');
                w_field(out, f);
            }
            out.push(')');
        }
    }
}

fn w_generics(out: &mut String, gs: &[Generic]) {
    w_list(out, gs, |o, g| match g {
        Generic::Ty(n) => {
            o.push_str("(ty ");
            w_str(o, n);
            o.push(')');
        }
        Generic::Lt => o.push_str("lt"),
        Generic::Const => o.push_str("const"),
    });
}

fn w_use(out: &mut String, t: &UseTree) {
    match t {
        UseTree::Path(id, sub) => {
            out.push_str("(upath ");
            w_str(out, id);
            out.push(' ');
            w_use(out, sub);
            out.push(')');
        }
        UseTree::Name(id) => {
            out.push_str("(uname ");
            w_str(out, id);
            out.push(')');
        }
        UseTree::Rename(id, a) => {
            out.push_str("(urename ");
            w_str(out, id);
            out.push(' ');
            w_str(out, a);
            out.push(')');
        }
        UseTree::Glob => out.push_str("uglob"),
        UseTree::Group(ts) => {
            out.push_str("(ugroup");
            for t in ts {
                out.push(' ');
                w_use(out, t);
            }
            out.push(')');
        }
    }
}

fn w_item(out: &mut String, it: &Item) {
    match it {
        Item::Struct(attrs, id, gs, fs) => {
            out.push_str("(struct ");
            w_attrs(out, attrs);
            out.push(' ');
            w_str(out, id);
            out.push(' ');
            w_generics(out, gs);
            out.push(' ');
            w_fields(out, fs);
            out.push(')');
        }
        Item::Enum(attrs, id, gs, vs) => {
            out.push_str("(enum ");
            w_attrs(out, attrs);
            out.push(' ');
            w_str(out, id);
            out.push(' ');
            w_generics(out, gs);
            out.push(' ');
            w_list(out, vs, |o, v| {
                o.push_str("(v ");
                w_attrs(o, &v.attrs);
                o.push(' ');
                w_str(o, &v.ident);
                o.push(' ');
                w_fields(o, &v.fields);
                o.push(')');
            });
            out.push(')');
        }
        Item::Alias(attrs, id, gs, ty) => {
            out.push_str("(alias ");
            w_attrs(out, attrs);
            out.push(' ');
            w_str(out, id);
            out.push(' ');
            w_generics(out, gs);
            out.push(' ');
            w_ty(out, ty);
            out.push(')');
        }
        Item::Const(attrs, id, ty, init) => {
            out.push_str("(const ");
            w_attrs(out, attrs);
            out.push(' ');
            w_str(out, id);
            out.push(' ');
            w_ty(out, ty);
            out.push(' ');
            w_lit(out, init);
            out.push(')');
        }
        Item::Use(t) => {
            out.push_str("(use ");
            w_use(out, t);
            out.push(')');
        }
        Item::Mod(attrs, id, items) => {
            out.push_str("(mod ");
            w_attrs(out, attrs);
            out.push(' ');
            w_str(out, id);
            out.push(' ');
            w_list(out, items, |o, i| w_item(o, i));
            out.push(')');
        }
        Item::Other(paths, items) => {
            out.push_str("(other ");
            w_list(out, paths, |o, p| w_strs(o, p));
            out.push(' ');
            w_list(out, items, |o, i| w_item(o, i));
            out.push(')');
        }
    }
}

// ------------------------------------------------------------------ translation

struct Tr {
    unsupported: Option<String>,
}

fn segs_of(p: &syn::Path) -> Vec<String> {
    p.segments.iter().map(|s| s.ident.to_string()).collect()
}

/// decimal digits of an integer literal without leading zeros (python prints `str(int)`)
fn norm_digits(d: &str) -> String {
    let t = d.trim_start_matches('0');
    if t.is_empty() {
        "0".to_string()
    } else {
        t.to_string()
    }
}

fn tr_lit(l: &syn::Lit) -> Lit {
    match l {
        syn::Lit::Str(s) => Lit::S(s.value()),
        syn::Lit::Int(i) => Lit::I(norm_digits(i.base10_digits()), i.suffix().to_string()),
        _ => Lit::O,
    }
}

/// `Some(lit)` when the expression is exactly one literal
fn tr_expr_lit(e: &syn::Expr) -> Option<Lit> {
    match e {
        syn::Expr::Lit(el) => Some(tr_lit(&el.lit)),
        _ => None,
    }
}

/// typeshare's own parser of `typeshare(<language>(…))` argument lists (parser.rs::get_field_decorators)
fn decorator_args(input: &ParseBuffer) -> syn::Result<Vec<Meta>> {
    let mut res = vec![];
    loop {
        if input.is_empty() {
            break;
        }
        let ident = input.call(Ident::parse_any)?;
        if input.peek(Token![,]) || input.is_empty() {
            input.parse::<Token![,]>().unwrap_or_default();
            res.push(Meta::P(vec![ident.to_string()]));
            continue;
        }
        if input.is_empty() {
            break;
        }
        input.parse::<Token![=]>()?;
        let value: syn::LitStr = input.parse()?;
        res.push(Meta::NV(vec![ident.to_string()], Some(Lit::S(value.value()))));
        if input.is_empty() {
            break;
        }
        input.parse::<Token![,]>()?;
    }
    Ok(res)
}

impl Tr {
    fn flag(&mut self, what: &str) {
        if self.unsupported.is_none() {
            self.unsupported = Some(what.to_string());
        }
    }

    /// `in_typeshare`: this meta is an argument of a top-level `typeshare(…)` attribute
    fn meta(&mut self, m: &syn::Meta, top: bool, in_typeshare: bool) -> Meta {
        let p = m.path();
        if p.leading_colon.is_some() && p.segments.len() == 1 {
            // `Path::is_ident` is false for `::serde`, the model compares the segments only
            self.flag("attribute path with a leading `::`");
        }
        let segs = segs_of(p);
        match m {
            syn::Meta::Path(_) => Meta::P(segs),
            syn::Meta::NameValue(nv) => Meta::NV(segs, tr_expr_lit(&nv.value)),
            syn::Meta::List(l) => {
                match l.parse_args_with(Punctuated::<syn::Meta, Token![,]>::parse_terminated) {
                    Ok(args) => {
                        let inner = top && segs.len() == 1 && segs[0] == "typeshare";
                        let args = args.iter().map(|a| self.meta(a, false, inner)).collect();
                        Meta::L(segs, true, args)
                    }
                    Err(_) => {
                        if in_typeshare {
                            // e.g. `typescript(type = "any")`: `type` is a keyword, so this is not a
                            // meta list, but typeshare's own decorator parser accepts it
                            if let Ok(args) = l.parse_args_with(decorator_args) {
                                return Meta::L(segs, true, args);
                            }
                        }
                        Meta::L(segs, false, vec![])
                    }
                }
            }
        }
    }

    fn attrs(&mut self, attrs: &[syn::Attribute]) -> Vec<Meta> {
        attrs.iter().map(|a| self.meta(&a.meta, true, false)).collect()
    }

    fn ty(&mut self, t: &syn::Type) -> Ty {
        match t {
            syn::Type::Tuple(t) => Ty::Tuple(t.elems.iter().map(|e| self.ty(e)).collect()),
            syn::Type::Reference(r) => Ty::Ref(Box::new(self.ty(&r.elem))),
            syn::Type::Path(p) => {
                let mut segs = segs_of(&p.path);
                let last = segs.pop().unwrap_or_default();
                let args = match p.path.segments.last().map(|s| &s.arguments) {
                    Some(syn::PathArguments::AngleBracketed(ab)) => ab
                        .args
                        .iter()
                        .filter_map(|a| match a {
                            syn::GenericArgument::Type(t) => Some(self.ty(t)),
                            _ => None,
                        })
                        .collect(),
                    _ => vec![],
                };
                Ty::Path(segs, last, args)
            }
            syn::Type::Array(a) => {
                let len = match &a.len {
                    syn::Expr::Lit(syn::ExprLit {
                        lit: syn::Lit::Int(n),
                        ..
                    }) => Some(norm_digits(n.base10_digits())),
                    _ => None,
                };
                Ty::Array(Box::new(self.ty(&a.elem)), len)
            }
            syn::Type::Slice(s) => Ty::Slice(Box::new(self.ty(&s.elem))),
            _ => Ty::Other,
        }
    }

    fn fields(&mut self, fs: &syn::Fields) -> Fields {
        let mut one = |f: &syn::Field| Field {
            attrs: self.attrs(&f.attrs),
            ident: f.ident.as_ref().map(|i| i.to_string()),
            ty: self.ty(&f.ty),
        };
        match fs {
            syn::Fields::Named(n) => Fields::Named(n.named.iter().map(&mut one).collect()),
            syn::Fields::Unnamed(u) => Fields::Unnamed(u.unnamed.iter().map(&mut one).collect()),
            syn::Fields::Unit => Fields::Unit,
        }
    }

    fn generics(&mut self, g: &syn::Generics) -> Vec<Generic> {
        g.params
            .iter()
            .map(|p| match p {
                syn::GenericParam::Type(t) => Generic::Ty(t.ident.to_string()),
                syn::GenericParam::Lifetime(_) => Generic::Lt,
                syn::GenericParam::Const(_) => Generic::Const,
            })
            .collect()
    }

    fn use_tree(&mut self, t: &syn::UseTree) -> UseTree {
        match t {
            syn::UseTree::Path(p) => {
                UseTree::Path(p.ident.to_string(), Box::new(self.use_tree(&p.tree)))
            }
            syn::UseTree::Name(n) => UseTree::Name(n.ident.to_string()),
            syn::UseTree::Rename(r) => UseTree::Rename(r.ident.to_string(), r.rename.to_string()),
            syn::UseTree::Glob(_) => UseTree::Glob,
            syn::UseTree::Group(g) => {
                UseTree::Group(g.items.iter().map(|t| self.use_tree(t)).collect())
            }
        }
    }

    /// what the real visitor's walk over `node` sees that the abstract `item` does not carry:
    /// paths of two or more segments (as a multiset difference) and nested items
    fn extras(&mut self, col: Collector, model: Vec<Vec<String>>, out: &mut Vec<Item>) {
        let mut model = model;
        let mut extra = vec![];
        for p in col.paths {
            if let Some(i) = model.iter().position(|q| *q == p) {
                model.swap_remove(i);
            } else if p.len() >= 2 {
                extra.push(p);
            }
        }
        if let Some(u) = col.unsupported {
            self.flag(&u);
        }
        if !extra.is_empty() || !col.items.is_empty() {
            out.push(Item::Other(extra, col.items));
        }
    }

    /// one syn item -> the abstract item, possibly followed by an `other` item with the extras
    fn item(&mut self, it: &syn::Item, out: &mut Vec<Item>) {
        match it {
            syn::Item::Struct(s) => {
                let attrs = self.attrs(&s.attrs);
                let fields = self.fields(&s.fields);
                let model = [attr_paths(&attrs), fields_paths(&fields)].concat();
                out.push(Item::Struct(
                    attrs,
                    s.ident.to_string(),
                    self.generics(&s.generics),
                    fields,
                ));
                let mut col = Collector::default();
                syn::visit::visit_item_struct(&mut col, s);
                self.extras(col, model, out);
            }
            syn::Item::Enum(e) => {
                let attrs = self.attrs(&e.attrs);
                let variants: Vec<Variant> = e
                    .variants
                    .iter()
                    .map(|v| Variant {
                        attrs: self.attrs(&v.attrs),
                        ident: v.ident.to_string(),
                        fields: self.fields(&v.fields),
                    })
                    .collect();
                let mut model = attr_paths(&attrs);
                for v in &variants {
                    model.extend(attr_paths(&v.attrs));
                    model.extend(fields_paths(&v.fields));
                }
                out.push(Item::Enum(
                    attrs,
                    e.ident.to_string(),
                    self.generics(&e.generics),
                    variants,
                ));
                let mut col = Collector::default();
                syn::visit::visit_item_enum(&mut col, e);
                self.extras(col, model, out);
            }
            syn::Item::Type(t) => {
                let attrs = self.attrs(&t.attrs);
                let ty = self.ty(&t.ty);
                let model = [attr_paths(&attrs), type_paths(&ty)].concat();
                out.push(Item::Alias(
                    attrs,
                    t.ident.to_string(),
                    self.generics(&t.generics),
                    ty,
                ));
                let mut col = Collector::default();
                syn::visit::visit_item_type(&mut col, t);
                self.extras(col, model, out);
            }
            syn::Item::Const(c) => {
                let attrs = self.attrs(&c.attrs);
                let ty = self.ty(&c.ty);
                let model = [attr_paths(&attrs), type_paths(&ty)].concat();
                out.push(Item::Const(
                    attrs,
                    c.ident.to_string(),
                    ty,
                    tr_expr_lit(&c.expr),
                ));
                let mut col = Collector::default();
                syn::visit::visit_item_const(&mut col, c);
                self.extras(col, model, out);
            }
            syn::Item::Use(u) => {
                out.push(Item::Use(self.use_tree(&u.tree)));
                let mut col = Collector::default();
                syn::visit::visit_item_use(&mut col, u);
                self.extras(col, vec![], out);
            }
            syn::Item::Mod(m) => {
                let attrs = self.attrs(&m.attrs);
                let model = attr_paths(&attrs);
                let mut items = vec![];
                if let Some((_, content)) = &m.content {
                    for i in content {
                        self.item(i, &mut items);
                    }
                }
                out.push(Item::Mod(attrs, m.ident.to_string(), items));
                let mut col = Collector::default();
                for a in &m.attrs {
                    col.visit_attribute(a);
                }
                col.visit_visibility(&m.vis);
                self.extras(col, model, out);
            }
            other => {
                let mut col = Collector::default();
                syn::visit::visit_item(&mut col, other);
                if let Some(u) = col.unsupported.take() {
                    self.flag(&u);
                }
                out.push(Item::Other(col.paths, col.items));
            }
        }
    }
}

/// `Visitor.attrPaths`
fn attr_paths(attrs: &[Meta]) -> Vec<Vec<String>> {
    attrs
        .iter()
        .map(|m| match m {
            Meta::P(s) | Meta::NV(s, _) | Meta::L(s, _, _) => s.clone(),
        })
        .collect()
}

/// `Visitor.typePaths`
fn type_paths(t: &Ty) -> Vec<Vec<String>> {
    match t {
        Ty::Tuple(es) => es.iter().flat_map(type_paths).collect(),
        Ty::Ref(e) | Ty::Slice(e) | Ty::Array(e, _) => type_paths(e),
        Ty::Path(quals, last, args) => {
            let mut p = quals.clone();
            p.push(last.clone());
            let mut out = vec![p];
            out.extend(args.iter().flat_map(type_paths));
            out
        }
        Ty::Other => vec![],
    }
}

/// `Visitor.fieldsPaths`
fn fields_paths(fs: &Fields) -> Vec<Vec<String>> {
    match fs {
        Fields::Named(v) | Fields::Unnamed(v) => v
            .iter()
            .flat_map(|f| [attr_paths(&f.attrs), type_paths(&f.ty)].concat())
            .collect(),
        Fields::Unit => vec![],
    }
}

/// every `syn::Path` the default `syn::visit` walk reaches (what `TypeShareVisitor::visit_path` is
/// called on in multi-file mode), and the items nested in the walked node
#[derive(Default)]
struct Collector {
    paths: Vec<Vec<String>>,
    items: Vec<Item>,
    in_path: usize,
    unsupported: Option<String>,
}

impl<'ast> Visit<'ast> for Collector {
    fn visit_path(&mut self, p: &'ast syn::Path) {
        self.paths.push(segs_of(p));
        self.in_path += 1;
        syn::visit::visit_path(self, p);
        self.in_path -= 1;
    }

    fn visit_item(&mut self, i: &'ast syn::Item) {
        if self.in_path > 0 {
            // single-file mode does not descend into path arguments, multi-file mode does
            self.unsupported = Some("item nested in the arguments of a path".to_string());
        }
        let mut tr = Tr { unsupported: None };
        tr.item(i, &mut self.items);
        if let Some(u) = tr.unsupported {
            self.unsupported = Some(u);
        }
    }
}

/// the `serialized_as = "…"` strings of the file (trimmed as `literal_to_string` does) and what
/// `syn::parse_str::<syn::Type>` makes of them
#[derive(Default)]
struct SerializedAs {
    rows: Vec<(String, Option<Ty>)>,
    strs: Vec<String>,
}

impl<'ast> Visit<'ast> for SerializedAs {
    fn visit_attribute(&mut self, a: &'ast syn::Attribute) {
        if let syn::Meta::NameValue(nv) = &a.meta {
            if let syn::Expr::Lit(syn::ExprLit {
                lit: syn::Lit::Str(s),
                ..
            }) = &nv.value
            {
                if !nv.path.is_ident("doc") {
                    self.strs.push(s.value());
                }
            }
        }
        if let Ok(args) = a.parse_args_with(Punctuated::<syn::Meta, Token![,]>::parse_terminated) {
            for m in args.iter() {
                self.meta(m, a.path().is_ident("typeshare"));
            }
        }
        syn::visit::visit_attribute(self, a);
    }
}

impl SerializedAs {
    fn meta(&mut self, m: &syn::Meta, in_typeshare: bool) {
        match m {
            syn::Meta::NameValue(nv) => {
                if let syn::Expr::Lit(syn::ExprLit {
                    lit: syn::Lit::Str(s),
                    ..
                }) = &nv.value
                {
                    let v = s.value();
                    self.strs.push(v.clone());
                    if in_typeshare && nv.path.is_ident("serialized_as") {
                        let key = v.trim().to_string();
                        if !self.rows.iter().any(|r| r.0 == key) {
                            let ty = syn::parse_str::<syn::Type>(&key)
                                .ok()
                                .map(|t| Tr { unsupported: None }.ty(&t));
                            self.rows.push((key, ty));
                        }
                    }
                }
            }
            syn::Meta::List(l) => {
                if let Ok(args) =
                    l.parse_args_with(Punctuated::<syn::Meta, Token![,]>::parse_terminated)
                {
                    for a in args.iter() {
                        self.meta(a, false);
                    }
                } else if let Ok(args) = l.parse_args_with(decorator_args) {
                    for a in args {
                        if let Meta::NV(_, Some(Lit::S(s))) = a {
                            self.strs.push(s);
                        }
                    }
                }
            }
            syn::Meta::Path(_) => {}
        }
    }
}

pub fn file_sx(file: &syn::File, src: &str) -> Result<String, String> {
    let mut tr = Tr { unsupported: None };
    let attrs = tr.attrs(&file.attrs);
    let mut items = vec![];
    // paths in the value expressions of file attributes (`#![foo = a::B]`)
    let mut col = Collector::default();
    for a in &file.attrs {
        col.visit_attribute(a);
    }
    tr.extras(col, attr_paths(&attrs), &mut items);
    for i in &file.items {
        tr.item(i, &mut items);
    }
    if let Some(u) = tr.unsupported {
        return Err(u);
    }
    let mut out = String::new();
    out.push_str("(file ");
    w_attrs(&mut out, &attrs);
    out.push(' ');
    w_list(&mut out, &items, |o, i| w_item(o, i));
    out.push_str(if src.contains("typeshare") {
        " true)"
    } else {
        " false)"
    });
    Ok(out)
}

/// `{"op":"ast","src":…}` -> `{"ok": sx, "ext": [[string, type-sx|null]…], "strs": […], "idents": […]}`
pub fn op_ast(req: &Value) -> Value {
    let src = req.get("src").and_then(|x| x.as_str()).unwrap_or("");
    let file = match syn::parse_file(src) {
        Ok(f) => f,
        Err(_) => return json!({"err": "parse"}),
    };
    match file_sx(&file, src) {
        Err(u) => json!({ "unsupported": u }),
        Ok(sx) => {
            let mut sa = SerializedAs::default();
            sa.visit_file(&file);
            let ext: Vec<Value> = sa
                .rows
                .iter()
                .map(|(k, t)| {
                    let t = t.as_ref().map(|t| {
                        let mut s = String::new();
                        w_ty(&mut s, t);
                        s
                    });
                    json!([k, t])
                })
                .collect();
            let mut idents = vec![];
            collect_idents(file.to_token_stream(), &mut idents);
            idents.sort();
            idents.dedup();
            json!({"ok": sx, "ext": ext, "strs": sa.strs, "idents": idents})
        }
    }
}

fn collect_idents(ts: TokenStream, out: &mut Vec<String>) {
    for t in ts {
        match t {
            TokenTree::Ident(i) => out.push(i.unraw().to_string()),
            TokenTree::Group(g) => collect_idents(g.stream(), out),
            _ => {}
        }
    }
}

// ------------------------------------------------------------------ mutation

struct Rng(u64);

impl Rng {
    fn next(&mut self) -> u64 {
        // splitmix64
        self.0 = self.0.wrapping_add(0x9E37_79B9_7F4A_7C15);
        let mut z = self.0;
        z = (z ^ (z >> 30)).wrapping_mul(0xBF58_476D_1CE4_E5B9);
        z = (z ^ (z >> 27)).wrapping_mul(0x94D0_49BB_1331_11EB);
        z ^ (z >> 31)
    }
    fn below(&mut self, n: usize) -> usize {
        if n == 0 {
            0
        } else {
            (self.next() % n as u64) as usize
        }
    }
}

type FieldList = Punctuated<syn::Field, Token![,]>;

/// the named field lists (structs and struct variants) of the items, through inline modules
fn named_lists<'a>(items: &'a mut [syn::Item], out: &mut Vec<&'a mut FieldList>) {
    for it in items.iter_mut() {
        match it {
            syn::Item::Struct(s) => {
                if let syn::Fields::Named(n) = &mut s.fields {
                    out.push(&mut n.named);
                }
            }
            syn::Item::Enum(e) => {
                for v in e.variants.iter_mut() {
                    if let syn::Fields::Named(n) = &mut v.fields {
                        out.push(&mut n.named);
                    }
                }
            }
            syn::Item::Mod(m) => {
                if let Some((_, content)) = &mut m.content {
                    named_lists(content, out);
                }
            }
            _ => {}
        }
    }
}

/// every field (named or not) of structs and variants, plus the types of aliases
fn all_types<'a>(items: &'a mut [syn::Item], out: &mut Vec<&'a mut syn::Type>) {
    for it in items.iter_mut() {
        match it {
            syn::Item::Struct(s) => {
                for f in s.fields.iter_mut() {
                    out.push(&mut f.ty);
                }
            }
            syn::Item::Enum(e) => {
                for v in e.variants.iter_mut() {
                    for f in v.fields.iter_mut() {
                        out.push(&mut f.ty);
                    }
                }
            }
            syn::Item::Type(t) => out.push(&mut t.ty),
            syn::Item::Mod(m) => {
                if let Some((_, content)) = &mut m.content {
                    all_types(content, out);
                }
            }
            _ => {}
        }
    }
}

fn all_fields<'a>(items: &'a mut [syn::Item], out: &mut Vec<&'a mut syn::Field>) {
    for it in items.iter_mut() {
        match it {
            syn::Item::Struct(s) => out.extend(s.fields.iter_mut()),
            syn::Item::Enum(e) => {
                for v in e.variants.iter_mut() {
                    out.extend(v.fields.iter_mut());
                }
            }
            syn::Item::Mod(m) => {
                if let Some((_, content)) = &mut m.content {
                    all_fields(content, out);
                }
            }
            _ => {}
        }
    }
}

fn declared_names(items: &[syn::Item], out: &mut Vec<String>) {
    for it in items {
        match it {
            syn::Item::Struct(s) => {
                out.push(s.ident.to_string());
                for f in s.fields.iter() {
                    if let Some(i) = &f.ident {
                        out.push(i.to_string());
                    }
                }
            }
            syn::Item::Enum(e) => {
                out.push(e.ident.to_string());
                for v in e.variants.iter() {
                    out.push(v.ident.to_string());
                    for f in v.fields.iter() {
                        if let Some(i) = &f.ident {
                            out.push(i.to_string());
                        }
                    }
                }
            }
            syn::Item::Type(t) => out.push(t.ident.to_string()),
            syn::Item::Const(c) => out.push(c.ident.to_string()),
            syn::Item::Mod(m) => {
                if let Some((_, content)) = &m.content {
                    declared_names(content, out);
                }
            }
            _ => {}
        }
    }
}

fn rename_tokens(ts: TokenStream, from: &str, to: &str) -> TokenStream {
    ts.into_iter()
        .map(|t| match t {
            TokenTree::Ident(i) if i.to_string() == from => {
                TokenTree::Ident(Ident::new(to, Span::call_site()))
            }
            TokenTree::Group(g) => {
                let mut ng = Group::new(g.delimiter(), rename_tokens(g.stream(), from, to));
                ng.set_span(g.span());
                TokenTree::Group(ng)
            }
            other => other,
        })
        .collect()
}

const EDITS: &[&str] = &[
    "swap-field-types",
    "wrap-option",
    "wrap-vec",
    "add-serde-rename",
    "add-serde-default",
    "add-typeshare-skip",
    "duplicate-field",
    "rename-ident",
    "reorder-items",
    "add-serde-rename-all",
    "add-doc",
    "add-field-decorator",
    "add-serialized-as",
    "wrap-item-in-mod",
    "wrap-item-in-fn",
    "rename-to-existing",
];

/// `{"op":"ast_mutate","src":…,"seed":n}` -> `{"ok": new source text, "edits": [names]}`
pub fn op_ast_mutate(req: &Value) -> Value {
    let src = req.get("src").and_then(|x| x.as_str()).unwrap_or("");
    let seed = req.get("seed").and_then(|x| x.as_u64()).unwrap_or(0);
    let mut file = match syn::parse_file(src) {
        Ok(f) => f,
        Err(_) => return json!({"err": "parse"}),
    };
    let mut rng = Rng(seed.wrapping_mul(0x2545_F491_4F6C_DD1D) ^ 0xA5A5_5A5A_1234_5678);
    let mut edits: Vec<String> = vec![];
    let mut rename: Option<(String, String)> = None;
    let n_edits = 1 + rng.below(3);
    let mut tries = 0;
    while edits.len() < n_edits && tries < 40 {
        tries += 1;
        let kind = EDITS[rng.below(EDITS.len())];
        let done = match kind {
            "swap-field-types" => {
                let mut lists = vec![];
                named_lists(&mut file.items, &mut lists);
                lists.retain(|l| l.len() >= 2);
                if lists.is_empty() {
                    false
                } else {
                    let k = rng.below(lists.len());
                    let l = &mut lists[k];
                    let a = rng.below(l.len());
                    let mut b = rng.below(l.len() - 1);
                    if b >= a {
                        b += 1;
                    }
                    let ta = l[a].ty.clone();
                    let tb = l[b].ty.clone();
                    l[a].ty = tb;
                    l[b].ty = ta;
                    true
                }
            }
            "wrap-option" | "wrap-vec" => {
                let mut tys = vec![];
                all_types(&mut file.items, &mut tys);
                if tys.is_empty() {
                    false
                } else {
                    let k = rng.below(tys.len());
                    let old = tys[k].clone();
                    *tys[k] = if kind == "wrap-option" {
                        syn::parse_quote!(Option<#old>)
                    } else {
                        syn::parse_quote!(Vec<#old>)
                    };
                    true
                }
            }
            "add-serde-rename" | "add-serde-default" | "add-typeshare-skip" | "add-doc"
            | "add-field-decorator" | "add-serialized-as" => {
                let mut fs = vec![];
                all_fields(&mut file.items, &mut fs);
                if fs.is_empty() {
                    false
                } else {
                    let k = rng.below(fs.len());
                    let names = ["renamedField", "new-name", "Type", "x_y", "with space", "é"];
                    let nm = names[rng.below(names.len())];
                    let attr: syn::Attribute = match kind {
                        "add-serde-rename" => syn::parse_quote!(#[serde(rename = #nm)]),
                        "add-serde-default" => syn::parse_quote!(#[serde(default)]),
                        "add-doc" => {
                            let docs = [
                                " plain",
                                "two\nlines",
                                " */ closer",
                                " \"\"\" quotes \\",
                                "",
                                "  padded  ",
                                " tab\there\r\nwin",
                            ];
                            let d = docs[rng.below(docs.len())];
                            syn::parse_quote!(#[doc = #d])
                        }
                        "add-field-decorator" => match rng.below(5) {
                            0 => syn::parse_quote!(#[typeshare(typescript(readonly))]),
                            1 => syn::parse_quote!(#[typeshare(typescript(type = "string | undefined"))]),
                            2 => syn::parse_quote!(#[typeshare(python(type = "bytes"), go(type = "uint"))]),
                            3 => syn::parse_quote!(#[typeshare(swift(readonly), kotlin(x = "y"))]),
                            _ => syn::parse_quote!(#[typeshare(TypeScript(readonly, type = "any"))]),
                        },
                        "add-serialized-as" => {
                            let tys = ["String", "Vec<u8>", " Option<String> ", "HashMap<String, u32>", "Foo<u8>", "i64", "(", "[u8; 4]"];
                            let t = tys[rng.below(tys.len())];
                            syn::parse_quote!(#[typeshare(serialized_as = #t)])
                        }
                        _ => syn::parse_quote!(#[typeshare(skip)]),
                    };
                    if rng.below(2) == 0 {
                        fs[k].attrs.push(attr);
                    } else {
                        fs[k].attrs.insert(0, attr);
                    }
                    true
                }
            }
            "duplicate-field" => {
                let mut lists = vec![];
                named_lists(&mut file.items, &mut lists);
                lists.retain(|l| !l.is_empty());
                if lists.is_empty() {
                    false
                } else {
                    let k = rng.below(lists.len());
                    let l = &mut lists[k];
                    let a = rng.below(l.len());
                    let mut f = l[a].clone();
                    let base = f.ident.as_ref().map(|i| i.unraw().to_string()).unwrap_or_default();
                    f.ident = Some(Ident::new(&format!("{base}_copy"), Span::call_site()));
                    let at = rng.below(l.len() + 1);
                    l.insert(at, f);
                    true
                }
            }
            "add-serde-rename-all" => {
                let rules = [
                    "lowercase",
                    "UPPERCASE",
                    "PascalCase",
                    "camelCase",
                    "snake_case",
                    "SCREAMING_SNAKE_CASE",
                    "kebab-case",
                    "SCREAMING-KEBAB-CASE",
                ];
                let rule = rules[rng.below(rules.len())];
                let mut targets: Vec<&mut Vec<syn::Attribute>> = vec![];
                for it in file.items.iter_mut() {
                    match it {
                        syn::Item::Struct(s) => targets.push(&mut s.attrs),
                        syn::Item::Enum(e) => targets.push(&mut e.attrs),
                        _ => {}
                    }
                }
                if targets.is_empty() {
                    false
                } else {
                    let k = rng.below(targets.len());
                    targets[k].push(syn::parse_quote!(#[serde(rename_all = #rule)]));
                    true
                }
            }
            "wrap-item-in-mod" | "wrap-item-in-fn" => {
                let n = file.items.len();
                if n == 0 {
                    false
                } else {
                    let k = rng.below(n);
                    let it = file.items[k].clone();
                    file.items[k] = if kind == "wrap-item-in-mod" {
                        syn::parse_quote!(pub mod wrapped { #it })
                    } else {
                        syn::parse_quote!(fn wrapper() { #it })
                    };
                    true
                }
            }
            "rename-to-existing" => {
                if rename.is_some() {
                    false
                } else {
                    let mut names = vec![];
                    declared_names(&file.items, &mut names);
                    if names.len() < 2 {
                        false
                    } else {
                        let from = names[rng.below(names.len())].clone();
                        let to = names[rng.below(names.len())].trim_start_matches("r#").to_string();
                        if to == from || to == "self" || to == "Self" || to == "super" || to == "crate" {
                            false
                        } else {
                            rename = Some((from, to));
                            true
                        }
                    }
                }
            }
            "rename-ident" => {
                if rename.is_some() {
                    false
                } else {
                    let mut names = vec![];
                    declared_names(&file.items, &mut names);
                    if names.is_empty() {
                        false
                    } else {
                        let from = names[rng.below(names.len())].clone();
                        let base = from.trim_start_matches("r#").to_string();
                        let sufs = ["Renamed", "_x", "2", "URL", "Id"];
                        let to = format!("{base}{}", sufs[rng.below(sufs.len())]);
                        rename = Some((from, to));
                        true
                    }
                }
            }
            "reorder-items" => {
                let n = file.items.len();
                if n < 2 {
                    false
                } else {
                    let a = rng.below(n);
                    let mut b = rng.below(n - 1);
                    if b >= a {
                        b += 1;
                    }
                    file.items.swap(a, b);
                    true
                }
            }
            _ => false,
        };
        if done {
            edits.push(kind.to_string());
        }
    }
    let mut ts = file.to_token_stream();
    if let Some((from, to)) = &rename {
        ts = rename_tokens(ts, from, to);
    }
    let text = ts.to_string();
    if syn::parse_file(&text).is_err() {
        return json!({"err": "mutant does not parse", "edits": edits});
    }
    json!({"ok": text, "edits": edits})
}

/// `{"op":"ast_items","src":…}` -> `{"ok": [source text of every top-level item on its own]}`
pub fn op_ast_items(req: &Value) -> Value {
    let src = req.get("src").and_then(|x| x.as_str()).unwrap_or("");
    let file = match syn::parse_file(src) {
        Ok(f) => f,
        Err(_) => return json!({"err": "parse"}),
    };
    let texts: Vec<String> = file
        .items
        .iter()
        .map(|i| i.to_token_stream().to_string())
        .collect();
    json!({ "ok": texts })
}
