#[typeshare]
#[serde(rename_all = "SCREAMING_SNAKE_CASE")]
#[repr(u8)]
pub enum Unit { A = 1, BeeCee = 2, #[serde(rename = "dee")] D = 3, #[serde(skip)] E, #[typeshare(skip)] F }
#[typeshare]
#[serde(tag = "type", content = "content", rename_all = "camelCase")]
pub enum Alg<T> {
    Unit,
    Tuple(T),
    #[serde(rename_all = "SCREAMING-KEBAB-CASE")]
    Struct { field_one: T, #[serde(skip)] skipped: u8, r#type: Option<T> },
    Recursive(Box<Alg<T>>),
    Empty {},
    #[serde(rename = "renamed")] Ren { a: u8 },
    Two(u8, u8),
}
#[typeshare]
#[serde(tag = "type")]
pub enum MissingContent { A(u8) }
#[typeshare]
#[serde(content = "c")]
pub enum MissingTag { A(u8) }
#[typeshare]
#[serde(tag = "type", content = "c")]
pub enum UnitWithTag { A, B }
#[typeshare]
#[serde(untagged)]
pub enum Untagged { A(u8) }
#[typeshare]
pub enum EmptyEnum {}
#[typeshare]
#[serde(tag = "type", content = "content")]
pub enum Zero { A() }
