use other_crate::models::{Ext1, Ext2 as Renamed, sub::Ext3};
use crate::local::Loc;
use super::sup::Sup;
use third::*;
use std::collections::HashMap;
#[typeshare]
pub struct M {
    pub a: Ext1, pub b: Ext3, pub c: Loc, pub d: Sup, pub e: fourth::deep::Qualified, pub f: Vec<other_crate::Ext4>,
    pub g: Option<crate::x::Y>, pub h: Unknown, pub i: HashMap<String, fifth::K>,
    pub r1: Hidden, pub r2: InBody, pub r3: Expr, pub r4: Trait, pub r5: Assoc, pub r6: Bound, pub r7: Where, pub r8: LEN, pub r9: Vis, pub r10: Attr,
    pub r11: Ty, pub r12: Disc, pub r13: MacroP, pub r14: QSelf, pub r15: InnerArg, pub r16: FnArg, pub r17: Dyn,
}
#[typeshare]
#[serde(tag = "t", content = "c")]
pub enum ME { A(sixth::V), B { x: seventh::W<eighth::Z> }, C }
#[typeshare]
pub type MA = ninth::Al;
pub struct NotShared { a: tenth::Hidden, b: [u8; seventeenth::LEN], c: Box<dyn dynn::Dyn>, d: fn(fnarg::FnArg) -> u8 }
fn body() { let x: eleventh::InBody = todo!(); let y = twelfth::Expr::new(); macrop::MacroP!(ignored::Tokens); }
impl thirteenth::Trait for M { type X = fourteenth::Assoc; }
#[typeshare]
pub struct Gen<T: fifteenth::Bound> where T: sixteenth::Where { pub a: T, pub(in eighteenth::Vis) b: T, #[serde(with = "x")] #[nineteenth::Attr] pub c: u8,
   pub d: <T as qself::QSelf>::Out, pub e: inner::Seg<innerarg::InnerArg>::Last }
#[typeshare]
pub const CC: twentieth::Ty = 3;
#[typeshare]
pub enum Disc { A = disc::Disc as isize }
