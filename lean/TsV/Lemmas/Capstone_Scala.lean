import TsV.Lemmas.Capstone_Items
import TsV.Lemmas.Capstone_Order
/-!
# Capstone — Scala: from `writeItem … = .ok b` to the fact records and the clauses
-/
namespace TsV.Cap.Sc
open TsV TsV.Syn TsV.Parser TsV.Pipeline TsV.Generate TsV.C03E TsV.Lang TsV.Lang.Scala TsV.Outcome

/-- C04's reading of one constructor parameter -/
def Reads (p : ScParam) (o : Bool) (core : Str) : Prop := o = C04.Sc.isOptional p ∧ core = C04.Sc.stripOptional p

theorem writeItem_struct (cfg : Cfg) (rs : RustStruct) (b : Str) (h : C03E.Sc.writeItem cfg (.struct rs) = .ok b) :
    ∃ c, classFacts cfg rs = .ok c ∧ b = renderClass c := by
  simp only [C03E.Sc.writeItem, writeStruct] at h
  obtain ⟨c, hc, h⟩ := bindOk h
  cases h
  exact ⟨c, hc, rfl⟩

theorem writeItem_enum (cfg : Cfg) (e : RustEnum) (b : Str) (h : C03E.Sc.writeItem cfg (.enum e) = .ok b) :
    ∃ se, enumFacts cfg e = .ok se ∧ b = renderEnum se := by
  simp only [C03E.Sc.writeItem, writeEnum] at h
  obtain ⟨se, hs, h⟩ := bindOk h
  cases h
  exact ⟨se, hs, rfl⟩

theorem structKeys_eq (E : Ext) (cfg : Cfg) (rs : RustStruct) (c : ScClass) (h : classFacts cfg rs = .ok c) :
    C01.structKeys E .scala cfg rs = .ok (c.params.map C01.Scala.boundKey) := by
  simp [C01.structKeys, h]

theorem struct_c04 (E : Ext) (cfg : Cfg) (rs : RustStruct) (c : ScClass) (h : classFacts cfg rs = .ok c) :
    C04.Pointwise (fun rf' p => C04.InScope rs.genericTypes rf' (.scala cfg) →
      C04.Known_scalaDefaultNonOption (.scala cfg) rf' = false →
      ∃ o core, Reads p o core ∧ o = C04.opt rf' ∧
        C04.Translates E rs.genericTypes (C04.stripOption rf'.ty) (.scala cfg) core) rs.fields c.params := by
  refine (C04.scala_struct h).imp ?_
  intro rf' p hp hs hk
  obtain ⟨_, h2, h3⟩ := hp hs.1
  exact ⟨_, _, ⟨rfl, rfl⟩, h2 hk, h3⟩

/-- **clauses 2 + 3 for the case class of a source struct** (C04's known class: a non-`Option` field with
`serde(default)`; C01's scope for Scala: dash-free keys) -/
theorem struct_ok (E : Ext) (hU : E.U.AsciiCorrect) (cfg : Cfg) (targetOs : List Str) (c : Str) (r : Renames)
    (attrs : List Attr) (ident : Str) (gens : List GenericParam) (fs : List Field) (rs : RustStruct) (cl : ScClass)
    (hparse : parseStruct E targetOs attrs ident gens (.named fs) = .ok (.struct rs))
    (hd : classFacts cfg (recStruct c r rs) = .ok cl) :
    StructClauses E .scala (.scala cfg) targetOs c r attrs fs (recStruct c r rs)
      (cl.params.map C01.Scala.boundKey) Reads cl.params :=
  struct_clauses E hU .scala (.scala cfg) cfg targetOs c r attrs ident gens fs rs _ Reads _ hparse
    (structKeys_eq E cfg _ cl hd) (struct_c04 E cfg _ cl hd)

/-- **clauses 2 + 4 for the declarations of a source enum** -/
theorem enum_ok (E : Ext) (hU : E.U.AsciiCorrect) (cfg : Cfg) (targetOs : List Str) (c : Str) (r : Renames)
    (attrs : List Attr) (ident : Str) (gens : List GenericParam) (vs : List Variant) (e : RustEnum)
    (se : ScEnum) (acronyms : List Str)
    (hparse : parseEnum E targetOs attrs ident gens vs = .ok (.enum e))
    (hd : enumFacts cfg (recEnum c r e) = .ok se) :
    EnumClauses E .scala targetOs attrs vs (recEnum c r e) acronyms
      (se.inner.map (·.params.map C01.Scala.boundKey)) (C02.Sc.wire se) := by
  have hi := C01.C01_scala_enum_classes cfg _ se hd
  refine enum_clauses E hU .scala cfg targetOs c r attrs ident gens vs e acronyms _ _ hparse
    (by simp [C01.enumKeys, hi]) ?_
  intro hsc hk
  exact C02.C02_backend .scala E hU acronyms _ hsc hk cfg se hd

theorem block_of (cfg : Cfg) {items emitted : List RustItem} {blocks : List Str} (hperm : items.Perm emitted)
    (hpair : Paired (fun it b => C03E.Sc.writeItem cfg it = .ok b) items blocks) {x : RustItem} (hx : x ∈ emitted) :
    ∃ (k : Nat) (b : Str), items[k]? = some x ∧ blocks[k]? = some b ∧ C03E.Sc.writeItem cfg x = .ok b := by
  obtain ⟨k, hk⟩ := getElem?_of_perm_mem hperm hx
  obtain ⟨b, hb, hw⟩ := hpair.nth k x hk
  exact ⟨k, b, hk, hb, hw⟩

end TsV.Cap.Sc
