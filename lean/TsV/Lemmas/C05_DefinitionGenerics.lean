import TsV.Lemmas.C05_HelperGenerics
import TsV.Lemmas.C12_Modules_Python
/-!
# C05_DefinitionGenerics — helper lemmas

* the parameter clauses the six back ends print and the lists they carry (`headerParams` extractors over
  the fact records: trusted binding semantics, each a projection);
* a clause can be read back: `Str.intercalate ", "` is injective on lists of non-empty comma-free names
  (`clause_inj`), so equal clauses list equal parameters in equal order;
* Python: the type variables registered by `structFacts`.
-/
namespace TsV.C05_DefinitionGenerics
open TsV TsV.Lang TsV.C09 TsV.C09_HelperParams TsV.C05_HelperGenerics

/-! ## binding semantics: the parameter list a declaration record declares -/

/-- Kotlin: the clause as printed (`<A, B>` or nothing) — the records keep the clause, not the list -/
abbrev Kt.headerClause : Kotlin.KtDecl → Str := ktGenerics
/-- Swift: the names of the declared parameters, in order (each carries its constraints) -/
def Sw.structParams (s : Swift.SwiftStruct) : List Str := s.generics.map (·.name)
def Sw.enumParams (e : Swift.SwiftEnum) : List Str := e.generics.map (·.name)
/-- Scala -/
def Sc.classParams (c : Scala.ScClass) : List Str := c.generics
def Sc.aliasParams (a : Scala.ScAlias) : List Str := a.generics
def Sc.enumParams (e : Scala.ScEnum) : List Str := e.generics
/-- Go -/
def Go.structParams (d : Go.GoStruct) : List Str := d.generics
/-- Python -/
def Py.classParams (c : Python.PyClass) : List Str := c.generics

/-- the clause Go prints: `[T any, U any]` -/
def goClause (ps : List Str) : Str :=
  if ps.isEmpty then [] else s%"[" ++ Str.intercalate s%", " (ps.map (· ++ s%" any")) ++ s%"]"

/-- the base-class list Python prints: `BaseModel, Generic[T, U]` -/
def pyBases (ps : List Str) : Str :=
  if ps.isEmpty then s%"BaseModel" else s%"BaseModel, Generic[" ++ Str.intercalate s%", " ps ++ s%"]"

/-! ## reading a clause back -/

/-- a parameter name as it can stand in a clause: not empty, no comma -/
def Clean (p : Str) : Prop := p ≠ [] ∧ ',' ∉ p

theorem split_at (c : Char) : ∀ (a a' X X' : Str), c ∉ a → c ∉ a' → a ++ c :: X = a' ++ c :: X' → a = a' ∧ X = X'
  | [], [], X, X', _, _, h => by simpa using h
  | [], y :: a', X, X', _, h2, h => by
    simp only [List.nil_append, List.cons_append, List.cons.injEq] at h
    exact absurd (List.mem_cons.2 (Or.inl h.1)) h2
  | x :: a, [], X, X', h1, _, h => by
    simp only [List.nil_append, List.cons_append, List.cons.injEq] at h
    exact absurd (List.mem_cons.2 (Or.inl h.1.symm)) h1
  | x :: a, y :: a', X, X', h1, h2, h => by
    simp only [List.cons_append, List.cons.injEq] at h
    obtain ⟨rfl, h⟩ := h
    have := split_at c a a' X X' (fun m => h1 (List.mem_cons_of_mem _ m)) (fun m => h2 (List.mem_cons_of_mem _ m)) h
    exact ⟨by rw [this.1], this.2⟩

theorem intercalate_cons₂ (sep a b : Str) (r : List Str) :
    Str.intercalate sep (a :: b :: r) = a ++ sep ++ Str.intercalate sep (b :: r) := rfl

theorem intercalate_ne_nil (sep : Str) : ∀ (p : Str) (ps : List Str), p ≠ [] → Str.intercalate sep (p :: ps) ≠ []
  | p, [], hp => by simpa [Str.intercalate] using hp
  | p, q :: r, hp => by
    rw [intercalate_cons₂]
    intro h
    simp only [List.append_eq_nil_iff] at h
    exact hp h.1.1

/-- **a comma-separated list of clean names determines the names and their order** -/
theorem clause_inj : ∀ (ps qs : List Str), (∀ p ∈ ps, Clean p) → (∀ q ∈ qs, Clean q) →
    Str.intercalate s%", " ps = Str.intercalate s%", " qs → ps = qs
  | [], [], _, _, _ => rfl
  | [], q :: qs, _, hq, h => absurd h.symm (intercalate_ne_nil _ q qs (hq q List.mem_cons_self).1)
  | p :: ps, [], hp, _, h => absurd h (intercalate_ne_nil _ p ps (hp p List.mem_cons_self).1)
  | [p], [q], _, _, h => by simpa [Str.intercalate] using h
  | [p], q :: q2 :: r, hp, _, h => by
    rw [intercalate_cons₂] at h
    have : ',' ∈ p := by
      have e : p = q ++ ',' :: (' ' :: Str.intercalate s%", " (q2 :: r)) := by simpa [Str.intercalate] using h
      rw [e]; simp
    exact absurd this (hp p List.mem_cons_self).2
  | p :: p2 :: r, [q], _, hq, h => by
    rw [intercalate_cons₂] at h
    have : ',' ∈ q := by
      have e : q = p ++ ',' :: (' ' :: Str.intercalate s%", " (p2 :: r)) := by simpa [Str.intercalate] using h.symm
      rw [e]; simp
    exact absurd this (hq q List.mem_cons_self).2
  | p :: p2 :: r, q :: q2 :: r', hp, hq, h => by
    rw [intercalate_cons₂, intercalate_cons₂] at h
    have h' : p ++ ',' :: (' ' :: Str.intercalate s%", " (p2 :: r)) = q ++ ',' :: (' ' :: Str.intercalate s%", " (q2 :: r')) := by
      simpa [List.append_assoc] using h
    obtain ⟨rfl, h2⟩ := split_at ',' _ _ _ _ (hp p List.mem_cons_self).2 (hq q List.mem_cons_self).2 h'
    have h3 := clause_inj (p2 :: r) (q2 :: r') (fun x hx => hp x (List.mem_cons_of_mem _ hx))
      (fun x hx => hq x (List.mem_cons_of_mem _ hx)) (List.cons.inj h2).2
    rw [h3]

theorem isEmpty_false_of_ne {α} {l : List α} (h : l ≠ []) : l.isEmpty = false := by
  cases l with
  | nil => exact absurd rfl h
  | cons _ _ => rfl

theorem append_right_cancel' {a b c : Str} (h : a ++ c = b ++ c) : a = b := List.append_cancel_right h

/-- wrapped between an opening and a closing bracket the list is still determined; an empty list
prints nothing, a non-empty one at least the brackets -/
theorem wrapped_inj (o cl : Str) (ho : o ≠ []) (ps qs : List Str) (hp : ∀ p ∈ ps, Clean p) (hq : ∀ q ∈ qs, Clean q)
    (h : (if ps.isEmpty then [] else o ++ Str.intercalate s%", " ps ++ cl) =
         (if qs.isEmpty then [] else o ++ Str.intercalate s%", " qs ++ cl)) : ps = qs := by
  have hne : ∀ X : Str, o ++ X ++ cl ≠ [] := fun X hX => by
    simp only [List.append_eq_nil_iff] at hX; exact ho hX.1.1
  cases ps with
  | nil =>
    cases qs with
    | nil => rfl
    | cons q qs => simp only [List.isEmpty_nil, List.isEmpty_cons, if_true] at h; exact absurd h.symm (by simpa using hne _)
  | cons p ps =>
    cases qs with
    | nil => simp only [List.isEmpty_nil, List.isEmpty_cons, if_true] at h; exact absurd h (by simpa using hne _)
    | cons q qs =>
      simp only [List.isEmpty_cons] at h
      have h1 : o ++ Str.intercalate s%", " (p :: ps) ++ cl = o ++ Str.intercalate s%", " (q :: qs) ++ cl := by simpa using h
      rw [List.append_assoc, List.append_assoc] at h1
      exact clause_inj _ _ hp hq (List.append_cancel_right (List.append_cancel_left h1))

/-- TypeScript, Kotlin, Swift aliases: `<A, B>` -/
theorem genericSuffix_inj (ps qs : List Str) (hp : ∀ p ∈ ps, Clean p) (hq : ∀ q ∈ qs, Clean q)
    (h : genericSuffix ps = genericSuffix qs) : ps = qs :=
  wrapped_inj s%"<" s%">" (by simp) ps qs hp hq (by simpa [genericSuffix, angle] using h)

/-- Scala: `[A, B]` -/
theorem genericSq_inj (ps qs : List Str) (hp : ∀ p ∈ ps, Clean p) (hq : ∀ q ∈ qs, Clean q)
    (h : Scala.genericSq ps = Scala.genericSq qs) : ps = qs :=
  wrapped_inj s%"[" s%"]" (by simp) ps qs hp hq (by simpa [Scala.genericSq, Scala.bracket] using h)

/-- Python: `BaseModel, Generic[A, B]` -/
theorem pyBases_inj (ps qs : List Str) (hp : ∀ p ∈ ps, Clean p) (hq : ∀ q ∈ qs, Clean q)
    (h : pyBases ps = pyBases qs) : ps = qs := by
  unfold pyBases at h
  cases ps with
  | nil =>
    cases qs with
    | nil => rfl
    | cons q qs => simp at h
  | cons p ps =>
    cases qs with
    | nil => simp at h
    | cons q qs =>
      simp only [List.isEmpty_cons] at h
      have h1 : s%"BaseModel, Generic[" ++ Str.intercalate s%", " (p :: ps) ++ s%"]" =
          s%"BaseModel, Generic[" ++ Str.intercalate s%", " (q :: qs) ++ s%"]" := by simpa using h
      rw [List.append_assoc, List.append_assoc] at h1
      exact clause_inj _ _ hp hq (List.append_cancel_right (List.append_cancel_left h1))

theorem map_any_inj : ∀ (ps qs : List Str), ps.map (· ++ s%" any") = qs.map (· ++ s%" any") → ps = qs
  | [], [], _ => rfl
  | [], _ :: _, h => by simp at h
  | _ :: _, [], h => by simp at h
  | p :: ps, q :: qs, h => by
    simp only [List.map_cons, List.cons.injEq] at h
    rw [List.append_cancel_right h.1, map_any_inj ps qs h.2]

/-- Go: `[A any, B any]` -/
theorem goClause_inj (ps qs : List Str) (hp : ∀ p ∈ ps, Clean p) (hq : ∀ q ∈ qs, Clean q)
    (h : goClause ps = goClause qs) : ps = qs := by
  have clean : ∀ l : List Str, (∀ p ∈ l, Clean p) → ∀ x ∈ l.map (· ++ s%" any"), Clean x := by
    intro l hl x hx
    obtain ⟨p, hpl, rfl⟩ := List.mem_map.1 hx
    refine ⟨by simp, ?_⟩
    intro hm
    rcases List.mem_append.1 hm with hm | hm
    · exact (hl p hpl).2 hm
    · simp at hm
  apply map_any_inj
  apply wrapped_inj s%"[" s%"]" (by simp) _ _ (clean ps hp) (clean qs hq)
  simpa [goClause] using h

/-! ## Python: the type variables a class registers -/

theorem mem_foldl_addTypeVar (x : Str) : ∀ (gs : List Str) (st : Python.St),
    x ∈ (gs.foldl Python.addTypeVar st).typeVars ↔ x ∈ gs ∨ x ∈ st.typeVars
  | [], st => by simp
  | g :: gs, st => by
    rw [List.foldl_cons, mem_foldl_addTypeVar x gs]
    simp only [Python.addTypeVar, Python.setInsert, C12L.mem_insertSorted_iff, C12_Modules.Py.tv_addImport, List.mem_cons]
    constructor
    · rintro (h | h | h)
      · exact .inl (.inr h)
      · exact .inl (.inl h)
      · exact .inr h
    · rintro ((h | h) | h)
      · exact .inr (.inl h)
      · exact .inl h
      · exact .inr (.inr h)

/-- **the type variables after a class is written are those before plus the class's parameters** — a
sorted set, so the `X = TypeVar("X")` lines of the header are in name order whatever the declaration
order; the order of the `Generic[...]` base is the declaration order -/
theorem python_typeVars (E : Ext) (c : Python.Cfg) (rs : RustStruct) (st st' : Python.St) (d : Python.PyClass)
    (h : Python.structFacts E c rs st = .ok (d, st')) (x : Str) :
    x ∈ st'.typeVars ↔ x ∈ rs.genericTypes ∨ x ∈ st.typeVars := by
  unfold Python.structFacts at h
  obtain ⟨⟨fields, st1⟩, hf, h⟩ := bindOk h
  cases h
  rw [C12_Modules.Py.fieldsFacts_tv E c _ _ _ _ _ hf]
  have e : ∀ (s : Python.St), (if (List.any rs.fields fun f => Python.propertyAwareRename E f.id.original != f.id.renamed) = true
      then Python.addImport s Python.kPydantic s%"ConfigDict" else s).typeVars = s.typeVars := by
    intro s; split <;> rfl
  have e2 : ∀ (s : Python.St), (if rs.genericTypes.isEmpty = true then s
      else Python.addImport s Python.kTyping s%"Generic").typeVars = s.typeVars := by
    intro s; split <;> rfl
  rw [e, e2, mem_foldl_addTypeVar]
  rfl

end TsV.C05_DefinitionGenerics
