import TsV.Lemmas.C03_EmptiedVariants
import TsV.Lemmas.Capstone_Run
import TsV.Props.C05_HelperGenerics
/-!
# C03_EmptiedVariants — a struct variant that keeps no field is still a variant, and its helper struct
is still written

C03: "one foreign type per annotated item … plus the helper types a backend derives from an enum's
struct variants"; "each generated type lists exactly the source … variants that are not marked skip".
A struct variant written `V {}`, or all of whose fields carry `serde(skip)` / `typeshare(skip)`, is
itself not skipped: it is a variant of the generated type, and — for the five back ends that write a
helper struct `<Enum><Variant>Inner` for every struct variant — the enum's text refers to that helper,
so the helper has to be written although it has nothing in it.

* `emptied_variant_parsed`, `emptied_variant_kept` — the parser keeps such a variant as
  `.anonymousStruct id comments []`, at its place among the non-skipped variants.
* `helper_always_built` — the model of `write_types_for_anonymous_structs` on a variant without
  fields: each of the five back ends builds the helper record unconditionally (no error path: Kotlin
  `object`, Swift `struct` with an empty `init`, Scala `class … extends Serializable`, Go
  `type … struct {}`, Python `class …(BaseModel): pass`), with the texts `helper_text`; TypeScript
  prints the member inline (`content: {}`), `typescript_member`; `case_always_built` — and the
  enum's case for the variant, which refers to the helper.
* `inner_names_defined_kotlin / swift / scala / go / python` — in the block written for a tagged enum,
  for **every** struct variant, kept fields or not: the case refers to `<Enum><Variant>Inner` and the
  same block contains, at the start of a line, the defining keyword followed by exactly that name
  (`DefinesHead`).
* `helpers_in_file_*` (with `C03_Emission`) — in the one output file of a run, every struct variant of
  every emitted enum has its helper definition; `emptied_helper_in_file_*` — from the *source*: an
  annotated enum with a non-skipped variant that keeps no field, in a file that is generated at all,
  has `object <prefix><Enum><Variant>Inner` (…) in the output.
* `C03_EmptiedVariants : C03_EmptiedVariants_full`.

Nothing is false on the model.
-/
namespace TsV.C03_EmptiedVariants
open TsV TsV.Syn TsV.Parser TsV.Pipeline TsV.Generate TsV.Lang TsV.C03E TsV.Outcome

/-! ## 1. the parser -/

/-- **a struct variant none of whose fields is kept parses to a struct variant without fields**
(as long as its name does: `getIdent`) — never to a unit variant, never to an error of its own -/
theorem emptied_variant_parsed (E : Ext) (T : List Str) (ra : Option Str) (v : Variant) (h : Emptied T v) :
    parseEnumVariant E T ra v =
      (getIdent E (some v.ident) v.attrs ra).bind fun id =>
        .ok (.anonymousStruct id (parseCommentAttrs E v.attrs) []) :=
  parseVariant_emptied E T ra v h

/-- **… and the parsed enum has it**: for an enum that parses, each non-skipped source variant that
keeps no field is a `.anonymousStruct _ _ []` of `e.variants` (at the position `C03.enum_variants_exact`
gives), hence one of its `structVariants` -/
theorem emptied_variant_kept (E : Ext) (T : List Str) (attrs : List Attr) (ident : Str) (gens : List GenericParam)
    (vs : List Variant) (e : RustEnum) (hsa : getSerializedAsType E attrs = none)
    (h : parseEnum E T attrs ident gens vs = .ok (.enum e)) (v : Variant) (hv : v ∈ vs)
    (hns : isSkipped v.attrs T = false) (hem : Emptied T v) :
    ∃ id : Id, id.original = C03.origOf (some v.ident) ∧
      RustEnumVariant.anonymousStruct id (parseCommentAttrs E v.attrs) [] ∈ e.variants ∧
      (id, ([] : List RustField)) ∈ structVariants e := by
  unfold parseEnum at h
  simp only [hsa] at h
  obtain ⟨rvs, hm, h⟩ := (bind_eq_ok _ _ _).1 h
  obtain ⟨id0, _, h⟩ := (bind_eq_ok _ _ _).1 h
  have hvar : e.variants = rvs := by
    unfold enumShape at h
    repeat' split at h
    all_goals first | (simp at h; subst h; rfl) | simp at h
  have hvf : v ∈ vs.filter fun v => !isSkipped v.attrs T := List.mem_filter.2 ⟨hv, by simp [hns]⟩
  obtain ⟨k, hk⟩ := List.getElem?_of_mem hvf
  obtain ⟨hk1, hk2⟩ := List.getElem?_eq_some_iff.1 hk
  have hlen := mapM'_ok_length _ _ _ hm
  have hr := mapM'_ok_forall₂ _ _ _ hm k hk1 (by rw [hlen]; exact hk1)
  rw [hk2, emptied_variant_parsed E T _ v hem] at hr
  obtain ⟨id, hid, hr⟩ := C09.bindOk hr
  simp only [Outcome.ok.injEq] at hr
  have hmem : RustEnumVariant.anonymousStruct id (parseCommentAttrs E v.attrs) [] ∈ e.variants := by
    rw [hvar, hr]; exact List.getElem_mem _
  refine ⟨id, C03.getIdent_original E _ _ _ _ hid, hmem, ?_⟩
  simp only [structVariants, List.mem_filterMap]
  exact ⟨_, hmem, rfl⟩

/-- reconciliation keeps it: the enum the back end receives has the same struct variant without fields -/
theorem emptied_variant_reconciled (c : Str) (r : Renames) (e : RustEnum) (id : Id)
    (h : (id, ([] : List RustField)) ∈ structVariants e) :
    (id, ([] : List RustField)) ∈ structVariants (Cap.recEnum c r e) := by
  simp only [structVariants, List.mem_filterMap] at h ⊢
  obtain ⟨v, hv, hve⟩ := h
  refine ⟨checkVariant c r [] v, List.mem_map.2 ⟨v, hv, rfl⟩, ?_⟩
  cases v with
  | unit i cs => simp at hve
  | tuple i cs t => simp at hve
  | anonymousStruct i cs fs =>
    simp only [Option.some.injEq, Prod.mk.injEq] at hve
    obtain ⟨rfl, rfl⟩ := hve
    rfl

/-! ## 2. `write_types_for_anonymous_structs` on a variant without fields -/

/-- **the helper struct of a variant without fields is always built** — each back end's
`write_struct` on `anonymousStruct e n v []` returns a record, whatever the enum, the configuration
and the printer state (Go: whenever its acronym pass does not panic on the name) -/
theorem helper_always_built (e : RustEnum) (n v : Str) :
    (∀ c : Kotlin.Cfg, Kotlin.structFacts c (anonymousStruct e n v []) =
      .ok (.object (anonymousStruct e n v []).comments (c.pfx ++ n))) ∧
    (∀ (U : UnicodeOps) (c : Swift.Cfg) (st : Swift.St), Swift.structFacts U c (anonymousStruct e n v []) st =
      .ok ({ comments := (anonymousStruct e n v []).comments, name := Swift.kw (c.pfx ++ n), generics := [],
             conformances := Swift.structConformances c e.decorators, props := [], codingKeys := [],
             explicitCodingKeys := false, initParams := [], initAssigns := [] }, st)) ∧
    (∀ c : Scala.Cfg, Scala.classFacts c (anonymousStruct e n v []) =
      .ok { comments := (anonymousStruct e n v []).comments, name := n, generics := [], params := [] }) ∧
    (∀ (U : UnicodeOps) (c : Go.Cfg) (st : Go.Imports), Go.structFacts U c (anonymousStruct e n v []) st =
      (Go.acr U c n).bind fun name =>
        .ok ({ comments := (anonymousStruct e n v []).comments, name, generics := [], fields := [] }, st)) ∧
    (∀ (E : Ext) (c : Python.Cfg) (st : Python.St), Python.structFacts E c (anonymousStruct e n v []) st =
      .ok ({ name := n, generics := [], comments := (anonymousStruct e n v []).comments, modelConfig := false,
             fields := [] }, Python.addImport st Python.kPydantic s%"BaseModel")) :=
  ⟨fun c => kotlin_helper_nil c e n v, fun U c st => swift_helper_nil U c e n v st, fun c => scala_helper_nil c e n v,
   fun U c st => go_helper_nil U c e n v st, fun E c st => python_helper_nil E c e n v st⟩

/-- the text of these records (`cs` = the one generated doc comment of the helper) -/
theorem helper_text (cs : List Str) (n : Str) :
    Kotlin.renderDecl (.object cs n) = Kotlin.comments 0 cs ++ s%"@Serializable\nobject " ++ n ++ s%"\n\n" ∧
    (∀ (U : UnicodeOps) (cf : List Str),
      Swift.renderStruct U { comments := cs, name := n, generics := [], conformances := cf, props := [], codingKeys := [],
                             explicitCodingKeys := false, initParams := [], initAssigns := [] } =
        s%"\n" ++ Swift.comments U 0 cs ++ s%"public struct " ++ n ++ s%": " ++ Str.intercalate s%", " cf ++
          s%" {\n\tpublic init() {}\n}\n") ∧
    Scala.renderClass { comments := cs, name := n, generics := [], params := [] } =
      Scala.comments 0 cs ++ s%"class " ++ n ++ s%" extends Serializable\n\n" ∧
    Go.renderStruct { comments := cs, name := n, generics := [], fields := [] } =
      Go.comments 0 cs ++ s%"type " ++ n ++ s%" struct {\n}\n" ∧
    Python.renderClass { name := n, generics := [], comments := cs, modelConfig := false, fields := [] } =
      s%"class " ++ n ++ s%"(BaseModel):\n" ++ Python.docstring 1 cs ++ s%"    pass\n" := by
  refine ⟨by simp [Kotlin.renderDecl, List.append_assoc], fun U cf => ?_, ?_, ?_, ?_⟩
  · simp [Swift.renderStruct, Swift.renderGenericClause, Str.intercalate, nl, List.append_assoc]
  · simp [Scala.renderClass, List.append_assoc]
  · simp [Go.renderStruct, List.append_assoc]
  · simp [Python.renderClass, nl, List.append_assoc]

/-- **… and so is the enum's case for the variant**, which refers to the helper by name: Kotlin
`data class V<…>(val c: <prefix>EVInner): E<…>()`, Swift `case v(<prefix>EVInner)`, Scala
`case class V[…](c: EVInner) extends E[…]`, Python `c: EVInner` -/
theorem case_always_built (e : RustEnum) (id : Id) (cs : List Str) :
    (∀ (c : Kotlin.Cfg) (key : Str), ∃ k, Kotlin.caseFacts c e key (.anonymousStruct id cs []) = .ok k ∧
      k.payload = .inner key (c.pfx ++ e.id.renamed ++ id.original ++ s%"Inner") [] ∧ k.serialName = id.renamed) ∧
    (∀ (U : UnicodeOps) (c : Swift.Cfg) (st : Swift.St), ∃ k, Swift.algebraicCase U c e (.anonymousStruct id cs []) st = .ok (k, st) ∧
      k.payload = some ⟨c.pfx ++ Swift.anonymousStructName e id.original, false⟩ ∧ k.wireName = id.renamed) ∧
    (∀ (c : Scala.Cfg) (kc : Str × Str), e.keys = some kc → ∃ k, Scala.caseFacts c e (.anonymousStruct id cs []) = .ok k ∧
      k.content = some (e.genericTypes, kc.2, e.id.renamed ++ id.original ++ s%"Inner") ∧ k.serialName = id.renamed) ∧
    (∀ (E : Ext) (c : Python.Cfg) (tag content : Str) (st : Python.St), ∃ k st',
      Python.variantFacts E c e tag content (.anonymousStruct id cs []) st = .ok (k, st') ∧
      k.contentType = some (Python.innerName e id.original) ∧ k.wire = id.renamed) := by
  refine ⟨fun c key => ⟨_, rfl, rfl, rfl⟩, fun U c st => ⟨_, rfl, ?_, rfl⟩, fun c kc hk => ?_, fun E c tag content st => ⟨_, _, rfl, rfl, rfl⟩⟩
  · simp [genericSuffix]
  · refine ⟨_, by simp only [Scala.caseFacts, hk]; rfl, ?_, rfl⟩
    simp [Scala.usedGenerics, Scala.genericSq]

/-- TypeScript writes no helper: the member of the union is printed inline, with an empty object type -/
theorem typescript_member (c : TypeScript.Cfg) (e : RustEnum) (tag content : Str) (id : Id) (cs : List Str)
    (st : TypeScript.CustomMap) :
    TypeScript.writeVariant c e tag content (.anonymousStruct id cs []) st =
      .ok (nl ++ TypeScript.comments 1 cs ++ s%"\t| { " ++ tag ++ s%": " ++ debugStr id.renamed ++ s%", " ++ content ++
            s%": {\n" ++ [] ++ s%"}}", st) := rfl

/-! ## 3. every `…Inner` name the enum's text mentions is defined in the same text -/

/-- **Kotlin**: for every struct variant of a tagged enum — with or without fields — the block of the
enum contains the reference `: <name><args>)` and a chunk that defines `<name>` -/
theorem inner_names_defined_kotlin (c : Kotlin.Cfg) (e : RustEnum) (kc : Str × Str) (hk : e.keys = some kc) (b : Str)
    (h : C03E.Kt.writeItem c (.enum e) = .ok b) (id : Id) (fs : List RustField) (hp : (id, fs) ∈ structVariants e) :
    (s%": " ++ (c.pfx ++ e.id.renamed ++ id.original ++ s%"Inner") ++
        genericSuffix (C09_HelperParams.helperGens e fs) ++ s%")") <:+: b ∧
    ∃ chunk, chunk <:+: b ∧
      DefinesHead (ktStructKw fs) (c.pfx ++ (e.id.renamed ++ id.original ++ s%"Inner")) chunk := by
  refine ⟨(C05_HelperGenerics.Kt.block_sites c e kc hk b h (id, fs) hp).2, ?_⟩
  exact splitsInto_mem (C03E.Kt.block_defines c _ b h) (ktStructKw fs, c.pfx ++ (e.id.renamed ++ id.original ++ s%"Inner"))
    (by simp only [ktDefs, List.mem_append, List.mem_map]; exact .inl ⟨(id, fs), hp, rfl⟩)

theorem inner_names_defined_swift (U : UnicodeOps) (c : Swift.Cfg) (e : RustEnum) (kc : Str × Str) (hk : e.keys = some kc)
    (st st' : Swift.St) (b : Str) (h : Swift.writeItem U c (.enum e) st = .ok (b, st')) (id : Id) (fs : List RustField)
    (hp : (id, fs) ∈ structVariants e) :
    (s%"(" ++ (c.pfx ++ Swift.anonymousStructName e id.original ++ genericSuffix (C09_HelperParams.helperGens e fs)) ++
        s%")\n") <:+: b ∧
    ∃ chunk, chunk <:+: b ∧
      DefinesHead s%"public struct " (c.pfx ++ (e.id.renamed ++ id.original ++ s%"Inner")) chunk := by
  refine ⟨(C05_HelperGenerics.Sw.block_sites U c e kc hk st st' b h (id, fs) hp).2, ?_⟩
  have := splitsInto_mem (C03E.Sw.block_defines U c _ st b st' h)
    (s%"public struct ", Swift.kw (c.pfx ++ (e.id.renamed ++ id.original ++ s%"Inner")))
    (by simp only [swDefs, List.mem_append, List.mem_map]; exact .inl ⟨(id, fs), hp, rfl⟩)
  have hkw : Swift.kw (c.pfx ++ (e.id.renamed ++ id.original ++ s%"Inner")) = c.pfx ++ (e.id.renamed ++ id.original ++ s%"Inner") := by
    have := C05_HelperGenerics.Sw.kw_inner (c.pfx ++ e.id.renamed ++ id.original)
    simpa [List.append_assoc] using this
  rwa [hkw] at this

theorem inner_names_defined_scala (c : Scala.Cfg) (e : RustEnum) (kc : Str × Str) (hk : e.keys = some kc) (b : Str)
    (h : C03E.Sc.writeItem c (.enum e) = .ok b) (id : Id) (fs : List RustField) (hp : (id, fs) ∈ structVariants e) :
    (s%": " ++ (e.id.renamed ++ id.original ++ s%"Inner" ++ Scala.genericSq (C09_HelperParams.helperGens e fs)) ++ s%")") <:+: b ∧
    ∃ chunk, chunk <:+: b ∧ DefinesHead (scStructKw fs) (e.id.renamed ++ id.original ++ s%"Inner") chunk := by
  refine ⟨(C05_HelperGenerics.Sc.block_sites c e kc hk b h (id, fs) hp).2, ?_⟩
  exact splitsInto_mem (C03E.Sc.block_defines c _ b h) (scStructKw fs, e.id.renamed ++ id.original ++ s%"Inner")
    (by simp only [scDefs, List.mem_append, List.mem_map]; exact .inl ⟨(id, fs), hp, rfl⟩)

/-- **Go** (no `uppercase_acronyms`): the variant's payload type is `<Enum><Variant>Inner` (Rust names)
and the block defines `type <Enum><Variant>Inner` -/
theorem inner_names_defined_go (U : UnicodeOps) (c : Go.Cfg) (hc : c.uppercaseAcronyms = []) (e : RustEnum)
    (cs : List Str) (st st' : Go.Imports) (b : Str) (h : Go.writeItem U c cs (.enum e) st = .ok (b, st'))
    (id : Id) (fs : List RustField) (hp : (id, fs) ∈ structVariants e) :
    (∀ (sn tag : Str) (cm : List Str) (s1 s2 : Go.Imports) (g : Go.GoAlgVariant),
      Go.algVariant U c e sn tag cs (.anonymousStruct id cm fs) s1 = .ok (g, s2) →
      g.payload = some ⟨e.id.original ++ id.original ++ s%"Inner", true⟩) ∧
    ∃ chunk, chunk <:+: b ∧ DefinesHead s%"type " (e.id.original ++ id.original ++ s%"Inner") chunk := by
  refine ⟨fun sn tag cm s1 s2 g hg => (C09_HelperParams.go_python_use_site_bare.1 U c hc e sn tag cs id cm fs s1 s2 g hg), ?_⟩
  obtain ⟨defs, hd, hs⟩ := C03E.Go.block_defines U c cs _ st b st' h
  refine splitsInto_mem hs (s%"type ", e.id.original ++ id.original ++ s%"Inner") ?_
  have hacr := C09.go_acr U c hc
  have hfun : (fun (p : Id × List RustField) =>
      (Go.acr U c (e.id.original ++ p.1.original ++ s%"Inner")).bind (Go.acr U c)) =
      fun p => .ok (e.id.original ++ p.1.original ++ s%"Inner") := by
    funext p; simp only [hacr, Outcome.bind_ok]
  have hinner : Outcome.mapM' (fun (p : Id × List RustField) =>
      (Go.acr U c (e.id.original ++ p.1.original ++ s%"Inner")).bind (Go.acr U c)) (structVariantsOf e) =
      .ok ((structVariantsOf e).map fun p => e.id.original ++ p.1.original ++ s%"Inner") := by
    rw [hfun]; exact mapM'_pure _ _
  simp only [goDefs] at hd
  rw [hinner] at hd
  simp only [hacr, Outcome.bind_ok] at hd
  have hm : (s%"type ", e.id.original ++ id.original ++ s%"Inner") ∈
      ((structVariantsOf e).map fun p => e.id.original ++ p.1.original ++ s%"Inner").map (fun i => (s%"type ", i)) :=
    List.mem_map.2 ⟨_, List.mem_map.2 ⟨(id, fs), hp, rfl⟩, rfl⟩
  cases hk : e.keys with
  | none => simp only [hk, Outcome.ok.injEq] at hd; subst hd; exact List.mem_append_left _ hm
  | some kc => simp only [hk, Outcome.ok.injEq] at hd; subst hd; exact List.mem_append_left _ hm

/-- **Python**: the variant class's content type is `<Enum><Variant>Inner` and the block defines
`class <Enum><Variant>Inner` -/
theorem inner_names_defined_python (E : Ext) (c : Python.Cfg) (e : RustEnum) (st st' : Python.St) (b : Str)
    (h : Python.writeItem E c (.enum e) st = .ok (b, st')) (id : Id) (fs : List RustField)
    (hp : (id, fs) ∈ structVariants e) :
    (∀ (tag content : Str) (cm : List Str) (s1 s2 : Python.St) (v : Python.PyVariant),
      Python.variantFacts E c e tag content (.anonymousStruct id cm fs) s1 = .ok (v, s2) →
      v.contentType = some (e.id.renamed ++ id.original ++ s%"Inner")) ∧
    ∃ chunk, chunk <:+: b ∧ DefinesHead s%"class " (e.id.renamed ++ id.original ++ s%"Inner") chunk := by
  refine ⟨fun tag content cm s1 s2 v hv => (C09_HelperParams.go_python_use_site_bare.2 E c e tag content id cm fs s1 s2 v hv), ?_⟩
  exact splitsInto_mem (C03E.Py.block_defines E c _ st b st' h) (s%"class ", e.id.renamed ++ id.original ++ s%"Inner")
    (by simp only [pyDefs, List.mem_append, List.mem_map]; exact .inl ⟨(id, fs), hp, rfl⟩)

/-! ## 4. lifted to the output file of a run (with `C03_Emission`) -/

/-- **Kotlin**: in the output of a single-file run, every struct variant of every enum handed to the
back end has its helper definition -/
theorem helpers_in_file_kotlin (E : Ext) (cfg : Kotlin.Cfg) (targetOs : List Str)
    (pick : List ImportedType → Option ImportedType) (f : SourceFile) (outs : List (Str × Str))
    (h : run E (.kotlin cfg) false targetOs pick [f] = .ok (.outputs outs)) (e : RustEnum)
    (he : RustItem.enum e ∈ C03_Emission.emitted E (.kotlin cfg) targetOs f) (id : Id) (fs : List RustField)
    (hp : (id, fs) ∈ structVariants e) :
    ∃ text chunk, outs = [(f.crateName, text)] ∧ chunk <:+: text ∧
      DefinesHead (ktStructKw fs) (cfg.pfx ++ (e.id.renamed ++ id.original ++ s%"Inner")) chunk := by
  obtain ⟨_, _, _, h4⟩ := C03_Emission.C03_Emission E (.kotlin cfg) targetOs pick f outs h
  obtain ⟨items, blocks, header, mid, footer, text, n, ho, hperm, _, htext, hpair⟩ := h4 (fun hn => by rw [hn] at he; cases he)
  obtain ⟨chunk, hc, hd⟩ := defs_in_text (defs := ktDefs cfg) hpair n header mid footer (.enum e) (hperm.symm.subset he)
    (ktStructKw fs, cfg.pfx ++ (e.id.renamed ++ id.original ++ s%"Inner"))
    (by simp only [ktDefs, List.mem_append, List.mem_map]; exact .inl ⟨(id, fs), hp, rfl⟩)
  exact ⟨text, chunk, ho, htext ▸ hc, hd⟩

theorem helpers_in_file_swift (E : Ext) (cfg : Swift.Cfg) (targetOs : List Str)
    (pick : List ImportedType → Option ImportedType) (f : SourceFile) (outs : List (Str × Str))
    (h : run E (.swift cfg) false targetOs pick [f] = .ok (.outputs outs)) (e : RustEnum)
    (he : RustItem.enum e ∈ C03_Emission.emitted E (.swift cfg) targetOs f) (id : Id) (fs : List RustField)
    (hp : (id, fs) ∈ structVariants e) :
    ∃ text chunk, outs = [(f.crateName, text)] ∧ chunk <:+: text ∧
      DefinesHead s%"public struct " (Swift.kw (cfg.pfx ++ (e.id.renamed ++ id.original ++ s%"Inner"))) chunk := by
  obtain ⟨_, _, _, h4⟩ := C03_Emission.C03_Emission E (.swift cfg) targetOs pick f outs h
  obtain ⟨items, blocks, header, mid, footer, text, n, ho, hperm, _, htext, hpair⟩ := h4 (fun hn => by rw [hn] at he; cases he)
  obtain ⟨chunk, hc, hd⟩ := defs_in_text (defs := swDefs cfg) hpair n header mid footer (.enum e) (hperm.symm.subset he)
    (s%"public struct ", Swift.kw (cfg.pfx ++ (e.id.renamed ++ id.original ++ s%"Inner")))
    (by simp only [swDefs, List.mem_append, List.mem_map]; exact .inl ⟨(id, fs), hp, rfl⟩)
  exact ⟨text, chunk, ho, htext ▸ hc, hd⟩

theorem helpers_in_file_scala (E : Ext) (cfg : Scala.Cfg) (targetOs : List Str)
    (pick : List ImportedType → Option ImportedType) (f : SourceFile) (outs : List (Str × Str))
    (h : run E (.scala cfg) false targetOs pick [f] = .ok (.outputs outs)) (e : RustEnum)
    (he : RustItem.enum e ∈ C03_Emission.emitted E (.scala cfg) targetOs f) (id : Id) (fs : List RustField)
    (hp : (id, fs) ∈ structVariants e) :
    ∃ text chunk, outs = [(f.crateName, text)] ∧ chunk <:+: text ∧
      DefinesHead (scStructKw fs) (e.id.renamed ++ id.original ++ s%"Inner") chunk := by
  obtain ⟨_, _, _, h4⟩ := C03_Emission.C03_Emission E (.scala cfg) targetOs pick f outs h
  obtain ⟨items, blocks, header, mid, footer, text, n, ho, hperm, _, htext, hpair⟩ := h4 (fun hn => by rw [hn] at he; cases he)
  obtain ⟨chunk, hc, hd⟩ := defs_in_text (defs := scDefs) hpair n header mid footer (.enum e) (hperm.symm.subset he)
    (scStructKw fs, e.id.renamed ++ id.original ++ s%"Inner")
    (by simp only [scDefs, List.mem_append, List.mem_map]; exact .inl ⟨(id, fs), hp, rfl⟩)
  exact ⟨text, chunk, ho, htext ▸ hc, hd⟩

theorem helpers_in_file_python (E : Ext) (cfg : Python.Cfg) (targetOs : List Str)
    (pick : List ImportedType → Option ImportedType) (f : SourceFile) (outs : List (Str × Str))
    (h : run E (.python cfg) false targetOs pick [f] = .ok (.outputs outs)) (e : RustEnum)
    (he : RustItem.enum e ∈ C03_Emission.emitted E (.python cfg) targetOs f) (id : Id) (fs : List RustField)
    (hp : (id, fs) ∈ structVariants e) :
    ∃ text chunk, outs = [(f.crateName, text)] ∧ chunk <:+: text ∧
      DefinesHead s%"class " (e.id.renamed ++ id.original ++ s%"Inner") chunk := by
  obtain ⟨_, _, _, h4⟩ := C03_Emission.C03_Emission E (.python cfg) targetOs pick f outs h
  obtain ⟨items, blocks, header, mid, footer, text, n, ho, hperm, _, htext, hpair⟩ := h4 (fun hn => by rw [hn] at he; cases he)
  obtain ⟨chunk, hc, hd⟩ := defs_in_text (defs := pyDefs E) hpair n header mid footer (.enum e) (hperm.symm.subset he)
    (s%"class ", e.id.renamed ++ id.original ++ s%"Inner")
    (by simp only [pyDefs, List.mem_append, List.mem_map]; exact .inl ⟨(id, fs), hp, rfl⟩)
  exact ⟨text, chunk, ho, htext ▸ hc, hd⟩

/-- Go: the names go through the acronym pass (an `Outcome`); whatever it returns for the helper of
`(id, fs)`, that name is defined in the file -/
theorem helpers_in_file_go (E : Ext) (cfg : Go.Cfg) (targetOs : List Str)
    (pick : List ImportedType → Option ImportedType) (f : SourceFile) (outs : List (Str × Str))
    (h : run E (.go cfg) false targetOs pick [f] = .ok (.outputs outs)) (e : RustEnum)
    (he : RustItem.enum e ∈ C03_Emission.emitted E (.go cfg) targetOs f) :
    ∃ text defs, outs = [(f.crateName, text)] ∧ goDefs E.U cfg (.enum e) = .ok defs ∧
      (structVariants e).length + 1 ≤ defs.length ∧
      ∀ d ∈ defs, ∃ chunk, chunk <:+: text ∧ DefinesHead d.1 d.2 chunk := by
  obtain ⟨_, _, _, h4⟩ := C03_Emission.C03_Emission E (.go cfg) targetOs pick f outs h
  obtain ⟨items, blocks, header, mid, footer, text, n, ho, hperm, _, htext, hpair⟩ := h4 (fun hn => by rw [hn] at he; cases he)
  obtain ⟨k, hk⟩ := List.getElem?_of_mem (hperm.symm.subset he)
  obtain ⟨b, hb, defs, hd, hs⟩ := hpair.nth k _ hk
  refine ⟨text, defs, ho, hd, ?_, fun d hdm => ?_⟩
  · simp only [goDefs] at hd
    obtain ⟨inner, hi, hd⟩ := C09.bindOk hd
    obtain ⟨nm, _, hd⟩ := C09.bindOk hd
    have hl : inner.length = (structVariants e).length := by
      have := Outcome.mapM'_ok_length _ _ _ hi
      simpa [structVariantsOf_eq] using this
    cases hke : e.keys with
    | none => simp only [hke, Outcome.ok.injEq] at hd; subst hd; simp [hl]
    | some kc =>
      simp only [hke] at hd
      obtain ⟨t, _, hd⟩ := C09.bindOk hd
      simp only [Outcome.ok.injEq] at hd; subst hd; simp [hl]
  · obtain ⟨chunk, hc, hdh⟩ := splitsInto_mem hs d hdm
    exact ⟨chunk, htext ▸ hc.trans (block_infix_text (List.mem_of_getElem? hb) n header mid footer), hdh⟩

/-- **from the source, Kotlin**: an annotated enum of the file that parses, a non-skipped variant of it
that keeps no field — the output of the run (there is one: the file has this item) contains
`object <prefix><Enum><Variant>Inner` at the start of a line -/
theorem emptied_helper_in_file_kotlin (E : Ext) (cfg : Kotlin.Cfg) (targetOs : List Str)
    (pick : List ImportedType → Option ImportedType) (f : SourceFile) (outs : List (Str × Str))
    (h : run E (.kotlin cfg) false targetOs pick [f] = .ok (.outputs outs))
    (attrs : List Attr) (ident : Str) (gens : List GenericParam) (vs : List Variant) (e : RustEnum)
    (hsrc : Item.enum attrs ident gens vs ∈ sourceItems (ctxOf (.kotlin cfg) targetOs) f.file)
    (hsa : getSerializedAsType E attrs = none) (hparse : parseEnum E targetOs attrs ident gens vs = .ok (.enum e))
    (v : Variant) (hv : v ∈ vs) (hns : isSkipped v.attrs targetOs = false) (hem : Emptied targetOs v) :
    ∃ text chunk, outs = [(f.crateName, text)] ∧ chunk <:+: text ∧
      DefinesHead s%"object " (cfg.pfx ++ (e.id.renamed ++ C03.origOf (some v.ident) ++ s%"Inner")) chunk := by
  obtain ⟨id, hid, _, hsv⟩ := emptied_variant_kept E targetOs attrs ident gens vs e hsa hparse v hv hns hem
  have hmem := Cap.mem_emitted E (.kotlin cfg) targetOs f hsrc (by rw [Cap.parseItem_enum]; exact hparse)
  rw [Cap.recItem_enum] at hmem
  have := helpers_in_file_kotlin E cfg targetOs pick f outs h _ hmem id [] (emptied_variant_reconciled _ _ e id hsv)
  rw [hid] at this
  exact this

theorem emptied_helper_in_file_swift (E : Ext) (cfg : Swift.Cfg) (targetOs : List Str)
    (pick : List ImportedType → Option ImportedType) (f : SourceFile) (outs : List (Str × Str))
    (h : run E (.swift cfg) false targetOs pick [f] = .ok (.outputs outs))
    (attrs : List Attr) (ident : Str) (gens : List GenericParam) (vs : List Variant) (e : RustEnum)
    (hsrc : Item.enum attrs ident gens vs ∈ sourceItems (ctxOf (.swift cfg) targetOs) f.file)
    (hsa : getSerializedAsType E attrs = none) (hparse : parseEnum E targetOs attrs ident gens vs = .ok (.enum e))
    (v : Variant) (hv : v ∈ vs) (hns : isSkipped v.attrs targetOs = false) (hem : Emptied targetOs v) :
    ∃ text chunk, outs = [(f.crateName, text)] ∧ chunk <:+: text ∧
      DefinesHead s%"public struct " (Swift.kw (cfg.pfx ++ (e.id.renamed ++ C03.origOf (some v.ident) ++ s%"Inner"))) chunk := by
  obtain ⟨id, hid, _, hsv⟩ := emptied_variant_kept E targetOs attrs ident gens vs e hsa hparse v hv hns hem
  have hmem := Cap.mem_emitted E (.swift cfg) targetOs f hsrc (by rw [Cap.parseItem_enum]; exact hparse)
  rw [Cap.recItem_enum] at hmem
  have := helpers_in_file_swift E cfg targetOs pick f outs h _ hmem id [] (emptied_variant_reconciled _ _ e id hsv)
  rw [hid] at this
  exact this

theorem emptied_helper_in_file_scala (E : Ext) (cfg : Scala.Cfg) (targetOs : List Str)
    (pick : List ImportedType → Option ImportedType) (f : SourceFile) (outs : List (Str × Str))
    (h : run E (.scala cfg) false targetOs pick [f] = .ok (.outputs outs))
    (attrs : List Attr) (ident : Str) (gens : List GenericParam) (vs : List Variant) (e : RustEnum)
    (hsrc : Item.enum attrs ident gens vs ∈ sourceItems (ctxOf (.scala cfg) targetOs) f.file)
    (hsa : getSerializedAsType E attrs = none) (hparse : parseEnum E targetOs attrs ident gens vs = .ok (.enum e))
    (v : Variant) (hv : v ∈ vs) (hns : isSkipped v.attrs targetOs = false) (hem : Emptied targetOs v) :
    ∃ text chunk, outs = [(f.crateName, text)] ∧ chunk <:+: text ∧
      DefinesHead s%"class " (e.id.renamed ++ C03.origOf (some v.ident) ++ s%"Inner") chunk := by
  obtain ⟨id, hid, _, hsv⟩ := emptied_variant_kept E targetOs attrs ident gens vs e hsa hparse v hv hns hem
  have hmem := Cap.mem_emitted E (.scala cfg) targetOs f hsrc (by rw [Cap.parseItem_enum]; exact hparse)
  rw [Cap.recItem_enum] at hmem
  have := helpers_in_file_scala E cfg targetOs pick f outs h _ hmem id [] (emptied_variant_reconciled _ _ e id hsv)
  rw [hid] at this
  exact this

theorem emptied_helper_in_file_python (E : Ext) (cfg : Python.Cfg) (targetOs : List Str)
    (pick : List ImportedType → Option ImportedType) (f : SourceFile) (outs : List (Str × Str))
    (h : run E (.python cfg) false targetOs pick [f] = .ok (.outputs outs))
    (attrs : List Attr) (ident : Str) (gens : List GenericParam) (vs : List Variant) (e : RustEnum)
    (hsrc : Item.enum attrs ident gens vs ∈ sourceItems (ctxOf (.python cfg) targetOs) f.file)
    (hsa : getSerializedAsType E attrs = none) (hparse : parseEnum E targetOs attrs ident gens vs = .ok (.enum e))
    (v : Variant) (hv : v ∈ vs) (hns : isSkipped v.attrs targetOs = false) (hem : Emptied targetOs v) :
    ∃ text chunk, outs = [(f.crateName, text)] ∧ chunk <:+: text ∧
      DefinesHead s%"class " (e.id.renamed ++ C03.origOf (some v.ident) ++ s%"Inner") chunk := by
  obtain ⟨id, hid, _, hsv⟩ := emptied_variant_kept E targetOs attrs ident gens vs e hsa hparse v hv hns hem
  have hmem := Cap.mem_emitted E (.python cfg) targetOs f hsrc (by rw [Cap.parseItem_enum]; exact hparse)
  rw [Cap.recItem_enum] at hmem
  have := helpers_in_file_python E cfg targetOs pick f outs h _ hmem id [] (emptied_variant_reconciled _ _ e id hsv)
  rw [hid] at this
  exact this

/-! ## the statement at full strength -/

/-- **C03_EmptiedVariants**: (1) a non-skipped struct variant that keeps no field is a struct variant
without fields of the parsed enum; (2) for such a variant every helper-writing back end builds the helper
record and the enum's case unconditionally; (3) in the block of a tagged enum every struct variant's
`…Inner` name is defined (Kotlin, Swift, Scala, Python; Go see `inner_names_defined_go`); (4) and so it
is in the output file of a run. -/
def C03_EmptiedVariants_full : Prop :=
  (∀ (E : Ext) (T : List Str) (attrs : List Attr) (ident : Str) (gens : List GenericParam) (vs : List Variant) (e : RustEnum),
    getSerializedAsType E attrs = none → parseEnum E T attrs ident gens vs = .ok (.enum e) →
    ∀ v ∈ vs, isSkipped v.attrs T = false → Emptied T v →
    ∃ id : Id, id.original = C03.origOf (some v.ident) ∧
      RustEnumVariant.anonymousStruct id (parseCommentAttrs E v.attrs) [] ∈ e.variants ∧
      (id, ([] : List RustField)) ∈ structVariants e) ∧
  (∀ (e : RustEnum) (n v : Str),
    (∀ c : Kotlin.Cfg, (Kotlin.structFacts c (anonymousStruct e n v [])).isOk = true) ∧
    (∀ (U : UnicodeOps) (c : Swift.Cfg) (st : Swift.St), (Swift.structFacts U c (anonymousStruct e n v []) st).isOk = true) ∧
    (∀ c : Scala.Cfg, (Scala.classFacts c (anonymousStruct e n v [])).isOk = true) ∧
    (∀ (U : UnicodeOps) (c : Go.Cfg) (st : Go.Imports),
      (Go.structFacts U c (anonymousStruct e n v []) st).isOk = (Go.acr U c n).isOk) ∧
    (∀ (E : Ext) (c : Python.Cfg) (st : Python.St), (Python.structFacts E c (anonymousStruct e n v []) st).isOk = true)) ∧
  (∀ (e : RustEnum) (kc : Str × Str), e.keys = some kc → ∀ (id : Id) (fs : List RustField), (id, fs) ∈ structVariants e →
    (∀ (c : Kotlin.Cfg) (b : Str), C03E.Kt.writeItem c (.enum e) = .ok b →
      ∃ chunk, chunk <:+: b ∧ DefinesHead (ktStructKw fs) (c.pfx ++ (e.id.renamed ++ id.original ++ s%"Inner")) chunk) ∧
    (∀ (U : UnicodeOps) (c : Swift.Cfg) (st st' : Swift.St) (b : Str), Swift.writeItem U c (.enum e) st = .ok (b, st') →
      ∃ chunk, chunk <:+: b ∧ DefinesHead s%"public struct " (c.pfx ++ (e.id.renamed ++ id.original ++ s%"Inner")) chunk) ∧
    (∀ (c : Scala.Cfg) (b : Str), C03E.Sc.writeItem c (.enum e) = .ok b →
      ∃ chunk, chunk <:+: b ∧ DefinesHead (scStructKw fs) (e.id.renamed ++ id.original ++ s%"Inner") chunk) ∧
    (∀ (E : Ext) (c : Python.Cfg) (st st' : Python.St) (b : Str), Python.writeItem E c (.enum e) st = .ok (b, st') →
      ∃ chunk, chunk <:+: b ∧ DefinesHead s%"class " (e.id.renamed ++ id.original ++ s%"Inner") chunk)) ∧
  (∀ (E : Ext) (lang : LangCfg) (targetOs : List Str) (pick : List ImportedType → Option ImportedType) (f : SourceFile)
    (outs : List (Str × Str)), run E lang false targetOs pick [f] = .ok (.outputs outs) →
    ∀ e, RustItem.enum e ∈ C03_Emission.emitted E lang targetOs f → ∀ (id : Id) (fs : List RustField), (id, fs) ∈ structVariants e →
    match lang with
    | .typescript _ => True
    | .kotlin cfg => ∃ text chunk, outs = [(f.crateName, text)] ∧ chunk <:+: text ∧
        DefinesHead (ktStructKw fs) (cfg.pfx ++ (e.id.renamed ++ id.original ++ s%"Inner")) chunk
    | .swift cfg => ∃ text chunk, outs = [(f.crateName, text)] ∧ chunk <:+: text ∧
        DefinesHead s%"public struct " (Swift.kw (cfg.pfx ++ (e.id.renamed ++ id.original ++ s%"Inner"))) chunk
    | .scala _ => ∃ text chunk, outs = [(f.crateName, text)] ∧ chunk <:+: text ∧
        DefinesHead (scStructKw fs) (e.id.renamed ++ id.original ++ s%"Inner") chunk
    | .go cfg => ∃ text defs, outs = [(f.crateName, text)] ∧ goDefs E.U cfg (.enum e) = .ok defs ∧
        (structVariants e).length + 1 ≤ defs.length ∧ ∀ d ∈ defs, ∃ chunk, chunk <:+: text ∧ DefinesHead d.1 d.2 chunk
    | .python _ => ∃ text chunk, outs = [(f.crateName, text)] ∧ chunk <:+: text ∧
        DefinesHead s%"class " (e.id.renamed ++ id.original ++ s%"Inner") chunk)

theorem C03_EmptiedVariants : C03_EmptiedVariants_full := by
  refine ⟨fun E T attrs ident gens vs e hsa hp v hv hns hem => emptied_variant_kept E T attrs ident gens vs e hsa hp v hv hns hem,
    fun e n v => ⟨fun c => by rw [kotlin_helper_nil]; rfl, fun U c st => by rw [swift_helper_nil]; rfl,
      fun c => by rw [scala_helper_nil]; rfl, fun U c st => ?_, fun E c st => by rw [python_helper_nil]; rfl⟩,
    fun e kc hk id fs hp => ⟨fun c b h => (inner_names_defined_kotlin c e kc hk b h id fs hp).2,
      fun U c st st' b h => (inner_names_defined_swift U c e kc hk st st' b h id fs hp).2,
      fun c b h => (inner_names_defined_scala c e kc hk b h id fs hp).2,
      fun E c st st' b h => (inner_names_defined_python E c e st st' b h id fs hp).2⟩, ?_⟩
  · rw [go_helper_nil]
    cases Go.acr U c n <;> rfl
  · intro E lang targetOs pick f outs h e he id fs hp
    cases lang with
    | typescript c => trivial
    | kotlin c => exact helpers_in_file_kotlin E c targetOs pick f outs h e he id fs hp
    | swift c => exact helpers_in_file_swift E c targetOs pick f outs h e he id fs hp
    | scala c => exact helpers_in_file_scala E c targetOs pick f outs h e he id fs hp
    | go c => exact helpers_in_file_go E c targetOs pick f outs h e he
    | python c => exact helpers_in_file_python E c targetOs pick f outs h e he id fs hp

/-! ## non-vacuity, kernel-checked -/
open TsV.C03_Emission in
/-- `#[typeshare] #[serde(tag = "type", content = "content")] enum Ev { Gone {},
      Hidden { #[serde(skip)] a: u8, #[typeshare(skip)] b: String }, Kept { x: u8 } }` -/
def exVs : List Variant :=
  [⟨[], s%"Gone", .named []⟩,
   ⟨[], s%"Hidden", .named [⟨[⟨.list [s%"serde"] true [.path [s%"skip"]]⟩], some s%"a", .path [] s%"u8" []⟩,
                           ⟨[⟨.list [s%"typeshare"] true [.path [s%"skip"]]⟩], some s%"b", .path [] s%"String" []⟩]⟩,
   ⟨[], s%"Kept", .named [⟨[], some s%"x", .path [] s%"u8" []⟩]⟩]

def exEv : RustEnum :=
  match parseEnum C03_Emission.E0 [] [C03_Emission.tsAttr, C03_Emission.serdeTagged] s%"Ev" [] exVs with
  | .ok (.enum e) => e
  | _ => default

/-- the hypotheses of `emptied_variant_kept` are met by `Gone {}` and by `Hidden { … all skipped … }` -/
example : parseEnum C03_Emission.E0 [] [C03_Emission.tsAttr, C03_Emission.serdeTagged] s%"Ev" [] exVs = .ok (.enum exEv) ∧
    getSerializedAsType C03_Emission.E0 [C03_Emission.tsAttr, C03_Emission.serdeTagged] = none ∧
    (∀ v ∈ exVs.take 2, isSkipped v.attrs [] = false) := by
  refine ⟨by rfl, by decide +kernel, by decide +kernel⟩

example : Emptied [] ⟨[], s%"Gone", .named []⟩ := ⟨[], rfl, by simp⟩
example : Emptied [] (exVs[1]'(by decide)) := ⟨_, rfl, by decide +kernel⟩

/-- … and the parsed enum has the three struct variants, two of them without fields -/
theorem exEv_variants : (structVariants exEv).map (fun p => (p.1.original, p.2.length)) =
    [(s%"Gone", 0), (s%"Hidden", 0), (s%"Kept", 1)] ∧ exEv.keys = some (s%"type", s%"content") := by
  decide +kernel

/-- all six back ends write the block of `Ev` (hypotheses of `inner_names_defined_*`) -/
example : (C03E.Kt.writeItem {} (.enum exEv)).isOk = true ∧ (Swift.writeItem .ascii {} (.enum exEv) false).isOk = true ∧
    (C03E.Sc.writeItem {} (.enum exEv)).isOk = true ∧ (Go.writeItem .ascii {} [] (.enum exEv) []).isOk = true ∧
    (Python.writeItem C03_Emission.E0 {} (.enum exEv) {}).isOk = true ∧
    (TypeScript.writeItem .ascii {} (.enum exEv) []).isOk = true := by decide +kernel

/-- Kotlin: two `object`s, one `data class`, and the three cases that refer to them -/
theorem kotlin_example : C03E.Kt.writeItem {} (.enum exEv) = .ok
    s%"/// Generated type representing the anonymous struct variant `Gone` of the `Ev` Rust enum\n@Serializable\nobject EvGoneInner\n\n/// Generated type representing the anonymous struct variant `Hidden` of the `Ev` Rust enum\n@Serializable\nobject EvHiddenInner\n\n/// Generated type representing the anonymous struct variant `Kept` of the `Ev` Rust enum\n@Serializable\ndata class EvKeptInner (\n\tval x: UByte\n)\n\n@Serializable\nsealed class Ev {\n\t@Serializable\n\t@SerialName(\"Gone\")\n\tdata class Gone(val content: EvGoneInner): Ev()\n\t@Serializable\n\t@SerialName(\"Hidden\")\n\tdata class Hidden(val content: EvHiddenInner): Ev()\n\t@Serializable\n\t@SerialName(\"Kept\")\n\tdata class Kept(val content: EvKeptInner): Ev()\n}\n\n" := by
  decide +kernel

/-- Scala: two plain classes, one case class, three case classes in the companion object -/
theorem scala_example : C03E.Sc.writeItem {} (.enum exEv) = .ok
    s%"// Generated type representing the anonymous struct variant `Gone` of the `Ev` Rust enum\nclass EvGoneInner extends Serializable\n\n// Generated type representing the anonymous struct variant `Hidden` of the `Ev` Rust enum\nclass EvHiddenInner extends Serializable\n\n// Generated type representing the anonymous struct variant `Kept` of the `Ev` Rust enum\ncase class EvKeptInner (\n\tx: UByte\n)\n\nsealed trait Ev {\n\tdef serialName: String\n}\nobject Ev {\n\tcase class Gone(content: EvGoneInner) extends Ev {\n\t\tval serialName: String = \"Gone\"\n\t}\n\tcase class Hidden(content: EvHiddenInner) extends Ev {\n\t\tval serialName: String = \"Hidden\"\n\t}\n\tcase class Kept(content: EvKeptInner) extends Ev {\n\t\tval serialName: String = \"Kept\"\n\t}\n}\n\n" := by
  decide +kernel

/-- the definitions the block of `Ev` has to make, per back end -/
example : ktDefs {} (.enum exEv) = [(s%"object ", s%"EvGoneInner"), (s%"object ", s%"EvHiddenInner"),
      (s%"data class ", s%"EvKeptInner"), (s%"sealed class ", s%"Ev")] ∧
    swDefs {} (.enum exEv) = [(s%"public struct ", s%"EvGoneInner"), (s%"public struct ", s%"EvHiddenInner"),
      (s%"public struct ", s%"EvKeptInner"), (s%"public enum ", s%"Ev")] ∧
    goDefs .ascii {} (.enum exEv) = .ok [(s%"type ", s%"EvGoneInner"), (s%"type ", s%"EvHiddenInner"),
      (s%"type ", s%"EvKeptInner"), (s%"type ", s%"EvTypes"), (s%"type ", s%"Ev")] := by decide +kernel

end TsV.C03_EmptiedVariants
