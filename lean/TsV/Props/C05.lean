import TsV.Lemmas.C05
import TsV.Lemmas.C05_Langs
import TsV.Lemmas.C05_Struct
import TsV.Lemmas.C05_Lossless
/-!
# C05 — type expressions translate structurally, losslessly and honour type mappings

* `TsV.C05L.TTy` is the target-side tree, `TsV.C05L.translate L c gens : RustType → Outcome TTy` the
  translation defined by structural recursion on the *shape* of the Rust type only, `TsV.C05L.show L`
  the text of a tree in language `L` (all three in `TsV/Lemmas/C05.lean`).
* (i) `C05_compositional`: the text every back end's `formatType` returns *is* `show L (translate L …)`,
  for every configuration, generic-parameter list, printer state and type.  The constructor-level
  reading (`Vec`/slice/array ↦ sequence of the translated element, `HashMap` ↦ map of translated key
  and value, arguments in order, names kept / prefixed) is spelled out by `translate_*` below.
* (ii) `C05_transparent`: `RustTypes.tryFrom` erases references, the eleven serde-transparent
  wrappers and path qualification at any depth.
* (iii) `C05_mappings`: a sub-tree whose lookup name is a key of the mapping table becomes
  `mapped (value)` at every position not below another mapped node; generic parameters are never
  prefixed or renamed unless their name is itself a key.
* (iv) the 6 × 15 primitive table against the trusted capacity table `TsV.C05L.tinfo`: false on six
  cells (`C05_not_full`), true on all others (`C05_prims_partial`), exactly (`C05_prims_exact`).
* (v) `C05_lossless`: for all six back ends `show L` is injective, up to the kind of a leaf, on the
  trees the translation produces (`C05_lossless_translate`): equal target texts come from equal
  structure and equal names.
-/
namespace TsV.C05
open TsV TsV.Lang TsV.C05L TsV.Syn TsV.RustTypes

/-! ## the six printers behind one name -/

/-- a printer state for each stateful back end (every theorem quantifies over all of them) -/
structure PState where
  ts : TypeScript.CustomMap := []
  sw : Swift.St := false
  go : Go.Imports := []
  py : Python.St := {}

/-- the text `Language::format_type` returns -/
def formatText (lc : Generate.LangCfg) (st : PState) (gens : List Str) (t : RustType) : Outcome Str :=
  match lc with
  | .typescript c => omap Prod.fst (TypeScript.formatType c gens t st.ts)
  | .kotlin c => Kotlin.formatType c gens t
  | .swift c => omap Prod.fst (Swift.formatType c gens t st.sw)
  | .scala c => Scala.formatType c gens t
  | .go c => omap Prod.fst (Go.formatType c t st.go)
  | .python c => omap Prod.fst (Python.formatType c gens t st.py)

def langOf : Generate.LangCfg → TsV.Lang
  | .typescript _ => .typescript | .kotlin _ => .kotlin | .swift _ => .swift
  | .scala _ => .scala | .go _ => .go | .python _ => .python

/-- the part of the configuration the type level reads -/
def tcfgOf : Generate.LangCfg → TCfg
  | .typescript c => tcfgTS c | .kotlin c => tcfgKt c | .swift c => tcfgSw c
  | .scala c => tcfgSc c | .go c => tcfgGo c | .python c => tcfgPy c

/-! ## the statements -/

/-- (i) -/
def Compositional : Prop :=
  ∀ (lc : Generate.LangCfg) (st : PState) (gens : List Str) (t : RustType),
    formatText lc st gens t = omap («show» (langOf lc)) (translate (langOf lc) (tcfgOf lc) gens t)

/-- (ii) -/
def Transparent : Prop :=
  (∀ t, tryFrom (.reference t) = tryFrom t) ∧
  (∀ q w t, w ∈ smartPointers → tryFrom (.path q w [t]) = tryFrom t) ∧
  (∀ q q' w args, tryFrom (.path q w args) = tryFrom (.path q' w args)) ∧
  (∀ t, tryFrom (strip t) = tryFrom t)

/-- (iii) -/
def HonoursMappings : Prop :=
  (∀ (L : TsV.Lang) (c : TCfg) (gens : List Str) (s t : RustType) (v : Str) (T : TTy),
      lookup L c s = some v → Pos L c s t → translate L c gens t = .ok T → TSub (.mapped v) T) ∧
  (∀ (L : TsV.Lang) (c : TCfg) (gens : List Str) (g : Str),
      g ∈ gens → mapGet c.typeMappings g = none →
      translate L c gens (.simple g) = .ok (.param g) ∧ «show» L (.param g) = g)

/-- (iv) every cell of the primitive table -/
def PrimsFit : Prop := ∀ (L : TsV.Lang) (p : Prim), p ∈ parserPrims → cellOk L p = true

/-- (v) equal texts come from trees of equal structure and equal names (`erase` forgets only
whether a bare name is a primitive, a generic parameter or a user type without arguments) -/
def LosslessFor (L : TsV.Lang) : Prop :=
  ∀ a b : TTy, WF L a → WF L b → «show» L a = «show» L b → erase a = erase b

def Lossless : Prop := ∀ L : TsV.Lang, LosslessFor L

/-- **the property at full strength** -/
def C05_full : Prop := Compositional ∧ Transparent ∧ HonoursMappings ∧ PrimsFit ∧ Lossless

/-! ## (i) compositionality -/

theorem C05_compositional : Compositional := by
  intro lc st gens t
  cases lc with
  | typescript c => exact ts_formatType c gens t st.ts
  | kotlin c => exact kt_formatType c gens t
  | swift c => exact sw_formatType c gens t st.sw
  | scala c => exact sc_formatType c gens t
  | go c => exact go_formatType c gens t st.go
  | python c => exact py_formatType c gens t st.py

/-- the printer state never influences the text -/
theorem formatText_state_irrelevant (lc : Generate.LangCfg) (st st' : PState) (gens : List Str) (t : RustType) :
    formatText lc st gens t = formatText lc st' gens t := by
  rw [C05_compositional, C05_compositional]

/-- Go ignores the generic-parameter list altogether -/
theorem go_generics_irrelevant (c : Go.Cfg) (gens gens' : List Str) (t : RustType) :
    omap («show» .go) (translate .go (tcfgGo c) gens t) = omap («show» .go) (translate .go (tcfgGo c) gens' t) := by
  rw [← go_formatType c gens t [], ← go_formatType c gens' t []]

/-! ### what `translate` does at each constructor (the "shape" clauses of the property) -/

section shape
variable (L : TsV.Lang) (c : TCfg) (gens : List Str)

/-- `Vec<T>` is the target's sequence of the translation of `T` -/
theorem translate_vec (r : RustType) (h : lookup L c (.vec r) = none) :
    translate L c gens (.vec r) = (translate L c gens r).bind fun x => .ok (.seq x) := by
  simp [translate, withMap, h]

/-- `&[T]` likewise -/
theorem translate_slice (r : RustType) (h : lookup L c (.slice r) = none) :
    translate L c gens (.slice r) = (translate L c gens r).bind fun x => .ok (.seq x) := by
  simp [translate, withMap, h]

/-- `[T; n]` is a sequence too; TypeScript and Go keep the length -/
theorem translate_array (r : RustType) (n : Nat) (h : lookup L c (.array r n) = none) :
    translate L c gens (.array r n) =
      (translate L c gens r).bind fun x => .ok (if hasFixed L then .fixedSeq x n else .seq x) := by
  simp [translate, withMap, h]

/-- `HashMap<K, V>` is the target's map of the translations of `K` and `V` (TypeScript and Python
refuse a generic parameter as key) -/
theorem translate_hashMap (k v : RustType) (h : lookup L c (.hashMap k v) = none)
    (hk : (genericKeyForbidden L && isGenericKey gens k) = false) :
    translate L c gens (.hashMap k v) =
      (translate L c gens k).bind fun a => (translate L c gens v).bind fun b => .ok (.map a b) := by
  simp [translate, withMap, h, hk]

/-- `Option<T>` is the target's optional, except where optionality lives above the type level
(TypeScript: property C04) or is a nil slice (Go with `no_pointer_slice`) -/
theorem translate_option (r : RustType) (h : lookup L c (.option r) = none) :
    translate L c gens (.option r) =
      (translate L c gens r).bind fun x => .ok (if dropsOption L c r then x else .opt x) := by
  simp [translate, withMap, h]

/-- generic arguments are preserved, translated one by one, in order; the type keeps its
(prefixed) name -/
theorem translate_generic (id : Str) (ps : List RustType) (T : TTy)
    (h : lookup L c (.generic id ps) = none) (hT : translate L c gens (.generic id ps) = .ok T) :
    ∃ args, T = .user (userName L c gens id) args ∧ args.length = ps.length ∧
      ∀ i (hi : i < ps.length) (hj : i < args.length), translate L c gens ps[i] = .ok args[i] := by
  simp only [translate, withMap, h, bind_ok_iff, Outcome.ok.injEq] at hT
  obtain ⟨args, hargs, rfl⟩ := hT
  exact ⟨args, rfl, translateList_length L c gens ps args hargs, translateList_get L c gens ps args hargs⟩

/-- a user type keeps its name — prefixed in Kotlin and Swift, untouched elsewhere -/
theorem translate_user (id : Str) (h : mapGet c.typeMappings id = none) (hg : id ∉ gens) :
    translate L c gens (.simple id) = .ok (.user (if prefixes L then c.pfx ++ id else id) []) := by
  simp [translate, withMap, lookup, lookupKey, h, hg, userName]

/-- a primitive becomes the entry of the primitive table -/
theorem translate_prim (p : Prim) (h : lookup L c (.prim p) = none) :
    translate L c gens (.prim p) = (primTarget L p).bind fun n => .ok (.prim n) := by
  simp [translate, withMap, h]

/-- Kotlin, Swift and Scala never consult the type mappings for special types -/
theorem no_display_lookup (hL : usesDisplay L = false) (t : RustType)
    (ht : ∀ id, t ≠ .simple id) (ht' : ∀ id ps, t ≠ .generic id ps) : lookup L c t = none := by
  cases t <;> simp_all [lookup, lookupKey]
end shape

/-! ## (ii) transparency -/

theorem C05_transparent : Transparent := by
  refine ⟨tryFrom_reference, ?_, tryFrom_quals, tryFrom_strip⟩
  intro q w t hw
  exact tryFrom_smart1 q w (List.contains_iff_mem.mpr hw) t

/-! ## (iii) mappings -/

theorem C05_mappings : HonoursMappings := by
  constructor
  · intro L c gens s t v T hv hp hT
    obtain ⟨S, hS, hsub⟩ := translate_pos L c gens hp T hT
    rw [translate_mapped L c gens s v hv] at hS
    cases hS
    exact hsub
  · intro L c gens g hg hm
    constructor
    · simp [translate, withMap, lookup, lookupKey, hm, hg]
    · simp [«show»]

/-- the lookup name of a special type is its `Display` string in TypeScript, Go and Python … -/
theorem lookup_display (L : TsV.Lang) (c : TCfg) (hL : usesDisplay L = true) (t : RustType)
    (ht : ∀ id, t ≠ .simple id) (ht' : ∀ id ps, t ≠ .generic id ps) :
    lookup L c t = mapGet c.typeMappings t.display := by
  cases t <;> simp_all [lookup, lookupKey]

/-- … and the identifier for user types in all six -/
theorem lookup_user (L : TsV.Lang) (c : TCfg) (id : Str) (ps : List RustType) :
    lookup L c (.simple id) = mapGet c.typeMappings id ∧ lookup L c (.generic id ps) = mapGet c.typeMappings id := by
  simp [lookup, lookupKey]

/-! ## (iv) the primitive table -/

/-- the cells where the target type cannot stand for the Rust type -/
def Known_scala_unsigned (L : TsV.Lang) (p : Prim) : Bool :=
  L == .scala && (p == .u8 || p == .u16 || p == .u32 || p == .u53)
def Known_go_char (L : TsV.Lang) (p : Prim) : Bool := L == .go && p == .char
def Known_go_unit (L : TsV.Lang) (p : Prim) : Bool := L == .go && p == .unit

def Known (L : TsV.Lang) (p : Prim) : Bool :=
  Known_scala_unsigned L p || Known_go_char L p || Known_go_unit L p

theorem prims_table :
    (allLangs.all fun L => parserPrims.all fun p => cellOk L p == !Known L p) = true := by
  decide +kernel

theorem mem_allLangs (L : TsV.Lang) : L ∈ allLangs := by cases L <;> simp [allLangs]

/-- **exact characterisation**: a cell is right iff it is not one of the six known ones -/
theorem C05_prims_exact (L : TsV.Lang) (p : Prim) (hp : p ∈ parserPrims) :
    cellOk L p = true ↔ Known L p = false := by
  have h := prims_table
  simp only [List.all_eq_true] at h
  have := h L (mem_allLangs L) p hp
  simp only [beq_iff_eq] at this
  rw [this]
  cases Known L p <;> simp

theorem C05_prims_partial (L : TsV.Lang) (p : Prim) (hp : p ∈ parserPrims) (hk : Known L p = false) :
    cellOk L p = true := (C05_prims_exact L p hp).mpr hk

/-- what a right cell means, unfolded: a reported error, or a target type of the same JSON category
that holds every value of the Rust type -/
theorem cellOk_spec (L : TsV.Lang) (p : Prim) (h : cellOk L p = true) :
    (∃ e, primTarget L p = .err e) ∨
    (∃ n i, primTarget L p = .ok n ∧ tinfo L n = some i ∧ jsonCat p ∈ i.cats ∧
      (jsonCat p = .integer → (∀ l, i.lo = some l → l ≤ (primRange p).1) ∧ (∀ u, i.hi = some u → (primRange p).2 ≤ u)) ∧
      (jsonCat p = .float → primMant p ≤ i.mant)) := by
  unfold cellOk at h
  cases hp : primTarget L p with
  | err e => exact .inl ⟨e, rfl⟩
  | panic s => simp [hp] at h
  | ok n =>
    simp only [hp] at h
    cases hi : tinfo L n with
    | none => simp [hi] at h
    | some i =>
      simp only [hi, fits, Bool.and_eq_true, List.contains_iff_mem] at h
      refine .inr ⟨n, i, rfl, hi, h.1, ?_, ?_⟩
      · intro hc
        have h2 := h.2
        simp only [hc, Bool.and_eq_true] at h2
        constructor
        · intro l hl; simpa [hl] using h2.1
        · intro u hu; simpa [hu] using h2.2
      · intro hc
        have h2 := h.2
        simpa [hc] using h2

/-- the only error cells: `OffsetDateTime` in Kotlin, Swift and Scala (refused, not mis-translated) -/
theorem prim_errors (L : TsV.Lang) (p : Prim) (hp : p ∈ parserPrims) :
    (∃ e, primTarget L p = .err e) ↔ (p = .dateTime ∧ (L = .kotlin ∨ L = .swift ∨ L = .scala)) := by
  simp only [parserPrims, List.mem_cons, List.not_mem_nil, or_false] at hp
  rcases hp with rfl | rfl | rfl | rfl | rfl | rfl | rfl | rfl | rfl | rfl | rfl | rfl | rfl | rfl | rfl <;>
    cases L <;> simp [primTarget, Kotlin.formatPrim, Go.primType]

/-- the pinned tree does not satisfy the property: Scala gives `U53` the alias `ULong = Int` -/
theorem C05_not_full : ¬ C05_full := by
  intro h
  have := h.2.2.2.1 .scala .u53 (by decide)
  revert this
  decide +kernel

/-! ## (v) losslessness -/

/-- `show L` is injective (up to leaf kinds) for every back end -/
theorem C05_lossless : Lossless :=
  fun L a b ha hb h => show_injective_all L a b ha hb h

/-- … in particular on what the translation produces: two Rust types (no node replaced by a type
mapping, names that are identifiers, a generic user type not called like a target container,
TypeScript arrays not empty) whose target texts coincide have translations of the same structure
with the same names -/
theorem C05_lossless_translate (L : TsV.Lang) (c : TCfg) (gens : List Str)
    (t₁ t₂ : RustType) (T₁ T₂ : TTy) (h₁ : RWF L c gens t₁) (h₂ : RWF L c gens t₂)
    (e₁ : translate L c gens t₁ = .ok T₁) (e₂ : translate L c gens t₂ = .ok T₂)
    (h : «show» L T₁ = «show» L T₂) : erase T₁ = erase T₂ :=
  show_injective_all L T₁ T₂ (translate_wf L c gens t₁ T₁ h₁ e₁) (translate_wf L c gens t₂ T₂ h₂ e₂) h

/-- **everything but the six cells** -/
theorem C05_partial :
    Compositional ∧ Transparent ∧ HonoursMappings ∧
    (∀ (L : TsV.Lang) (p : Prim), p ∈ parserPrims → Known L p = false → cellOk L p = true) ∧
    Lossless :=
  ⟨C05_compositional, C05_transparent, C05_mappings, C05_prims_partial, C05_lossless⟩

/-! ## non-vacuity and the known cells as kernel-checked witnesses -/

/-- `HashMap<String, Vec<Option<Foo>>>` in Kotlin with prefix `Pf` -/
example : formatText (.kotlin { pfx := s%"Pf" }) {} []
    (.hashMap (.prim .string) (.vec (.option (.simple s%"Foo")))) = .ok s%"HashMap<String, List<PfFoo?>>" := by
  decide +kernel

/-- array of map of option, a smart pointer inside a generic argument (after `tryFrom`): Go -/
example : (tryFrom (.array (.path [s%"std"] s%"HashMap" [.path [] s%"String" [],
      .path [] s%"Foo" [.path [] s%"Arc" [.reference (.path [] s%"u8" [])]]]) (some 4))).bind
    (fun t => formatText (.go {}) {} [] t) = .ok s%"[4]map[string]Foo[int]" := by
  decide +kernel

/-- a container-instance mapping in TypeScript, at depth 2 -/
example : formatText (.typescript { typeMappings := [(s%"Vec<u8>", s%"Uint8Array")] }) {} []
    (.hashMap (.prim .string) (.option (.vec (.prim .u8)))) = .ok s%"Record<string, Uint8Array>" := by
  decide +kernel

/-- the same table in Kotlin leaves `Vec<u8>` alone (no `Display` lookup) -/
example : formatText (.kotlin { typeMappings := [(s%"Vec<u8>", s%"Uint8Array")] }) {} []
    (.vec (.prim .u8)) = .ok s%"List<UByte>" := by
  decide +kernel

/-- hypotheses of `C05_mappings` are met: `Foo` at argument position of `Bar` inside `Vec` -/
example : Pos .swift { typeMappings := [(s%"Foo", s%"M")] } (.simple s%"Foo")
    (.vec (.generic s%"Bar" [.prim .u8, .simple s%"Foo"])) :=
  .vec (by decide +kernel) (.arg (by decide +kernel) (by simp) (.here _))

example : lookup .swift { typeMappings := [(s%"Foo", s%"M")] } (.simple s%"Foo") = some s%"M" := by decide +kernel

/-- a generic parameter is not prefixed: Swift, prefix `Pf`, `Vec<T>` with generics `[T]` -/
example : formatText (.swift { pfx := s%"Pf" }) {} [s%"T"] (.vec (.generic s%"Foo" [.simple s%"T"]))
    = .ok s%"[PfFoo<T>]" := by decide +kernel

/-- TypeScript and Python refuse a generic parameter as map key -/
example : formatText (.python {}) {} [s%"T"] (.hashMap (.simple s%"T") (.prim .u8))
    = .err (.formatError s%"GenericKeyForbiddenInTS") := by decide +kernel

/-- the known cells -/
example : primTarget .scala .u53 = .ok s%"ULong" ∧ cellOk .scala .u53 = false := by decide +kernel
example : primTarget .scala .u8 = .ok s%"UByte" ∧ cellOk .scala .u8 = false := by decide +kernel
example : primTarget .go .char = .ok s%"rune" ∧ cellOk .go .char = false := by decide +kernel
example : primTarget .go .unit = .ok s%"struct{}" ∧ cellOk .go .unit = false := by decide +kernel
example : Known .kotlin .u53 = false ∧ cellOk .kotlin .u53 = true := by decide +kernel

/-- the hypotheses of `C05_lossless_translate` are met by `HashMap<String, Vec<Foo<T>>>` in Kotlin -/
example : RWF .kotlin { pfx := s%"Pf" } [s%"T"]
    (.hashMap (.prim .string) (.vec (.generic s%"Foo" [.simple s%"T"]))) := by
  simp [RWF, RWFl, lookup, lookupKey, usesDisplay, mapGet, userName, prefixes, Inj.NameOK, Inj.special, keywords,
    kwSeq, kwMap, kwOpt]

/-- and by `[3]map[string][]*Foo[int]` in Go -/
example : RWF .go {} []
    (.array (.hashMap (.prim .string) (.vec (.option (.generic s%"Foo" [.prim .u8])))) 3) := by
  simp [RWF, RWFl, lookup, lookupKey, usesDisplay, mapGet, userName, prefixes, Inj.NameOK, Inj.special, keywords,
    kwSeq, kwMap, kwOpt]

/-- without the side conditions `show` is *not* injective: a user type called `List` in Kotlin -/
example : «show» .kotlin (.user s%"List" [.prim s%"Int"]) = «show» .kotlin (.seq (.prim s%"Int")) := by
  decide +kernel

/-- transparency: `&'a Box<std::sync::Arc<Cow<'a, Foo>>>` is `Foo` -/
example : tryFrom (.reference (.path [] s%"Box" [.path [s%"std", s%"sync"] s%"Arc" [.path [] s%"Cow" [.path [] s%"Foo" []]]]))
    = .ok (.simple s%"Foo") := rfl

end TsV.C05
