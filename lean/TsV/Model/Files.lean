import TsV.Model.Pipeline
import TsV.Model.Rename
/-!
# Model of crate / output-file naming (`language/mod.rs::CrateName::find_crate_name`,
`cli/src/parse.rs::output_file_name`, `cli/src/writer.rs::write_multiple_files`)
-/
namespace TsV.Files
open TsV

/-- `path.iter().rev().skip_while(|p| p != "src").nth(1)` with `-` replaced by `_`:
the component just above the *last* `src` component -/
def findCrateName (components : List Str) : Option Str :=
  match (components.reverse.dropWhile (· != s%"src")) with
  | _src :: above :: _ => some (Str.replaceChar above '-' ['_'])
  | _ => none

def extension : Lang → Str
  | .go => s%"go" | .kotlin => s%"kt" | .scala => s%"scala" | .swift => s%"swift"
  | .typescript => s%"ts" | .python => s%"py"

/-- `output_file_name` -/
def outputFileName (U : UnicodeOps) (l : Lang) (crate : Str) : Str :=
  match l with
  | .swift => Rename.toPascal U crate ++ s%"." ++ extension l
  | _ => crate ++ s%"." ++ extension l

/-- `write_multiple_files`: the (file name, crate) pairs written, in map order -/
def filesWritten (m : List (Str × ParsedData)) : List (Str × Str) := m.map fun (c, d) => (d.fileName, c)

end TsV.Files
