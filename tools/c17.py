"""C17 — re-running is idempotent and the output depends only on the latest inputs (cli/src/writer.rs)."""
import hashlib
import re
import time
from common import *
from syn_gen import *
from gen import Gen, TYPE_WORDS

NEEDS = ("cli",)


def make_version(rng, crates):
    """one version of a workspace: crate -> source text (valid programs; disjoint type names per crate)"""
    words = rng.sample(TYPE_WORDS, 4 * len(crates))
    out = {}
    for i, c in enumerate(crates):
        g = Gen(rng, p_serialized_as=0.0, p_decorators=0.0, p_const=0.0, p_cfg=0.0)
        f = g.file(names=rng.sample(words[4 * i:4 * i + 4], rng.randint(1, 4)))
        out[c] = render_file(f)
    return out


def same_length_variant(rng, version):
    """the same workspace with one type name replaced by a different name of equal length everywhere:
    the generated text changes, its byte length does not"""
    import re
    out = dict(version)
    for crate, text in version.items():
        present = [w for w in TYPE_WORDS if re.search(r"\b%s\b" % w, text)]
        rng.shuffle(present)
        for w in present:
            cands = [c for c in TYPE_WORDS if len(c) == len(w) and c != w and not re.search(r"\b%s\b" % c, text)]
            if cands:
                out[crate] = re.sub(r"\b%s\b" % w, rng.choice(cands), text)
                return out
    return out


def write_tree(sc, root, version):
    """-> extra command-line arguments (the version's own typeshare.toml, if it has one)"""
    shutil.rmtree(sc.path(root), ignore_errors=True)
    extra = []
    for crate, text in version.items():
        if crate == "__toml__":
            extra = ["-c", sc.write("%s/typeshare.toml" % root, text)]
        else:
            # NEST_OUT: the sources have a directory called like the destination (`src/out/` next to `-d out`): names are only names
            sub = "out/" if NEST_OUT[0] and crate == sorted(c for c in version if c != "__toml__")[0] else ""
            sc.write("%s/%s/src/%slib.rs" % (root, crate, sub), text)
    if OLD_SOURCES[0]:
        # the inputs carry old time stamps (a checkout, `cp -p`, an unpacked archive): what is written must not depend on them
        for d, _, fs in os.walk(sc.path(root), topdown=False):
            for f in fs:
                os.utime(os.path.join(d, f), (1000000000, 1000000000))
            os.utime(d, (1000000000, 1000000000))
    return extra


OLD_SOURCES = [False]
NEST_OUT = [False]


def outputs_of(dirpath):
    res = {}
    if os.path.isdir(dirpath):
        for f in sorted(os.listdir(dirpath)):
            p = os.path.join(dirpath, f)
            st = os.stat(p)
            res[f] = (open(p, "rb").read().decode("utf-8", "replace"), st.st_mtime_ns)
    return res


# ----------------------------------------------------------------------------- versions whose content changes *kind*

# the back ends that emit `#[typeshare]` constants; Kotlin, Swift and Scala reject them with a diagnostic (write_const)
CONST_LANGS = ("typescript", "go", "python")

# what a crate can hold in one version.  `ordinary` is a mix of every kind the language accepts; the others change the *kind* of
# content the crate contributes (the core ones first: every history draws its shapes from this deck in this order, shuffled
# within the two groups)
CORE_SHAPES = ["constants-only", "aliases-only", "nothing-annotated", "rejected-only", "types-moved-to-neighbour"]
MORE_SHAPES = ["structs-only", "enums-only", "aliases-and-constants", "one-kind-removed", "one-item-left", "empty-file",
               "absent", "unannotated-no-mention"]


def module_file(lang, crate):
    """the module file of a crate in folder mode (cli/src/parse.rs output_file_name; the crate names used here are plain words)"""
    snake = crate.replace("-", "_")
    if lang == "swift":
        return "".join(w[:1].upper() + w[1:] for w in snake.split("_")) + ".swift"
    return "%s.%s" % (snake, EXT[lang])


def unannotated(item):
    """the same item without its `#[typeshare…]` attributes: plain Rust that typeshare does not look at"""
    it = dict(item)
    it["attrs"] = [a for a in item["attrs"] if not (a[0] in ("p", "l", "nv") and a[1] and a[1][0] == "typeshare")]
    return it


def crate_pool(rng, words):
    """the items one crate can hold, generated once per history (two structs, an enum, two aliases, two constants, one struct the
    language rejects): between versions only the *selection* and the annotation change, never an item's text"""
    g = Gen(rng, p_serialized_as=0.0, p_decorators=0.0, p_type_decorators=0.0, p_redacted=0.0, p_const=0.0, p_cfg=0.0,
            p_rename=0.0, p_noise=0.0, p_mod=0.0)
    kinds = ["struct", "struct", "enum", "alias", "alias", "const", "const"]
    names = dict(zip(words, kinds))
    scope = {"types": [w for w in words if names[w] != "const"], "generics": [], "generic_types": {}}
    pool = {"struct": [], "enum": [], "alias": [], "const": []}
    for w in words:
        it = getattr(g, names[w])(w, scope)
        n = len([x for x in it.get("generics", []) if x[0] == "ty"])
        if n:
            scope["generic_types"][w] = n
        pool[names[w]].append(it)
    # an item every back end rejects at generation time: a field of type u64 (no mapping configured)
    pool["rejected"] = [{"kind": "struct", "attrs": [m_path("typeshare")], "ident": words[0] + "Wide", "generics": [],
                         "fields": ("named", [field([], "wide", t_path("u64"))])}]
    return pool


def accepted_pool(check, rng, words, lang):
    """a pool whose structs, enums, aliases (and constants, where the language has them) the language accepts - asked of the binary
    itself with one run over all of them - so that a run fails only where a shape says so (`rejected-only`, a constant for Kotlin /
    Swift / Scala)"""
    for _ in range(12):
        pool = crate_pool(rng, words)
        items = pool["struct"] + pool["enum"] + pool["alias"] + (pool["const"] if lang in CONST_LANGS else [])
        with Scratch() as sc:
            sc.write("ws/probe/src/lib.rs", render_file({"attrs": [], "items": items}))
            r = run_cli(["--lang", lang, "-o", sc.path("probe." + EXT[lang])] + lang_args(lang) + [sc.path("ws")], cwd=sc.dir)
        if r["rc"] == 0:
            return pool
        check.count("content-kind-pool-regenerated")
    return pool


def shape_items(rng, pool, shape, lang):
    """-> [(item, annotated?)] for one crate in one version"""
    S_, E_, A_, K_ = pool["struct"], pool["enum"], pool["alias"], pool["const"]
    consts = lang in CONST_LANGS
    ordinary = [(i, True) for i in S_ + E_ + A_ + (K_[:1] if consts else [])]
    if shape == "ordinary":
        got = list(ordinary)
        if rng.random() < 0.5:
            got.insert(rng.randint(0, len(got)), (unannotated(dict(S_[0], ident=S_[0]["ident"] + "Plain")), False))
        return got
    if shape == "constants-only":
        return [(i, True) for i in K_]
    if shape == "types-moved-to-neighbour":
        # what stays behind: the constants, or - where the language has none - only plain Rust (the crate contributes nothing now)
        return [(i, True) for i in K_] if consts else [(unannotated(S_[0]), False)]
    if shape == "aliases-only":
        return [(i, True) for i in A_]
    if shape == "structs-only":
        return [(i, True) for i in S_]
    if shape == "enums-only":
        return [(i, True) for i in E_]
    if shape == "aliases-and-constants":
        return [(i, True) for i in A_ + K_]
    if shape == "one-kind-removed":
        gone = rng.choice(["struct", "enum", "alias"] + (["const"] if consts else []))
        return [(i, True) for i in S_ + E_ + A_ + (K_ if consts else []) if i["kind"] != gone]
    if shape == "one-item-left":
        return [(rng.choice(S_ + E_ + A_ + (K_ if consts else [])), True)]
    if shape in ("nothing-annotated", "unannotated-no-mention"):
        return [(unannotated(i), False) for i, _ in ordinary]
    if shape == "rejected-only":
        # a u64 field (no mapping configured) for every language; for Kotlin / Swift / Scala also: a constant
        return [(i, True) for i in (pool["rejected"] if consts or rng.random() < 0.5 else K_[:1])]
    if shape in ("empty-file", "absent"):
        return []
    raise ValueError(shape)


def kind_version(rng, crates, pools, shapes, lang):
    """one version of the workspace: crate -> source text, and what the generator knows about it (the shape and the names of the
    annotated items per crate).  `types-moved-to-neighbour`: the crate keeps its constants, its structs / enums / aliases are now
    declared in the next crate (the refactoring `move the types to another crate`)."""
    texts, facts = {}, {}
    guests = {c: [] for c in crates}
    for i, c in enumerate(crates):
        if shapes[c] == "types-moved-to-neighbour" and len(crates) > 1:
            host = crates[(i + 1) % len(crates)]
            if shapes[host] != "absent":
                guests[host] += [(it, True) for it in pools[c]["struct"] + pools[c]["enum"] + pools[c]["alias"]]
    for c in crates:
        items = shape_items(rng, pools[c], shapes[c], lang) + guests[c]
        facts[c] = {"shape": shapes[c], "annotated": [it["ident"] for it, ann in items if ann]}
        if shapes[c] == "absent" and not guests[c]:
            continue
        text = render_file({"attrs": [], "items": [it for it, _ in items]})
        if shapes[c] == "unannotated-no-mention":
            text = text.replace("typeshare::", "")       # qualified I54 / U53: the file does not even contain the word
        elif shapes[c] != "empty-file" and rng.random() < 0.5:
            text = "use typeshare::typeshare;\n\n" + text
        texts[c] = text
    return texts, facts


def content_kind_part(check):
    """The dimension: *what kind of content* a crate contributes changes between the versions of a history.  The histories of `run`
    are made of versions that all hold structs / enums / aliases in every crate; here every crate walks through shapes - ordinary
    mix, constants only, aliases only, structs only, enums only, aliases and constants, one kind removed, one item left, every
    item un-annotated (with and without the word `typeshare` left in the file), an empty file, the crate gone, only items the
    language rejects (a constant for Kotlin / Swift / Scala, a u64 field for all), the types moved to the neighbouring crate while
    the constants stay - interleaved with ordinary content, in folder mode (2-3 crates) and single-file mode (1-2 crates), all six
    languages, with a return to an earlier version and an immediate re-run in every history.

    Demanded after every run (the oracle, judged on what the binary left on disk):
      * the exit status is the one of a run of the same version into an empty location;
      * every file the run is responsible for has exactly the bytes that reference run produces, where *responsible for* is:
        every file the reference run writes (also the partial output of a run that fails midway), and, when the run succeeds,
        the single output file resp. in folder mode the module of every crate whose latest sources hold at least one annotated
        item (a successful run has accepted every annotated item, so such a crate contributes declarations).  A module that is on
        disk although the reference run writes none is the content of an earlier run.  Files of earlier runs whose crate has no
        annotated item any more (everything un-annotated, file emptied, crate gone) are *not* the last run's: typeshare leaves
        them alone, and so does this part;
      * a re-run on unchanged sources leaves every file byte-identical with its ns-mtime.
    Kept beside it: the Writer model fed with the reference outputs predicts files, bytes and which files are rewritten (a
    difference there alone is reported without a failing input), and the assumption `generate_nonempty` of the theorems - a crate
    with annotated items gets a non-empty module from a run into an empty folder - is checked on every reference run."""
    rng = check.rng
    nh = 72 if check.thorough else 12
    OLD_SOURCES[0] = False
    NEST_OUT[0] = False
    for h in range(nh):
        if check.has_failing():
            break
        lang = LANGS[h % 6]
        multi = (h + h // 6) % 3 != 2       # two folder-mode histories for every single-file one, every language in both modes
        crates = (["limits", "api", "core-types"][:rng.choice([2, 3, 3])] if multi else ["one", "two"][:rng.choice([1, 1, 2])])
        rng.shuffle(crates)
        words = rng.sample(TYPE_WORDS, 7 * len(crates))
        pools = {c: accepted_pool(check, rng, words[7 * i:7 * i + 7], lang) for i, c in enumerate(crates)}
        core, more = list(CORE_SHAPES), list(MORE_SHAPES)
        rng.shuffle(core); rng.shuffle(more)
        deck = [s for s in core + more
                if not (s in ("absent", "types-moved-to-neighbour") and len(crates) < 2)
                and not (s in ("constants-only", "aliases-and-constants") and lang not in CONST_LANGS)]
        nsteps = rng.randint(5, 7) if check.thorough else rng.randint(4, 5)
        versions, facts = [], []
        for step in range(nsteps):
            shapes = {}
            for c in crates:
                if step == 0 or not deck or rng.random() < 0.3:
                    shapes[c] = "ordinary"
                else:
                    shapes[c] = deck.pop(0)
            if step and all(s == "ordinary" for s in shapes.values()) and deck:
                shapes[rng.choice(crates)] = deck.pop(0)
            v, f = kind_version(rng, crates, pools, shapes, lang)
            versions.append(v); facts.append(f)
            for c in crates:
                check.count("content-kind-shape-" + shapes[c])
        hist = list(range(nsteps))
        hist.insert(rng.randint(2, len(hist)), rng.randrange(0, 2))        # a return to an early version (0 = all ordinary)
        k = rng.randrange(len(hist))
        hist.insert(k, hist[k])                                           # an immediate re-run on unchanged inputs
        check.saw(("content-kind", lang, multi, tuple(hist), json.dumps(versions, sort_keys=True)), nontrivial=True)
        check.count("content-kind-%s-%s" % (lang, "multi" if multi else "single"))
        out_name = "out.%s" % EXT[lang]
        with Scratch() as sc:
            ref = {}
            for vi in sorted(set(hist)):
                write_tree(sc, "ws", versions[vi])
                tgt = ["-d", sc.path("ref%d" % vi)] if multi else ["-o", sc.path("ref%d/%s" % (vi, out_name))]
                r = run_cli(["--lang", lang] + tgt + lang_args(lang) + [sc.path("ws")], cwd=sc.dir)
                ref[vi] = (r["rc"], outputs_of(sc.path("ref%d" % vi)), r["err"][-600:])
            fs_model, real_prev, prev_vi = [], {}, None
            weak_told = []
            for step, vi in enumerate(hist):
                write_tree(sc, "ws", versions[vi])
                time.sleep(0.02)
                os.makedirs(sc.path("out"), exist_ok=True)
                tgt = ["-d", sc.path("out")] if multi else ["-o", sc.path("out/" + out_name)]
                r = run_cli(["--lang", lang] + tgt + lang_args(lang) + [sc.path("ws")], cwd=sc.dir)
                real = outputs_of(sc.path("out"))
                rc_ref, outs_ref, err_ref = ref[vi]
                check.count("content-kind-run-%s" % ("succeeds" if rc_ref == 0 else "fails"))
                case = {"part": "content-kind", "lang": lang, "multi_file": multi, "crates": crates, "versions": versions,
                        "what_each_version_holds": facts, "history": hist, "step": step,
                        "command": "typeshare --lang %s %s %s ws   (after writing version history[step] to ws/<crate>/src/lib.rs; "
                                   "the same destination for every step)" % (lang, "-d out" if multi else "-o out/" + out_name,
                                                                             " ".join(lang_args(lang)))}
                impl = {"rc": r["rc"], "files": {f: {"mtime_ns": mt, "bytes": b[:2000]} for f, (b, mt) in real.items()},
                        "stderr": r["err"][-1000:],
                        "reference_run_into_an_empty_location": {"rc": rc_ref, "files": {f: b[:2000] for f, (b, _) in outs_ref.items()},
                                                                 "stderr": err_ref}}
                where = "history %s, step %d (%s, %s; shapes now %s)" % (
                    hist, step, lang, "-d" if multi else "-o", {c: facts[vi][c]["shape"] for c in crates})
                # ---- the oracle
                responsible = {f: "a run into an empty location writes it" for f in outs_ref}
                if r["rc"] == 0 and rc_ref == 0:
                    if multi:
                        for c in crates:
                            if facts[vi][c]["annotated"]:
                                responsible.setdefault(module_file(lang, c), "the module of crate `%s`, whose latest sources hold the "
                                                       "annotated items %s" % (c, facts[vi][c]["annotated"]))
                    else:
                        responsible.setdefault(out_name, "the output file of a run that succeeded")
                problem, assumption = None, None
                if r["rc"] != rc_ref:
                    problem = "exit status %s, a run of the same sources into an empty location had %s" % (r["rc"], rc_ref)
                for f, why in sorted(responsible.items()):
                    if problem:
                        break
                    fresh, have = outs_ref.get(f), real.get(f)
                    if fresh is None and have is None:
                        assumption = "%s (%s) is written neither here nor by a run into an empty location" % (f, why)
                    elif fresh is None:
                        crate_now = set(n.lower() for c in crates if not multi or module_file(lang, c) == f for n in facts[vi][c]["annotated"])
                        old = sorted(set(n for fv in facts for c in crates for n in fv[c]["annotated"]
                                         if n.lower() not in crate_now and re.search(r"(?i)\b%s\b" % re.escape(n), have[0])))
                        problem = ("%s is %s, yet what is on disk after this run is the content of an earlier run%s: a run of the "
                                   "latest sources into an empty location writes no %s at all, so the latest items of the crate are "
                                   "not in it" % (f, why, " (it still declares %s, which the latest sources behind this file do not hold)" % old
                                                  if old else "", f))
                    elif have is None:
                        problem = "%s (%s) is missing; a run into an empty location writes it" % (f, why)
                    elif have[0] != fresh[0]:
                        problem = "%s (%s) does not have the content a run into an empty location produces" % (f, why)
                if problem is None and prev_vi == vi:
                    for f in sorted(set(real) | set(real_prev)):
                        if f not in real or f not in real_prev or real[f][0] != real_prev[f][0]:
                            problem = "re-run on unchanged sources: %s changed" % f
                        elif real[f][1] != real_prev[f][1]:
                            if f == "Codable.swift" and check.known("swift-codable-rewritten", {"history": hist, "step": step}):
                                continue
                            problem = "re-run on unchanged sources: %s was rewritten (mtime changed)" % f
                        if problem:
                            break
                # ---- the model: Writer.run on the reference outputs (in path order = crate order)
                outs = sorted((f, b) for f, (b, _) in outs_ref.items())
                ans = model([[S("writer-run"), [[p, b, m] for p, b, m in fs_model], step + 1, [[f, b] for f, b in outs]]],
                            with_unicode=False)[0]
                fs_model = ans["fs"]
                model_files = {p: (b, m) for p, b, m in fs_model}
                model_out = {"fs": fs_model, "actions": ans["actions"]}
                if problem:
                    check.violation("%s: %s" % (where, problem), case=case, impl=impl, model=model_out, failing_input=True)
                    break
                if assumption and not any(v.get("broken_obligation", "") and "generate_nonempty" in v["broken_obligation"] for v in check.violations):
                    check.violation("%s: %s - the back end emitted nothing for a crate with annotated items" % (where, assumption),
                                    case=case, impl=impl, model=model_out, failing_input=False,
                                    broken="generate_nonempty (every back end writes a non-empty file for a crate with items): the "
                                           "assumption under which C17.run_content / history_content speak about every module")
                diff = None
                if set(model_files) != set(real):
                    diff = "files %s, the Writer model predicts %s" % (sorted(real), sorted(model_files))
                else:
                    for f, (b, mt) in real.items():
                        mb, mm = model_files[f]
                        rewritten = f not in real_prev or real_prev[f][1] != mt
                        if b != mb:
                            diff = "%s does not have the bytes the Writer model predicts" % f
                        elif rewritten != (mm == step + 1):
                            if rewritten and f == "Codable.swift" and check.known("swift-codable-rewritten", {"history": hist, "step": step}):
                                continue
                            diff = "%s was %s although the Writer model predicts %s" % (
                                f, "rewritten (mtime changed)" if rewritten else "left untouched", "a write" if mm == step + 1 else "no write")
                        if diff:
                            break
                if diff and not weak_told:
                    check.violation("%s: %s" % (where, diff), case=case, impl=impl, model=model_out, failing_input=False,
                                    broken="C17 tie: Writer.run (checkWriteFile) against the binary's writer, files not covered by the oracle")
                    # the history goes on: a later step may show what the difference costs the user (e.g. a file a failed run left
                    # behind that makes every later run fail - then the exit status differs from the fresh run: a failing input)
                    weak_told.append(step)
                real_prev, prev_vi = real, vi
            else:
                if sum(1 for s_ in check.samples if isinstance(s_, dict) and s_.get("part") == "content-kind") < 2:
                    check.sample({"part": "content-kind", "lang": lang, "multi_file": multi, "history": hist,
                                  "shapes": [{c: f[c]["shape"] for c in crates} for f in facts],
                                  "files_after_last_run": sorted(real_prev)}, limit=8)


# ----------------------------------------------------------------------------- several source files per crate, arrival orders

SPREAD_DIRS = ["", "", "models/", "models/v2/", "api/", "api/handlers/internal/", "a/b/", "a/b/c/d/", "util/", "out/"]
SPREAD_STEMS = ["lib", "mod", "types", "user", "order", "events", "wire", "common", "ids", "errors", "zz_last", "aa_first"]
SPREAD_CHANGES = ["redistributed-within-crate", "item-added-in-a-new-file", "item-added-to-a-file", "item-removed", "item-renamed",
                  "item-moved-to-another-crate", "file-moved-deeper", "file-unannotated", "file-removed", "plain-file-added",
                  "crate-collapsed-into-one-file"]


def spread_items(check, rng, names, lang):
    """{name: item} for the given type names: structs, enums, aliases (and constants, where the language has them) that refer to
    each other across files, generated once per history - between the versions only an item's place, name and annotation change.
    Generated in chunks of six; a chunk is kept when the binary accepts it (one run of the chunk alone), so that every run of a
    history succeeds and a difference between two runs is a difference of the generated definitions."""
    g = Gen(rng, p_serialized_as=0.0, p_decorators=0.0, p_type_decorators=0.0, p_redacted=0.0, p_const=0.0, p_cfg=0.0,
            p_rename=0.0, p_noise=0.0, p_mod=0.0)
    kinds = {}
    for n in names:
        r = rng.random()
        kinds[n] = "struct" if r < 0.45 else "enum" if r < 0.7 else "alias" if r < 0.85 else "const" if lang in CONST_LANGS else "struct"
    scope = {"types": [n for n in names if kinds[n] != "const"], "generics": [], "generic_types": {}}
    items = {}
    for at in range(0, len(names), 6):
        chunk = names[at:at + 6]
        for attempt in range(12):
            made, gens = [], {}
            for n in chunk:
                it = getattr(g, kinds[n])(n, dict(scope, generic_types=dict(scope["generic_types"], **gens)))
                k = len([x for x in it.get("generics", []) if x[0] == "ty"])
                if k:
                    gens[n] = k
                made.append(it)
            with Scratch() as sc:
                sc.write("ws/probe/src/lib.rs", render_file({"attrs": [], "items": made}))
                r = run_cli(["--lang", lang, "-o", sc.path("probe." + EXT[lang])] + lang_args(lang) + [sc.path("ws")], cwd=sc.dir)
            if r["rc"] == 0:
                break
            check.count("several-files-chunk-regenerated")
        scope["generic_types"].update(gens)
        for n, it in zip(chunk, made):
            items[n] = {"kind": it["kind"], "ident": it["ident"], "text": render_item(it), "plain": render_item(unannotated(it))}
    return items


def spread_paths(rng, n, taken=()):
    """n distinct source paths below a crate's `src/`: the crate root, sibling modules, nested directories up to four deep (one of
    them called like the destination)"""
    got = []
    while len(got) < n:
        p = "src/%s%s.rs" % (rng.choice(SPREAD_DIRS), rng.choice(SPREAD_STEMS))
        if p not in got and p not in taken:
            got.append(p)
    return got


def spread_deal(rng, entries, paths):
    """deal the entries over the paths: every path gets at least one while there are enough, the rest at random"""
    entries = list(entries)
    rng.shuffle(entries)
    files = {p: [] for p in paths}
    for i, e in enumerate(entries):
        files[paths[i] if i < len(paths) else rng.choice(paths)].append(e)
    return {p: es for p, es in files.items() if es}


def spread_change(rng, layout, renames, spare, change, crates, max_files):
    """the next version of the workspace: `layout` = {crate: {path: [[name, annotated?], ...]}}, `renames` = {name: new name}.
    -> (layout, renames, done?)"""
    lay = {c: {p: [list(e) for e in es] for p, es in fs.items()} for c, fs in layout.items()}
    ren = dict(renames)
    c = rng.choice([c for c in crates if lay[c]] or crates)
    files = lay[c]
    annotated = [(p, i) for p, es in files.items() for i, e in enumerate(es) if e[1]]
    if change == "redistributed-within-crate":
        entries = [e for es in files.values() for e in es]
        if not entries:
            return lay, ren, False
        lay[c] = spread_deal(rng, entries, spread_paths(rng, rng.randint(2, max_files)))
    elif change == "crate-collapsed-into-one-file":
        entries = [e for es in files.values() for e in es]
        if len(files) < 2:
            return lay, ren, False
        lay[c] = {"src/lib.rs": entries}
    elif change in ("item-added-in-a-new-file", "item-added-to-a-file"):
        if not spare:
            return lay, ren, False
        n = spare.pop()
        if change == "item-added-to-a-file" and files:
            files[rng.choice(sorted(files))].insert(rng.randint(0, 1), [n, True])
        else:
            files[spread_paths(rng, 1, files)[0]] = [[n, True]]
    elif change == "item-removed":
        if len(annotated) < 2:
            return lay, ren, False
        p, i = rng.choice(annotated)
        del files[p][i]
        if not files[p]:
            del files[p]
    elif change == "item-renamed":
        if not annotated:
            return lay, ren, False
        p, i = rng.choice(annotated)
        n = files[p][i][0]
        # a name that sorts before / after everything, or next to where it was
        new = rng.choice(["Aaa%s", "Zzz%s", "%sRenamed", "%sV2"]) % ren.get(n, n).replace("Aaa", "").replace("Zzz", "")
        if new in ren.values():
            return lay, ren, False
        ren[n] = new
    elif change == "item-moved-to-another-crate":
        others = [x for x in crates if x != c]
        if not others or not annotated:
            return lay, ren, False
        p, i = rng.choice(annotated)
        e = files[p].pop(i)
        if not files[p]:
            del files[p]
        d = lay[rng.choice(others)]
        d.setdefault(rng.choice(sorted(d)) if d and rng.random() < 0.5 else spread_paths(rng, 1, d)[0], []).append(e)
    elif change == "file-moved-deeper":
        if not files:
            return lay, ren, False
        p = rng.choice(sorted(files))
        q = "src/%s%s" % (rng.choice(["moved/", "a/b/c/d/e/", "models/v2/old/"]), os.path.basename(p))
        if q in files:
            return lay, ren, False
        files[q] = files.pop(p)
    elif change == "file-unannotated":
        ps = sorted(set(p for p, _ in annotated))
        if len(ps) < 2:
            return lay, ren, False
        p = rng.choice(ps)
        files[p] = [[n, False] for n, _ in files[p]]
    elif change == "file-removed":
        if len(files) < 2:
            return lay, ren, False
        del files[rng.choice(sorted(files))]
    elif change == "plain-file-added":
        src = [e for es in files.values() for e in es]
        if not src:
            return lay, ren, False
        files[spread_paths(rng, 1, files)[0]] = [[rng.choice(src)[0] + "Plain", False]]
    else:
        raise ValueError(change)
    return lay, ren, True


def spread_texts(rng_salt, layout, renames, items):
    """-> ({`crate/src/.../file.rs`: text}, facts) of one version.  A renamed item is renamed wherever it is mentioned."""
    pat = re.compile(r"\b(%s)\b" % "|".join(re.escape(items[n]["ident"]) for n in renames)) if renames else None
    by_ident = {items[n]["ident"]: (new.upper() if items[n]["kind"] == "const" else new) for n, new in renames.items()}
    texts, facts = {}, {}
    for c, files in layout.items():
        facts[c] = {"annotated": [], "files_with_annotated_items": 0, "files": len(files)}
        for p, es in files.items():
            parts = []
            for n, ann in es:
                if n.endswith("Plain") and n not in items:
                    parts.append(items[n[:-5]]["plain"].replace(items[n[:-5]]["ident"], items[n[:-5]]["ident"] + "Plain", 1))
                else:
                    parts.append(items[n]["text" if ann else "plain"])
            text = "\n".join(parts)
            if pat:
                text = pat.sub(lambda m: by_ident[m.group(1)], text)
            if (hash_str(c + p) + rng_salt) % 2:
                text = "use typeshare::typeshare;\n\n" + text
            texts["%s/%s" % (c, p)] = text
            names = [by_ident.get(items[n]["ident"], items[n]["ident"]) for n, ann in es if ann]
            facts[c]["annotated"] += names
            facts[c]["files_with_annotated_items"] += 1 if names else 0
        facts[c]["annotated"].sort()
    return texts, facts


def hash_str(s):
    return int(hashlib.sha256(s.encode()).hexdigest()[:8], 16)


def first_difference(a, b):
    la, lb = a.split("\n"), b.split("\n")
    for i, (x, y) in enumerate(zip(la, lb)):
        if x != y:
            return "first difference in line %d: %r before, %r now" % (i + 1, x[:120], y[:120])
    return "%d lines before, %d now" % (len(la), len(lb))


def arrival(rng, n, kind=None, perm=None):
    """how the per-file results of one run reach the collector -> (label, environment).  `n` = number of source files that hold
    annotated items (= number of results).  The collector hook of the verif-hooks feature (cli/src/parse.rs verif_reorder) puts the
    results into a canonical order and applies the permutation named by TYPESHARE_VERIF_ORDER; without the variable the results are
    folded as the walker's worker threads deliver them (TYPESHARE_VERIF_THREADS sets their number)."""
    kind = kind or rng.choice(["scheduler", "scheduler", "threads", "identity", "rev", "seed", "permutation", "permutation"])
    if kind == "scheduler":
        return "left to the scheduler", {}
    if kind == "threads":
        k = rng.choice([1, 2, 3, 8, 16])
        return "left to the scheduler, %d walker thread%s" % (k, "" if k == 1 else "s"), {"TYPESHARE_VERIF_THREADS": str(k)}
    if kind == "identity":
        perm = list(range(n))
    elif kind == "rev":
        return "TYPESHARE_VERIF_ORDER=rev", {"TYPESHARE_VERIF_ORDER": "rev"}
    elif kind == "seed":
        o = "seed:%d" % rng.randint(0, 10**6)
        return "TYPESHARE_VERIF_ORDER=" + o, {"TYPESHARE_VERIF_ORDER": o}
    elif perm is None:
        perm = list(range(n))
        rng.shuffle(perm)
    o = ",".join(map(str, perm))
    return "TYPESHARE_VERIF_ORDER=" + o, {"TYPESHARE_VERIF_ORDER": o}


def several_files_part(check):
    """The dimension: *several source files per crate*, and the order in which their results reach the collector.  Everywhere else
    in this check a crate is one `src/lib.rs`, so one result per output file: whatever happens where the results of several files
    are merged is invisible.  Here every crate is spread over 2-8 source files in nested directories (`src/lib.rs`,
    `src/models/v2/user.rs`, `src/a/b/c/d/ids.rs`, a directory called like the destination, ...), 1-3 crates, folder mode and
    single-file mode (where all files of all crates land in the one output file), all six languages.  Between the versions of a
    history the items are dealt anew over the files of a crate, collapse into one file, are added (to a file, in a new file),
    removed, renamed (to names sorting first / last / in place, with every mention), moved to another crate; a file moves deeper,
    loses its annotations, disappears, a file of plain Rust appears.  Every run of a history has an arrival order of its own:
    left to the scheduler (default and 1 / 2 / 3 / 8 / 16 walker threads), or pinned through the collector hook - canonical order,
    `rev`, `seed:<n>`, an explicit permutation - and every history has an immediate re-run whose pinned order is the reverse of the
    run before it, a second immediate re-run and a return to an earlier version under freely drawn orders; the reference runs
    into an empty location draw their order as well.

    Demanded (the oracle, judged on what the binary left on disk; the whole history is run, then judged):
      * a re-run on unchanged sources leaves every file byte-identical with its ns-mtime - whatever order the results arrived in;
      * after every run the exit status is that of a run of the same sources into an empty location, and every file the run is
        responsible for (what that reference run writes; the module of every crate holding annotated items resp. the single
        output file when the run succeeds) has exactly the reference run's bytes.
    Kept beside it: the Writer model fed with the reference outputs predicts files, bytes and which files are rewritten (e.g. no
    write when the items merely changed files within their crate)."""
    rng = check.rng
    nh = 60 if check.thorough else 12
    max_files = 8
    pool_names = TYPE_WORDS + [w + "Two" for w in TYPE_WORDS]
    for h in range(nh):
        if check.has_failing():
            break
        if h % 12 == 0:
            langs = rng.sample(LANGS, 6)
        lang = langs[h % 6]
        multi = (h + h // 6) % 2 == 0              # every language in both modes within twelve histories
        crates = ["limits", "api", "core-types"][:rng.choice([1, 2, 2, 3])] if multi else ["one", "two"][:rng.choice([1, 2])]
        rng.shuffle(crates)
        # 2-8 files per crate, 1-3 items per file, at most 30 items in the workspace
        nfiles = {c: rng.randint(2, max_files if check.thorough or len(crates) < 3 else 5) for c in crates}
        counts = {c: min(nfiles[c] + rng.randint(0, nfiles[c]), 30 // len(crates)) for c in crates}
        names = rng.sample(pool_names, sum(counts.values()) + 3)
        items = spread_items(check, rng, names, lang)
        spare = names[-3:]
        layout, at = {}, 0
        for c in crates:
            layout[c] = spread_deal(rng, [[n, True] for n in names[at:at + counts[c]]], spread_paths(rng, nfiles[c]))
            at += counts[c]
        renames = {}
        deck = list(SPREAD_CHANGES)
        rng.shuffle(deck)
        deck.remove("redistributed-within-crate")
        deck.insert(rng.randint(0, 1), "redistributed-within-crate")
        nversions = rng.randint(4, 6) if check.thorough else rng.randint(3, 4)
        versions, facts, changes = [], [], ["initial"]
        v, f = spread_texts(h, layout, renames, items)
        versions.append(v); facts.append(f)
        while len(versions) < nversions and deck:
            change = deck.pop(0)
            layout2, renames2, done = spread_change(rng, layout, renames, spare, change, crates, max_files)
            if not done:
                continue
            layout, renames = layout2, renames2
            v, f = spread_texts(h, layout, renames, items)
            versions.append(v); facts.append(f); changes.append(change)
            check.count("several-files-change-" + change)
        hist = list(range(len(versions)))
        hist.insert(rng.randint(2, len(hist)), rng.randrange(0, 2))                 # a return to an early version
        nres = [sum(f[c]["files_with_annotated_items"] for c in crates) for f in facts]
        arrivals = [arrival(rng, nres[vi]) for vi in hist]
        # an immediate re-run whose results arrive in the reverse of the order of the run before it (both pinned), ...
        k = rng.randrange(len(hist))
        perm = list(range(nres[hist[k]]))
        rng.shuffle(perm)
        hist.insert(k + 1, hist[k])
        arrivals[k] = arrival(rng, 0, "permutation", perm)
        arrivals.insert(k + 1, arrival(rng, 0, "permutation", perm[::-1]))
        # ... and one under freely drawn orders
        k = rng.randrange(len(hist))
        hist.insert(k + 1, hist[k])
        arrivals.insert(k + 1, arrival(rng, nres[hist[k]]))
        ref_arrivals = {vi: arrival(rng, nres[vi]) for vi in sorted(set(hist))}
        for lab, _ in arrivals + list(ref_arrivals.values()):
            check.count("several-files-arrival-" + ("pinned-" + ("rev" if lab.endswith("rev") else "seed" if "seed:" in lab else "permutation")
                                                    if "ORDER" in lab else "scheduler-threads" if "thread" in lab else "scheduler"))
        for f in facts:
            for c in crates:
                check.count("several-files-crate-with-%d-annotated-files" % f[c]["files_with_annotated_items"])
        check.saw(("several-files", lang, multi, tuple(hist), json.dumps(versions, sort_keys=True), json.dumps(arrivals)), nontrivial=True)
        check.count("several-files-%s-%s" % (lang, "multi" if multi else "single"))
        out_name = "out.%s" % EXT[lang]
        old_stamps = h % 3 == 1

        def write_version(sc, vi):
            shutil.rmtree(sc.path("ws"), ignore_errors=True)
            for rel, text in versions[vi].items():
                sc.write("ws/" + rel, text)
            if old_stamps:
                for d, _, fs in os.walk(sc.path("ws"), topdown=False):
                    for f_ in fs:
                        os.utime(os.path.join(d, f_), (1000000000, 1000000000))
                    os.utime(d, (1000000000, 1000000000))

        with Scratch() as sc:
            ref = {}
            for vi in sorted(set(hist)):
                write_version(sc, vi)
                tgt = ["-d", sc.path("ref%d" % vi)] if multi else ["-o", sc.path("ref%d/%s" % (vi, out_name))]
                r = run_cli(["--lang", lang] + tgt + lang_args(lang) + [sc.path("ws")], cwd=sc.dir, env=ref_arrivals[vi][1])
                ref[vi] = (r["rc"], outputs_of(sc.path("ref%d" % vi)), r["err"][-600:])
            # ---- the history, run to its end
            seen = []
            for step, vi in enumerate(hist):
                write_version(sc, vi)
                time.sleep(0.02)
                os.makedirs(sc.path("out"), exist_ok=True)
                tgt = ["-d", sc.path("out")] if multi else ["-o", sc.path("out/" + out_name)]
                r = run_cli(["--lang", lang] + tgt + lang_args(lang) + [sc.path("ws")], cwd=sc.dir, env=arrivals[step][1])
                seen.append((r, outputs_of(sc.path("out"))))
                check.count("several-files-run-%s" % ("succeeds" if r["rc"] == 0 else "fails"))

        def report(step, problem, **kw):
            vi = hist[step]
            r, real = seen[step]
            rc_ref, outs_ref, err_ref = ref[vi]
            case = {"part": "several-files", "lang": lang, "multi_file": multi, "crates": crates, "versions": versions,
                    "change_leading_to_each_version": changes, "what_each_version_holds": facts, "history": hist, "step": step,
                    "arrival_order_of_each_run": [lab for lab, _ in arrivals],
                    "arrival_order_of_the_reference_runs": {str(k_): lab for k_, (lab, _) in ref_arrivals.items()},
                    "command": "%s typeshare --lang %s %s %s ws   (built with --features go,python,verif-hooks; after writing "
                               "versions[history[step]] to ws/; the same destination for every step)"
                               % (" ".join("%s=%s" % kv for kv in arrivals[step][1].items()), lang,
                                  "-d out" if multi else "-o out/" + out_name, " ".join(lang_args(lang)))}
            impl = {"rc": r["rc"], "files": {f_: {"mtime_ns": mt, "bytes": b[:3000]} for f_, (b, mt) in real.items()},
                    "stderr": r["err"][-1000:],
                    "files_after_the_run_before": {f_: {"mtime_ns": mt, "bytes": b[:3000]} for f_, (b, mt) in seen[step - 1][1].items()} if step else {},
                    "reference_run_into_an_empty_location": {"rc": rc_ref, "files": {f_: b[:3000] for f_, (b, _) in outs_ref.items()},
                                                             "stderr": err_ref}}
            where = "several-files history %s, step %d (%s, %s; %s; results of this run: %s)" % (
                hist, step, lang, "-d" if multi else "-o",
                ", ".join("crate `%s` in %d files, %d of them with annotated items" % (c, facts[vi][c]["files"], facts[vi][c]["files_with_annotated_items"])
                          for c in crates), arrivals[step][0])
            check.violation("%s: %s" % (where, problem), case=case, impl=impl, **kw)

        # ---- the oracle, first half: a re-run on unchanged sources touches nothing
        problem = None
        for step in range(1, len(hist)):
            if hist[step] != hist[step - 1]:
                continue
            check.count("several-files-rerun-on-unchanged-sources")
            (_, before), (_, now) = seen[step - 1], seen[step]
            for f_ in sorted(set(before) | set(now)):
                if f_ not in now or f_ not in before:
                    problem = "re-run on unchanged sources: %s %s" % (f_, "appeared" if f_ in now else "disappeared")
                elif now[f_][0] != before[f_][0]:
                    problem = ("re-run on unchanged sources (the run before: %s): the bytes of %s changed (%s)"
                               % (arrivals[step - 1][0], f_, first_difference(before[f_][0], now[f_][0])))
                elif now[f_][1] != before[f_][1]:
                    if f_ == "Codable.swift" and check.known("swift-codable-rewritten", {"history": hist, "step": step}):
                        continue
                    problem = ("re-run on unchanged sources (the run before: %s): %s was rewritten with the same bytes (mtime changed)"
                               % (arrivals[step - 1][0], f_))
                if problem:
                    break
            if problem:
                report(step, problem, failing_input=True)
                break
        if problem:
            break
        # ---- second half: every run leaves what a run into an empty location produces
        assumption = None
        for step, vi in enumerate(hist):
            r, real = seen[step]
            rc_ref, outs_ref, _ = ref[vi]
            responsible = {f_: "a run into an empty location writes it" for f_ in outs_ref}
            if r["rc"] == 0 and rc_ref == 0:
                if multi:
                    for c in crates:
                        if facts[vi][c]["annotated"]:
                            responsible.setdefault(module_file(lang, c), "the module of crate `%s`, whose latest sources hold the "
                                                   "annotated items %s" % (c, facts[vi][c]["annotated"]))
                else:
                    responsible.setdefault(out_name, "the output file of a run that succeeded")
            if r["rc"] != rc_ref:
                problem = "exit status %s, a run of the same sources into an empty location (%s) had %s" % (r["rc"], ref_arrivals[vi][0], rc_ref)
            for f_, why in sorted(responsible.items()):
                if problem:
                    break
                fresh, have = outs_ref.get(f_), real.get(f_)
                if fresh is None and have is None:
                    assumption = (step, "%s (%s) is written neither here nor by a run into an empty location - the back end emitted "
                                        "nothing for a crate with annotated items" % (f_, why))
                elif fresh is None:
                    problem = "%s is %s, yet a run of the latest sources into an empty location writes no %s: what is on disk is older" % (f_, why, f_)
                elif have is None:
                    problem = "%s (%s) is missing; a run into an empty location writes it" % (f_, why)
                elif have[0] != fresh[0]:
                    problem = ("%s (%s) does not have the content a run of the same sources into an empty location (%s) produces (%s)"
                               % (f_, why, ref_arrivals[vi][0], first_difference(fresh[0], have[0]).replace("before", "there").replace("now", "here")))
            if problem:
                report(step, problem, failing_input=True)
                break
        if problem:
            break
        if assumption and not any(v.get("broken_obligation", "") and "generate_nonempty" in v["broken_obligation"] for v in check.violations):
            report(assumption[0], assumption[1], failing_input=False,
                   broken="generate_nonempty (every back end writes a non-empty file for a crate with items): the assumption under "
                          "which C17.run_content / history_content speak about every module")
        # ---- the model: Writer.run on the reference outputs
        fs_model, real_prev = [], {}
        for step, vi in enumerate(hist):
            r, real = seen[step]
            outs = sorted((f_, b) for f_, (b, _) in ref[vi][1].items())
            ans = model([[S("writer-run"), [[p, b, m] for p, b, m in fs_model], step + 1, [[f_, b] for f_, b in outs]]],
                        with_unicode=False)[0]
            fs_model = ans["fs"]
            model_files = {p: (b, m) for p, b, m in fs_model}
            diff = None
            if set(model_files) != set(real):
                diff = "files %s, the Writer model predicts %s" % (sorted(real), sorted(model_files))
            else:
                for f_, (b, mt) in real.items():
                    mb, mm = model_files[f_]
                    rewritten = f_ not in real_prev or real_prev[f_][1] != mt
                    if b != mb:
                        diff = "%s does not have the bytes the Writer model predicts" % f_
                    elif rewritten != (mm == step + 1):
                        if rewritten and f_ == "Codable.swift" and check.known("swift-codable-rewritten", {"history": hist, "step": step}):
                            continue
                        diff = "%s was %s although the Writer model predicts %s" % (
                            f_, "rewritten (mtime changed)" if rewritten else "left untouched", "a write" if mm == step + 1 else "no write")
                    elif not rewritten and step and hist[step] != hist[step - 1]:
                        check.count("several-files-changed-sources-same-output-left-untouched")
                    if diff:
                        break
            if diff:
                report(step, diff, model={"fs": fs_model, "actions": ans["actions"]}, failing_input=False,
                       broken="C17 tie: Writer.run (checkWriteFile) against the binary's writer, files not covered by the oracle")
                break
            real_prev = real
        else:
            if sum(1 for s_ in check.samples if isinstance(s_, dict) and s_.get("part") == "several-files") < 2:
                check.sample({"part": "several-files", "lang": lang, "multi_file": multi, "history": hist, "changes": changes,
                              "source_files_of_each_version": [sorted(v) for v in versions],
                              "arrival_orders": [lab for lab, _ in arrivals], "files_after_last_run": sorted(real_prev)}, limit=8)


def run(check):
    rng = check.rng
    nh = 120 if check.thorough else 24
    maxlen = 6 if check.thorough else 4
    check.rule = ("histories of 2-%d runs of the real binary alternating between 2-4 versions of a 1-3 crate workspace "
                  "(types added / removed / renamed / moved), single-file (-o) and multi-file (-d) mode, all six "
                  "languages; after every run the bytes and ns-mtimes of every output file are compared with the "
                  "Writer model fed with the output of a fresh-directory reference run; non-trivial = the history "
                  "repeats a version or returns to an earlier one" % maxlen)
    mismatches = 0
    for h in range(nh):
        OLD_SOURCES[0] = (h % 3 == 1)
        check.count("sources-with-old-time-stamps" if OLD_SOURCES[0] else "sources-freshly-written")
        NEST_OUT[0] = (h % 4 in (0, 3))
        check.count("sources-with-a-directory-named-like-the-destination" if NEST_OUT[0] else "sources-plain-directories")
        lang = LANGS[h % 6]
        multi = (h // 6) % 2 == 0
        crates = rng.sample(["alpha", "beta-x", "gamma"], rng.randint(1, 3)) if multi else ["one"]
        if multi and lang != "swift" and h % 4 == 0:
            # two crates whose names differ in letter-case convention only: two crates, two module files (Swift's PascalCase file
            # names collide here - C14's open finding swift-module-file-collision - so Swift is left out)
            crates = ["ApiV2", "api_v2"] + crates[:1]
        versions = [make_version(rng, crates) for _ in range(rng.randint(2, 4))]
        versions.append(same_length_variant(rng, versions[0]))      # equal output size, different bytes
        if multi and rng.random() < 0.5 and len(crates) > 1:
            versions.append({c: t for c, t in list(versions[0].items())[:-1]})     # a crate disappears
        # v0 plus one item that is emitted last (a unit enum sorting after everything) resp. first (an alias sorting before
        # everything): going back to v0 makes the new output a strict prefix resp. suffix of what is on disk
        c0 = sorted(versions[0])[-1]
        tail = dict(versions[0]); tail[c0] = versions[0][c0] + "\n#[typeshare]\npub enum ZzzTail {\n    Aa,\n    Bb,\n}\n"
        head = dict(versions[0]); head[c0] = versions[0][c0] + "\n#[typeshare]\npub type AaaHead = u8;\n"
        extra = []
        if rng.random() < 0.7:
            versions.append(tail); extra += [len(versions) - 1, 0]
        if rng.random() < 0.4:
            versions.append(head); extra += [len(versions) - 1, 0]
        samelen = [i for i, v in enumerate(versions) if i and v != versions[0] and
                   all(len(v.get(c, "")) == len(t) for c, t in versions[0].items())]
        hist = [0] + [rng.randrange(len(versions)) for _ in range(rng.randint(1, maxlen - 1))]
        if samelen:
            hist.insert(1, samelen[0])        # v0 -> its equal-length twin -> …
        hist += extra                         # … -> v0 + last / first item -> v0
        if lang == "swift" and multi:
            # the shared Codable.swift depends on the configuration only: a unit type in the sources and two settings of
            # swift.codablevoid_constraints, the second one giving a *shorter* file
            vu = dict(versions[0]); vu[c0] = versions[0][c0] + "\n#[typeshare]\npub struct UnitUser {\n    pub u: (),\n}\n"
            va = dict(vu); va["__toml__"] = "[swift]\ncodablevoid_constraints = [\"Equatable\", \"Hashable\"]\n"
            vb = dict(vu); vb["__toml__"] = "[swift]\ncodablevoid_constraints = [\"Equatable\"]\n"
            versions += [va, vb]
            ia, ib = len(versions) - 2, len(versions) - 1
            hist += [ia, ib, ib, ia]
        if rng.random() < 0.7:
            hist.insert(rng.randint(1, len(hist)), hist[rng.randrange(len(hist))])     # a return to an earlier version
        k = rng.randrange(len(hist))
        hist.insert(k, hist[k])                                                        # an immediate re-run on unchanged inputs
        check.saw((lang, multi, tuple(hist), json.dumps(versions, sort_keys=True)), nontrivial=len(set(hist)) < len(hist))
        check.count("%s-%s" % (lang, "multi" if multi else "single"))
        with Scratch() as sc:
            # reference outputs: each version generated into an empty location
            ref = {}
            for vi in sorted(set(hist)):
                cfg_args = write_tree(sc, "ws", versions[vi])
                tgt = ["-d", sc.path("ref%d" % vi)] if multi else ["-o", sc.path("ref%d/out.%s" % (vi, EXT[lang]))]
                r = run_cli(["--lang", lang] + tgt + lang_args(lang) + cfg_args + [sc.path("ws")], cwd=sc.dir)
                ref[vi] = (r["rc"], outputs_of(sc.path("ref%d" % vi)))
            fs_model = []          # [path, bytes, mtime] with abstract times = step index
            real_prev = {}
            # how the destination is spelled on the command line (the same file every time): absolute, relative with a directory
            # part, `./name`, or a bare file name resolved against the working directory
            spell = ["absolute", "bare", "relative", "dot"][(h // 12 + h) % 4]
            check.count("destination-spelled-" + spell)
            for step, vi in enumerate(hist):
                cfg_args = write_tree(sc, "ws", versions[vi])
                time.sleep(0.02)
                # the destination folder of the first run exists already (empty) or is made by typeshare itself
                if not (multi and spell != "bare" and h % 2 == 0):
                    os.makedirs(sc.path("out"), exist_ok=True)
                elif step == 0:
                    check.count("destination-folder-made-by-the-first-run")
                cwd = sc.dir
                if multi:
                    tgt = ["-d", sc.path("out")] if spell == "absolute" else ["-d", "out"] if spell == "relative" else ["-d", "./out"] if spell == "dot" else ["-d", "."]
                    cwd = sc.path("out") if spell == "bare" else sc.dir
                else:
                    fn = "out.%s" % EXT[lang]
                    tgt = {"absolute": ["-o", sc.path("out/" + fn)], "relative": ["-o", "out/" + fn], "dot": ["-o", "./" + fn], "bare": ["-o", fn]}[spell]
                    cwd = sc.path("out") if spell in ("dot", "bare") else sc.dir
                r = run_cli(["--lang", lang] + tgt + lang_args(lang) + cfg_args + [sc.path("ws")], cwd=cwd)
                real = outputs_of(sc.path("out"))
                rc_ref, outs_ref = ref[vi]
                # the model: Writer.run on the reference outputs (in path order = crate order)
                outs = sorted((f, b) for f, (b, _) in outs_ref.items())     # also the partial output of a run that fails midway
                ans = model([[S("writer-run"), [[p, b, m] for p, b, m in fs_model], step + 1, [[f, b] for f, b in outs]]],
                            with_unicode=False)[0]
                fs_model = ans["fs"]
                problem = None
                if r["rc"] != rc_ref:
                    problem = "exit status %s, reference run into an empty folder had %s" % (r["rc"], rc_ref)
                model_files = {p: (b, m) for p, b, m in fs_model}
                if problem is None and set(model_files) != set(real):
                    problem = "files %s, model predicts %s" % (sorted(real), sorted(model_files))
                if problem is None:
                    for f, (b, mt) in real.items():
                        mb, mm = model_files[f]
                        if b != mb:
                            problem = "%s does not have the content a fresh run produces" % f
                            break
                        rewritten = f not in real_prev or real_prev[f][1] != mt
                        predicted = (mm == step + 1)
                        if rewritten != predicted:
                            if rewritten and f == "Codable.swift" and check.known("swift-codable-rewritten", {"history": hist, "step": step}):
                                continue
                            problem = "%s was %s although the model predicts %s" % (
                                f, "rewritten (mtime changed)" if rewritten else "left untouched", "a write" if predicted else "no write")
                            break
                if problem:
                    mismatches += 1
                    failing = True
                    check.violation("history %s, step %d (%s, %s): %s" % (hist, step, lang, "-d" if multi else "-o", problem),
                                    case={"lang": lang, "multi_file": multi, "versions": versions, "history": hist, "step": step, "destination_spelled": spell},
                                    impl={"files": {f: {"mtime_ns": mt, "bytes": b[:2000]} for f, (b, mt) in real.items()}, "stderr": r["err"][-1000:]},
                                    model={"fs": fs_model, "actions": ans["actions"]}, failing_input=failing)
                    break
                real_prev = real
            if len(check.samples) < 3:
                check.sample({"lang": lang, "multi_file": multi, "history": hist, "files_after_last_run": sorted(real_prev)})
        if mismatches:
            break
    if not check.has_failing():
        several_files_part(check)
        check.rule += ("; several-files part: histories of 6-9 runs over 3-6 versions of a 1-3 crate workspace in which every crate is "
                       "spread over 2-8 source files in nested directories (items dealt anew over the files, added, removed, renamed, "
                       "moved between crates; files moved, un-annotated, removed), both modes, all six languages, every run under an "
                       "arrival order of its own for the per-file results (left to the scheduler with 1-16 walker threads, or pinned "
                       "through TYPESHARE_VERIF_ORDER: canonical, rev, seed:<n>, explicit permutations; one immediate re-run under the "
                       "reverse of the order before it): a re-run on unchanged sources leaves bytes and ns-mtimes untouched, and after "
                       "every run every file the run is responsible for has the bytes of a run into an empty location")
    if not check.has_failing():
        content_kind_part(check)
        check.rule += ("; content-kind part: histories of 6-9 runs over 4-7 versions in which every crate changes the *kind* of "
                       "its content (constants only, aliases only, one kind removed, nothing annotated, only rejected items, types "
                       "moved to the neighbouring crate, ...) between ordinary versions, both modes, all six languages; after every "
                       "run every file the run is responsible for - what a run into an empty location writes, and the module of "
                       "every crate that holds annotated items when the run succeeds - has the bytes of that reference run")
    check.assumptions += ["the file system is modelled as a finite map path -> (bytes, mtime); generated bytes are taken from a fresh-directory reference run of the same binary",
                          "every back end writes a non-empty file for a non-empty crate (header or declaration); the empty-output hole of check_write_file is shown as a kernel-checked example"]
