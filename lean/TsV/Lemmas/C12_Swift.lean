import TsV.Lemmas.C12_Common
/-!
# C12, Swift: the `should_emit_codable_void` flag is exactly "some formatted type tree contains `()`"
-/
namespace TsV.C12L.Swift
open TsV TsV.Lang TsV.Lang.Swift TsV.C12L

mutual
  /-- does formatting `t` print the helper name `CodableVoid`?  Follows `formatType` arm by arm: the
  unit type prints it, containers pass the question to their components, a type-mapped generic is
  replaced wholesale (its arguments are never formatted). -/
  def unitIn (cfg : Cfg) : RustType → Bool
    | .simple _ => false
    | .generic id ps => if (mapGet cfg.typeMappings id).isSome then false else unitInList cfg ps
    | .vec t | .array t _ | .slice t | .option t => unitIn cfg t
    | .hashMap k v => unitIn cfg k || unitIn cfg v
    | .prim p => p == .unit
  def unitInList (cfg : Cfg) : List RustType → Bool
    | [] => false
    | t :: ts => unitIn cfg t || unitInList cfg ts
end

mutual
  /-- **the flag after formatting one type, at any depth** -/
  theorem formatType_st (cfg : Cfg) (gens : List Str) : ∀ (t : RustType) (st : St) (s : Str) (st' : St),
      formatType cfg gens t st = .ok (s, st') → st' = (st || unitIn cfg t)
    | .simple id, st, s, st', h => by
      simp only [formatType, Outcome.ok.injEq, Prod.mk.injEq] at h
      simp [unitIn, h.2]
    | .generic id ps, st, s, st', h => by
      simp only [formatType] at h
      cases hm : mapGet cfg.typeMappings id with
      | some m =>
        rw [hm] at h
        simp only [Outcome.ok.injEq, Prod.mk.injEq] at h
        simp [unitIn, hm, h.2]
      | none =>
        rw [hm] at h
        simp only at h
        cases hps : formatTypes cfg gens ps st with
        | ok r =>
          obtain ⟨strs, st2⟩ := r
          rw [hps] at h
          simp only [Outcome.ok.injEq, Prod.mk.injEq] at h
          have := formatTypes_st cfg gens ps st strs st2 hps
          simp [unitIn, hm, ← h.2, this]
        | err e => rw [hps] at h; simp at h
        | panic e => rw [hps] at h; simp at h
    | .vec r, st, s, st', h => by
      simp only [formatType, bind_ok_iff] at h
      obtain ⟨⟨s1, st1⟩, h1, h2⟩ := h
      simp only [Outcome.ok.injEq, Prod.mk.injEq] at h2
      simp [unitIn, ← h2.2, formatType_st cfg gens r st s1 st1 h1]
    | .array r _, st, s, st', h => by
      simp only [formatType, bind_ok_iff] at h
      obtain ⟨⟨s1, st1⟩, h1, h2⟩ := h
      simp only [Outcome.ok.injEq, Prod.mk.injEq] at h2
      simp [unitIn, ← h2.2, formatType_st cfg gens r st s1 st1 h1]
    | .slice r, st, s, st', h => by
      simp only [formatType, bind_ok_iff] at h
      obtain ⟨⟨s1, st1⟩, h1, h2⟩ := h
      simp only [Outcome.ok.injEq, Prod.mk.injEq] at h2
      simp [unitIn, ← h2.2, formatType_st cfg gens r st s1 st1 h1]
    | .option r, st, s, st', h => by
      simp only [formatType, bind_ok_iff] at h
      obtain ⟨⟨s1, st1⟩, h1, h2⟩ := h
      simp only [Outcome.ok.injEq, Prod.mk.injEq] at h2
      simp [unitIn, ← h2.2, formatType_st cfg gens r st s1 st1 h1]
    | .hashMap k v, st, s, st', h => by
      simp only [formatType, bind_ok_iff] at h
      obtain ⟨⟨s1, st1⟩, h1, ⟨s2, st2⟩, h2, h3⟩ := h
      simp only [Outcome.ok.injEq, Prod.mk.injEq] at h3
      simp [unitIn, ← h3.2, formatType_st cfg gens k st s1 st1 h1, formatType_st cfg gens v st1 s2 st2 h2,
        Bool.or_assoc]
    | .prim p, st, s, st', h => by
      cases p <;> simp only [formatType, Outcome.ok.injEq, Prod.mk.injEq] at h <;>
        first | (simp [unitIn, ← h.2]) | (simp at h)
  theorem formatTypes_st (cfg : Cfg) (gens : List Str) : ∀ (ts : List RustType) (st : St) (ss : List Str) (st' : St),
      formatTypes cfg gens ts st = .ok (ss, st') → st' = (st || unitInList cfg ts)
    | [], st, ss, st', h => by
      simp only [formatTypes, Outcome.ok.injEq, Prod.mk.injEq] at h
      simp [unitInList, h.2]
    | t :: ts, st, ss, st', h => by
      simp only [formatTypes, bind_ok_iff] at h
      obtain ⟨⟨s1, st1⟩, h1, ⟨s2, st2⟩, h2, h3⟩ := h
      simp only [Outcome.ok.injEq, Prod.mk.injEq] at h3
      simp [unitInList, ← h3.2, formatType_st cfg gens t st s1 st1 h1, formatTypes_st cfg gens ts st1 s2 st2 h2,
        Bool.or_assoc]
end


/-! ## fields, structs, aliases, enums, items -/

/-- a field prints `CodableVoid` on typeshare's account iff it has no user-written type override and
its type tree contains `()` -/
def fieldUnit (cfg : Cfg) (f : RustField) : Bool :=
  match typeOverride f .swift with
  | some _ => false
  | none => unitIn cfg f.ty

theorem fieldType_st (cfg : Cfg) (gens : List Str) (f : RustField) (st : St) (s : Str) (st' : St)
    (h : fieldType cfg gens f st = .ok (s, st')) : st' = (st || fieldUnit cfg f) := by
  unfold fieldType at h
  unfold fieldUnit
  cases ho : typeOverride f .swift with
  | some t => rw [ho] at h; simp only [Outcome.ok.injEq, Prod.mk.injEq] at h; simp [h.2]
  | none => rw [ho] at h; exact formatType_st cfg gens f.ty st s st' h

theorem storedProps_st (cfg : Cfg) (gens : List Str) : ∀ (fs : List RustField) (st : St) r (st' : St),
    storedProps cfg gens fs st = .ok (r, st') → st' = (st || fs.any (fieldUnit cfg))
  | [], st, r, st', h => by
    simp only [storedProps, Outcome.ok.injEq, Prod.mk.injEq] at h; simp [h.2]
  | f :: fs, st, r, st', h => by
    simp only [storedProps, bind_ok_iff] at h
    obtain ⟨⟨s1, st1⟩, h1, ⟨s2, st2⟩, h2, h3⟩ := h
    simp only [Outcome.ok.injEq, Prod.mk.injEq] at h3
    simp [← h3.2, fieldType_st cfg gens f st s1 st1 h1, storedProps_st cfg gens fs st1 s2 st2 h2, Bool.or_assoc]

theorem initParams_st (cfg : Cfg) (gens : List Str) : ∀ (fs : List RustField) (st : St) r (st' : St),
    initParams cfg gens fs st = .ok (r, st') → st' = (st || fs.any (fieldUnit cfg))
  | [], st, r, st', h => by
    simp only [initParams, Outcome.ok.injEq, Prod.mk.injEq] at h; simp [h.2]
  | f :: fs, st, r, st', h => by
    simp only [initParams, bind_ok_iff] at h
    obtain ⟨⟨s1, st1⟩, h1, ⟨s2, st2⟩, h2, h3⟩ := h
    simp only [Outcome.ok.injEq, Prod.mk.injEq] at h3
    simp [← h3.2, fieldType_st cfg gens f st s1 st1 h1, initParams_st cfg gens fs st1 s2 st2 h2, Bool.or_assoc]

theorem structFacts_st (U : UnicodeOps) (cfg : Cfg) (rs : RustStruct) (st : St) r (st' : St)
    (h : structFacts U cfg rs st = .ok (r, st')) : st' = (st || rs.fields.any (fieldUnit cfg)) := by
  simp only [structFacts, bind_ok_iff] at h
  obtain ⟨⟨s1, st1⟩, h1, ⟨s2, st2⟩, h2, h3⟩ := h
  simp only [Outcome.ok.injEq, Prod.mk.injEq] at h3
  rw [← h3.2, initParams_st cfg _ _ st1 s2 st2 h2, storedProps_st cfg _ _ st s1 st1 h1]
  cases st <;> cases rs.fields.any (fieldUnit cfg) <;> rfl

/-- the payloads of an algebraic enum's variants that are formatted by `algebraicCase` -/
def variantUnit (cfg : Cfg) : RustEnumVariant → Bool
  | .tuple _ _ ty => unitIn cfg ty
  | _ => false

theorem algebraicCases_st {U : UnicodeOps} (cfg : Cfg) (e : RustEnum) : ∀ (vs : List RustEnumVariant) (st : St) r (st' : St),
    algebraicCases U cfg e vs st = .ok (r, st') → st' = (st || vs.any (variantUnit cfg))
  | [], st, r, st', h => by
    simp only [algebraicCases, Outcome.ok.injEq, Prod.mk.injEq] at h; simp [h.2]
  | v :: vs, st, r, st', h => by
    simp only [algebraicCases, bind_ok_iff] at h
    obtain ⟨⟨c1, st1⟩, h1, ⟨s2, st2⟩, h2, h3⟩ := h
    simp only [Outcome.ok.injEq, Prod.mk.injEq] at h3
    have hv : st1 = (st || variantUnit cfg v) := by
      cases v with
      | unit i c => simp only [algebraicCase, Outcome.ok.injEq, Prod.mk.injEq] at h1; simp [variantUnit, h1.2]
      | tuple i c ty =>
        simp only [algebraicCase, bind_ok_iff] at h1
        obtain ⟨⟨t, st3⟩, h4, h5⟩ := h1
        simp only [Outcome.ok.injEq, Prod.mk.injEq] at h5
        simp [variantUnit, ← h5.2, formatType_st cfg _ ty st t st3 h4]
      | anonymousStruct i c fs =>
        simp only [algebraicCase, Outcome.ok.injEq, Prod.mk.injEq] at h1; simp [variantUnit, h1.2]
    simp [← h3.2, hv, algebraicCases_st cfg e vs st1 s2 st2 h2, Bool.or_assoc]

theorem anonymousStructs_st (U : UnicodeOps) (cfg : Cfg) (e : RustEnum) :
    ∀ (l : List (Id × List RustField)) (st : St) r (st' : St),
    anonymousStructs U cfg e l st = .ok (r, st') → st' = (st || l.any fun p => p.2.any (fieldUnit cfg))
  | [], st, r, st', h => by
    simp only [anonymousStructs, Outcome.ok.injEq, Prod.mk.injEq] at h; simp [h.2]
  | (id, fields) :: rest, st, r, st', h => by
    simp only [anonymousStructs, bind_ok_iff] at h
    obtain ⟨⟨c1, st1⟩, h1, ⟨s2, st2⟩, h2, h3⟩ := h
    simp only [Outcome.ok.injEq, Prod.mk.injEq] at h3
    have h1' := structFacts_st U cfg _ st c1 st1 h1
    simp only [anonymousStruct] at h1'
    simp [← h3.2, h1', anonymousStructs_st U cfg e rest st1 s2 st2 h2, Bool.or_assoc]

/-- does generating the enum print `CodableVoid`: in a field of one of its struct variants or in a
tuple variant's payload (a unit enum has neither) -/
def enumUnit (cfg : Cfg) (e : RustEnum) : Bool :=
  ((structVariants e).any fun p => p.2.any (fieldUnit cfg)) ||
  (match e.keys with | none => false | some _ => e.variants.any (variantUnit cfg))

theorem enumFacts_st (U : UnicodeOps) (cfg : Cfg) (e : RustEnum) (st : St) ss se (st' : St)
    (h : enumFacts U cfg e st = .ok (ss, se, st')) : st' = (st || enumUnit cfg e) := by
  simp only [enumFacts, bind_ok_iff] at h
  obtain ⟨⟨ss1, st1⟩, h1, ⟨cs, st2⟩, h2, h3⟩ := h
  simp only [Outcome.ok.injEq, Prod.mk.injEq] at h3
  have h1' := anonymousStructs_st U cfg e _ st ss1 st1 h1
  unfold enumUnit
  cases hk : e.keys with
  | none =>
    rw [hk] at h2
    simp only [Outcome.ok.injEq, Prod.mk.injEq] at h2
    simp [← h3.2.2, ← h2.2, h1']
  | some k =>
    rw [hk] at h2
    simp only at h2
    simp [← h3.2.2, algebraicCases_st cfg e _ st1 cs st2 h2, h1', Bool.or_assoc]

/-- does generating the item print `CodableVoid` -/
def itemUnit (cfg : Cfg) : RustItem → Bool
  | .struct s => s.fields.any (fieldUnit cfg)
  | .enum e => enumUnit cfg e
  | .alias a => unitIn cfg a.ty
  | .const _ => false

theorem writeItem_st (U : UnicodeOps) (cfg : Cfg) (it : RustItem) (st : St) (s : Str) (st' : St)
    (h : writeItem U cfg it st = .ok (s, st')) : st' = (st || itemUnit cfg it) := by
  cases it with
  | struct rs =>
    simp only [writeItem, writeStruct, bind_ok_iff] at h
    obtain ⟨⟨f, st1⟩, h1, h2⟩ := h
    simp only [Outcome.ok.injEq, Prod.mk.injEq] at h2
    simp [itemUnit, ← h2.2, structFacts_st U cfg rs st f st1 h1]
  | «enum» e =>
    simp only [writeItem, writeEnum, bind_ok_iff] at h
    obtain ⟨⟨ss, se, st1⟩, h1, h2⟩ := h
    simp only [Outcome.ok.injEq, Prod.mk.injEq] at h2
    simp [itemUnit, ← h2.2, enumFacts_st U cfg e st ss se st1 h1]
  | alias a =>
    simp only [writeItem, writeAlias, bind_ok_iff] at h
    obtain ⟨⟨t, st1⟩, h1, h2⟩ := h
    simp only [Outcome.ok.injEq, Prod.mk.injEq] at h2
    simp [itemUnit, ← h2.2, formatType_st cfg _ a.ty st t st1 h1]
  | const c => simp [writeItem] at h

theorem writeItems_st (U : UnicodeOps) (cfg : Cfg) : ∀ (its : List RustItem) (st : St) (s : Str) (st' : St),
    writeItems U cfg its st = .ok (s, st') → st' = (st || its.any (itemUnit cfg))
  | [], st, s, st', h => by
    simp only [writeItems, Outcome.ok.injEq, Prod.mk.injEq] at h; simp [h.2]
  | it :: its, st, s, st', h => by
    simp only [writeItems, bind_ok_iff] at h
    obtain ⟨⟨a, st1⟩, h1, ⟨b, st2⟩, h2, h3⟩ := h
    simp only [Outcome.ok.injEq, Prod.mk.injEq] at h3
    simp [← h3.2, writeItem_st U cfg it st a st1 h1, writeItems_st U cfg its st1 b st2 h2, Bool.or_assoc]


/-! ## files and runs -/

/-- **helpersUsed (Swift)**: does the text generated for `d` use `CodableVoid` on typeshare's account -/
def used (cfg : Cfg) (d : ParsedData) : Bool := (itemsOf d).any (itemUnit cfg)

/-- one output file: the flag after it is "flag before ∨ used", and the text ends with what `end_file`
writes for that flag -/
theorem generate_spec (U : UnicodeOps) (cfg : Cfg) (multi : Bool) (d : ParsedData) (st0 : St) (text : Str) (st : St)
    (h : generate U cfg multi d st0 = .ok (text, st)) :
    st = (st0 || used cfg d) ∧ ∃ body, text = beginFile cfg ++ body ++ endFile cfg multi st := by
  unfold generate at h
  cases ho : Pipeline.generateOrder d with
  | none => rw [ho] at h; simp at h
  | some items =>
    rw [ho] at h
    simp only [bind_ok_iff] at h
    obtain ⟨⟨body, st1⟩, h1, h2⟩ := h
    simp only [Outcome.ok.injEq, Prod.mk.injEq] at h2
    have := writeItems_st U cfg items st0 body st1 h1
    rw [any_perm (generateOrder_perm d items ho)] at this
    refine ⟨by rw [← h2.2, this]; rfl, body, ?_⟩
    rw [← h2.1, h2.2]

/-- what one job contributes to its own output in single-file mode: the definition, at the end -/
def EndsWithCodable (cfg : Cfg) (text : Str) : Prop := ∃ pre, text = pre ++ writeCodable cfg

/-- the relation between the jobs of a run and its crate outputs -/
def Outs (cfg : Cfg) (multi : Bool) (jobs : List (Str × ParsedData × Option Pipeline.ScopedCrateTypes))
    (outs : List (Str × Str)) : Prop :=
  outs.length = jobs.length ∧
  ∀ p ∈ jobs.zip outs, p.2.1 = p.1.1 ∧ (used cfg p.1.2.1 = true → multi = false → EndsWithCodable cfg p.2.2)

theorem generateFrom_spec (U : UnicodeOps) (cfg : Cfg) (multi : Bool) :
    ∀ (jobs : List (Str × ParsedData × Option Pipeline.ScopedCrateTypes)) (st0 : St) outs (st : St),
    generateFrom U cfg multi jobs st0 = .ok (outs, st) →
    st = (st0 || jobs.any fun j => used cfg j.2.1) ∧ Outs cfg multi jobs outs
  | [], st0, outs, st, h => by
    simp only [generateFrom, Outcome.ok.injEq, Prod.mk.injEq] at h
    simp [Outs, ← h.1, ← h.2]
  | (crate, d, imps) :: rest, st0, outs, st, h => by
    simp only [generateFrom, bind_ok_iff] at h
    obtain ⟨⟨text, st1⟩, h1, ⟨outs', st2⟩, h2, h3⟩ := h
    simp only [Outcome.ok.injEq, Prod.mk.injEq] at h3
    obtain ⟨hst1, body, htext⟩ := generate_spec U cfg multi d st0 text st1 h1
    obtain ⟨hst2, hlen, hall⟩ := generateFrom_spec U cfg multi rest st1 outs' st2 h2
    refine ⟨by simp [← h3.2, hst2, hst1, Bool.or_assoc], ?_⟩
    rw [← h3.1]
    refine ⟨by simp [hlen], ?_⟩
    intro p hp
    simp only [List.zip_cons_cons, List.mem_cons] at hp
    rcases hp with rfl | hp
    · refine ⟨rfl, ?_⟩
      intro hu hm
      refine ⟨beginFile cfg ++ body, ?_⟩
      simp only at hu
      simp only
      rw [htext, hst1, hu, hm]
      simp [endFile]
    · exact hall p hp

/-- a whole run (`generateAll` starts with the flag cleared) -/
theorem generateAll_spec (E : Ext) (cfg : Cfg) (multi : Bool)
    (jobs : List (Str × ParsedData × Option Pipeline.ScopedCrateTypes)) (res : List (Str × Str))
    (h : generateAll E cfg multi jobs = .ok res) :
    ∃ outs, res = outs ++ postGeneration cfg multi (jobs.any fun j => used cfg j.2.1) ∧
      Outs cfg multi jobs outs := by
  simp only [generateAll, bind_ok_iff] at h
  obtain ⟨⟨outs, st⟩, h1, h2⟩ := h
  simp only [Outcome.ok.injEq] at h2
  obtain ⟨hst, hall⟩ := generateFrom_spec E.U cfg multi jobs false outs st h1
  refine ⟨outs, ?_, hall⟩
  rw [← h2, hst]; simp

/-- the text `write_codable` writes declares the struct `CodableVoid` -/
theorem writeCodable_defines (cfg : Cfg) : s%"public struct CodableVoid: " <:+: writeCodable cfg := by
  unfold writeCodable codableContents
  exact ⟨s%"\n/// () isn't codable, so we use this instead to represent Rust's unit type\n", _, by
    simp only [List.append_assoc]; rfl⟩

end TsV.C12L.Swift
