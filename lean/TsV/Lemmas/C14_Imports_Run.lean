import TsV.Lemmas.C14_Imports_Used
import TsV.Lemmas.C14_Imports_Visit
/-!
# From the per-file results to the job of a crate

* `parseAll_mem`: a file that yields a result has that result among the arrivals;
* `job_of_arrival`: the crate of an arrival has a job; the job's data carries the crate's name and (at least)
  the arrival's imports;
* `allTypes_find`: the `all_types` entry of a crate lists (at least) the type names of its arrivals.
-/
namespace TsV.C14I
open TsV TsV.Pipeline TsV.Collect TsV.C06M

theorem parseAll_mem (E : Ext) (ctx : ParseContext) (pick : List ImportedType → Option ImportedType) :
    ∀ (files : List Generate.SourceFile) (arrivals : List ParsedData),
      Generate.parseAll E ctx pick files = .ok arrivals →
      ∀ f ∈ files, ∀ d, Visitor.parseFile E ctx pick f.crateName f.fileName f.path f.file = .ok (some d) →
        d ∈ arrivals
  | [], _, _, f, hf, _, _ => by simp at hf
  | g :: gs, arrivals, h, f, hf, d, hd => by
    obtain ⟨r, rest, h1, h2, rfl⟩ := (parseAll_cons_ok E ctx pick g gs arrivals).1 h
    simp only [List.mem_cons] at hf
    rcases hf with rfl | hf
    · rw [hd] at h1
      simp only [Outcome.ok.injEq] at h1
      subst h1
      simp [optList]
    · exact List.mem_append_right _ (parseAll_mem E ctx pick gs rest h2 f hf d hd)

/-- every arrival is the result of some file -/
theorem parseAll_mem_inv (E : Ext) (ctx : ParseContext) (pick : List ImportedType → Option ImportedType) :
    ∀ (files : List Generate.SourceFile) (arrivals : List ParsedData),
      Generate.parseAll E ctx pick files = .ok arrivals →
      ∀ d ∈ arrivals, ∃ f ∈ files,
        Visitor.parseFile E ctx pick f.crateName f.fileName f.path f.file = .ok (some d)
  | [], arrivals, h, d, hd => by
    simp only [Generate.parseAll, Outcome.ok.injEq] at h
    subst h; simp at hd
  | g :: gs, arrivals, h, d, hd => by
    obtain ⟨r, rest, h1, h2, rfl⟩ := (parseAll_cons_ok E ctx pick g gs arrivals).1 h
    simp only [List.mem_append] at hd
    rcases hd with hd | hd
    · cases r with
      | none => simp [optList] at hd
      | some x =>
        simp only [optList, List.mem_singleton] at hd
        subst hd
        exact ⟨g, by simp, h1⟩
    · obtain ⟨f, hf, hp⟩ := parseAll_mem_inv E ctx pick gs rest h2 d hd
      exact ⟨f, by simp [hf], hp⟩

/-- the collected entry of the crate of an arrival -/
theorem entry_of_arrival (a : List ParsedData) (d : ParsedData) (hd : d ∈ a) :
    (d.crateName, merged {} (arr a d.crateName)) ∈ collect a ∧
    (merged {} (arr a d.crateName)).crateName = d.crateName ∧
    (∀ i ∈ d.importTypes, i ∈ (merged {} (arr a d.crateName)).importTypes) ∧
    (∀ t ∈ d.typeNames, t ∈ (merged {} (arr a d.crateName)).typeNames) := by
  have hk : d.crateName ∈ (collect a).map (·.1) := (collect_key_iff a d.crateName).2 ⟨d, hd, rfl⟩
  obtain ⟨p, hp, hpk⟩ := List.mem_map.1 hk
  obtain ⟨c, v⟩ := p
  simp only at hpk
  subst hpk
  have he := collect_entry a hp
  have hda : d ∈ arr a d.crateName := by simp [arr, List.mem_filter, hd]
  refine ⟨by rw [← he.1]; exact hp, ?_, ?_, ?_⟩
  · obtain ⟨x, hx, hx1, _⟩ := merged_last (arr a d.crateName) {} he.2
    rw [hx1]
    simp only [arr, List.mem_filter, beq_iff_eq] at hx
    exact hx.2
  · intro i hi
    exact (merged_imports_mem i _ _).2 (Or.inr ⟨d, hda, hi⟩)
  · intro t ht
    exact (merged_typeNames_mem t _ _).2 (Or.inr ⟨d, hda, ht⟩)

/-- the import set of a collected crate holds nothing but imports of its arrivals -/
theorem entry_imports_inv (a : List ParsedData) (c : Str) (v : ParsedData) (h : (c, v) ∈ collect a)
    (i : ImportedType) (hi : i ∈ v.importTypes) : ∃ d ∈ a, d.crateName = c ∧ i ∈ d.importTypes := by
  rw [(collect_entry a h).1, merged_imports_mem] at hi
  rcases hi with hi | ⟨d, hd, hi⟩
  · simp at hi
  · simp only [arr, List.mem_filter, beq_iff_eq] at hd
    exact ⟨d, hd.1, hd.2, hi⟩

/-- the `all_types` entry of a collected crate -/
theorem allTypes_find (m : List (Str × ParsedData)) (hs : Sorted m) (c : Str) (v : ParsedData) (h : (c, v) ∈ m) :
    (allTypes m).find? (·.1 == c) = some (c, v.typeNames) := by
  have hl := lookup_of_mem hs h
  unfold lookup at hl
  rw [Option.map_eq_some_iff] at hl
  obtain ⟨⟨k, w⟩, hf, hw⟩ := hl
  simp only at hw
  subst hw
  have hk : k = c := by
    have := List.find?_some hf
    exact eq_of_beq this
  subst hk
  unfold allTypes
  rw [List.find?_map]
  have : ((fun x : Str × List Str => x.1 == k) ∘ fun x : Str × ParsedData => (x.1, x.2.typeNames)) =
      fun x => x.1 == k := rfl
  rw [this, hf]
  rfl

/-- the job of a collected crate in a multi-file run -/
theorem job_of_entry (m : List (Str × ParsedData)) (c : Str) (v : ParsedData) (h : (c, v) ∈ m) :
    ∃ v', (c, v', some (usedImports v' (allTypes m) v'.importTypes (Generate.firstOther (allTypes m) v'.crateName)))
        ∈ jobsWith id m ∧ v'.importTypes = v.importTypes ∧ v'.crateName = v.crateName ∧
        v'.typeNames = v.typeNames := by
  refine ⟨reconcileOne (collectSerdeRenames m) c v, ?_, rfl, rfl, rfl⟩
  unfold jobsWith
  simp only [allTypes_reconcile, id]
  rw [reconcile_eq, List.map_map]
  exact List.mem_map.2 ⟨(c, v), h, rfl⟩

/-- every job is the job of a collected crate -/
theorem job_inv (m : List (Str × ParsedData)) (j : Job) (h : j ∈ jobsWith id m) :
    ∃ v, (j.1, v) ∈ m ∧ j.2.1.importTypes = v.importTypes ∧ j.2.1.crateName = v.crateName ∧
      j.2.2 = some (usedImports j.2.1 (allTypes m) j.2.1.importTypes
        (Generate.firstOther (allTypes m) j.2.1.crateName)) := by
  unfold jobsWith at h
  simp only [allTypes_reconcile, id] at h
  rw [reconcile_eq, List.map_map] at h
  obtain ⟨p, hp, rfl⟩ := List.mem_map.1 h
  exact ⟨p.2, hp, rfl, rfl, rfl⟩

/-- the data of a collected crate carries the crate's name -/
theorem entry_crateName (a : List ParsedData) (c : Str) (v : ParsedData) (h : (c, v) ∈ collect a) :
    v.crateName = c := by
  have he := collect_entry a h
  obtain ⟨x, hx, hx1, _⟩ := merged_last (arr a c) {} he.2
  rw [he.1, hx1]
  simp only [arr, List.mem_filter, beq_iff_eq] at hx
  exact hx.2

end TsV.C14I
