import TsV.Lemmas.C06_Multi_Scoped
import TsV.Props.C06
import TsV.Lemmas.MinByKey
/-!
# The collector and `reconcile` for several crates, up to arrival order and hash order

* `collect_canon`: `collect a` is, for the sorted list of crate names that occur in `a`, the fold of that
  crate's arrivals;
* `DataEq` / `MapEq`: two per-crate results / two collected maps that differ only by the order of the item
  lists and of the hash sets;  `collect_mapEq`: permuting the arrivals (`PartRel`) gives `MapEq` maps;
* `resolve_congr_mem`: `resolve_renamed` does not depend on the order of the import set (it takes the renaming
  crate with the smallest name: `Lemmas/MinByKey.lean`);
* `reconcile_mapEq`: on `MapEq` maps with unique names `reconcile` yields equal item lists.
-/
namespace TsV.C06M
open TsV TsV.Pipeline TsV.Collect

/-! ### canonical form of the collector's map -/

theorem sorted_keys : ∀ {m : List (Str × ParsedData)}, Sorted m → SSorted (m.map (·.1))
  | [], _ => by simp [SSorted]
  | (k, v) :: rest, h => by
    refine List.pairwise_cons.2 ⟨?_, sorted_keys (sorted_tail h)⟩
    intro a ha
    obtain ⟨p, hp, rfl⟩ := List.mem_map.1 ha
    exact sorted_head_lt k v rest h p hp

theorem lookup_of_mem : ∀ {m : List (Str × ParsedData)}, Sorted m → ∀ {c : Str} {v : ParsedData},
    (c, v) ∈ m → lookup m c = some v
  | [], _, _, _, h => by simp at h
  | (k, w) :: rest, hs, c, v, h => by
    simp only [List.mem_cons, Prod.mk.injEq] at h
    rcases h with ⟨rfl, rfl⟩ | h
    · simp [lookup]
    · have hlt := sorted_head_lt k w rest hs (c, v) h
      have hne : (k == c) = false := by
        cases hkc : k == c with
        | false => rfl
        | true =>
          have := eq_of_beq hkc
          subst this
          rw [Order.lt_irrefl] at hlt
          exact absurd hlt (by simp)
      have ih := lookup_of_mem (sorted_tail hs) h
      simp only [lookup, List.find?_cons, hne] at ih ⊢
      exact ih

/-- the arrivals that belong to crate `c`, in arrival order -/
def arr (a : List ParsedData) (c : Str) : List ParsedData := a.filter fun d => d.crateName == c

theorem collect_entry (a : List ParsedData) {c : Str} {v : ParsedData} (h : (c, v) ∈ collect a) :
    v = merged {} (arr a c) ∧ arr a c ≠ [] := by
  have h1 := lookup_of_mem (collect_sorted a) h
  rw [collect_lookup] at h1
  unfold arr
  cases hf : a.filter (fun d => d.crateName == c) with
  | nil => rw [hf] at h1; simp at h1
  | cons x t =>
    rw [hf] at h1
    simp only [Option.some.injEq] at h1
    exact ⟨h1.symm, by simp⟩

theorem arr_ne_nil_iff (a : List ParsedData) (c : Str) : arr a c ≠ [] ↔ ∃ d ∈ a, d.crateName = c := by
  unfold arr
  constructor
  · intro h
    obtain ⟨d, hd⟩ := List.exists_mem_of_ne_nil _ h
    simp only [List.mem_filter, beq_iff_eq] at hd
    exact ⟨d, hd.1, hd.2⟩
  · rintro ⟨d, hd, hc⟩ h
    have : d ∈ a.filter fun d => d.crateName == c := by simp [List.mem_filter, hd, hc]
    rw [h] at this
    simp at this

theorem collect_key_iff (a : List ParsedData) (c : Str) :
    c ∈ (collect a).map (·.1) ↔ ∃ d ∈ a, d.crateName = c := by
  rw [← arr_ne_nil_iff]
  constructor
  · intro h
    obtain ⟨p, hp, rfl⟩ := List.mem_map.1 h
    exact (collect_entry a (c := p.1) (v := p.2) hp).2
  · intro h
    have h1 := collect_lookup a c
    unfold arr at h
    cases hf : a.filter (fun d => d.crateName == c) with
    | nil => exact absurd hf h
    | cons x t =>
      rw [hf] at h1
      simp only [lookup, Option.map_eq_some_iff] at h1
      obtain ⟨p, hp, _⟩ := h1
      have hk := List.find?_some hp
      have : p.1 = c := eq_of_beq hk
      exact List.mem_map.2 ⟨p, List.mem_of_find?_eq_some hp, this⟩

/-- **canonical form**: the collector's map lists, for the crate names in sorted order, the fold of that crate's
arrivals -/
theorem collect_canon (a : List ParsedData) :
    collect a = ((collect a).map (·.1)).map fun c => (c, merged {} (arr a c)) := by
  rw [List.map_map]
  conv => lhs; rw [← List.map_id (collect a)]
  apply List.map_congr_left
  intro p hp
  obtain ⟨c, v⟩ := p
  simp [(collect_entry a hp).1]

/-- the key list only depends on the set of crate names that occur -/
theorem collect_keys_congr (a b : List ParsedData)
    (h : ∀ c, (∃ d ∈ a, d.crateName = c) ↔ (∃ d ∈ b, d.crateName = c)) :
    (collect a).map (·.1) = (collect b).map (·.1) :=
  ssorted_ext (sorted_keys (collect_sorted a)) (sorted_keys (collect_sorted b))
    (fun c => by rw [collect_key_iff, collect_key_iff, h])

/-! ### the per-crate fold: hash-set fields and meta data -/

theorem merged_imports_mem (i : ImportedType) : ∀ (a : List ParsedData) (acc : ParsedData),
    i ∈ (merged acc a).importTypes ↔ i ∈ acc.importTypes ∨ ∃ d ∈ a, i ∈ d.importTypes
  | [], acc => by simp [merged]
  | d :: t, acc => by
    have ih := merged_imports_mem i t (addAssign acc d)
    simp only [merged, List.foldl_cons] at ih ⊢
    rw [ih]
    have : i ∈ (addAssign acc d).importTypes ↔ i ∈ acc.importTypes ∨ i ∈ d.importTypes := by
      simp only [addAssign]; exact mem_foldl_insertSet i _ _
    rw [this]
    simp only [List.mem_cons, exists_eq_or_imp]
    exact or_assoc

theorem merged_typeNames_mem (i : Str) : ∀ (a : List ParsedData) (acc : ParsedData),
    i ∈ (merged acc a).typeNames ↔ i ∈ acc.typeNames ∨ ∃ d ∈ a, i ∈ d.typeNames
  | [], acc => by simp [merged]
  | d :: t, acc => by
    have ih := merged_typeNames_mem i t (addAssign acc d)
    simp only [merged, List.foldl_cons] at ih ⊢
    rw [ih]
    have : i ∈ (addAssign acc d).typeNames ↔ i ∈ acc.typeNames ∨ i ∈ d.typeNames := by
      simp only [addAssign]; exact mem_foldl_insertSet i _ _
    rw [this]
    simp only [List.mem_cons, exists_eq_or_imp]
    exact or_assoc

/-- crate name, file name and mode of the fold are those of some arrival (the last one) -/
theorem merged_last : ∀ (l : List ParsedData) (acc : ParsedData), l ≠ [] →
    ∃ d ∈ l, (merged acc l).crateName = d.crateName ∧ (merged acc l).fileName = d.fileName ∧
      (merged acc l).multiFile = d.multiFile
  | [], _, h => absurd rfl h
  | [d], acc, _ => ⟨d, by simp, by simp [merged, addAssign]⟩
  | d :: d2 :: t, acc, _ => by
    obtain ⟨x, hx, h⟩ := merged_last (d2 :: t) (addAssign acc d) (by simp)
    refine ⟨x, by simp only [List.mem_cons] at hx ⊢; exact Or.inr hx, ?_⟩
    simpa [merged] using h

/-! ### equality up to the order of item lists and hash sets -/

/-- two per-crate results that differ only in the order of the item vectors and of the hash sets -/
structure DataEq (d d' : ParsedData) : Prop where
  structs : d.structs.Perm d'.structs
  enums : d.enums.Perm d'.enums
  aliases : d.aliases.Perm d'.aliases
  consts : d.consts.Perm d'.consts
  errors : d.errors.Perm d'.errors
  imports : ∀ i, i ∈ d.importTypes ↔ i ∈ d'.importTypes
  typeNames : ∀ t, t ∈ d.typeNames ↔ t ∈ d'.typeNames
  crateName : d.crateName = d'.crateName
  fileName : d.fileName = d'.fileName
  multiFile : d.multiFile = d'.multiFile

theorem DataEq.refl (d : ParsedData) : DataEq d d :=
  ⟨.refl _, .refl _, .refl _, .refl _, .refl _, fun _ => Iff.rfl, fun _ => Iff.rfl, rfl, rfl, rfl⟩

theorem DataEq.trans {d₁ d₂ d₃ : ParsedData} (h : DataEq d₁ d₂) (h' : DataEq d₂ d₃) : DataEq d₁ d₃ :=
  ⟨h.structs.trans h'.structs, h.enums.trans h'.enums, h.aliases.trans h'.aliases, h.consts.trans h'.consts,
   h.errors.trans h'.errors, fun i => (h.imports i).trans (h'.imports i),
   fun t => (h.typeNames t).trans (h'.typeNames t), h.crateName.trans h'.crateName,
   h.fileName.trans h'.fileName, h.multiFile.trans h'.multiFile⟩

theorem DataEq.symm {d₁ d₂ : ParsedData} (h : DataEq d₁ d₂) : DataEq d₂ d₁ :=
  ⟨h.structs.symm, h.enums.symm, h.aliases.symm, h.consts.symm, h.errors.symm, fun i => (h.imports i).symm,
   fun t => (h.typeNames t).symm, h.crateName.symm, h.fileName.symm, h.multiFile.symm⟩

def EntryEq (p q : Str × ParsedData) : Prop := p.1 = q.1 ∧ DataEq p.2 q.2

/-- two collected maps: the same crates in the same order, per crate `DataEq` -/
def MapEq (m m' : List (Str × ParsedData)) : Prop := Rel₂ EntryEq m m'

theorem MapEq.refl (m : List (Str × ParsedData)) : MapEq m m :=
  Rel₂.refl m fun p _ => ⟨rfl, DataEq.refl p.2⟩

theorem MapEq.trans {m₁ m₂ m₃ : List (Str × ParsedData)} (h : MapEq m₁ m₂) (h' : MapEq m₂ m₃) : MapEq m₁ m₃ :=
  Rel₂.trans (fun _ _ _ h1 h2 => ⟨h1.1.trans h2.1, h1.2.trans h2.2⟩) h h'

theorem MapEq.symm {m₁ m₂ : List (Str × ParsedData)} (h : MapEq m₁ m₂) : MapEq m₂ m₁ :=
  Rel₂.symm (fun _ _ h1 => ⟨h1.1.symm, h1.2.symm⟩) h

theorem MapEq.keys {m m' : List (Str × ParsedData)} (h : MapEq m m') : m.map (·.1) = m'.map (·.1) :=
  Rel₂.map_eq h fun _ _ _ _ hr => hr.1

/-- the arrivals of one crate in two schedules: same items up to order, same sets, same meta data -/
structure PartEq (l l' : List ParsedData) : Prop where
  structs : (l.flatMap (·.structs)).Perm (l'.flatMap (·.structs))
  enums : (l.flatMap (·.enums)).Perm (l'.flatMap (·.enums))
  aliases : (l.flatMap (·.aliases)).Perm (l'.flatMap (·.aliases))
  consts : (l.flatMap (·.consts)).Perm (l'.flatMap (·.consts))
  errors : (l.flatMap (·.errors)).Perm (l'.flatMap (·.errors))
  imports : ∀ i, (∃ d ∈ l, i ∈ d.importTypes) ↔ (∃ d ∈ l', i ∈ d.importTypes)
  typeNames : ∀ t, (∃ d ∈ l, t ∈ d.typeNames) ↔ (∃ d ∈ l', t ∈ d.typeNames)
  nonempty : l ≠ [] ↔ l' ≠ []
  info : ∀ d ∈ l, ∀ d' ∈ l', d.crateName = d'.crateName ∧ d.fileName = d'.fileName ∧ d.multiFile = d'.multiFile

/-- two arrival lists that are, crate by crate, `PartEq` -/
def PartRel (a b : List ParsedData) : Prop := ∀ c, PartEq (arr a c) (arr b c)

theorem merged_dataEq {l l' : List ParsedData} (h : PartEq l l') (hne : l ≠ []) :
    DataEq (merged {} l) (merged {} l') := by
  obtain ⟨x, hx, hx1, hx2, hx3⟩ := merged_last l {} hne
  obtain ⟨y, hy, hy1, hy2, hy3⟩ := merged_last l' {} (h.nonempty.1 hne)
  have hm := h.info x hx y hy
  refine ⟨?_, ?_, ?_, ?_, ?_, ?_, ?_, ?_, ?_, ?_⟩
  · rw [merged_structs, merged_structs]; simpa using h.structs
  · rw [merged_enums, merged_enums]; simpa using h.enums
  · rw [merged_aliases, merged_aliases]; simpa using h.aliases
  · rw [merged_consts, merged_consts]; simpa using h.consts
  · rw [merged_errors, merged_errors]; simpa using h.errors
  · intro i; rw [merged_imports_mem, merged_imports_mem]; simpa using h.imports i
  · intro t; rw [merged_typeNames_mem, merged_typeNames_mem]; simpa using h.typeNames t
  · rw [hx1, hy1, hm.1]
  · rw [hx2, hy2, hm.2.1]
  · rw [hx3, hy3, hm.2.2]

/-- **the collector, several crates**: crate-wise equivalent arrival lists are collected into maps with the
same crates in the same order and per crate `DataEq` data -/
theorem collect_mapEq_of (a b : List ParsedData) (h : PartRel a b) : MapEq (collect a) (collect b) := by
  have hk : (collect a).map (·.1) = (collect b).map (·.1) := by
    apply collect_keys_congr
    intro c
    rw [← arr_ne_nil_iff, ← arr_ne_nil_iff]
    exact (h c).nonempty
  rw [collect_canon a, collect_canon b, ← hk]
  apply Rel₂.of_map
  intro c hc
  refine ⟨rfl, merged_dataEq (h c) ?_⟩
  exact (arr_ne_nil_iff a c).2 ((collect_key_iff a c).1 hc)

/-- within a crate every arrival carries the same output file name and mode -/
def UniformPerCrate (a : List ParsedData) : Prop :=
  ∀ d ∈ a, ∀ d' ∈ a, d.crateName = d'.crateName → d.fileName = d'.fileName ∧ d.multiFile = d'.multiFile

/-- a permutation of the arrivals is crate-wise equivalent -/
theorem partRel_of_perm (a b : List ParsedData) (hp : a.Perm b) (hu : UniformPerCrate a) : PartRel a b := by
  intro c
  have hpc : (arr a c).Perm (arr b c) := hp.filter _
  refine ⟨hpc.flatMap_right _, hpc.flatMap_right _, hpc.flatMap_right _, hpc.flatMap_right _,
    hpc.flatMap_right _, ?_, ?_, ?_, ?_⟩
  · intro i
    constructor <;> rintro ⟨d, hd, hi⟩
    · exact ⟨d, hpc.subset hd, hi⟩
    · exact ⟨d, hpc.symm.subset hd, hi⟩
  · intro i
    constructor <;> rintro ⟨d, hd, hi⟩
    · exact ⟨d, hpc.subset hd, hi⟩
    · exact ⟨d, hpc.symm.subset hd, hi⟩
  · exact ⟨fun h h' => by rw [h'] at hpc; exact h hpc.eq_nil,
      fun h h' => by rw [h'] at hpc; exact h hpc.symm.eq_nil⟩
  · intro d hd d' hd'
    have hd'' := hpc.symm.subset hd'
    simp only [arr, List.mem_filter, beq_iff_eq] at hd hd''
    have hcc : d.crateName = d'.crateName := hd.2.trans hd''.2.symm
    exact ⟨hcc, hu d hd.1 d' hd''.1 hcc⟩

/-- the same file, its two hash sets (`import_types`, `type_names`) iterated in another order -/
structure FileEq (d d' : ParsedData) : Prop where
  structs : d.structs = d'.structs
  enums : d.enums = d'.enums
  aliases : d.aliases = d'.aliases
  consts : d.consts = d'.consts
  errors : d.errors = d'.errors
  imports : ∀ i, i ∈ d.importTypes ↔ i ∈ d'.importTypes
  typeNames : ∀ t, t ∈ d.typeNames ↔ t ∈ d'.typeNames
  crateName : d.crateName = d'.crateName
  fileName : d.fileName = d'.fileName
  multiFile : d.multiFile = d'.multiFile

theorem arr_rel₂ (c : Str) : ∀ {a a' : List ParsedData}, Rel₂ FileEq a a' → Rel₂ FileEq (arr a c) (arr a' c)
  | [], [], _ => trivial
  | d :: t, d' :: t', h => by
    have ih := arr_rel₂ c h.2
    unfold arr at ih ⊢
    simp only [List.filter_cons, ← h.1.crateName]
    by_cases hc : (d.crateName == c) = true
    · simp only [hc, if_true]; exact ⟨h.1, ih⟩
    · simp only [hc, Bool.false_eq_true, if_false]; exact ih
  | [], _ :: _, h => h.elim
  | _ :: _, [], h => h.elim

theorem Rel₂.eq_nil_iff {α β} {R : α → β → Prop} : ∀ {l : List α} {l' : List β}, Rel₂ R l l' → (l = [] ↔ l' = [])
  | [], [], _ => by simp
  | _ :: _, _ :: _, _ => by simp
  | [], _ :: _, h => h.elim
  | _ :: _, [], h => h.elim

/-- the same arrivals, every file's hash sets in another iteration order, are crate-wise equivalent -/
theorem partRel_of_fileEq (a a' : List ParsedData) (h : Rel₂ FileEq a a') (hu : UniformPerCrate a) :
    PartRel a a' := by
  intro c
  have hr := arr_rel₂ c h
  refine ⟨?_, ?_, ?_, ?_, ?_, ?_, ?_, ?_, ?_⟩
  · exact Rel₂.flatMap_perm hr fun x y _ _ hxy => by rw [hxy.structs]
  · exact Rel₂.flatMap_perm hr fun x y _ _ hxy => by rw [hxy.enums]
  · exact Rel₂.flatMap_perm hr fun x y _ _ hxy => by rw [hxy.aliases]
  · exact Rel₂.flatMap_perm hr fun x y _ _ hxy => by rw [hxy.consts]
  · exact Rel₂.flatMap_perm hr fun x y _ _ hxy => by rw [hxy.errors]
  · intro i
    constructor
    · rintro ⟨d, hd, hi⟩
      obtain ⟨d', hd', hr'⟩ := Rel₂.exists_right hr d hd
      exact ⟨d', hd', (hr'.imports i).1 hi⟩
    · rintro ⟨d', hd', hi⟩
      obtain ⟨d, hd, hr'⟩ := Rel₂.exists_left hr d' hd'
      exact ⟨d, hd, (hr'.imports i).2 hi⟩
  · intro i
    constructor
    · rintro ⟨d, hd, hi⟩
      obtain ⟨d', hd', hr'⟩ := Rel₂.exists_right hr d hd
      exact ⟨d', hd', (hr'.typeNames i).1 hi⟩
    · rintro ⟨d', hd', hi⟩
      obtain ⟨d, hd, hr'⟩ := Rel₂.exists_left hr d' hd'
      exact ⟨d, hd, (hr'.typeNames i).2 hi⟩
  · exact Iff.intro (not_congr (Rel₂.eq_nil_iff hr)).1 (not_congr (Rel₂.eq_nil_iff hr)).2
  · intro d hd d' hd'
    obtain ⟨d₀, hd₀, hr'⟩ := Rel₂.exists_left hr d' hd'
    simp only [arr, List.mem_filter, beq_iff_eq] at hd hd₀
    have hcc : d.crateName = d₀.crateName := hd.2.trans hd₀.2.symm
    have := hu d hd.1 d₀ hd₀.1 hcc
    exact ⟨hcc.trans hr'.crateName, this.1.trans hr'.fileName, this.2.trans hr'.multiFile⟩

/-! ### `resolve_renamed` and the hash order of `import_types` -/

/-- **hash order of `import_types` in `resolve_renamed`**: the result only depends on the import *set*
(`min_by_key` on the crate name; no hypothesis on the imports since the `fix:` commit "resolve a type name imported
from several crates the same way in every run") -/
theorem resolve_congr_mem (c : Str) (r : Renames) (imps imps' : List ImportedType) (id : Str)
    (hi : ∀ i, i ∈ imps ↔ i ∈ imps') : resolveRenamed c r imps id = resolveRenamed c r imps' id :=
  MinByKey.resolve_congr_mem c r imps imps' id hi

theorem resolve_perm (c : Str) (r : Renames) (imps imps' : List ImportedType) (id : Str)
    (hp : imps.Perm imps') : resolveRenamed c r imps id = resolveRenamed c r imps' id :=
  MinByKey.resolve_perm c r imps imps' id hp

mutual
  theorem checkType_congr {c c' : Str} {r r' : Renames} {imps imps' : List ImportedType}
      (h : ∀ id, resolveRenamed c r imps id = resolveRenamed c' r' imps' id) :
      ∀ t : RustType, checkType c r imps t = checkType c' r' imps' t
    | .generic id ps => by simp only [checkType]; rw [checkTypes_congr h ps, h id]
    | .vec t => by simp only [checkType]; rw [checkType_congr h t]
    | .array t n => by simp only [checkType]; rw [checkType_congr h t]
    | .slice t => by simp only [checkType]; rw [checkType_congr h t]
    | .hashMap k v => by simp only [checkType]; rw [checkType_congr h k, checkType_congr h v]
    | .option t => by simp only [checkType]; rw [checkType_congr h t]
    | .prim p => by simp [checkType]
    | .simple id => by simp only [checkType]; rw [h id]
  theorem checkTypes_congr {c c' : Str} {r r' : Renames} {imps imps' : List ImportedType}
      (h : ∀ id, resolveRenamed c r imps id = resolveRenamed c' r' imps' id) :
      ∀ ts : List RustType, checkTypes c r imps ts = checkTypes c' r' imps' ts
    | [] => by simp [checkTypes]
    | t :: ts => by simp only [checkTypes]; rw [checkType_congr h t, checkTypes_congr h ts]
end

/-! ### `reconcile` on equivalent maps -/

/-- crate names are distinct; within a crate no two types share an original name and no two consts do -/
structure MapWF (m : List (Str × ParsedData)) : Prop where
  keys : (m.map (·.1)).Nodup
  types : ∀ p ∈ m, (p.2.structs.map (·.id.original) ++ p.2.enums.map (·.id.original) ++
            p.2.aliases.map (·.id.original)).Nodup
  consts : ∀ p ∈ m, (p.2.consts.map (·.id.original)).Nodup

theorem collectSerdeRenames_eq (m : List (Str × ParsedData)) :
    collectSerdeRenames m = m.flatMap fun p => C06.renamesOf p.1 p.2.structs p.2.enums p.2.aliases := rfl

theorem renamesOf_crate (c : Str) (ss : List RustStruct) (es : List RustEnum) (as : List RustTypeAlias) :
    ∀ e ∈ C06.renamesOf c ss es as, e.2.1 = c := by
  intro e he
  simp only [C06.renamesOf, List.mem_append, List.mem_filterMap] at he
  rcases he with (⟨s, _, hs⟩ | ⟨s, _, hs⟩) | ⟨s, _, hs⟩ <;>
    (split at hs <;> simp at hs; rw [← hs])

theorem collectSerdeRenames_unique (m : List (Str × ParsedData)) (h : MapWF m) :
    UniqueKeys (collectSerdeRenames m) := by
  unfold UniqueKeys
  rw [collectSerdeRenames_eq, List.map_flatMap]
  unfold List.Nodup
  rw [List.pairwise_flatMap]
  refine ⟨?_, ?_⟩
  · intro p hp
    exact C06.renamesOf_unique p.1 _ _ _ (h.types p hp)
  · have hk : List.Pairwise (fun p q : Str × ParsedData => p.1 ≠ q.1) m := by
      have := h.keys
      unfold List.Nodup at this
      exact List.pairwise_map.1 this
    refine hk.imp ?_
    intro p q hpq x hx y hy hxy
    obtain ⟨e, he, rfl⟩ := List.mem_map.1 hx
    obtain ⟨e', he', rfl⟩ := List.mem_map.1 hy
    have h1 := renamesOf_crate _ _ _ _ e he
    have h2 := renamesOf_crate _ _ _ _ e' he'
    simp only [Prod.mk.injEq] at hxy
    exact hpq (h1.symm.trans (hxy.2.trans h2))

theorem collectSerdeRenames_perm {m m' : List (Str × ParsedData)} (h : MapEq m m') :
    (collectSerdeRenames m).Perm (collectSerdeRenames m') := by
  rw [collectSerdeRenames_eq, collectSerdeRenames_eq]
  apply Rel₂.flatMap_perm h
  intro p q _ _ hpq
  rw [hpq.1]
  exact C06.renamesOf_perm q.1 hpq.2.structs hpq.2.enums hpq.2.aliases

theorem renEquiv_of_mapEq {m m' : List (Str × ParsedData)} (h : MapEq m m') (wf : MapWF m) :
    RenEquiv (collectSerdeRenames m) (collectSerdeRenames m') := fun x cr =>
  ⟨renameOf_perm _ _ (collectSerdeRenames_perm h) (collectSerdeRenames_unique m wf) x cr,
   hasRename_perm _ _ (collectSerdeRenames_perm h) x⟩

/-- what is compared of one reconciled crate: everything `generate_types` and `used_imports` read — the four
item lists *as lists* (they are sorted), the crate key, crate name, file name, mode; the two hash sets as sets;
the recorded parse errors up to order -/
structure RecEq (p q : Str × ParsedData) : Prop where
  key : p.1 = q.1
  structs : p.2.structs = q.2.structs
  enums : p.2.enums = q.2.enums
  aliases : p.2.aliases = q.2.aliases
  consts : p.2.consts = q.2.consts
  crateName : p.2.crateName = q.2.crateName
  fileName : p.2.fileName = q.2.fileName
  multiFile : p.2.multiFile = q.2.multiFile
  imports : ∀ i, i ∈ p.2.importTypes ↔ i ∈ q.2.importTypes
  typeNames : ∀ t, t ∈ p.2.typeNames ↔ t ∈ q.2.typeNames
  errors : p.2.errors.Perm q.2.errors

theorem reconcileOne_recEq (r r' : Renames) (c : Str) (d d' : ParsedData) (he : DataEq d d')
    (hr : RenEquiv r r')
    (hty : (d.structs.map (·.id.original) ++ d.enums.map (·.id.original) ++ d.aliases.map (·.id.original)).Nodup)
    (hco : (d.consts.map (·.id.original)).Nodup) :
    RecEq (c, reconcileOne r c d) (c, reconcileOne r' c d') := by
  have hres : ∀ id, resolveRenamed c r d.importTypes id = resolveRenamed c r' d'.importTypes id := fun id =>
    (resolve_congr_mem c r _ _ id he.imports).trans (resolve_equiv r r' hr c _ id)
  have hct : checkType c r d.importTypes = checkType c r' d'.importTypes := funext (checkType_congr hres)
  have hcf : checkField c r d.importTypes = checkField c r' d'.importTypes := by
    funext f; simp only [checkField, hct]
  have hcv : checkVariant c r d.importTypes = checkVariant c r' d'.importTypes := by
    funext v
    cases v with
    | unit i cs => rfl
    | tuple i cs ty => simp only [checkVariant, hct]
    | anonymousStruct i cs fs => simp only [checkVariant, hcf]
  have hS : (d.structs.map (·.id.original)).Nodup := (List.nodup_append.1 (List.nodup_append.1 hty).1).1
  have hE : (d.enums.map (·.id.original)).Nodup := (List.nodup_append.1 (List.nodup_append.1 hty).1).2.1
  have hA : (d.aliases.map (·.id.original)).Nodup := (List.nodup_append.1 hty).2.1
  refine ⟨rfl, ?_, ?_, ?_, ?_, he.crateName, he.fileName, he.multiFile, he.imports, he.typeNames, he.errors⟩
  · simp only [reconcileOne, hcf]
    apply Order.sortBy_perm_invariant _ _ _ (he.structs.map _)
    rw [List.map_map]; exact hS
  · simp only [reconcileOne, hcv]
    apply Order.sortBy_perm_invariant _ _ _ (he.enums.map _)
    rw [List.map_map]; exact hE
  · simp only [reconcileOne, hct]
    apply Order.sortBy_perm_invariant _ _ _ (he.aliases.map _)
    rw [List.map_map]; exact hA
  · simp only [reconcileOne]
    exact Order.sortBy_perm_invariant _ _ _ he.consts hco

theorem reconcile_eq (m : List (Str × ParsedData)) :
    reconcile m = m.map fun p => (p.1, reconcileOne (collectSerdeRenames m) p.1 p.2) := rfl

/-- **`reconcile` on equivalent maps**: with distinct names per crate the reconciled crates agree on everything
that is read afterwards (whatever is imported from wherever) -/
theorem reconcile_mapEq {m m' : List (Str × ParsedData)} (h : MapEq m m') (wf : MapWF m) :
    Rel₂ RecEq (reconcile m) (reconcile m') := by
  rw [reconcile_eq, reconcile_eq]
  apply Rel₂.map
  apply Rel₂.imp h
  intro p q hp _ hpq
  have := reconcileOne_recEq (collectSerdeRenames m) (collectSerdeRenames m') p.1 p.2 q.2 hpq.2
    (renEquiv_of_mapEq h wf) (wf.types p hp) (wf.consts p hp)
  rw [← hpq.1]
  exact this

theorem allTypes_reconcile (m : List (Str × ParsedData)) : allTypes (reconcile m) = allTypes m := by
  rw [reconcile_eq]
  unfold allTypes
  rw [List.map_map]
  rfl

end TsV.C06M
