import TsV.Lemmas.C02_Base
import TsV.Model.Lang.Swift
/-!
# C02, Swift: raw values / `CodingKeys`, and the synthesised `Codable` conformance as a template
-/
namespace TsV.C02.Sw
open TsV TsV.Str TsV.Lang TsV.Lang.Swift TsV.C02

/-! ## the `init(from:)` / `encode(to:)` bodies as templates with key holes -/

def decodeArmSegs (ck : Str) : DecodeArm → List Seg
  | .unit n =>
    [.lit (s%"\n\t\t\tcase ." ++ n ++ s%":\n\t\t\t\tself = ." ++ n ++ s%"\n\t\t\t\treturn")]
  | .content n ty nilFallback =>
    [.lit ((if nilFallback then s%"\n            case ." else s%"\n\t\t\tcase .") ++ n ++
        s%":\n\t\t\t\tif let content = try? container.decode(" ++ ty ++ s%".self, forKey: ."),
     .hole .content .raw ck,
     .lit (s%") {\n\t\t\t\t\tself = ." ++ n ++ s%"(content)\n\t\t\t\t\treturn\n\t\t\t\t}")] ++
    (if nilFallback then
      [.lit s%"\n\t\t\t\telse if let isNil = try? container.decodeNil(forKey: .",
       .hole .content .raw ck,
       .lit (s%"), isNil {\n\t\t\t\t\tself = ." ++ n ++ s%"(nil)\n\t\t\t\t\treturn\n\t\t\t\t}")]
    else [])

def encodeArmSegs (tk ck : Str) : EncodeArm → List Seg
  | .unit n =>
    [.lit (s%"\n\t\tcase ." ++ n ++ s%":\n\t\t\ttry container.encode(CodingKeys." ++ n ++ s%", forKey: ."),
     .hole .tag .raw tk, .lit s%")"]
  | .content n =>
    [.lit (s%"\n\t\tcase ." ++ n ++ s%"(let content):\n\t\t\ttry container.encode(CodingKeys." ++ n ++ s%", forKey: ."),
     .hole .tag .raw tk,
     .lit s%")\n\t\t\ttry container.encode(content, forKey: .",
     .hole .content .raw ck, .lit s%")"]

/-- the whole conformance: `ContainerCodingKeys`, `init(from:)`, `encode(to:)` -/
def codableSegs (a : AlgebraicCodable) : List Seg :=
  [.lit s%"\n\tprivate enum ContainerCodingKeys: String, CodingKey {\n\t\tcase ",
   .hole .tag .raw a.tagKey, .lit s%", ", .hole .content .raw a.contentKey,
   .lit (s%"\n\t}\n\n\tpublic init(from decoder: Decoder) throws {\n" ++
     s%"\t\tlet container = try decoder.container(keyedBy: ContainerCodingKeys.self)\n" ++
     s%"\t\tif let type = try? container.decode(CodingKeys.self, forKey: ."),
   .hole .tag .raw a.tagKey,
   .lit (s%") {\n" ++ s%"\t\t\tswitch type {")] ++
  a.decodeArms.flatMap (decodeArmSegs a.contentKey) ++
  [.lit (s%"\n\t\t\t}\n\t\t}\n" ++ s%"\t\tthrow DecodingError.typeMismatch(" ++ a.typeName ++
     s%".self, DecodingError.Context(codingPath: decoder.codingPath, debugDescription: \"Wrong type for " ++
     a.typeName ++ s%"\"))\n\t}\n\n" ++
     s%"\tpublic func encode(to encoder: Encoder) throws {\n" ++
     s%"\t\tvar container = encoder.container(keyedBy: ContainerCodingKeys.self)\n" ++
     s%"\t\tswitch self {")] ++
  a.encodeArms.flatMap (encodeArmSegs a.tagKey a.contentKey) ++
  [.lit s%"\n\t\t}\n\t}\n"]

theorem decodeArm_flat (ck : Str) : (fun a => flat (decodeArmSegs ck a)) = renderDecodeArm ck := by
  funext a
  cases a with
  | unit n => simp only [decodeArmSegs, renderDecodeArm, flat_cons, flat_nil, Seg.text, List.append_nil]
  | content n ty nf =>
    cases nf <;>
      simp only [decodeArmSegs, renderDecodeArm, flat_cons, flat_nil, flat_append, Seg.text, Quote.render,
        List.append_nil, List.append_assoc, if_true, if_false, Bool.false_eq_true]

theorem encodeArm_flat (tk ck : Str) : (fun a => flat (encodeArmSegs tk ck a)) = renderEncodeArm tk ck := by
  funext a
  cases a <;>
    simp only [encodeArmSegs, renderEncodeArm, flat_cons, flat_nil, Seg.text, Quote.render, List.append_nil,
      List.append_assoc]

/-- **the template denotes exactly the text the model (hence the generator) writes** -/
theorem codable_flat (a : AlgebraicCodable) : flat (codableSegs a) = renderCodable a := by
  unfold codableSegs renderCodable
  rw [flat_append, flat_append, flat_append, flat_append, flat_flatMap, flat_flatMap, decodeArm_flat, encodeArm_flat]
  simp only [flat_cons, flat_nil, Seg.text, Quote.render, List.append_nil, List.append_assoc]

theorem decodeArm_holes (ck : Str) (a : DecodeArm) : ∀ h ∈ holesOf (decodeArmSegs ck a), h = (.content, ck) := by
  cases a with
  | unit n => simp [decodeArmSegs]
  | content n ty nf => cases nf <;> simp [decodeArmSegs]

theorem encodeArm_holes (tk ck : Str) (a : EncodeArm) :
    ∀ h ∈ holesOf (encodeArmSegs tk ck a), h = (.tag, tk) ∨ h = (.content, ck) := by
  cases a <;> simp [encodeArmSegs]

/-- **every hole of the conformance is filled from the record's two key fields** -/
theorem codable_holes (a : AlgebraicCodable) :
    ∀ h ∈ holesOf (codableSegs a), h = (.tag, a.tagKey) ∨ h = (.content, a.contentKey) := by
  intro h hh
  simp only [codableSegs, holesOf_append, holesOf_flatMap, holesOf_hole, holesOf_lit, holesOf_nil, List.mem_append,
    List.mem_cons, List.mem_flatMap, List.not_mem_nil, or_false] at hh
  rcases hh with ((((rfl | rfl | rfl) | ⟨x, _, hx⟩)) | ⟨x, _, hx⟩)
  · exact Or.inl rfl
  · exact Or.inr rfl
  · exact Or.inl rfl
  · exact Or.inr (decodeArm_holes _ x h hx)
  · exact encodeArm_holes _ _ x h hx

/-! ## binding semantics -/

/-- an identifier written between back-ticks names the identifier without them -/
def stripTicks (s : Str) : Str :=
  match s with
  | [] => []
  | c :: rest => if c = '`' ∧ rest.getLast? = some '`' then rest.dropLast else s

/-- a `case name` / `case name = "raw"` line of a raw-value enum is serialised as its raw value, which
defaults to the case name -/
def unitBound (c : EnumCase) : Str :=
  if c.wireName == c.caseName then stripTicks c.printedName else c.wireName

/-- the same for a case of a `CodingKeys` enum -/
def keyBound (k : CodingKey) : Str := k.rawValue.getD (stripTicks k.caseName)

/-- a raw-value enum: its `case` lines; an enum with associated values: the cases of its nested
`CodingKeys` (the tag values `init(from:)` switches over and `encode(to:)` writes) and the key holes
of the `Codable` conformance -/
def wire (se : SwiftEnum) : EnumWire :=
  match se.codable with
  | none => { cases := se.cases.map fun c => ⟨some c.printedName, some (unitBound c)⟩, holes := [] }
  | some a =>
    { cases := se.codingKeys.map fun k => ⟨some k.caseName, some (keyBound k)⟩,
      holes := holesOf (codableSegs a) }

theorem stripTicks_kw (n : Str) (h : ∀ r, n ≠ '`' :: r) : stripTicks (kw n) = n := by
  unfold kw
  split
  · simp [stripTicks, List.getLast?_append]
  · cases n with
    | nil => rfl
    | cons c rest =>
      have : c ≠ '`' := fun hc => h rest (by rw [hc])
      simp [stripTicks, this]

theorem kw_inj (a b : Str) (ha : ∀ r, a ≠ '`' :: r) (hb : ∀ r, b ≠ '`' :: r) (h : kw a = kw b) : a = b := by
  unfold kw at h
  split at h <;> split at h
  · simp only [List.cons_append, List.nil_append, List.cons.injEq, true_and] at h
    exact List.append_cancel_right h
  · exact absurd h.symm (by simpa using hb _)
  · exact absurd h (by simpa using ha _)
  · exact h

theorem lower_notDigit (c : Char) (h : isAsciiLower c = true) : isAsciiDigit c = false := by
  unfold isAsciiLower at h; split at h <;> first | decide | simp at h

/-- the camel-cased name of an UpperCamelCase variant: starts with a lower-case letter -/
theorem toCamel_head (U : UnicodeOps) (hU : U.AsciiCorrect) (s : Str) (h : C16.UpperCamel s) :
    ∃ c rest, Rename.toCamel U s = c :: rest ∧ isAsciiLower c = true := by
  obtain ⟨c, rest, rfl, hc⟩ := upperCamel_head s h
  exact ⟨asciiLower c, rest, toCamel_upperCamel U hU c rest h, upper_lower_isLower c hc⟩

theorem toCamel_noTick (U : UnicodeOps) (hU : U.AsciiCorrect) (s : Str) (h : C16.UpperCamel s) : ∀ r, Rename.toCamel U s ≠ '`' :: r := by
  obtain ⟨c, rest, hcr, hc⟩ := toCamel_head U hU s h
  intro r hr
  rw [hcr] at hr
  simp only [List.cons.injEq] at hr
  exact lower_ne_tick c hc hr.1

theorem algebraicCaseName_upperCamel (U : UnicodeOps) (hU : U.AsciiCorrect) (v : RustEnumVariant) (h : C16.UpperCamel v.id.original) :
    algebraicCaseName U v = Rename.toCamel U v.id.original := by
  obtain ⟨c, rest, hcr, hc⟩ := toCamel_head U hU _ h
  simp [algebraicCaseName, hcr, lower_notDigit c hc]

theorem algebraicCase_facts (U : UnicodeOps) (cfg : Cfg) (e : RustEnum) (v : RustEnumVariant) (st st' : St) (c : EnumCase)
    (h : algebraicCase U cfg e v st = .ok (c, st')) :
    c.caseName = algebraicCaseName U v ∧ c.printedName = kw (algebraicCaseName U v) ∧ c.wireName = v.id.renamed := by
  cases v with
  | unit id cs => simp [algebraicCase] at h; obtain ⟨rfl, _⟩ := h; exact ⟨rfl, rfl, rfl⟩
  | tuple id cs ty =>
    simp only [algebraicCase] at h
    obtain ⟨p, _, h⟩ := (Outcome.bind_eq_ok _ _ _).1 h
    simp at h; obtain ⟨rfl, _⟩ := h; exact ⟨rfl, rfl, rfl⟩
  | anonymousStruct id cs fs => simp [algebraicCase] at h; obtain ⟨rfl, _⟩ := h; exact ⟨rfl, rfl, rfl⟩

theorem algebraicCases_facts (U : UnicodeOps) (cfg : Cfg) (e : RustEnum) : ∀ (vs : List RustEnumVariant) (st st' : St) (cs : List EnumCase),
    algebraicCases U cfg e vs st = .ok (cs, st') →
      cs.map (fun c => (c.caseName, c.printedName, c.wireName)) =
        vs.map fun v => (algebraicCaseName U v, kw (algebraicCaseName U v), v.id.renamed)
  | [], st, st', cs, h => by simp [algebraicCases] at h; obtain ⟨rfl, _⟩ := h; rfl
  | v :: vs, st, st', cs, h => by
    simp only [algebraicCases] at h
    obtain ⟨⟨c, st1⟩, hc, h⟩ := (Outcome.bind_eq_ok _ _ _).1 h
    obtain ⟨⟨cs', st2⟩, hr, h⟩ := (Outcome.bind_eq_ok _ _ _).1 h
    simp at h; obtain ⟨rfl, _⟩ := h
    obtain ⟨h1, h2, h3⟩ := algebraicCase_facts U cfg e v st st1 c hc
    simp [h1, h2, h3, algebraicCases_facts U cfg e vs st1 st2 cs' hr]

/-- the `CodingKeys` case of a variant binds the variant's wire name -/
theorem keyBound_case (c : EnumCase) (hp : c.printedName = kw c.caseName) (hn : ∀ r, c.caseName ≠ '`' :: r) :
    keyBound (caseCodingKey c) = c.wireName := by
  unfold caseCodingKey keyBound
  split
  · rename_i heq
    simp only [Option.getD_none, hp, stripTicks_kw _ hn]
    exact eq_of_beq heq
  · rfl

theorem unitBound_unitCase (U : UnicodeOps) (v : RustEnumVariant) (hn : ∀ r, Rename.toCamel U v.id.original ≠ '`' :: r) :
    unitBound (unitCase U v) = v.id.renamed := by
  unfold unitBound
  split
  · rename_i heq
    have : (unitCase U v).printedName = kw (unitCase U v).caseName := rfl
    rw [this, stripTicks_kw (unitCase U v).caseName hn]
    exact (eq_of_beq heq).symm
  · rfl

/-- **Swift**: whatever `write_enum` emits for an in-scope enum is correct on the wire -/
theorem correct (U : UnicodeOps) (hU : U.AsciiCorrect) (cfg : Cfg) (e : RustEnum) (hs : InScopeEnum e) (st st' : St)
    (structs : List SwiftStruct) (se : SwiftEnum)
    (h : enumFacts U cfg e st = .ok (structs, se, st')) : (wire se).Correct e := by
  unfold enumFacts at h
  obtain ⟨⟨structs', st1⟩, _, h⟩ := (Outcome.bind_eq_ok _ _ _).1 h
  obtain ⟨⟨cases, st2⟩, hc, h⟩ := (Outcome.bind_eq_ok _ _ _).1 h
  have hinj : ∀ a ∈ e.variants, ∀ b ∈ e.variants,
      kw (Rename.toCamel U a.id.original) = kw (Rename.toCamel U b.id.original) → a.id.original = b.id.original := by
    intro a ha b hb hab
    exact toCamel_inj U hU _ _ (hs.camel a ha) (hs.camel b hb)
      (kw_inj _ _ (toCamel_noTick U hU _ (hs.camel a ha)) (toCamel_noTick U hU _ (hs.camel b hb)) hab)
  have hnodup : (e.variants.map fun v => kw (Rename.toCamel U v.id.original)).Nodup := by
    have := nodup_map_on (fun s => kw (Rename.toCamel U s)) (e.variants.map (·.id.original)) hs.distinct (by
      intro a ha b hb hab
      obtain ⟨va, hva, rfl⟩ := List.mem_map.1 ha
      obtain ⟨vb, hvb, rfl⟩ := List.mem_map.1 hb
      exact hinj va hva vb hvb hab)
    simpa [List.map_map, Function.comp_def] using this
  cases hk : e.keys with
  | none =>
    simp only [hk] at hc h
    simp at hc; obtain ⟨rfl, _⟩ := hc
    simp at h; obtain ⟨_, rfl, _⟩ := h
    refine ⟨?_, ?_, ?_⟩
    · simp only [EnumWire.Names, wire, List.map_map]
      apply List.map_congr_left
      intro v hv
      simp only [Function.comp_def, Option.some.injEq]
      exact unitBound_unitCase U v (toCamel_noTick U hU _ (hs.camel v hv))
    · simpa [EnumWire.Distinct, wire, unitCase, List.filterMap_map, Function.comp_def] using hnodup
    · simp [EnumWire.Keys, hk, wire]
  | some p =>
    obtain ⟨tag, content⟩ := p
    simp only [hk] at hc h
    simp at h; obtain ⟨_, rfl, _⟩ := h
    have hf := algebraicCases_facts U cfg e e.variants st1 st2 cases hc
    have hmem : ∀ c ∈ cases, ∃ v ∈ e.variants, c.caseName = algebraicCaseName U v ∧
        c.printedName = kw (algebraicCaseName U v) ∧ c.wireName = v.id.renamed := by
      intro c hcm
      have : (c.caseName, c.printedName, c.wireName) ∈ cases.map (fun c => (c.caseName, c.printedName, c.wireName)) :=
        List.mem_map.2 ⟨c, hcm, rfl⟩
      rw [hf] at this
      obtain ⟨v, hv, hveq⟩ := List.mem_map.1 this
      simp only [Prod.mk.injEq] at hveq
      exact ⟨v, hv, hveq.1.symm, hveq.2.1.symm, hveq.2.2.symm⟩
    refine ⟨?_, ?_, ?_⟩
    · simp only [EnumWire.Names, wire, List.map_map]
      have hw : cases.map (·.wireName) = e.variants.map (·.id.renamed) := by
        have := congrArg (List.map fun t : Str × Str × Str => t.2.2) hf
        simpa [List.map_map, Function.comp_def] using this
      have hb : cases.map (fun c => keyBound (caseCodingKey c)) = cases.map (·.wireName) := by
        apply List.map_congr_left
        intro c hcm
        obtain ⟨v, hv, h1, h2, _⟩ := hmem c hcm
        apply keyBound_case c (by rw [h2, h1])
        rw [h1, algebraicCaseName_upperCamel U hU v (hs.camel v hv)]
        exact toCamel_noTick U hU _ (hs.camel v hv)
      have := congrArg (List.map some) (hb.trans hw)
      simpa [List.map_map, Function.comp_def] using this
    · have hp : cases.map (·.printedName) = e.variants.map fun v => kw (Rename.toCamel U v.id.original) := by
        have := congrArg (List.map fun t : Str × Str × Str => t.2.1) hf
        simp only [List.map_map, Function.comp_def] at this
        rw [this]
        apply List.map_congr_left
        intro v hv
        rw [algebraicCaseName_upperCamel U hU v (hs.camel v hv)]
      have hck : (cases.map caseCodingKey).map (·.caseName) = cases.map (·.printedName) := by
        rw [List.map_map]
        apply List.map_congr_left
        intro c _
        simp only [Function.comp_def, caseCodingKey]
        split <;> rfl
      have : ((cases.map caseCodingKey).map (·.caseName)).Nodup := by rw [hck, hp]; exact hnodup
      simpa [EnumWire.Distinct, wire, List.filterMap_map, Function.comp_def] using this
    · simp only [EnumWire.Keys, hk, wire]
      exact codable_holes _

end TsV.C02.Sw
