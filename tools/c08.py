"""C08 — unsupported constructs are rejected with an error, never silently mis-generated."""
import copy
from common import *
from syn_gen import *
from gen import Gen, UNSUPPORTED
import l1

NEEDS = ("runner", "cli")
SKIPS = [m_list("serde", [m_path("skip")]), m_list("typeshare", [m_path("skip")])]
LOOKALIKES = [m_list("serde", [m_path("skip_serializing")]), m_list("serde", [m_path("skip_deserializing")]),
              m_list("serde", [m_nv("skip_serializing_if", lit_s("Option::is_none"))]), m_list("serde", [m_path("skipped")]),
              m_list("typeshare", [m_path("skip_me")]), m_list("serde", [m_nv("skip", lit_s("no"))]), m_list("other", [m_path("skip")])]


def type_slots(file):
    """every place a type is written: (container dict/list, key, member-with-attrs or None, item)"""
    out = []

    def walk_items(items):
        for it in items:
            k = it["kind"]
            if k in ("mod", "other"):
                walk_items(it["items"])
            if not any(a[0] == "p" and "typeshare" in a[1] or (a[0] == "l" and a[1] == ["typeshare"]) for a in it.get("attrs", [])):
                continue
            if any(a[0] == "l" and a[1] == ["typeshare"] and any(x[0] == "nv" and x[1] == ["serialized_as"] for x in a[3])
                   for a in it.get("attrs", [])):
                continue
            if k == "struct" and it["fields"][0] != "unit":
                for f in it["fields"][1]:
                    out.append((f, "ty", f if it["fields"][0] == "named" else None, it, "struct-field" if it["fields"][0] == "named" else "newtype", f))
            elif k == "enum":
                for v in it["variants"]:
                    if v["fields"][0] != "unit":
                        for f in v["fields"][1]:
                            out.append((f, "ty", f if v["fields"][0] == "named" else v, it,
                                        "variant-field" if v["fields"][0] == "named" else "payload", f))
            elif k == "alias":
                out.append((it, "ty", None, it, "alias", it))
            elif k == "const":
                out.append((it, "ty", None, it, "const", it))
    walk_items(file["items"])
    return out


def member_has(member, what):
    for a in member["attrs"]:
        if a[0] == "l" and a[1] in (["serde"], ["typeshare"]):
            for x in a[3]:
                if x[0] == "nv" and x[1] == [what]:
                    return True
                if x[0] == "p" and x[1] == [what]:
                    return True
    return False


def bad_leaf(rng):
    r = rng.random()
    if r < 0.7:
        return t_path(rng.choice(UNSUPPORTED), (), rng.choice([[], [], ["std", "primitive"]]))
    return ("tuple", [t_path("String"), t_path("u8")][: rng.choice([1, 2])])


def wrap(rng, t, depth):
    for _ in range(depth):
        r = rng.random()
        if r < 0.2:
            t = t_path("Vec", [t])
        elif r < 0.4:
            t = t_path("Option", [t])
        elif r < 0.55:
            t = t_path("HashMap", [t_path("String"), t] if rng.random() < 0.7 else [t, t_path("String")])
        elif r < 0.7:
            t = t_path(rng.choice(["Box", "Arc", "Rc", "Mutex"]), [t])
        elif r < 0.8:
            t = ("array", t, 4)
        elif r < 0.88:
            t = ("ref", ("slice", t), False)
        elif r < 0.94:
            t = ("ref", t, False)
        else:
            t = t_path("Wrapper", [t_path("String"), t])
    return t


def rejected(ans):
    return "err" in ans or "panic" in ans or (ans.get("ok") is not None and len(ans["ok"]["errors"]) > 0)


def run(check):
    rng = check.rng
    n = 12000 if check.thorough else 1500
    check.rule = ("a valid generated program with ONE unsupported construct planted: a 64-bit integer type or tuple at a "
                  "random position (struct field, newtype, payload, struct-variant field, alias, const type, or inside a "
                  "serialized_as string) under 0-5 wrappers (Vec/Option/HashMap key or value/smart pointer/array/slice/"
                  "reference/generic argument), or an item-level construct (second unnamed field, flatten, missing "
                  "tag/content, tag on unit enum, non-literal const); each also with a skip marker on the enclosing member; "
                  "non-trivial = the planted construct sits in a non-skipped position of an annotated item")
    cases = []
    for i in range(n):
        g = Gen(rng, p_skip=0.0, p_serialized_as=0.0, p_cfg=0.0, p_mod=0.15, p_noise=0.2)
        f = g.file()
        slots = type_slots(f)
        kind = None
        member = None
        r = rng.random()
        if slots and r < 0.7:
            holder, key, member, item, where, sa_target = rng.choice(slots)
            depth = rng.randint(0, 5)
            bad = wrap(rng, bad_leaf(rng), depth)
            if rng.random() < 0.2 and where != "const":
                # via serialized_as on the member / item
                s_ = render_type(bad)
                g.ext[s_] = bad
                sa_target["attrs"] = sa_target["attrs"] + [m_list("typeshare", [m_nv("serialized_as", lit_s(s_))])]
                kind = "serialized_as@" + where
            else:
                holder[key] = bad
                kind = "type@%s depth=%d" % (where, depth)
        else:
            structs = [it for it in f["items"] if it["kind"] == "struct" and it["fields"][0] == "named" and it["fields"][1]
                       and any(a[0] == "p" and a[1][-1] == "typeshare" for a in it["attrs"])]
            enums = [it for it in f["items"] if it["kind"] == "enum" and it["variants"]
                     and any(a[0] == "p" and a[1][-1] == "typeshare" for a in it["attrs"])]
            r2 = rng.random()
            if structs and r2 < 0.3:
                member = rng.choice(rng.choice(structs)["fields"][1])
                member["attrs"] = member["attrs"] + [m_list("serde", [m_path("flatten")])]
                kind = "flatten@struct-field"
            elif enums and r2 < 0.45:
                e = rng.choice(enums)
                cands = [fl for v in e["variants"] if v["fields"][0] == "named" for fl in v["fields"][1]]
                if cands:
                    member = rng.choice(cands)
                    member["attrs"] = member["attrs"] + [m_list("serde", [m_path("flatten")])]
                    kind = "flatten@variant-field"
            elif enums and r2 < 0.7:
                e = rng.choice(enums)
                has_data = any(v["fields"][0] != "unit" for v in e["variants"])
                strip = lambda e, names: [
                    (a[0], a[1], a[2], [x for x in a[3] if not (x[0] == "nv" and x[1][0] in names)], a[4])
                    if a[0] == "l" and a[1] == ["serde"] else a for a in e["attrs"]]
                if has_data:
                    which = rng.choice([["tag"], ["content"], ["tag", "content"]])
                    e["attrs"] = [a for a in strip(e, which) if not (a[0] == "l" and a[1] == ["serde"] and not a[3])]
                    kind = "missing-" + "+".join(which)
                else:
                    which = rng.choice(["tag", "content"])
                    e["attrs"] = e["attrs"] + [m_list("serde", [m_nv(which, lit_s("t"))])]
                    kind = "unit-enum-with-" + which
            elif enums and r2 < 0.85:
                e = rng.choice(enums)
                cands = [v for v in e["variants"] if v["fields"][0] == "unnamed" and len(v["fields"][1]) == 1]
                if cands:
                    v = rng.choice(cands)
                    v["fields"] = ("unnamed", v["fields"][1] + [field([], None, t_path("u8"))])
                    member = v
                    kind = "two-payloads"
            if kind is None and rng.random() < 0.5:
                # an enum whose only data-carrying variants can be skipped: with them present and no tag/content it must be
                # rejected; once they are skipped it is a plain unit enum and must be accepted (the twin below), and a unit enum
                # whose data variants are all skipped must still refuse tag/content
                with_keys = rng.random() < 0.5
                vs = [{"attrs": [], "ident": "Plain", "fields": ("unit",)},
                      {"attrs": [], "ident": "Data", "fields": ("unnamed", [field([], None, t_path("u8"))])},
                      {"attrs": [], "ident": "Other", "fields": ("unit",)}]
                rng.shuffle(vs)
                member = next(v for v in vs if v["ident"] == "Data")
                attrs = [m_path("typeshare")]
                if with_keys:
                    # tag/content on what is a unit enum once `Data` is skipped: planted construct = keys on a unit enum
                    member["attrs"] = [rng.choice(SKIPS)]
                    attrs.append(m_list("serde", [m_nv("tag", lit_s("t")), m_nv("content", lit_s("c"))]))
                    kind = "unit-enum-after-skip-with-tag"
                    member = None
                else:
                    kind = "missing-tag+content (skippable variant)"
                f["items"].append({"kind": "enum", "attrs": attrs, "ident": "SkipProbe", "generics": [], "variants": vs})
            if kind is None:
                c = g.const("bad_const", {"types": [], "generics": []})
                c["attrs"] = [m_path("typeshare")]
                c["ty"] = t_path("u32")
                c["expr_text"], c["init"] = rng.choice([("OTHER", None), ('"s"', ("s", "s")), ("1.5", ("o", "1.5")),
                                                        ("-5", None), ("1 + 2", None), ("f(3)", None), ("(4)", None)])
                f["items"].append(c)
                kind = "const " + c["expr_text"]
        mreq, rreq, text = l1.requests(f, g)
        cases.append(dict(kind=kind, skipped=False, m=mreq, r=rreq, text=text))
        check.count(kind.split(" depth")[0])
        # the same program with an attribute on the enclosing member that only *looks* like a skip marker (the member stays on
        # the wire in one direction / is not skipped at all): the construct must still be rejected
        if member is not None and "attrs" in member:
            member["attrs"] = member["attrs"] + [rng.choice(LOOKALIKES)]
            mreq1, rreq1, text1 = l1.requests(f, g)
            cases.append(dict(kind=kind + " (member carries a skip look-alike)", skipped=False, m=mreq1, r=rreq1, text=text1))
            check.count("skip-look-alike")
        # the same program with the enclosing member skipped
        if member is not None and "attrs" in member and kind not in ("two-payloads",) or (kind == "two-payloads"):
            f2 = f
            member["attrs"] = member["attrs"] + [rng.choice(SKIPS)]
            mreq2, rreq2, text2 = l1.requests(f2, g)
            cases.append(dict(kind=kind, skipped=True, m=mreq2, r=rreq2, text=text2))
    mans, rans, diffs = l1.compare([(c["m"], c["r"]) for c in cases])
    for c, ma, ra in zip(cases, mans, rans):
        check.saw(c["text"], nontrivial=not c["skipped"])
        c["model"], c["impl"] = ma, ra
        if len(check.samples) < 4 and rng.random() < 0.01:
            check.sample({"planted": c["kind"], "skipped": c["skipped"], "source": c["text"],
                          "impl_errors": ra.get("ok", {}).get("errors") if isinstance(ra.get("ok"), dict) else ra})
    # --- the property on the implementation
    KNOWN = {}
    unrejected_new = []
    for c in cases:
        if not c["skipped"] and not rejected(c["impl"]):
            kid = KNOWN.get(c["kind"])
            if kid and check.known(kid, {"source": c["text"]}):
                continue
            unrejected_new.append(c)
    # stored witnesses of the open known findings, replayed on the implementation on every run
    # former known findings (now `fixed:` in KNOWN_FINDINGS.txt); replayed so that a regression is reported
    WITNESS = {
        "flatten-on-variant-field": "#[typeshare]\n#[serde(tag = \"t\", content = \"c\")]\npub enum E { V { #[serde(flatten)] f: Inner } }\n",
        "const-first-literal": "#[typeshare]\npub const X: i32 = -5;\n",
    }
    wans = runner([{"op": "parse", "src": src, "crate": "", "file_name": "o", "path": "w.rs"} for src in WITNESS.values()])
    for (kid, src), a in zip(WITNESS.items(), wans):
        if not rejected(a) and not check.known(kid, {"source": src}):
            check.violation("regression of a repaired defect (%s): the construct is accepted again" % kid,
                            case={"source": src}, impl=a, failing_input=True)
    for i in diffs:
        c = cases[i]
        if unrejected_new:
            break
        check.violation("parser::parse differs from the model on a planted program (%s): %s" % (c["kind"], l1.first_diff(c["model"], c["impl"])),
                        case={"source": c["text"], "planted": c["kind"], "request": c["r"]}, impl=c["impl"], model=c["model"],
                        failing_input=False, broken="correspondence L1 parser::parse (theorems TsV.C08.*)")
        break
    for c in unrejected_new[:1]:
        check.violation("an unsupported construct (%s) is accepted without an error" % c["kind"],
                        case={"source": c["text"], "planted": c["kind"], "request": c["r"]}, impl=c["impl"], model=c["model"],
                        failing_input=True)
    cli_part(check, [c for c in cases if not c["skipped"] and rejected(c["impl"]) and "panic" not in c["impl"]],
             [c for c in cases if c["skipped"] and not rejected(c["impl"]) and c["impl"].get("ok")])
    check.assumptions += ["the generator plants one construct into programs the generator itself considers valid; validity is confirmed by the skipped twin being accepted"]


def cli_part(check, bad, good):
    """process level: a rejected program exits non-zero, names the file, and leaves a pre-existing output untouched;
    the skipped twin exits 0 and writes output."""
    rng = check.rng
    nb = 60 if check.thorough else 18
    picks = [(c, True) for c in rng.sample(bad, min(nb, len(bad)))] + [(c, False) for c in rng.sample(good, min(nb // 2, len(good)))]
    for idx, (c, is_bad) in enumerate(picks):
        lang = LANGS[idx % len(LANGS)]
        multi = is_bad and idx % 2 == 1
        with Scratch() as sc:
            if multi:
                # folder-output mode: the offending crate sorts before (and, next case, after) a clean one
                bad_crate, ok_crate = (("aaa", "zzz") if idx % 4 == 1 else ("zzz", "aaa"))
                sc.write("proj/%s/src/lib.rs" % bad_crate, c["text"])
                sc.write("proj/%s/src/ok.rs" % ok_crate, "#[typeshare]\npub struct Fine { pub a: u8 }\n")
                out = sc.path("outdir")
                os.makedirs(out)
                with open(os.path.join(out, "keep.txt"), "w") as f:
                    f.write("PRE-EXISTING\n")
            else:
                sc.write("proj/src/lib.rs", c["text"])
                sc.write("proj/src/ok.rs", "#[typeshare]\npub struct Fine { pub a: u8 }\n")
                out = sc.path("out." + EXT[lang])
                with open(out, "w") as f:
                    f.write("PRE-EXISTING\n")
            before = snapshot(sc.dir)
            # both arrival orders of the two per-file results at the collector (the offending file first / last)
            for order in (("0,1", "1,0") if is_bad else (None,)):
                r = run_cli(["--lang", lang, "-d" if multi else "-o", out, sc.path("proj")] + lang_args(lang), cwd=sc.dir,
                            env={"TYPESHARE_VERIF_ORDER": order} if order else None)
                if r["timed_out"] or r["rc"] == 0:
                    break
            after = snapshot(sc.dir)
            check.saw(("cli", lang, c["text"]), nontrivial=True)
            check.count("cli-" + ("rejected" if is_bad else "skipped-twin") + ("-multi-file" if multi else ""))
            if is_bad:
                problems = []
                if r["timed_out"]:
                    problems.append("timed out")
                elif r["rc"] == 0:
                    problems.append("exit status 0")
                if after != before:
                    problems.append("files changed: %s" % sorted(k for k in set(after) | set(before) if after.get(k) != before.get(k)))
                if not r["timed_out"] and r["rc"] != 0 and "lib.rs" not in r["err"] + r["out"]:
                    problems.append("diagnostic does not name the file")
                if problems:
                    check.violation("CLI on a program with an unsupported construct (%s, %s): %s" % (c["kind"], lang, "; ".join(problems)),
                                    case={"source": c["text"], "lang": lang}, impl={"rc": r["rc"], "stderr": r["err"][-2000:]},
                                    failing_input=True)
            else:
                # consts are not supported by every back end (C07 known classes): only require that no parse error is reported
                if r["rc"] != 0 and "Parsing error" in r["err"]:
                    check.violation("CLI rejects the skipped twin (%s, %s)" % (c["kind"], lang),
                                    case={"source": c["text"], "lang": lang}, impl={"rc": r["rc"], "stderr": r["err"][-2000:]},
                                    failing_input=True)
