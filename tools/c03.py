"""C03 — exactly the annotated, non-skipped items, fields and variants are generated (parse level + CLI)."""
from common import *
from syn_gen import *
from gen import Gen
import l1, c13, corpus

NEEDS = ("runner", "cli")
TRUSTED = ["the source -> abstract-AST translator harness/runner/src/ast.rs (runner op `ast`) that feeds the model in the corpus "
           "part; validated against the generator's own s-expressions by tools/asttest.py (textual equality on thousands of "
           "random files)"]


def is_annotated(attrs):
    return any("typeshare" in a[1] for a in attrs if a[0] in ("p", "l", "nv"))


def accepted(attrs, targets):
    cfgs = [a for a in attrs if a[0] == "l" and a[1] == ["cfg"] and a[2]]
    return c13.rule(cfgs, targets)


def skip_marked(attrs):
    for a in attrs:
        if a[0] == "l" and a[1] in (["serde"], ["typeshare"]) and a[2]:
            if any(x[0] == "p" and x[1] == ["skip"] for x in a[3]):
                return True
    return False


def orig(ident):
    return "???" if ident is None else ident.replace("r#", "")


def expected(file, targets):
    """the property's reading of the source: [(kind, name, members or None)] for annotated accepted items, visit order"""
    out = []

    def members(fs):
        return [orig(f["ident"]) for f in fs if not skip_marked(f["attrs"]) and accepted(f["attrs"], targets)]

    def walk(items):
        for it in items:
            k = it["kind"]
            if k in ("mod", "other"):
                walk(it["items"])
                continue
            if k == "use" or not is_annotated(it["attrs"]) or not accepted(it["attrs"], targets):
                continue
            if k == "struct":
                out.append(("struct", it["ident"], members(it["fields"][1]) if it["fields"][0] == "named" else None))
            elif k == "enum":
                vs = [v for v in it["variants"] if not skip_marked(v["attrs"]) and accepted(v["attrs"], targets)]
                out.append(("enum", it["ident"], [(v["ident"], members(v["fields"][1]) if v["fields"][0] == "named" else None) for v in vs]))
            else:
                out.append((k, it["ident"], None))
    if accepted(file["attrs"], targets):
        walk(file["items"])
    return out


def oracle(exp, ans):
    """does the implementation's ParsedData list exactly the expected items and members? returns problem or None"""
    if "panic" in ans or "err" in ans:
        return "parse failed: %s" % ans
    d = ans["ok"]
    if d is None:
        return None if not exp else "annotated items present but the file produced nothing"
    n_items = len(d["structs"]) + len(d["enums"]) + len(d["aliases"]) + len(d["consts"])
    if n_items + len(d["errors"]) != len(exp):
        return "%d items + %d errors for %d annotated items" % (n_items, len(d["errors"]), len(exp))
    by_name = {}
    for k in ("structs", "enums", "aliases", "consts"):
        for it in d[k]:
            by_name.setdefault(it["id"]["o"], []).append((k, it))
    for kind, name, mem in exp:
        cands = by_name.get(name, [])
        if not cands:
            continue        # became an error entry (counted above)
        k, it = cands.pop(0)
        if k == "structs" and mem is not None:
            got = [f["id"]["o"] for f in it["fields"]]
            if got != mem:
                return "struct %s lists fields %s, source has %s" % (name, got, mem)
        if k == "enums" and kind == "enum":
            got = [v["id"]["o"] for v in it["variants"]]
            if got != [v for v, _ in mem]:
                return "enum %s lists variants %s, source has %s" % (name, got, [v for v, _ in mem])
            for v, (vn, vm) in zip(it["variants"], mem):
                if vm is not None and v["kind"] == "struct" and [f["id"]["o"] for f in v["fields"]] != vm:
                    return "variant %s::%s lists fields %s, source has %s" % (name, vn, [f["id"]["o"] for f in v["fields"]], vm)
    return None


def run(check):
    rng = check.rng
    n = 12000 if check.thorough else 2000
    check.rule = ("random files mixing annotated and un-annotated items at module / fn-body depth 0-3, skip markers in both "
                  "spellings (serde/typeshare, merged with other arguments, any attribute order) on ~25% of fields, variants "
                  "and struct-variant fields, cfg(target_os) attributes with 0-2 targets, unsupported constructs at 3% so "
                  "that error entries occur; non-trivial = the file has an annotated item and (a skipped member or a nested "
                  "module or an un-annotated item)")
    cases = []
    for i in range(n):
        g = Gen(rng, p_skip=0.25, p_mod=0.35, p_noise=0.4, p_cfg=0.12, p_unsupported=0.03, p_edge=0.05)
        f = g.file()
        tos = rng.choice([[], [], [], ["ios"], ["android", "macos"]])
        m, r, text = l1.requests(f, g, target_os=tos)
        cases.append(dict(file=f, m=m, r=r, text=text, tos=tos, feats=dict(g.features)))
    mans, rans, diffs = l1.compare([(c["m"], c["r"]) for c in cases])
    bad = None
    for c, ma, ra in zip(cases, mans, rans):
        ft = c["feats"]
        check.saw(c["text"] + "|" + ",".join(c["tos"]), nontrivial=bool(ft.get("skip") or ft.get("nested") or ft.get("noise")))
        for k in ("skip", "nested", "noise", "cfg", "struct", "enum", "alias", "const"):
            if ft.get(k):
                check.count(k, ft[k])
        if "#[typeshare" not in c["text"]:
            continue
        prob = oracle(expected(c["file"], c["tos"]), ra)
        if prob and bad is None:
            bad = (c, prob, ma, ra)
        if len(check.samples) < 3 and ft.get("skip") and ft.get("nested"):
            check.sample({"source": c["text"], "target_os": c["tos"],
                          "items": [[k, [x["id"]["o"] for x in ra["ok"][k]]] for k in ("structs", "enums", "aliases", "consts")] if ra.get("ok") else ra})
    if bad:
        c, prob, ma, ra = bad
        check.violation("the parsed items differ from the annotated, non-skipped source items: " + prob,
                        case={"source": c["text"], "target_os": c["tos"], "request": c["r"]}, impl=ra, model=ma, failing_input=True)
    elif diffs:
        c = cases[diffs[0]]
        check.violation("parser::parse differs from the model: %s" % l1.first_diff(mans[diffs[0]], rans[diffs[0]]),
                        case={"source": c["text"], "request": c["r"]}, impl=rans[diffs[0]], model=mans[diffs[0]],
                        failing_input=False, broken="correspondence L1 parser::parse (theorems TsV.C03.*)")
    # repaired defect (substring pre-filter), replayed: a regression is a violation
    w = runner([{"op": "parse", "src": "# [typeshare]\npub struct S { pub a: u8 }\n", "crate": "", "file_name": "o", "path": "w.rs"}])[0]
    if w.get("ok") is None and "err" not in w:
        if not check.known("prefilter-spelling", {"source": "# [typeshare]\\npub struct S { pub a: u8 }"}):
            check.violation("a file whose annotations are spelled `# [typeshare]` is skipped: its annotated struct is silently omitted",
                            case={"source": "# [typeshare]\npub struct S { pub a: u8 }\n"}, impl=w, failing_input=True)
    cli_part(check, cases)
    if not check.has_failing():
        merged_part(check, cases)
    if not check.has_failing():
        folder_part(check)
    if not check.has_failing():
        check.rule += ("; crate-names part: folder output over 2-4 crate directories whose names are different but related as texts (equal "
                       "after case folding, after snake / camel / Pascal / SCREAMING conversion, after `-` -> `_`, after dropping separators "
                       "or digits; prefixes of each other; with dots and digits), every listed pair of spellings and random sets, all six "
                       "languages through the binary: exit 0 => every annotated item of every crate directory is defined exactly once in "
                       "the output folder (crates whose Swift PascalCase file names coincide - the open finding swift-module-file-collision "
                       "of C14 - are left out of the Swift runs' judgement)")
        crate_names_part(check)
    if not check.has_failing():
        quantity_part(check)
    if not check.has_failing():
        same_ident_part(check)
    if not check.has_failing():
        emptied_variants_part(check)
    if not check.has_failing():
        check.rule += ("; module-attributes part: the items of random files moved into chains of 1-4 nested inline modules / fn bodies whose "
                       "modules are named tests / fixtures / internal / wire .. and carry cfg(test), cfg(not(test)), cfg(any / all(..)) with "
                       "`test`, feature, debug_assertions, target_os (no --target-os then), unix / doc / miri, cfg_attr, allow / deny, doc(hidden), "
                       "path, macro_use, doc comments, 1-3 per module, on any module of the chain: parse level against the expected-items oracle "
                       "and the model, generation in-process and through the binary in all six languages - one definition per annotated item")
        module_attrs_part(check)
    if not check.has_failing():
        check.rule += ("; own-names part: programs of 4-8 annotated items of every kind next to un-annotated ones, under type_mappings "
                       "tables whose keys are names of the program itself (Rust names of one / several / all annotated items, serde names, "
                       "un-annotated items, near misses, compound spellings, member names), in-process and through the binary with a "
                       "typeshare.toml: one definition per annotated item, none for the others")
        own_names_config_part(check)
    # the human-written corpus (core/data/tests/*/input.rs, corpus/handwritten/*.rs) and token-level mutants of it: the
    # whole pipeline of the real code against the model fed by the translator, all six languages
    check.rule += ("; corpus part: every snapshot-test input of the repository and every hand-written input (whole and item by "
                   "item), under two configurations per language, plus token-level mutants (type swaps / wraps, added serde and "
                   "typeshare attributes, renames, duplicated fields, reordered / nested items), single-file generation byte "
                   "for byte, and multi-file parse level (imports)")
    corpus.corpus_part(check)
    check.assumptions += ["the emission clause (each back end prints every parsed item and member once) rests on the byte-exact back-end correspondence of C01/C02/C09 and the model's structure (a map over the parsed lists)"]


def cli_part(check, cases):
    """process level: every annotated, generated item name occurs in the output of every language; a file whose
    items all fail is reported, not silently dropped"""
    rng = check.rng
    good = [c for c in cases if "#[typeshare" in c["text"]]
    for idx, c in enumerate(rng.sample(good, min(24 if check.thorough else 12, len(good)))):
        lang = LANGS[idx % len(LANGS)]
        with Scratch() as sc:
            # how the file gets into the scanned tree: written there; a symbolic link to a file kept elsewhere (shared sources);
            # a file in a nested directory next to an empty sibling directory
            layout = ["plain", "symlink", "nested", "two-roots"][idx % 4]
            check.count("cli-layout-" + layout)
            roots = [sc.path("proj")]
            if layout == "two-roots":
                # several input roots whose names are related as texts only (`api` / `api-types`, `v1` / `v10`), the shorter one first
                a, b = [("api", "api-types"), ("core", "core_ext"), ("v1", "v10")][(idx // 4) % 3]
                sc.write("proj/%s/src/neighbour.rs" % a, "#[typeshare]\npub struct PlainNeighbourFile { pub n: u8 }\n")
                sc.write("proj/%s/src/lib.rs" % b, c["text"])
                roots = [sc.path("proj/" + a), sc.path("proj/" + b)]
            elif layout == "symlink":
                sc.write("elsewhere/shared_models.rs", c["text"])
                os.makedirs(sc.path("proj/src"), exist_ok=True)
                os.symlink(sc.path("elsewhere/shared_models.rs"), sc.path("proj/src/lib.rs"))
                sc.write("proj/src/neighbour.rs", "#[typeshare]\npub struct PlainNeighbourFile { pub n: u8 }\n")
            elif layout == "nested":
                sc.write("proj/src/deep/er/models.rs", c["text"])
                os.makedirs(sc.path("proj/src/empty_dir"), exist_ok=True)
            else:
                sc.write("proj/src/lib.rs", c["text"])
            out = sc.path("out." + EXT[lang])
            tos = (["--target-os"] + c["tos"]) if c["tos"] else []
            r = run_cli(["--lang", lang, "-o", out] + lang_args(lang) + roots + tos, cwd=sc.dir)
            check.saw(("cli", lang, c["text"]), nontrivial=True)
            check.count("cli-" + lang)
            exp = expected(c["file"], c["tos"])
            if r["rc"] == 0 and os.path.exists(out):
                text = open(out, encoding="utf-8").read()
                for kind, name, _ in exp:
                    if kind in ("struct", "enum", "alias") and name not in text and not any(
                            a[0] == "l" and a[1] == ["serde"] for it in [] for a in []):
                        # renamed items appear under their new name: accept any rename string of the item
                        it = find_item(c["file"]["items"], name)
                        renames = [x[2][1].strip() for a in it["attrs"] if a[0] == "l" and a[1] == ["serde"] and a[2]
                                   for x in a[3] if x[0] == "nv" and x[1] == ["rename"] and x[2] and x[2][0] == "s"]
                        if not any(rn in text for rn in renames):
                            check.violation("%s output does not mention the annotated %s %s" % (lang, kind, name),
                                            case={"source": c["text"], "lang": lang}, impl={"output": text[-3000:]}, failing_input=True)
            elif r["rc"] == 0 and any(kind in ("struct", "enum", "alias") for kind, _, _ in exp):
                check.violation("%s: the run succeeds (exit 0) but writes no output although the source (%s file) has %d annotated item(s)"
                                % (lang, layout, len(exp)), case={"source": c["text"], "lang": lang, "layout": layout},
                                impl={"rc": r["rc"], "stderr": r["err"][-800:]}, failing_input=True)
            elif r["rc"] not in (0, 1) or r["timed_out"]:
                pass    # crashes are C07's business


def folder_part(check):
    """folder-output mode keeps one result per crate: an annotated item that cannot be generated is reported (non-zero exit, the
    diagnostic names its file) whichever crate holds it - the first, a middle or the last one in name order, next to crates
    without any error, with one or several failing crates -, and without such an item every crate's file lists its items"""
    BADS = [("u64-field", "#[typeshare]\npub struct Bad { pub counter: u64 }\n"),
            ("tuple-struct", "#[typeshare]\npub struct Bad(pub String, pub u32);\n"),
            ("flatten", "#[typeshare]\npub struct Bad { #[serde(flatten)] pub rest: Other, pub a: u8 }\n"),
            ("tag-without-content", "#[typeshare]\n#[serde(tag = \"t\")]\npub enum Bad { A(u8), B }\n")]
    names = ["alpha", "beta", "gamma", "omega"]
    n = 0
    for ncrates in (2, 3, 4):
        crates = names[:ncrates]
        for bad_at in [()] + [(i,) for i in range(ncrates)] + ([(0, ncrates - 1)] if ncrates > 2 else []):
            lang = LANGS[n % len(LANGS)]
            kind, bad = BADS[n % len(BADS)]
            n += 1
            with Scratch() as sc:
                for i, cr in enumerate(crates):
                    text = "#[typeshare]\npub struct Fine%s { pub label: String }\n" % cr.capitalize()
                    if i in bad_at:
                        text += "\n" + bad
                    sc.write("ws/%s/src/lib.rs" % cr, text)
                os.makedirs(sc.path("out"))
                r = run_cli(["--lang", lang, "--output-folder", sc.path("out")] + lang_args(lang) + [sc.path("ws")], cwd=sc.dir)
                written = {f: open(os.path.join(sc.path("out"), f), encoding="utf-8", errors="replace").read()
                           for f in sorted(os.listdir(sc.path("out")))}
            check.saw(("folder", lang, ncrates, bad_at, kind), nontrivial=True)
            check.count("folder-" + ("clean" if not bad_at else "ungeneratable-in-%s" % "+".join(
                "first" if i == 0 else "last" if i == ncrates - 1 else "middle" for i in bad_at)))
            if r["timed_out"] or r["rc"] not in (0, 1):
                continue        # crashes are C07's business
            case = {"lang": lang, "crates": crates, "ungeneratable_item": bad if bad_at else None,
                    "in_crates": [crates[i] for i in bad_at], "mode": "--output-folder"}
            if bad_at:
                said = r["err"] + r["out"]
                missing = [crates[i] for i in bad_at if "%s/src/lib.rs" % crates[i] not in said]
                if r["rc"] == 0 or missing:
                    check.violation("%s, folder output over the crates %s: the annotated item `Bad` (%s) in %s is neither generated nor "
                                    "reported (exit status %s%s)" % (lang, crates, kind, [crates[i] for i in bad_at], r["rc"],
                                                                     ", no diagnostic names " + ", ".join(missing) if missing else ""),
                                    case=case, impl={"rc": r["rc"], "stderr": r["err"][-1500:], "written": {k: v[-600:] for k, v in written.items()}},
                                    failing_input=True)
                    return
            else:
                allt = "\n".join(written.values())
                lost = [cr for cr in crates if "Fine" + cr.capitalize() not in allt]
                if r["rc"] != 0 or lost:
                    check.violation("%s, folder output over the crates %s (all generatable): exit status %s, items of %s missing"
                                    % (lang, crates, r["rc"], lost), case=case,
                                    impl={"rc": r["rc"], "stderr": r["err"][-1500:], "written": sorted(written)}, failing_input=True)
                    return


# ----------------------------------------------------------------------------- the names of the crates in folder mode

# word lists crate names are spelled from (lower-case ASCII words; a word may be a version such as `v2`)
CRATE_NAME_BASES = [["auth", "api"], ["shared", "models"], ["api"], ["core", "types"], ["billing"], ["user", "profile", "v2"],
                    ["io"], ["http", "client"], ["db", "v1"]]
CRATE_NAME_UNRELATED = ["zeta", "common", "ledger"]
# pairs of spellings that are different directories (and, `-`/`_` aside, different crates) but equal after one of the usual
# normalisations: case folding, snake / camel / Pascal conversion, `-` -> `_`, dropping separators, cutting at a dot, dropping digits,
# prefix matching.  Every pair is run in every language of the quick tier.
CRATE_NAME_PAIRS = [("camel", "snake"), ("pascal", "snake"), ("upper-flat", "flat"), ("capitalised", "snake"), ("kebab", "snake"),
                    ("flat", "snake"), ("double-underscore", "snake"), ("leading-underscore", "snake"), ("trailing-underscore", "snake"),
                    ("dotted", "snake"), ("first-word", "snake"), ("digit-suffix", "snake"), ("digit-suffix", "digit-word"),
                    ("screaming", "snake"), ("pascal", "camel"), ("train", "snake"), ("version-1", "version-10"), ("version-1", "snake"),
                    ("capital-words", "snake"), ("digit-first", "snake"), ("extended", "snake"), ("plural", "snake")]


def crate_name_spellings(words):
    """{style: directory name} of one crate-name family"""
    snake = "_".join(words)
    cap = lambda w: w[:1].upper() + w[1:]
    return {
        "snake": snake, "kebab": "-".join(words), "camel": words[0] + "".join(cap(w) for w in words[1:]),
        "pascal": "".join(cap(w) for w in words), "flat": "".join(words), "screaming": snake.upper(), "upper-flat": "".join(words).upper(),
        "train": "-".join(cap(w) for w in words), "capital-words": "_".join(cap(w) for w in words), "capitalised": cap(snake),
        "double-underscore": "__".join(words) if len(words) > 1 else snake + "__x", "leading-underscore": "_" + snake,
        "trailing-underscore": snake + "_", "dotted": ".".join(words) if len(words) > 1 else snake + ".rs",
        "digit-suffix": snake + "2", "digit-word": snake + "_2", "digit-first": "2" + snake,
        "first-word": words[0] if len(words) > 1 else snake[:-1], "extended": snake + "_ext", "plural": snake + "s",
        "version-1": snake + ".v1", "version-10": snake + ".v10", "screaming-kebab": "-".join(words).upper(),
    }


def crate_names_workspace(rng, dirs):
    """{relative path: source} and [dict(dir, crate, items=[(kind, name)], private)] - every crate directory holds 1-3 annotated,
    generatable items (struct / unit enum / alias / one-field tuple struct) named after the *position* of the directory (the names
    of the crates decide nothing about the items), one un-annotated struct, and sometimes a second source file in a sub-directory"""
    files, meta = {}, []
    for i, d in enumerate(dirs):
        items = [("struct", "Crate%dRecord" % i, "#[typeshare]\npub struct Crate%dRecord { pub label: String, pub count: u32 }\n" % i)]
        extra = [("unit enum", "Crate%dMode" % i, "#[typeshare]\npub enum Crate%dMode { On, Off }\n" % i),
                 ("alias", "Crate%dId" % i, "#[typeshare]\npub type Crate%dId = String;\n" % i),
                 ("tuple struct", "Crate%dToken" % i, "#[typeshare]\npub struct Crate%dToken(pub String);\n" % i)]
        items += rng.sample(extra, rng.randint(0, 2))
        rng.shuffle(items)
        private = "Crate%dPrivate" % i
        second = None
        if len(items) > 1 and rng.random() < 0.3:
            second = items.pop()
        files["ws/%s/src/lib.rs" % d] = "".join(s + "\n" for _, _, s in items) + "pub struct %s { pub x: u8 }\n" % private
        if second:
            files["ws/%s/src/more/extra.rs" % d] = second[2]
            items.append(second)
        meta.append(dict(dir=d, crate=d.replace("-", "_"), items=[(k, n) for k, n, _ in items], private=private))
    return files, meta


def crate_names_part(check):
    """the *names of the crates* in folder mode (--output-folder: one module file per crate, the crate being the directory above `src`,
    `-` read as `_`): 2-4 crate directories whose names are different but related as texts - equal after case folding (`API` / `api`,
    `Billing` / `billing`), after snake / camel / Pascal / SCREAMING conversion (`authApi` / `AuthApi` / `auth_api` / `AUTH_API`), after
    `-` -> `_` (`auth-api` / `auth_api`: one crate from two directories), after dropping separators or digits (`authapi`, `auth__api`,
    `_auth_api`, `auth_api_`, `auth_api2` / `auth_api_2`), names that are prefixes of each other (`auth` / `auth_api` / `auth_api_ext` /
    `auth_apis`), names with dots and digits (`auth.api`, `auth_api.v1` / `auth_api.v10`, `2auth_api`) - every listed pair of spellings
    and random sets of 2-4 spellings of one family (sometimes next to an unrelated crate), all six languages, through the binary.
    Demanded (read off the files the binary wrote): exit status 0 => every annotated item of every crate directory is defined exactly
    once somewhere in the output folder, and the un-annotated ones nowhere; a run that reports an error instead is accepted.
    Swift names the module file after the PascalCase form of the crate name, which is not injective on the unchanged tree (open finding
    swift-module-file-collision, recorded for C14 only): crates whose Swift file names coincide are judged only if an `open:` line of
    that id exists for this property, otherwise they are left out of the Swift runs' judgement and counted.
    Model: the module file that holds a crate's items is named as Files.outputFileName says."""
    import c14
    rng = check.rng
    sets = []           # (how, [directory names])
    for k, (sa, sb) in enumerate(CRATE_NAME_PAIRS):
        sp = crate_name_spellings(CRATE_NAME_BASES[(k + check.seed) % len(CRATE_NAME_BASES)])
        if sp[sa] == sp[sb]:
            sp = crate_name_spellings(CRATE_NAME_BASES[0])
        pair = [sp[sa], sp[sb]]
        if rng.random() < 0.5:
            pair.reverse()
        sets.append(("%s/%s" % (sa, sb), pair))
    for _ in range(200 if check.thorough else 30):
        sp = crate_name_spellings(rng.choice(CRATE_NAME_BASES))
        pool = sorted(set(sp.values()))
        dirs = rng.sample(pool, rng.randint(2, min(4, len(pool))))
        if len(dirs) < 4 and rng.random() < 0.3:
            dirs.insert(rng.randint(0, len(dirs)), rng.choice(CRATE_NAME_UNRELATED))
        sets.append(("random-%d" % len(dirs), dirs))
    runs = []
    for how, dirs in sets:
        files, meta = crate_names_workspace(rng, dirs)
        swift_file = {m["crate"]: c14.file_name("swift", m["crate"]) for m in meta}
        swift_shared = {c for c in swift_file if sum(1 for x in swift_file if swift_file[x] == swift_file[c]) > 1}
        for lang in LANGS:
            with Scratch() as sc:
                for rel, text in files.items():
                    sc.write(rel, text)
                os.makedirs(sc.path("out"))
                args = ["--lang", lang, "--output-folder", "out"] + lang_args(lang) + ["ws"]
                r = run_cli(args, cwd=sc.dir)
                written = {f: open(sc.path("out/" + f), encoding="utf-8", errors="replace").read() for f in sorted(os.listdir(sc.path("out")))}
            check.saw(("crate-names", lang, tuple(dirs), json.dumps(files, sort_keys=True)), nontrivial=True)
            check.count("crate-names-" + lang)
            check.count("crate-names-set:" + how)
            check.count("crate-names-crates:%d" % len(dirs))
            if r["timed_out"] or r["rc"] not in (0, 1):
                check.count("crate-names-answer:crash")
                continue        # crashes are C07's business
            if r["rc"] != 0:
                check.count("crate-names-answer:error-reported")
                continue        # reported, not silently omitted
            check.count("crate-names-answer:ok")
            defs = {}
            for fn, text in written.items():
                for d in re.findall(c14.DEF_RX[lang], text, re.M):
                    defs.setdefault(next(x for x in (d if isinstance(d, tuple) else (d,)) if x), []).append(fn)
            case = {"lang": lang, "crate_directories": dirs, "files": files, "command": "typeshare " + " ".join(args),
                    "replay": "write `files` below an empty directory that has a `.git` sub-directory, create `out`, run `command` there"}
            impl = {"rc": r["rc"], "stderr": r["err"][-800:], "written": written}
            left_out = False
            for m in meta:
                for kind, name in m["items"]:
                    n = len(defs.get(name, []))
                    if n == 1:
                        continue
                    if lang == "swift" and m["crate"] in swift_shared:
                        witness = {"crates": sorted(c for c in swift_shared if swift_file[c] == swift_file[m["crate"]]),
                                   "swift_file": swift_file[m["crate"]], "item": name, "defined": n}
                        if not check.known("swift-module-file-collision", witness):
                            left_out = True         # recorded for C14, no `open:` line for this property: not judged here
                        continue
                    others = [x["dir"] for x in meta if x is not m]
                    check.violation("%s, --output-folder over the crate directories %s: exit status 0 and no diagnostic, but the annotated %s "
                                    "`%s` of the crate directory `%s` is defined %d time(s) in the output folder (files written: %s, for %d "
                                    "crates) - a crate whose name is merely spelled like another one's (%s) is a crate of its own and its "
                                    "items are shared too" % (lang, dirs, kind, name, m["dir"], n, sorted(written), len({x["crate"] for x in meta}),
                                                             ", ".join("`%s`" % o for o in others)),
                                    case=case, impl=impl, failing_input=True)
                    return
                if m["private"] in defs:
                    check.violation("%s, --output-folder over the crate directories %s: the un-annotated struct `%s` of `%s` is defined in %s"
                                    % (lang, dirs, m["private"], m["dir"], defs[m["private"]]), case=case, impl=impl, failing_input=True)
                    return
            if left_out:
                check.count("crate-names-swift-PascalCase-collision-left-out")
            for m in meta:
                if not (lang == "swift" and m["crate"] in swift_shared):
                    runs.append((lang, m, {fn for _, name in m["items"] for fn in defs.get(name, [])}, case))
    # the model's file name of every crate that was judged
    mans = model([[S("crate-name"), [m["dir"], "src", "lib.rs"], S(lang)] for lang, m, _, _ in runs], with_unicode=False)
    for (lang, m, holders, case), ma in zip(runs, mans):
        if ma.get("ok") != m["crate"] or holders != {ma.get("file")}:
            check.violation("%s, folder output: the items of the crate directory `%s` are written to %s; the model has the crate `%s` and the "
                            "module file `%s`" % (lang, m["dir"], sorted(holders), ma.get("ok"), ma.get("file")), case=case,
                            impl={"files_holding_the_items": sorted(holders)}, model=ma, failing_input=False,
                            broken="correspondence L0 output_file_name / find_crate_name (Files.outputFileName, Files.findCrateName; "
                                   "theorems TsV.C14.C14_file_names_partial, findCrateName_spec)")
            return


def quantity_inputs(thorough):
    """[(name, source, {definition name: expected count} or None, [member names expected once each])]"""
    out = []
    def structs(n):
        return "".join("#[typeshare]\npub struct S%d { pub a: u8, pub b: Option<S%d> }\n" % (i, (i * 7 + 3) % n) for i in range(n))
    for n in ([257, 1030] + ([66000] if thorough else [])):
        out.append(("structs-%d" % n, structs(n), ["S%d" % i for i in range(n)], []))
    for n in (257, 300):
        out.append(("fields-%d" % n, "#[typeshare]\npub struct Wide {\n%s}\n" % "".join("    pub fld_%d: u8,\n" % i for i in range(n)), ["Wide"],
                    ["fld_%d" % i for i in range(n)]))
        out.append(("unit-variants-%d" % n, "#[typeshare]\npub enum Many {\n%s}\n" % "".join("    Vx%dEnd,\n" % i for i in range(n)), ["Many"],
                    ["Vx%dEnd" % i for i in range(n)]))
        out.append(("tagged-variants-%d" % n, "#[typeshare]\n#[serde(tag = \"t\", content = \"c\")]\npub enum ManyT {\n%s}\n" % "".join(
            "    Vx%dEnd(u8),\n" % i if i % 2 else "    Vx%dEnd,\n" % i for i in range(n)), ["ManyT"], ["Vx%dEnd" % i for i in range(n)]))
    for d in (17, 70) + ((200,) if thorough else ()):
        # (TypeScript writes `[T; N]` as an N-tuple: nested arrays multiply - the recorded finding typescript-array-tuple-expansion -
        # so only the 17-level nest has two elements per level)
        for w, (a, b) in (("vec", ("Vec<", ">")), ("option", ("Option<", ">")), ("map", ("HashMap<String, ", ">")), ("box", ("Box<", ">")),
                          ("array", ("[", "; 2]" if d == 17 else "; 1]"))):
            out.append(("depth-%s-%d" % (w, d), "#[typeshare]\npub struct Deep { pub f: %sDeepLeaf%s }\n#[typeshare]\npub struct DeepLeaf { pub z: u8 }\n" % (a * d, b * d),
                        ["Deep", "DeepLeaf"], []))
    out.append(("long-name", "#[typeshare]\npub struct %s { pub %s: u8 }\n" % ("L" + "ongName" * 60, "f" + "_part" * 60), ["L" + "ongName" * 60], []))
    out.append(("generics-17", "#[typeshare]\npub struct G<%s> {\n%s}\n" % (", ".join("P%d" % i for i in range(17)), "".join("    pub g%d: P%d,\n" % (i, i) for i in range(17))), ["G"], []))
    mods = "#[typeshare]\npub struct Innermost { pub a: u8 }\n"
    for i in range(70):
        mods = "pub mod m%d {\n%s}\n#[typeshare]\npub struct At%d { pub a: u8 }\n" % (i, mods, i)
    out.append(("modules-70", mods, ["Innermost"] + ["At%d" % i for i in range(70)], []))
    return out


def quantity_part(check, judge="dropped"):
    """quantity and depth: more than 256 / 1024 (thorough: 65536) items in a file, 257 / 300 fields and variants, type expressions nested
    17 / 70 (thorough: 200) levels deep, a 421-character name, 17 generic parameters, 70 nested modules - through the real generators
    in-process, all six languages.  judge="dropped" (C03): every definition and every member is written exactly once, and the output
    equals the model's; judge="crash" (C07): output or a diagnostic, never a panic, an abort or a hang"""
    import corpus, c11, c14
    ins = quantity_inputs(check.thorough)
    reqs, meta = [], []
    for name, src, defs, members in ins:
        for lang in LANGS:
            if name.startswith("structs-66000") and lang not in ("typescript", "go"):
                continue
            cfg = {"package": "proto" if lang == "go" else "com.example", "type_mappings": {}}
            reqs.append({"op": "generate", "lang": lang, "config": cfg, "multi_file": False, "target_os": [],
                         "files": [{"src": src, "crate": "", "file_name": "o", "path": "src/lib.rs"}]})
            meta.append((name, lang, src, defs, members))
    for (name, lang, src, defs, members), a in zip(meta, runner(reqs)):
        check.saw(("quantity", name, lang), nontrivial=True)
        check.count("quantity-%s" % ("panic" if "panic" in a else "ok" if "ok" in a else "error"))
        case = {"lang": lang, "input": name, "source": src if len(src) < 6000 else src[:3000] + "\n…\n" + src[-1500:]}
        if "panic" in a:
            check.violation("%s on the input `%s`: %s" % (lang, name, "no answer (endless loop)" if a.get("hang") else "panic / crash at " + str(a["panic"])),
                            case=case, impl={k: str(v)[:1500] for k, v in a.items()}, failing_input=True)
            return
        if judge != "dropped" or "ok" not in a:
            continue
        text = a["ok"].get("", "")
        found = [next(x for x in (d if isinstance(d, tuple) else (d,)) if x) for d in re.findall(c14.DEF_RX[lang], text, re.M)]
        bad = [d for d in defs if found.count(d) != 1]
        # Go writes no definition for a unit enum's name twice, Kotlin / Swift / … each once: `count != 1` is the claim for all
        if bad:
            check.violation("%s on the input `%s` (%d definitions expected): %d of them are not written exactly once, e.g. %s x%d"
                            % (lang, name, len(defs), len(bad), bad[0], found.count(bad[0])), case=case, impl={"output_tail": text[-1500:]}, failing_input=True)
            return
        lost = [m for m in members if not re.search(r"(?<![A-Za-z0-9])%s(?![A-Za-z0-9])" % re.escape(m), text)
                and not re.search(r"(?i)(?<![A-Za-z0-9])%s(?![A-Za-z0-9])" % re.escape(m.replace("_", "")), text)]
        if lost:
            check.violation("%s on the input `%s`: %d of %d members are missing from the output, e.g. %s" % (lang, name, len(lost), len(members), lost[0]),
                            case=case, impl={"output_tail": text[-1500:]}, failing_input=True)
            return
    if judge == "dropped":
        small = [(n, s) for n, s, _, _ in ins if len(s) < 200000]
        diffs = corpus.compare(check, "quantity", small, LANGS, cfg_names=("default",))
        for name, lang, cname, src, m, r in diffs[:1]:
            check.violation("%s: model and implementation differ on the input `%s`: %s" % (lang, name, corpus.describe(m, r)),
                            case={"lang": lang, "input": name, "source": src[:4000]}, impl={k: str(v)[:1500] for k, v in r.items()},
                            model={k: str(v)[:1500] for k, v in m.items()}, failing_input=False,
                            broken="correspondence L2 generate on large inputs (theorems TsV.C03.*, TsV.C03_Emission.*)")


def merged_part(check, cases):
    """several files merged into one output: an ungeneratable annotated item in any of them is reported (never silently
    dropped) whatever the arrival order of the per-file results; without it every file's items are in the output"""
    rng = check.rng
    good = [c for c in cases if "#[typeshare" in c["text"] and not c["tos"]]
    BAD = "#[typeshare]\npub struct Pair(pub String, pub u32);\n\n#[typeshare]\npub struct Kept { pub a: u8 }\n"
    for idx in range(12 if check.thorough else 6):
        lang = LANGS[idx % len(LANGS)]
        picks = rng.sample(good, min(3, len(good)))
        with_bad = idx % 3 != 2
        for order in ("rev", "seed:%d" % idx, None):
            with Scratch() as sc:
                for k, c in enumerate(picks):
                    sc.write("proj/src/f%d.rs" % k, c["text"])
                if with_bad:
                    sc.write("proj/src/bad.rs", BAD)
                out = sc.path("out." + EXT[lang])
                r = run_cli(["--lang", lang, "-o", out] + lang_args(lang) + [sc.path("proj")], cwd=sc.dir,
                            env={"TYPESHARE_VERIF_ORDER": order} if order else None)
                text = open(out, encoding="utf-8").read() if os.path.exists(out) else ""
            check.saw(("merged", lang, idx, order), nontrivial=True)
            check.count("merged-" + ("with-ungeneratable" if with_bad else "clean"))
            if r["timed_out"] or r["rc"] not in (0, 1):
                continue        # crashes are C07's business
            if with_bad and (r["rc"] == 0 or "bad.rs" not in r["err"] + r["out"]):
                check.violation("%s: a tuple struct with two fields in one of %d merged files is neither generated nor reported "
                                "(exit status %s, arrival order %s)" % (lang, len(picks) + 1, r["rc"], order or "as delivered"),
                                case={"files": {"f%d.rs" % k: c["text"] for k, c in enumerate(picks)} | {"bad.rs": BAD}, "lang": lang, "order": order},
                                impl={"rc": r["rc"], "stderr": r["err"][-1500:], "output": text[-1500:]}, failing_input=True)
                return


def same_ident_part(check):
    """generation level (parse -> merge -> reconcile -> back end, in-process): annotated items that share their Rust identifier
    (in different modules or files, told apart by serde(rename), or not at all) are all emitted - nothing is merged or dropped
    on the way to the output"""
    import l2
    rng = check.rng
    ts = [m_path("typeshare")]
    for idx in range(36 if check.thorough else 12):
        lang = LANGS[idx % len(LANGS)]
        kind = rng.choice(["struct", "struct", "enum", "alias"])
        if lang == "go" and kind == "enum":
            kind = "struct"             # Go names enums after the Rust identifier (C09's open finding)
        name = rng.choice(["Config", "Mode", "Item", "payload_t"])
        k = rng.randint(2, 3)
        copies, want = [], []
        for j in range(k):
            rn = None if (j == 0 and rng.random() < 0.7) else "%sV%d" % (name.title().replace("_", ""), j + 1)
            attrs = list(ts) + ([m_list("serde", [m_nv("rename", lit_s(rn))])] if rn else [])
            member = "m%d_%s" % (j, rng.choice(["alpha", "beta", "gamma"]))
            if kind == "struct":
                it = {"kind": "struct", "attrs": attrs, "ident": name, "generics": [], "fields": ("named", [field([], member, t_path("u8"))])}
            elif kind == "enum":
                member = "V%d%s" % (j, rng.choice(["Fast", "Slow"]))
                it = {"kind": "enum", "attrs": attrs, "ident": name, "generics": [],
                      "variants": [{"attrs": [], "ident": member, "fields": ("unit",)}, {"attrs": [], "ident": "Common", "fields": ("unit",)}]}
            else:
                member = None
                it = {"kind": "alias", "attrs": attrs, "ident": name, "generics": [], "ty": t_path(["String", "u32", "bool"][j])}
            copies.append(it)
            want.append((rn or name, member))
        # the copies live in sibling modules of one file, or in different files of the same crate
        other = {"kind": "struct", "attrs": list(ts), "ident": "Unrelated%d" % idx, "generics": [], "fields": ("named", [field([], "z", t_path("u8"))])}
        if rng.random() < 0.5:
            files = [{"attrs": [], "items": [{"kind": "mod", "attrs": [], "ident": "v%d" % j, "items": [c]} for j, c in enumerate(copies)] + [other]}]
        else:
            files = [{"attrs": [], "items": [c] + ([other] if j == 0 else [])} for j, c in enumerate(copies)]
            rng.shuffle(files)
        g = Gen(rng)
        cfg = {"package": "proto" if lang == "go" else "com.example", "type_mappings": {}, "version_header": False}
        jobs = [{"crate": "", "file_name": "out", "path": "src/f%d.rs" % j, "file": f} for j, f in enumerate(files)]
        mreq, rreq, texts = l2.requests(lang, cfg, jobs, g)
        names = set().union(*[l2.names_of(f) for f in files])
        ma = l2.norm(model([mreq], names=names)[0])
        ra = l2.norm(runner([rreq])[0])
        check.saw(("same-ident", lang, kind, "\n".join(texts)), nontrivial=True)
        check.count("same-ident-%s" % kind)
        if "ok" in ra:
            out = ra["ok"].get("", "")
            distinct = len({w for w, _ in want}) == len(want)
            for w, member in want:
                n_defs = len(re.findall(r"(?m)^(?:export (?:interface|type|enum)|(?:data |sealed |enum |value )?class|typealias|object|public (?:struct|enum|indirect enum|typealias)"
                                        r"|case class|sealed trait|type|class) %s\b" % re.escape(w), out)) + \
                         len(re.findall(r"(?m)^%s = " % re.escape(w), out))
                need = 1 if distinct else sum(1 for x, _ in want if x == w)
                mem_ok = member is None or re.search(r"(?i)\b%s\b" % re.escape(member.replace("_", "")), out.replace("_", ""))
                if n_defs < need or not mem_ok:
                    check.violation("%s: %d annotated %ss share the Rust identifier `%s` (written as %s); the output defines `%s` %d time(s)%s"
                                    % (lang, k, kind, name, [x for x, _ in want], w, n_defs, "" if mem_ok else " and lacks its member `%s`" % member),
                                    case={"lang": lang, "files": texts}, impl={"output": out}, model=ma, failing_input=True)
                    return
        if ma != ra:
            d = l2.text_diff(ma["ok"].get("", ""), ra["ok"].get("", "")) if "ok" in ma and "ok" in ra else "%s vs %s" % (str(ma)[:200], str(ra)[:200])
            check.violation("%s: items sharing a Rust identifier: generate_types differs from the model: %s" % (lang, d),
                            case={"lang": lang, "files": texts}, impl=ra, model=ma, failing_input=False,
                            broken="correspondence L2 generate (theorems TsV.C03.Capstone run_guarantees_*)")
            return


def emptied_variants_part(check):
    """struct variants that keep no field (written `V {}`, or every field skipped in either spelling) next to ordinary ones: the variant
    itself is still an annotated, non-skipped variant - it must be generated, and so must whatever its generated form refers to
    (the helper struct `<Enum><Variant>Inner` of five back ends)"""
    import l2
    rng = check.rng
    ts = [m_path("typeshare")]
    skip = lambda: [rng.choice([m_list("serde", [m_path("skip")]), m_list("typeshare", [m_path("skip")])])]
    for idx in range(18 if check.thorough else 6):
        lang = LANGS[idx % len(LANGS)]
        variants, emptied = [], []
        for k in range(rng.randint(2, 4)):
            how = rng.choice(["braces", "all-skipped", "ordinary", "unit", "one-skipped"])
            vn = "V%d%s" % (k, how.title().replace("-", ""))
            if how == "braces":
                fs = ("named", []); emptied.append(vn)
            elif how == "all-skipped":
                fs = ("named", [field(skip(), "a%d" % j, t_path(rng.choice(["u8", "String"]))) for j in range(rng.randint(1, 3))]); emptied.append(vn)
            elif how == "one-skipped":
                fs = ("named", [field(skip(), "gone", t_path("u8")), field([], "kept", t_path("String"))])
            elif how == "ordinary":
                fs = ("named", [field([], "x", t_path("u8"))])
            else:
                fs = ("unit",)
            variants.append({"attrs": [], "ident": vn, "fields": fs})
        if not emptied:
            variants.append({"attrs": [], "ident": "VEmpty", "fields": ("named", [])}); emptied.append("VEmpty")
        f = {"attrs": [], "items": [{"kind": "enum", "attrs": list(ts) + [m_list("serde", [m_nv("tag", lit_s("t")), m_nv("content", lit_s("c"))])],
                                     "ident": "Event%d" % idx, "generics": [], "variants": variants}]}
        g = Gen(rng)
        cfg = {"package": "proto" if lang == "go" else "com.example", "type_mappings": {}, "version_header": False}
        mreq, rreq, texts = l2.requests(lang, cfg, [{"crate": "", "file_name": "out", "path": "src/lib.rs", "file": f}], g)
        ma = l2.norm(model([mreq], names=l2.names_of(f))[0])
        ra = l2.norm(runner([rreq])[0])
        check.saw(("emptied-variants", lang, texts[0]), nontrivial=True)
        check.count("emptied-variants")
        if "ok" in ra:
            out = ra["ok"].get("", "")
            for vn in [v["ident"] for v in variants]:
                # the wire name of the variant occurs in every back end's output
                if not re.search(r"\b%s\b" % vn, out, re.I):
                    check.violation("%s: the variant %s of an annotated enum is not generated" % (lang, vn), case={"lang": lang, "source": texts[0]},
                                    impl={"output": out}, model=ma, failing_input=True)
                    return
            for name in sorted(set(re.findall(r"\bEvent%d\w+Inner\b" % idx, out))):
                if not re.search(r"(?m)^\s*(?:public struct|struct|class|data class|object|type|case class) %s\b" % name, out) and \
                        not re.search(r"(?m)^class %s\(" % name, out):
                    check.violation("%s: the generated enum refers to `%s`, the helper struct of a struct variant without fields, which is not "
                                    "generated" % (lang, name), case={"lang": lang, "source": texts[0]}, impl={"output": out}, model=ma, failing_input=True)
                    return
        if ma != ra:
            d = l2.text_diff(ma["ok"].get("", ""), ra["ok"].get("", "")) if "ok" in ma and "ok" in ra else "%s vs %s" % (str(ma)[:200], str(ra)[:200])
            check.violation("%s: struct variants without fields: generate_types differs from the model: %s" % (lang, d),
                            case={"lang": lang, "source": texts[0]}, impl=ra, model=ma, failing_input=False,
                            broken="correspondence L2 generate (theorems TsV.C03.Capstone run_guarantees_*)")
            return


# ----------------------------------------------------------------------------- attributes on the inline modules around the items

def _cfg(*pred):
    return m_list("cfg", list(pred))


_feat = lambda name: m_nv("feature", lit_s(name))
_not = lambda x: m_list("not", [x])
# (label, attribute) - what people write on `mod name { .. }`.  typeshare reads the source text without evaluating any of them:
# an annotated item below such a module is "found anywhere in the scanned files (including nested modules)"
MODULE_ATTRS = [
    ("cfg(test)", _cfg(m_path("test"))),
    ("cfg(not(test))", _cfg(_not(m_path("test")))),
    ("cfg(any(test, feature))", _cfg(m_list("any", [m_path("test"), _feat("fixtures")]))),
    ("cfg(any(feature, test))", _cfg(m_list("any", [_feat("testing"), m_path("test")]))),
    ("cfg(all(test, feature))", _cfg(m_list("all", [m_path("test"), _feat("slow")]))),
    ("cfg(all(not(test), unix))", _cfg(m_list("all", [_not(m_path("test")), m_path("unix")]))),
    ("cfg(any(not(test), debug_assertions))", _cfg(m_list("any", [_not(m_path("test")), m_path("debug_assertions")]))),
    ("cfg(feature)", _cfg(_feat("wire"))),
    ("cfg(feature = \"test\")", _cfg(_feat("test"))),
    ("cfg(not(feature))", _cfg(_not(_feat("minimal")))),
    ("cfg(any(feature, feature))", _cfg(m_list("any", [_feat("a"), _feat("b")]))),
    ("cfg(debug_assertions)", _cfg(m_path("debug_assertions"))),
    ("cfg(not(debug_assertions))", _cfg(_not(m_path("debug_assertions")))),
    ("cfg(target_os)", _cfg(m_nv("target_os", lit_s("linux")))),
    ("cfg(not(target_os))", _cfg(_not(m_nv("target_os", lit_s("windows"))))),
    ("cfg(any(target_os, target_os))", _cfg(m_list("any", [m_nv("target_os", lit_s("ios")), m_nv("target_os", lit_s("android"))]))),
    ("cfg(unix)", _cfg(m_path("unix"))),
    ("cfg(windows)", _cfg(m_path("windows"))),
    ("cfg(target_arch)", _cfg(m_nv("target_arch", lit_s("wasm32")))),
    ("cfg(target_family)", _cfg(m_nv("target_family", lit_s("wasm")))),
    ("cfg(doc)", _cfg(m_path("doc"))),
    ("cfg(miri)", _cfg(m_path("miri"))),
    ("cfg(any())", _cfg(m_list("any", []))),
    ("cfg(all())", _cfg(m_list("all", []))),
    ("cfg_attr(test, allow)", m_list("cfg_attr", [m_path("test"), m_list("allow", [m_path("dead_code")])])),
    ("cfg_attr(feature, path)", m_list("cfg_attr", [_feat("alt"), m_nv("path", lit_s("alt_impl.rs"))])),
    ("cfg_attr(docsrs, doc(cfg))", m_list("cfg_attr", [m_path("docsrs"), m_list("doc", [m_list("cfg", [_feat("wire")])])])),
    ("allow(dead_code)", m_list("allow", [m_path("dead_code")])),
    ("allow(several lints)", m_list("allow", [m_path("unused_imports"), m_path("non_snake_case"), m_path("clippy", "module_inception")])),
    ("deny(missing_docs)", m_list("deny", [m_path("missing_docs")])),
    ("doc(hidden)", m_list("doc", [m_path("hidden")])),
    ("path = \"..\"", m_nv("path", lit_s("platform/unix_impl.rs"))),
    ("macro_use", m_path("macro_use")),
    ("rustfmt::skip", m_path("rustfmt", "skip")),
    ("deprecated", m_path("deprecated")),
    ("doc comment (line)", doc_attr(" Helpers for the unit tests; see cfg(test).", "line")),
    ("doc comment (block)", doc_attr(" Wire format, not compiled under test ", "block")),
    ("doc = \"..\"", doc_attr("internal: do not use", "attr")),
]
MODULE_NAMES = ["tests", "test", "fixtures", "internal", "private", "imp", "detail", "generated", "wire", "v1", "bench", "mocks", "unix",
                "ffi", "models", "api", "__private", "prelude"]


def attributed_modules(rng, items, stats):
    """regroup the flat item list of a file: 1-3 runs of neighbouring items move into a chain of 1-4 nested containers - inline modules
    (named the way people name them: tests, fixtures, internal, wire, ..) and, now and then, fn bodies -, at least one module of every
    chain carries 1-3 attributes of MODULE_ATTRS (the other modules of the chain do with probability 0.4), the items of the run sit at
    any level of the chain (at least one at the bottom).  Returns the new item list; stats collects (label, nesting depth of the
    attributed module) pairs and whether a target_os predicate was used"""
    items = list(items)
    out, i, serial = [], 0, [0]
    ngroups = rng.randint(1, 3)
    used = set()

    def mod_name():
        n = rng.choice(MODULE_NAMES)
        while n in used:
            serial[0] += 1
            n = "%s_%d" % (n.strip("_"), serial[0])
        used.add(n)
        return n

    def attrs_for(depth):
        picked = rng.sample(MODULE_ATTRS, rng.choice([1, 1, 1, 2, 2, 3]))
        for label, _ in picked:
            stats.append((label, depth))
        return [a for _, a in picked]

    while i < len(items):
        if ngroups == 0 or (rng.random() < 0.3 and len(items) - i > ngroups):
            out.append(items[i])
            i += 1
            continue
        ngroups -= 1
        k = rng.randint(1, min(3, len(items) - i))
        group, i = items[i:i + k], i + k
        depth = rng.randint(1, 4)
        forced = rng.randrange(depth)
        levels = [[] for _ in range(depth)]
        levels[depth - 1].append(group[0])
        for it in group[1:]:
            levels[rng.randrange(depth)].append(it)
        node = None
        for d in reversed(range(depth)):
            content = levels[d] + ([node] if node else [])
            rng.shuffle(content)
            if d == forced or rng.random() < 0.75:
                node = {"kind": "mod", "attrs": attrs_for(d + 1) if (d == forced or rng.random() < 0.4) else [], "ident": mod_name(), "items": content}
            else:
                serial[0] += 1
                node = {"kind": "other", "ident": "helper_%d" % serial[0], "paths": [], "items": content}
        out.append(node)
    return out


def enclosing_modules(file):
    """{identifier of an item: [the rendered heads of the containers around it, outermost first]}"""
    out = {}

    def walk(items, chain):
        for it in items:
            if it["kind"] == "mod":
                head = " ".join(render_attr_any(a).strip() for a in it["attrs"])
                walk(it["items"], chain + [(head + " " if head else "") + "pub mod %s { .. }" % it["ident"]])
            elif it["kind"] == "other":
                walk(it["items"], chain + ["fn %s() { .. }" % it["ident"]])
            elif it.get("ident"):
                out.setdefault(it["ident"], chain)
    walk(file["items"], [])
    return out


def module_attrs_part(check):
    """attributes on the inline modules that hold annotated items.  The items of a random file (all four kinds, skip markers, item-level
    cfg attributes, un-annotated neighbours) are moved into chains of 1-4 nested inline modules / fn bodies; the modules are named
    `tests`, `fixtures`, `internal`, `wire`, .. and carry 1-3 of: cfg(test), cfg(not(test)), cfg(any(..)) / cfg(all(..)) with `test`
    in any position, cfg(feature = ".."), cfg(debug_assertions), cfg(target_os = "..") (no --target-os on the command line then),
    cfg(unix / windows / doc / miri / any() / all()), cfg_attr(..), allow(..) / deny(..), doc(hidden), path = "..", macro_use,
    rustfmt::skip, deprecated, doc comments in the three spellings - on the outermost, a middle or the innermost module of the chain.
    typeshare reads the source text; it does not evaluate conditional compilation of modules, and the property speaks of every
    annotated item "found anywhere in the scanned files (including nested modules)".
    Demanded (a) parse level: the ParsedData of the real parser lists exactly the annotated, non-skipped items and members of the
    source (`expected` / `oracle`, one entry or one error per annotated item) - and equals the model's; (b) generation in-process,
    all six languages, on programs of 4-8 generatable items of every kind arranged the same way: one definition per annotated item,
    none for the un-annotated ones (`own_names_judge`), output equal to the model's; (c) the same through the binary for one
    (thorough: three) program(s) per language: exit 0 => every annotated item is defined once in the output file"""
    import l2
    rng = check.rng
    n = 8000 if check.thorough else 1500
    cases = []
    for i in range(n):
        g = Gen(rng, p_skip=0.2, p_mod=0.0, p_noise=0.35, p_cfg=0.08, p_unsupported=0.02, p_edge=0.03)
        f = g.file()
        stats = []
        f = {"attrs": f["attrs"], "items": attributed_modules(rng, f["items"], stats)}
        uses_os = any("target_os" in label for label, _ in stats)
        tos = [] if uses_os else rng.choice([[], [], [], ["ios"], ["android", "macos"]])
        m, r, text = l1.requests(f, g, target_os=tos)
        cases.append(dict(file=f, m=m, r=r, text=text, tos=tos, stats=stats))
    mans, rans, diffs = l1.compare([(c["m"], c["r"]) for c in cases])
    failing = []
    for c, ma, ra in zip(cases, mans, rans):
        check.saw(("module-attrs", c["text"], ",".join(c["tos"])), nontrivial="#[typeshare" in c["text"])
        for label, depth in c["stats"]:
            check.count("module-attr:" + label)
            check.count("module-attr-at-depth:%d" % depth)
        if "#[typeshare" not in c["text"]:
            continue
        exp = expected(c["file"], c["tos"])
        check.count("module-attrs-annotated-items-below-modules", sum(1 for _, name, _ in exp if enclosing_modules(c["file"]).get(name)))
        prob = oracle(exp, ra)
        if prob:
            failing.append((len(c["text"]), len(failing), c, ma, ra, exp, prob))
    if failing:
        check.count("module-attrs-files-judged-wrong", len(failing))
        for _, _, c, ma, ra, exp, prob in sorted(failing)[:1]:       # the shortest source that shows it
            got = {it["id"]["o"] for k in ("structs", "enums", "aliases", "consts") for it in ra["ok"][k]} if ra.get("ok") else set()
            where = enclosing_modules(c["file"])
            lost = [(kind, name) for kind, name, _ in exp if name not in got]
            detail = "; ".join("the %s `%s` inside %s" % (kind, name, " > ".join("`%s`" % h for h in where.get(name, [])) or "the file's top level")
                               for kind, name in lost[:4])
            check.violation("annotated items below inline modules that carry attributes are neither parsed nor reported as errors (%s): %s - "
                            "typeshare shares every annotated item found in the scanned text, whatever attribute the enclosing module has"
                            % (prob, detail or "see the parsed lists"),
                            case={"source": c["text"], "target_os": c["tos"], "request": c["r"],
                                  "replay": "write `source` to proj/src/lib.rs and run: typeshare --lang typescript -o out.ts proj"},
                            impl=ra, model=ma, failing_input=True)
            return
    if diffs:
        c = cases[diffs[0]]
        check.violation("modules with attributes: parser::parse differs from the model: %s" % l1.first_diff(mans[diffs[0]], rans[diffs[0]]),
                        case={"source": c["text"], "target_os": c["tos"], "request": c["r"]}, impl=rans[diffs[0]], model=mans[diffs[0]],
                        failing_input=False, broken="correspondence L1 parser::parse on inline modules with attributes (theorems TsV.C03.*)")
        return
    # (b) generation, in-process
    progs = []
    for idx in range((100 if check.thorough else 20) * len(LANGS)):
        lang = LANGS[idx % len(LANGS)]
        f, meta = own_names_program(rng)
        stats = []
        f = {"attrs": [], "items": attributed_modules(rng, f["items"], stats)}
        cfg = {"package": "proto" if lang == "go" else "com.example", "type_mappings": {}, "version_header": False}
        mreq, rreq, texts = l2.requests(lang, cfg, [{"crate": "", "file_name": "out", "path": "src/lib.rs", "file": f}], Gen(rng))
        progs.append(dict(lang=lang, file=f, meta=meta, stats=stats, mreq=mreq, rreq=rreq, text=texts[0]))
    rans = [l2.norm(a) for a in runner([p["rreq"] for p in progs])]
    for p, ra in zip(progs, rans):
        lang = p["lang"]
        check.saw(("module-attrs-generate", lang, p["text"]), nontrivial=True)
        check.count("module-attrs-generate-" + lang)
        for label, depth in p["stats"]:
            check.count("module-attr:" + label)
            check.count("module-attr-at-depth:%d" % depth)
        if "ok" not in ra:
            check.count("module-attrs-generate-answer:" + ("panic" if "panic" in ra else "error-reported"))
            continue            # reported (a const in a language that cannot write it), not silently omitted; crashes are C07's business
        check.count("module-attrs-generate-answer:ok")
        out = "\n".join(v for v in ra["ok"].values() if isinstance(v, str))
        prob = own_names_judge(lang, p["meta"], out)
        if prob:
            where = enclosing_modules(p["file"])
            name = re.search(r"`(\w+)`", prob).group(1)
            check.violation("%s, modules with attributes: %s; it sits inside %s - no error is reported" % (
                lang, prob, " > ".join("`%s`" % h for h in where.get(name, [])) or "the file's top level"),
                case={"lang": lang, "source": p["text"],
                      "replay": "write `source` to proj/src/lib.rs and run: typeshare %s proj" % " ".join(["--lang", lang] + lang_args(lang) + ["-o", "out." + EXT[lang]])},
                impl={"output": out}, failing_input=True)
            return
    # (c) the same through the binary
    per_lang = 3 if check.thorough else 1
    for lang in LANGS:
        for p in [p for p in progs if p["lang"] == lang and any(m["kind"] != "const" for m in p["meta"])][:per_lang]:
            with Scratch() as sc:
                sc.write("proj/src/lib.rs", p["text"])
                out = sc.path("out." + EXT[lang])
                r = run_cli(["--lang", lang, "-o", out] + lang_args(lang) + [sc.path("proj")], cwd=sc.dir)
                text = open(out, encoding="utf-8", errors="replace").read() if os.path.exists(out) else ""
            check.saw(("module-attrs-cli", lang, p["text"]), nontrivial=True)
            check.count("module-attrs-cli-" + lang)
            if r["timed_out"] or r["rc"] != 0:
                continue        # reported; crashes are C07's business
            prob = own_names_judge(lang, p["meta"], text)
            if prob:
                check.violation("%s through the binary, modules with attributes: exit status 0, %s" % (lang, prob),
                                case={"lang": lang, "source": p["text"], "replay": "write `source` to proj/src/lib.rs and run: typeshare %s proj"
                                      % " ".join(["--lang", lang] + lang_args(lang) + ["-o", "out." + EXT[lang]])},
                                impl={"rc": r["rc"], "stderr": r["err"][-800:], "output": text}, failing_input=True)
                return
    names = set().union(*[l2.names_of(p["file"]) for p in progs])
    mans = [l2.norm(a) for a in model([p["mreq"] for p in progs], names=names)]
    for p, ma, ra in zip(progs, mans, rans):
        if ma != ra:
            check.violation("%s, modules with attributes: generate_types differs from the model: %s" % (p["lang"], corpus.describe(ma, ra)),
                            case={"lang": p["lang"], "source": p["text"]}, impl=ra, model=ma, failing_input=False,
                            broken="correspondence L2 generate on inline modules with attributes (theorems TsV.C03.Capstone run_guarantees_*)")
            return


# ----------------------------------------------------------------------------- configurations that name the program's own items

# names a program gives its own types - among them the ones users typically list in type_mappings because the consumer side has a
# representation of its own (Uuid, Url, DateTime, Decimal ...).  No name is another name followed by a variant name / `Inner` / `Types`.
OWN_TYPE_NAMES = ["Uuid", "Url", "DateTime", "Decimal", "AccountId", "Tier", "Account", "Money", "Invoice", "LineItem", "Label",
                  "Shape", "Point", "Settings", "Status", "Token", "Currency", "Page", "Envelope", "Timestamp"]
OWN_CONST_NAMES = ["MAX_ITEMS", "LIMIT", "API_VERSION", "RETRIES"]
OWN_VARIANTS = ["Free", "Paid", "Trial", "Open", "Closed", "Pending", "Small", "Large"]
OWN_FIELDS = ["id", "name", "value", "count", "owner", "items", "note", "amount"]
OWN_PRIMS = ["String", "u32", "bool", "i32", "f64", "u8"]
MAPPED_TO = {
    "typescript": ["string", "number", "Date", "Uint8Array", "Record<string, unknown>"],
    "kotlin": ["String", "java.util.UUID", "kotlinx.datetime.Instant", "Long"],
    "swift": ["String", "UUID", "Date", "Decimal"],
    "scala": ["String", "java.util.UUID", "BigDecimal"],
    "go": ["string", "uuid.UUID", "time.Time", "decimal.Decimal"],
    "python": ["str", "UUID", "datetime", "Decimal"],
}
CONST_RX = {"typescript": r"^export const (\w+):", "go": r"^const (\w+) ", "python": r"^(\w+): [^=\n]+ = "}
NO_CONSTS = ("kotlin", "swift", "scala")      # their write_const refuses: an annotated const is reported, never written


def own_names_program(rng):
    """an abstract file of 4-8 annotated items of every kind (structs, one-field tuple structs, generic structs, unit and tagged
    enums, aliases, at most one const) that use each other, 0-2 of them serde-renamed, next to 1-2 un-annotated items, in shuffled
    declaration order, some inside a module.  Every annotated item is generatable (consts aside, in three languages).
    Returns (file, [dict(kind, rust, written, annotated, members)])"""
    ts = m_path("typeshare")
    n = rng.randint(4, 8)
    names = rng.sample(OWN_TYPE_NAMES, n + rng.randint(1, 2))
    plain = names[n:]
    generic, avail, items, meta = set(), [], [], []

    def ty():
        base = t_path(rng.choice(OWN_PRIMS))
        if avail and rng.random() < 0.6:
            nm = rng.choice(avail)
            base = t_path(nm, [t_path(rng.choice(OWN_PRIMS))]) if nm in generic else t_path(nm)
        w = rng.random()
        return t_path("Option", [base]) if w < 0.2 else t_path("Vec", [base]) if w < 0.4 else \
            t_path("HashMap", [t_path("String"), base]) if w < 0.5 else base

    def fields(k):
        return ("named", [field([], f, ty()) for f in rng.sample(OWN_FIELDS, k)])

    for nm in plain:
        # un-annotated items: defined by the program, not shared
        if rng.random() < 0.5:
            items.append({"kind": "struct", "attrs": [m_list("derive", [m_path("Debug")])], "ident": nm, "generics": [], "fields": fields(1)})
        else:
            items.append({"kind": "enum", "attrs": [], "ident": nm, "generics": [], "variants": [{"attrs": [], "ident": v, "fields": ("unit",)}
                                                                                               for v in rng.sample(OWN_VARIANTS, 2)]})
        meta.append(dict(kind="un-annotated", rust=nm, written=nm, annotated=False, members=[]))
        avail.append(nm)
    with_const = rng.random() < 0.25
    for i, nm in enumerate(names[:n]):
        kind = rng.choices(["struct", "newtype", "unit-enum", "tagged-enum", "alias", "generic-struct"], [30, 17, 16, 17, 14, 6])[0]
        attrs = [ts]
        members = []
        if kind == "tagged-enum":
            attrs.append(m_list("serde", [m_nv("tag", lit_s("t")), m_nv("content", lit_s("c"))]))
        written = nm
        if rng.random() < 0.2:
            written = nm + rng.choice(["Dto", "V2", "Model"])
            attrs.append(m_list("serde", [m_nv("rename", lit_s(written))]))
        if rng.random() < 0.5:
            attrs.insert(rng.randint(0, len(attrs)), m_list("derive", [m_path("Serialize"), m_path("Deserialize")]))
        if kind == "struct":
            fs = fields(rng.randint(1, 3))
            members = [f["ident"] for f in fs[1]]
            it = {"kind": "struct", "attrs": attrs, "ident": nm, "generics": [], "fields": fs}
        elif kind == "generic-struct":
            it = {"kind": "struct", "attrs": attrs, "ident": nm, "generics": [("ty", "T")],
                  "fields": ("named", [field([], "items", t_path("Vec", [t_path("T")])), field([], "total", t_path("u32"))])}
            members = ["items", "total"]
        elif kind == "newtype":
            it = {"kind": "struct", "attrs": attrs, "ident": nm, "generics": [], "fields": ("unnamed", [field([], None, ty())])}
        elif kind == "unit-enum":
            members = rng.sample(OWN_VARIANTS, rng.randint(2, 3))
            it = {"kind": "enum", "attrs": attrs, "ident": nm, "generics": [], "variants": [{"attrs": [], "ident": v, "fields": ("unit",)} for v in members]}
        elif kind == "tagged-enum":
            members = rng.sample(OWN_VARIANTS, rng.randint(2, 3))
            shape = lambda: rng.choice([("unit",), ("unnamed", [field([], None, ty())]), fields(1)])
            shapes = [shape() for _ in members]
            if all(sh[0] == "unit" for sh in shapes):       # serde's tag / content need a variant with data
                shapes[rng.randrange(len(shapes))] = fields(1)
            it = {"kind": "enum", "attrs": attrs, "ident": nm, "generics": [], "variants": [{"attrs": [], "ident": v, "fields": sh} for v, sh in zip(members, shapes)]}
        else:
            it = {"kind": "alias", "attrs": attrs, "ident": nm, "generics": [], "ty": ty()}
        items.append(it)
        meta.append(dict(kind=kind, rust=nm, written=written, annotated=True, members=members))
        avail.append(nm)
        if kind == "generic-struct":
            generic.add(nm)
    if with_const:
        cn = rng.choice(OWN_CONST_NAMES)
        v = rng.randint(1, 99)
        items.append({"kind": "const", "attrs": [ts], "ident": cn, "ty": t_path("u32"), "expr_text": str(v), "init": ("i", v, "")})
        meta.append(dict(kind="const", rust=cn, written=cn, annotated=True, members=[]))
    rng.shuffle(items)
    if rng.random() < 0.25 and len(items) > 3:
        k = rng.randint(1, 2)
        items = items[k:] + [{"kind": "mod", "attrs": [], "ident": "inner", "items": items[:k]}]
    return {"attrs": [], "items": items}, meta


def own_names_mappings(rng, lang, meta):
    """a type_mappings table that refers to the program: ({key: value}, [flavour of each key])"""
    ann = [m for m in meta if m["annotated"]]
    plain = [m for m in meta if not m["annotated"]]
    renamed = [m for m in ann if m["written"] != m["rust"]]
    used = {m["rust"] for m in meta} | {m["written"] for m in meta}
    tm, flavours = {}, []

    def value(key):
        r = rng.random()
        if r < 0.6:
            return rng.choice(MAPPED_TO[lang])
        if r < 0.75:
            return key                                     # the identity mapping
        if r < 0.9:
            return rng.choice(ann)["rust"]                 # another item of the program
        return "Mapped" + re.sub(r"\W", "", key)

    def add(key, flavour):
        if key not in tm:
            tm[key] = value(key)
            flavours.append(flavour)

    r = rng.random()
    if r < 0.1:
        for m in ann:                                       # the whole shared program is mapped
            add(m["rust"], "rust-name-of-" + m["kind"])
    elif r < 0.8:
        for m in rng.sample(ann, rng.randint(1, min(3, len(ann)))):
            add(m["rust"], "rust-name-of-" + m["kind"])
    if renamed and rng.random() < 0.6:
        add(rng.choice(renamed)["written"], "serde-name")
    if rng.random() < 0.3:
        add(rng.choice(plain)["rust"], "un-annotated-name")
    if rng.random() < 0.3:
        add(rng.choice([x for x in OWN_TYPE_NAMES if x not in used]), "foreign-name")
    if rng.random() < 0.25:
        nm = rng.choice(ann)["rust"]
        add(rng.choice([nm.lower(), nm.upper(), nm[:-1], nm + "s", "crate::" + nm, " " + nm]), "near-miss")
    if rng.random() < 0.25:
        nm = rng.choice(ann)["rust"]
        add(rng.choice(["Vec<%s>", "Option<%s>", "HashMap<String,%s>"]) % nm, "compound")
    members = [x for m in ann for x in m["members"]]
    if members and rng.random() < 0.2:
        add(rng.choice(members), "member-name")
    if not tm:
        m = rng.choice(ann)
        add(m["rust"], "rust-name-of-" + m["kind"])
    return tm, flavours


def own_names_judge(lang, meta, text):
    """the property, read off the generated text: one definition per annotated item (under its Rust or its serde name - whatever
    name its uses are written under), none for an un-annotated one.  Returns a problem text or None"""
    import c14
    found = [next(x for x in (d if isinstance(d, tuple) else (d,)) if x) for d in re.findall(c14.DEF_RX[lang], text, re.M)]
    squash = lambda s: s.replace("_", "").lower()
    consts = [squash(c) for c in re.findall(CONST_RX[lang], text, re.M)] if lang in CONST_RX else []
    for m in meta:
        if m["kind"] == "const":
            n = consts.count(squash(m["rust"]))
        else:
            n = found.count(m["written"]) + (found.count(m["rust"]) if m["rust"] != m["written"] else 0)
        if m["annotated"] and n != 1:
            return "the annotated %s `%s`%s is defined %d time(s) in the output" % (
                m["kind"], m["rust"], " (serde name `%s`)" % m["written"] if m["written"] != m["rust"] else "", n)
        if not m["annotated"] and n != 0:
            return "the un-annotated item `%s` is defined %d time(s) in the output" % (m["rust"], n)
    return None


def toml_of(tables):
    """typeshare.toml text of {language: {key: value}} type_mappings tables"""
    out = []
    for lang, tm in tables.items():
        out.append("[%s.type_mappings]" % lang)
        out += ["%s = %s" % (json.dumps(k), json.dumps(v)) for k, v in tm.items()]
        out.append("")
    return "\n".join(out)


def own_names_cases(rng, per_lang):
    """per_lang programs with a table for each language; every fourth one is generated in multi-file mode (crate `models`)"""
    import l2
    cases = []
    for idx in range(per_lang * len(LANGS)):
        lang = LANGS[idx % len(LANGS)]
        f, meta = own_names_program(rng)
        tm, flavours = own_names_mappings(rng, lang, meta)
        multi = idx % 4 == 3
        cfg = {"package": "proto" if lang == "go" else "com.example", "type_mappings": tm, "version_header": False}
        g = Gen(rng)
        mreq, rreq, texts = l2.requests(lang, cfg, [{"crate": "models" if multi else "", "file_name": "out", "path": "src/lib.rs", "file": f}],
                                        g, multi_file=multi)
        cases.append(dict(lang=lang, file=f, meta=meta, tm=tm, flavours=flavours, multi=multi, cfg=cfg, mreq=mreq, rreq=rreq, text=texts[0]))
    return cases


def own_names_config_part(check):
    """configurations that refer to the program's own names: type_mappings tables whose keys are the Rust names of annotated structs /
    one-field tuple structs / generic structs / unit and tagged enums / aliases / consts of the scanned program (one, several, all of
    them), their serde(rename) names, names of un-annotated items, near misses (other letter case, a prefix, a plural, a path), compound
    spellings (`Vec<Own>`, `Option<Own>`, `HashMap<String,Own>`), member names and foreign names, mapped to a target type, to
    themselves, or to another item of the program - all six languages, in-process (single-file and multi-file mode) and through the
    binary (typeshare.toml found in an ancestor directory of the working directory, or named with -c; one output file or
    --output-folder; the tables of the *other* languages name the program's items too).
    Demanded: a mapping changes how *uses* of a name are written, never which items are shared - every annotated item still has
    exactly one definition (consts: or an error in the three languages that cannot write them - never exit 0 without it), an
    un-annotated one none; and the output equals the model's"""
    import l2
    cases = own_names_cases(check.rng, 150 if check.thorough else 20)
    rans = [l2.norm(a) for a in runner([c["rreq"] for c in cases])]
    for c, ra in zip(cases, rans):
        lang, meta = c["lang"], c["meta"]
        check.saw(("own-names-config", lang, json.dumps(c["tm"], sort_keys=True), c["text"]), nontrivial=True)
        check.count("own-names-config-" + lang)
        check.count("own-names-config-%s" % ("multi-file" if c["multi"] else "single-file"))
        for fl in c["flavours"]:
            check.count("own-names-config-key:" + fl)
        for k, v in c["tm"].items():
            check.count("own-names-config-value:" + ("identity" if v == k else "another-item" if any(v == m["rust"] for m in meta) else "target-type"))
        has_const = any(m["kind"] == "const" for m in meta)
        case = {"lang": lang, "type_mappings": c["tm"], "source": c["text"], "mode": "multi-file, crate `models`" if c["multi"] else "single file",
                "typeshare.toml": toml_of({lang: c["tm"]}),
                "replay": "write `source` to proj/src/lib.rs and `typeshare.toml` into the directory that holds proj, and run there: "
                          "typeshare %s proj" % " ".join(["--lang", lang] + lang_args(lang) + ["-o", "out." + EXT[lang]])}
        if "panic" in ra:
            check.count("own-names-config-answer:panic")
            continue                    # crashes are C07's business
        if "ok" not in ra:
            check.count("own-names-config-answer:" + ("const-refused" if has_const and lang in NO_CONSTS else "error"))
            continue                    # reported, not silently omitted
        check.count("own-names-config-answer:ok")
        out = "\n".join(v for v in ra["ok"].values() if isinstance(v, str))
        named = [m for m in meta if m["annotated"] and m["rust"] in c["tm"]]
        if has_const and lang in NO_CONSTS:
            prob = "the annotated const `%s`, which %s cannot write, is neither written nor reported (the run succeeds)" % (
                next(m["rust"] for m in meta if m["kind"] == "const"), lang)
        else:
            prob = own_names_judge(lang, meta, out)
        if prob:
            # a smaller table that still shows it: one key at a time
            for k in c["tm"]:
                a1 = l2.norm(runner([dict(c["rreq"], config=dict(c["cfg"], type_mappings={k: c["tm"][k]}))])[0])
                if "ok" in a1:
                    out1 = "\n".join(v for v in a1["ok"].values() if isinstance(v, str))
                    prob1 = prob if has_const and lang in NO_CONSTS else own_names_judge(lang, meta, out1)
                    if prob1:
                        case.update({"type_mappings": {k: c["tm"][k]}, "typeshare.toml": toml_of({lang: {k: c["tm"][k]}}),
                                     "found_with_type_mappings": c["tm"]})
                        prob, out, named = prob1, out1, [m for m in named if m["rust"] == k]
                        break
            check.violation("%s with [%s.type_mappings] %s (keys %s name annotated items of the program): %s - a type mapping says how uses of a "
                            "name are written, it does not un-share the item" % (lang, lang, json.dumps(case["type_mappings"]),
                                                                                 [m["rust"] for m in named], prob),
                            case=case, impl={"output": out}, failing_input=True)
            break
    # the same programs through the binary, the tables in a typeshare.toml
    if not check.has_failing():
        own_names_cli(check, cases)
    # model vs implementation on all of them
    names = set().union(*[l2.names_of(c["file"]) for c in cases])
    mans = [l2.norm(a) for a in model([c["mreq"] for c in cases], names=names)]
    for c, ma, ra in zip(cases, mans, rans):
        if ma != ra:
            check.count("own-names-config-model-differs")
            d = corpus.describe(ma, ra)
            check.violation("%s with [%s.type_mappings] %s naming the program's own items: generate_types differs from the model: %s"
                            % (c["lang"], c["lang"], json.dumps(c["tm"]), d),
                            case={"lang": c["lang"], "type_mappings": c["tm"], "source": c["text"], "multi_file": c["multi"]}, impl=ra, model=ma,
                            failing_input=False, broken="correspondence L2 generate under type_mappings that name the program's own items "
                                                        "(theorems TsV.C03.Capstone run_guarantees_*, TsV.C03_Emission.*)")
            break


def own_names_cli(check, cases):
    """process level of own_names_config_part: 4 (thorough: 12) programs per language, the binary reads the tables from a file"""
    per_lang = 12 if check.thorough else 4
    picks = []
    for lang in LANGS:
        mine = [c for c in cases if c["lang"] == lang]
        # prefer the programs whose table names an annotated item
        mine.sort(key=lambda c: not any(m["annotated"] and m["rust"] in c["tm"] for m in c["meta"]))
        picks += mine[:per_lang]
    for idx, c in enumerate(picks):
        lang, meta = c["lang"], c["meta"]
        how = ["ancestor", "-c", "ancestor-deep", "folder"][(idx + idx // 4) % 4]
        # the tables of the other five languages name every annotated item, or nothing of this program
        others = {m["rust"]: "Elsewhere" for m in meta if m["annotated"]} if idx % 2 == 0 else {"Foreign": "Elsewhere"}
        toml = toml_of({L: (c["tm"] if L == lang else others) for L in LANGS})
        with Scratch() as sc:
            sc.write("ws/models/src/lib.rs", c["text"])
            args = ["--lang", lang] + lang_args(lang)
            cwd = sc.path("ws/models/src") if how == "ancestor-deep" else sc.path("ws")
            if how == "-c":
                args += ["-c", sc.write("settings/mappings.toml", toml)]
                sc.write("ws/typeshare.toml", toml_of({L: {} for L in LANGS}))      # a discoverable file without mappings: -c wins
            else:
                sc.write("ws/typeshare.toml", toml)
            os.makedirs(sc.path("out"))
            args += ["--output-folder", sc.path("out")] if how == "folder" else ["-o", sc.path("out/types." + EXT[lang])]
            r = run_cli(args + [sc.path("ws")], cwd=cwd)
            written = {fn: open(sc.path("out/" + fn), encoding="utf-8", errors="replace").read() for fn in sorted(os.listdir(sc.path("out")))}
        check.saw(("own-names-cli", lang, how, toml, c["text"]), nontrivial=True)
        check.count("own-names-cli-" + how)
        if r["timed_out"] or r["rc"] not in (0, 1):
            continue            # crashes are C07's business
        out = "\n".join(written.values())
        if any(v != k and v in out for k, v in c["tm"].items()):
            check.count("own-names-cli-mapped-name-visible-in-output")
        has_const = any(m["kind"] == "const" for m in meta)
        case = {"lang": lang, "typeshare.toml": toml, "config_found_by": how, "files": {"ws/models/src/lib.rs": c["text"]},
                "command": "typeshare " + " ".join(a.replace(sc.dir, ".") for a in args + [sc.path("ws")]),
                "working_directory": cwd.replace(sc.dir, ".")}
        if r["rc"] != 0:
            check.count("own-names-cli-" + ("const-refused" if has_const and lang in NO_CONSTS else "error"))
            continue            # reported
        if has_const and lang in NO_CONSTS:
            prob = "the annotated const `%s`, which %s cannot write, is neither written nor reported (exit status 0)" % (
                next(m["rust"] for m in meta if m["kind"] == "const"), lang)
        else:
            prob = own_names_judge(lang, meta, out)
        if prob:
            check.violation("%s, typeshare.toml (%s) with [%s.type_mappings] %s: exit status 0, %s" % (lang, how, lang, json.dumps(c["tm"]), prob),
                            case=case, impl={"rc": r["rc"], "stderr": r["err"][-800:], "written": written}, failing_input=True)
            return


def find_item(items, name):
    for it in items:
        if it["kind"] in ("mod", "other"):
            r = find_item(it["items"], name)
            if r:
                return r
        elif it.get("ident") == name and is_annotated(it.get("attrs", [])):
            return it
    return None
