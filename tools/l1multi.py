import sys, random
sys.path.insert(0, '/verif/tools')
from l1 import *
import common
common.build_runner()
rng = random.Random(int(sys.argv[1]) if len(sys.argv) > 1 else 1)
N = int(sys.argv[2]) if len(sys.argv) > 2 else 300
cases, texts = [], []
for i in range(N):
    g = Gen(rng, p_cfg=0.1, p_edge=0.2, multi_file=True, crates=["alpha", "beta_x", "gamma"], nonascii=0.05)
    f = g.file(extern_types=rng.sample(["Ext1", "Ext2", "Remote", "Shared"], 2))
    # qualified references
    if rng.random() < 0.5:
        f["items"].append({"kind": "other", "ident": "helper", "paths": [rng.choice([["alpha", "Ext1"], ["crate", "x", "Remote"], ["std", "Foo"], ["beta_x", "m", "Shared"], ["Foo", "Bar"], ["super", "Ext2"]])], "items": []})
    m, r, t = requests(f, g, multi_file=True, crate=rng.choice(["alpha", "beta_x", "gamma"]), ignored=rng.choice([[], ["Ext1"], ["Remote", "Url"]]))
    cases.append((m, r)); texts.append(t)
mans, rans, diffs = compare(cases)
print("cases", N, "diffs", len(diffs))
from collections import Counter
c = Counter()
for a in rans:
    if "panic" in a: c["panic " + a["panic"]] += 1
    elif a.get("ok"):
        c["imports"] += len(a["ok"]["import_types"])
print(c)
for i in diffs[:3]:
    print("-----", i)
    print(texts[i])
    print("DIFF:", first_diff(mans[i], rans[i]))
