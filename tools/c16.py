"""C16 — rename_all case conversion agrees with serde_derive's algorithm (rename.rs, parser.rs)."""
import contextlib, itertools, re, unicodedata
from common import *

RULES = ["lowercase", "UPPERCASE", "PascalCase", "camelCase", "snake_case", "SCREAMING_SNAKE_CASE",
         "kebab-case", "SCREAMING-KEBAB-CASE"]
UNKNOWN = ["Camel_Snake", "lower-case", ""]
REPS = ["a", "B", "1", "_", "é", "É"]
# UpperCamelCase names without an ASCII lower-case letter (the repaired class ascii-allcaps-test-on-unicode-names) ...
ALLCAPS_REPAIRED_IDENTS = ["ΑλφαΒήτα", "ΟδόςA", "ÖßÉé", "ЖукМир", "BéB", "ÉéB"]
# ... and names that really are all capitals (no lower-case letter of any script: the open class allcaps-special-case)
ALLCAPS_OPEN_IDENTS = ["ΟΔΟΣ", "ÉB"]
DICTIONARY = ["foo_bar", "FooBar", "Hello", "Number1", "AddressLine1", "URL", "TOTP", "id", "ID", "user_id", "userID",
              "HTTPServer", "x", "X", "a1", "A1", "a_1", "_private", "__", "_", "type", "r#type", "fooBAR", "Foo_Bar",
              "foo__bar", "trailing_", "IOError", "i32", "Vec2D", "snake_case_name", "SCREAMING_SNAKE", "kebab",
              "éclair", "Éclair", "straße", "ǅ", "naïve_field", "MyÉnum", "A", "Z42", "VeryTasty", "outcome",
              "very_tasty", "a", "z42", "B2B", "eTag", "iOS", "macOS", "x86_64", "OK", "Ok", "NaN"] + \
             [chr(i) for i in range(1, 128)] + ["x" + chr(i) + "Y" for i in range(33, 127)] + \
             [w for w in ALLCAPS_REPAIRED_IDENTS + ALLCAPS_OPEN_IDENTS if not set(w) <= set("aB1_éÉ")]

FIELD_CONV = re.compile(r"^[a-z0-9_]+$")


def upper_camel(s, facts=None):
    """the variant identifiers the property quantifies over: UpperCamelCase - a capital, then letters and digits, not all
    capitals (a lower-case letter somewhere, or nothing but digits after the capital).  ASCII by the regular expressions; with
    `facts` (rows of `unicode_table`: char::is_uppercase / is_lowercase of Rust std, by character) also over other scripts:
    `Éé`, `BéB`, `ΑλφαΒήτα` are UpperCamelCase, `ÉB`, `ΟΔΟΣ` are all capitals (class `allcaps-special-case`).  "All capitals"
    is typeshare's own test since the fix 8f4a2d5: no character with char::is_lowercase."""
    if re.fullmatch(r"[A-Z][A-Za-z0-9]*", s):
        return bool(re.search(r"[a-z]", s)) or bool(re.fullmatch(r"[A-Z][0-9]*", s))
    if facts is None or not s or not all(ch.isalnum() for ch in s) or any(ord(ch) > 127 and ch not in facts for ch in s):
        return False
    upper = lambda ch: "A" <= ch <= "Z" if ord(ch) < 128 else bool(facts[ch][1])
    if not upper(s[0]):
        return False
    return not rust_all_uppercase(s, facts) or not any(upper(ch) for ch in s[1:])


def norm(a, who):
    if "panic" in a:
        return {"panic": "byte-slice"}
    return a


def strings(check):
    maxlen = 7 if check.thorough else 5
    out = []
    for n in range(1, maxlen + 1):
        for t in itertools.product(REPS, repeat=n):
            out.append("".join(t))
    return out, maxlen


def run(check):
    strs_, maxlen = strings(check)
    allstrs = strs_ + DICTIONARY
    check.rule = ("every string of length 1..%d over the class representatives {a,B,1,_,é,É} (%d strings) plus a %d-word "
                  "dictionary, x 8 rules (+%d unknown rules) x {field, variant}; compared: typeshare rename_all_to_case "
                  "(hook) vs model, vendored serde_derive case.rs vs Serde model; non-trivial = the string contains a "
                  "word boundary (underscore, case change or non-ASCII letter)" % (maxlen, len(strs_), len(DICTIONARY), len(UNKNOWN)))
    mreq, rreq, meta = [], [], []
    for s_ in allstrs:
        for rule in RULES + UNKNOWN:
            mreq.append([S("rename"), rule, s_])
            rreq.append({"op": "rename", "rule": rule, "s": s_})
            meta.append(("ts", rule, s_))
            if rule in RULES:
                for pos in ("field", "variant"):
                    mreq.append([S("serde"), S(pos), rule, s_])
                    rreq.append({"op": "serde", "pos": pos, "rule": rule, "s": s_})
                    meta.append((pos, rule, s_))
    # the public RenameExt functions directly
    for s_ in DICTIONARY + strs_[:3000]:
        for f in ("camel", "pascal", "snake", "screaming_snake", "kebab", "screaming_kebab"):
            mreq.append([S("renameext"), S(f), s_])
            rreq.append({"op": "renameext", "f": f, "s": s_})
            meta.append(("ext", f, s_))
    mans, rans = model(mreq), runner(rreq)
    facts = {r[0]: r for r in unicode_table({ch for s_ in allstrs + ALLCAPS_REPAIRED_IDENTS + ALLCAPS_OPEN_IDENTS for ch in s_ if ord(ch) > 127})}
    impl_ts, impl_serde, model_ts, model_serde = {}, {}, {}, {}
    mismatches = []
    for (kind, rule, s_), ma, ra, rq in zip(meta, mans, rans, rreq):
        who = "typeshare" if kind in ("ts", "ext") else "serde"
        ma, ra = norm(ma, who), norm(ra, who)
        boundary = bool(re.search(r"_|[a-z1][A-Z]|[A-Z][a-z]|[^\x00-\x7f]", s_))
        check.saw((kind, rule, s_), nontrivial=boundary)
        check.count(kind)
        if kind == "ts":
            impl_ts[(rule, s_)], model_ts[(rule, s_)] = ra, ma
        elif kind in ("field", "variant"):
            impl_serde[(kind, rule, s_)], model_serde[(kind, rule, s_)] = ra, ma
        if ma != ra:
            mismatches.append((kind, rule, s_, ma, ra, rq))
    for s_ in ("foo_bar", "FooBar", "URL", "éB_1"):
        check.sample({"string": s_, "rule": "camelCase", "typeshare": impl_ts[("camelCase", s_)],
                      "serde_field": impl_serde[("field", "camelCase", s_)],
                      "serde_variant": impl_serde[("variant", "camelCase", s_)]})

    # --- the property on the implementation (oracle), used when the correspondence breaks
    def newly_failing():
        out = []
        for (rule, s_), got in impl_ts.items():
            if rule not in RULES:
                if got != {"ok": s_}:
                    out.append(("unknown-rule", rule, s_, got, {"ok": s_}))
                continue
            for pos, scope in (("field", FIELD_CONV.match(s_)), ("variant", upper_camel(s_, facts))):
                want = impl_serde[(pos, rule, s_)]
                if "panic" in want:
                    continue        # serde_derive itself fails (compile error in the user's crate): nothing to agree with
                if got != want and (scope or model_ts[(rule, s_)] == model_serde[(pos, rule, s_)]):
                    out.append((pos, rule, s_, got, want))
        out.sort(key=lambda t: (len(t[2]), t[2]))
        return out

    if mismatches:
        fails = newly_failing()
        ts_broken = any(k in ("ts", "ext") for k, *_ in mismatches)
        if fails and ts_broken:
            pos, rule, s_, got, want = fails[0]
            check.violation("rename_all %s on %s %r gives %s, serde_derive gives %s" % (rule, pos, s_, got, want),
                            case={"position": pos, "rule": rule, "ident": s_}, impl=got, model=want, failing_input=True)
        else:
            kind, rule, s_, ma, ra, rq = mismatches[0]
            check.violation("%s differs from its model on %r / %s" % ("typeshare" if kind in ("ts", "ext") else "vendored serde case.rs", s_, rule),
                            case=rq, impl=ra, model=ma, failing_input=False,
                            broken="correspondence %s (theorems TsV.C16.*)" % kind)

    # --- known findings: stored witnesses, replayed on the implementation
    # (the class allcaps-special-case = names without a lower-case letter of any script: `URL`, and `ΟΔΟΣ` as well)
    witnesses = {
        "allcaps-special-case": [("variant", "camelCase", "URL")] + [("variant", "snake_case", w) for w in ALLCAPS_OPEN_IDENTS],
        "snake-splits-fields": [("field", "snake_case", "fooBar")],
        "pascal-on-variant-with-underscore": [("variant", "PascalCase", "Foo_Bar")],
    }
    for kid, ws in witnesses.items():
        for pos, rule, s_ in ws:
            got = impl_ts.get((rule, s_)) or norm(runner([{"op": "rename", "rule": rule, "s": s_}])[0], "typeshare")
            want = impl_serde.get((pos, rule, s_)) or norm(runner([{"op": "serde", "pos": pos, "rule": rule, "s": s_}])[0], "serde")
            if kid == "allcaps-special-case" and not rust_all_uppercase(s_, facts):
                raise InfraError("the stored witness %r of allcaps-special-case has a lower-case letter: it is not in the class" % s_)
            if got != want:
                check.known(kid, {"position": pos, "rule": rule, "ident": s_, "typeshare": got, "serde": want})
    # --- repaired classes: their stored witnesses must give serde's name now; a difference means the defect has returned
    repaired = {
        "unicode-case-mapping": ("7d1c05f", [("variant", "lowercase", "É"), ("variant", "lowercase", "Éclair"),
                                             ("variant", "UPPERCASE", "MyÉnum"), ("field", "UPPERCASE", "éclair"),
                                             ("field", "UPPERCASE", "straße"), ("variant", "UPPERCASE", "ǅ")]),
        # "all uppercase" was `to_ascii_uppercase() == name`: every name without an *ASCII* lower-case letter
        "ascii-allcaps-test-on-unicode-names": ("8f4a2d5", [("variant", r, w) for w in ALLCAPS_REPAIRED_IDENTS
                                                            for r in ("snake_case", "PascalCase", "SCREAMING_SNAKE_CASE", "kebab-case",
                                                                      "SCREAMING-KEBAB-CASE")]),
    }
    for kid, (commit, ws) in repaired.items():
        for pos, rule, s_ in ws:
            got = impl_ts.get((rule, s_)) or norm(runner([{"op": "rename", "rule": rule, "s": s_}])[0], "typeshare")
            want = impl_serde.get((pos, rule, s_)) or norm(runner([{"op": "serde", "pos": pos, "rule": rule, "s": s_}])[0], "serde")
            check.saw(("repaired", kid, pos, rule, s_))
            check.count("repaired-witness")
            if got != want and not any(v["failing_input_found"] for v in check.violations):
                check.violation("the repaired class %s (fix %s) has returned: rename_all %s on %s %r gives %s, serde_derive gives %s"
                                % (kid, commit, rule, pos, s_, got, want),
                                case={"position": pos, "rule": rule, "ident": s_}, impl=got, model=want, failing_input=True)
    if not check.has_failing():
        ident_part(check, impl_serde)
        if not check.has_failing():
            backend_part(check)
        if not check.has_failing():
            backend_unicode_part(check)
        if not check.has_failing():
            rule_spelling_part(check)
    n_div = sum(1 for (rule, s_), got in impl_ts.items() if rule in RULES
                for pos in ("field", "variant") if "panic" not in impl_serde[(pos, rule, s_)] and got != impl_serde[(pos, rule, s_)])
    check.extra["divergences_from_serde_outside_conventional_names"] = n_div
    check.exhaustive = True
    check.extra["exhaustive_scope"] = "strings of length <= %d over 6 class representatives" % maxlen
    check.assumptions += ["Unicode case mapping (char::is_uppercase for the snake/kebab family; str::to_lowercase/uppercase are no longer used by rename_all_to_case since 7d1c05f) is a parameter of the model; its table for the alphabet is computed by Rust std on every run",
                          "serde's algorithm is the vendored serde_derive 1.0.214 internals/case.rs, compiled unchanged into the runner"]


def backend_part(check):
    """the names the rules give must also be the names each back end *writes*: one struct and one struct variant per rule, multi-word
    fields first and a single-word field last, through all six generators; judged with C01's extractors (the key each declaration
    binds) against the python reading of serde's rule"""
    import c01, l2
    from syn_gen import m_path, m_nv, m_list, lit_s, t_path, field
    from gen import Gen
    ts = [m_path("typeshare")]
    reqs, meta = [], []
    g = Gen(check.rng)
    for rule in RULES:
        ra = [m_list("serde", [m_nv("rename_all", lit_s(rule))])]
        # the languages with a date type bind the key of a date field a second time (TypeScript's reviver; Python's translation
        # functions): those fields come last but one
        fs = lambda dates=False: ("named", [field([], w, t_path("u8")) for w in ("first_name", "created_by_user", "x2_value")]
                                  + ([field([], w, t_path("OffsetDateTime")) for w in ("last_seen_at", "deleted_at")] if dates else [])
                                  + [field([], "age", t_path("u8"))])
        mk = lambda dates: {"attrs": [], "items": [
            {"kind": "struct", "attrs": ts + ra, "ident": "Person", "generics": [], "fields": fs(dates)},
            {"kind": "enum", "attrs": ts + [m_list("serde", [m_nv("tag", lit_s("t")), m_nv("content", lit_s("c"))])], "ident": "Ev", "generics": [],
             "variants": [{"attrs": list(ra), "ident": "Made", "fields": fs(dates)}, {"attrs": [], "ident": "Gone", "fields": ("unit",)}]}]}
        f = {"attrs": [], "items": [
            {"kind": "struct", "attrs": ts + ra, "ident": "Person", "generics": [], "fields": fs()},
            {"kind": "enum", "attrs": ts + [m_list("serde", [m_nv("tag", lit_s("t")), m_nv("content", lit_s("c"))])], "ident": "Ev", "generics": [],
             "variants": [{"attrs": list(ra), "ident": "Made", "fields": fs()}, {"attrs": [], "ident": "Gone", "fields": ("unit",)}]}]}
        for lang in LANGS:
            cfg = {"package": "proto" if lang == "go" else "com.example", "type_mappings": {}, "version_header": False, "prefix": "", "module_name": ""}
            for ff in [f] + ([mk(True)] if lang in ("typescript", "go", "python") else []):
                m, r, texts = l2.requests(lang, cfg, [{"crate": "", "file_name": "out", "path": "src/lib.rs", "file": ff}], g)
                reqs.append(r)
                meta.append((rule, lang, cfg, ff, texts[0]))
    for (rule, lang, cfg, f, src), a in zip(meta, runner(reqs)):
        check.saw(("backend", rule, lang), nontrivial=True)
        check.count("backend-level")
        probs, n = c01.oracle(lang, cfg, f, l2.norm(a))
        if probs:
            check.violation("rename_all %s: the %s back end does not write the names the rule gives: %s" % (rule, lang, probs[0]),
                            case={"source": src, "rule": rule, "lang": lang}, impl=a, failing_input=True)
            return


def ident_part(check, impl_serde):
    """through parser::parse: the name a field / variant gets under each rule - incl. identifiers written as raw identifiers
    (`r#type`, `r#Match`), whose `r#` serde strips *before* applying the rule - against the model and against the vendored
    serde case.rs applied to the identifier without `r#`"""
    from syn_gen import m_path, m_nv, m_list, lit_s, t_path, field
    from gen import Gen
    import l1
    fields = ["user_id", "r#type", "r#match", "r#fn", "created_at", "r#async", "x", "r#loop_count"]
    variants = ["FooBar", "r#Match", "r#Type", "Ok", "r#LoopCount", "A"]
    ts = [m_path("typeshare")]
    reqs, meta = [], []
    # where the container carries the rule: alone; in a second / third serde attribute; after other arguments of the same
    # attribute; with foreign attributes in between (serde_derive reads all serde attributes of the container)
    def layouts(rule):
        ra = m_nv("rename_all", lit_s(rule))
        other = m_list("serde", [m_path("deny_unknown_fields")])
        bound = m_list("serde", [m_nv("bound", lit_s(""))])
        derive = m_list("derive", [m_path("Debug"), m_path("Clone")])
        return [[m_list("serde", [ra])],
                [other, m_list("serde", [ra])],
                [other, derive, bound, m_list("serde", [ra])],
                [m_list("serde", [m_path("deny_unknown_fields"), m_nv("bound", lit_s("")), ra])],
                [m_list("serde", [ra]), other]]
    for rule, ra in [(None, [])] + [(r, l) for r in RULES for l in layouts(r)]:
        f = {"attrs": [], "items": [
            {"kind": "struct", "attrs": ts + ra, "ident": "S", "generics": [],
             "fields": ("named", [field([], w, t_path("u8")) for w in fields])},
            {"kind": "enum", "attrs": ts + ra, "ident": "E", "generics": [],
             "variants": [{"attrs": [], "ident": w, "fields": ("unit",)} for w in variants]},
            # struct-variant fields follow the *variant's* rule; an enum-wide `rename_all_fields` (which typeshare does not read) of
            # another rule must not displace it
            {"kind": "enum", "attrs": ts + [m_list("serde", [m_nv("tag", lit_s("t")), m_nv("content", lit_s("c")),
                                                              m_nv("rename_all_fields", lit_s("SCREAMING-KEBAB-CASE" if rule != "SCREAMING-KEBAB-CASE" else "camelCase"))])],
             "ident": "F", "generics": [],
             "variants": [{"attrs": list(ra), "ident": "Sv", "fields": ("named", [field([], w, t_path("u8")) for w in fields])}]}]}
        m, r, text = l1.requests(f, Gen(check.rng))
        reqs.append((m, r))
        meta.append((rule, text))
    names = set(w.replace("r#", "") for w in fields + variants)
    sreq = [{"op": "serde", "pos": pos, "rule": rule, "s": w.replace("r#", "")}
            for rule in RULES for pos, ws in (("field", fields), ("variant", variants)) for w in ws]
    sans = iter(runner(sreq))
    want = {}
    for rule in RULES:
        for pos, ws in (("field", fields), ("variant", variants)):
            for w in ws:
                want[(rule, pos, w)] = next(sans)
    mans, rans, diffs = l1.compare(reqs)
    for (rule, text), ma, ra in zip(meta, mans, rans):
        check.saw(("ident", rule), nontrivial=rule is not None)
        check.count("ident-level")
        d = ra.get("ok") or {}
        got = {}
        for st in d.get("structs", []):
            for w, fl in zip(fields, st["fields"]):
                got[("field", w)] = fl["id"]["r"]
        for en in d.get("enums", []):
            if en["id"]["o"] == "F":
                if rule:
                    for w, fl in zip(fields, en["variants"][0].get("fields", [])):
                        got[("field", w + " (struct-variant field, enum has rename_all_fields)")] = fl["id"]["r"]
                continue
            for w, v in zip(variants, en["variants"]):
                got[("variant", w)] = v["id"]["r"]
        for (pos, w), g in sorted(got.items()):
            w0 = w.split(" (")[0]
            exp = want[(rule, pos, w0)].get("ok") if rule else w0.replace("r#", "")
            if exp is not None and g != exp:
                check.violation("rename_all %s on %s `%s`: typeshare names it %r, serde_derive %r" % (rule, pos, w, g, exp),
                                case={"source": text, "rule": rule, "position": pos, "ident": w}, impl=g, model=exp, failing_input=True)
                return
    if diffs:
        i = diffs[0]
        check.violation("parser::parse differs from the model on identifiers under rename_all %s: %s" % (meta[i][0], l1.first_diff(mans[i], rans[i])),
                        case={"source": meta[i][1]}, impl=rans[i], model=mans[i], failing_input=False,
                        broken="correspondence L1 getIdent (theorems TsV.C16.C16_field / C16_variant via C01/C02 parse halves)")


# ----------------------------------------------------------------------------- non-ASCII identifiers through the six back ends

def _hex(s, i, n):
    """the n hex digits at s[i:i+n] as a number, or None"""
    h = s[i:i + n]
    return int(h, 16) if len(h) == n and re.fullmatch(r"[0-9A-Fa-f]+", h) else None


def literal_value(lang, body):
    """the string a double-quoted literal with the given body (the text between the quotes, as generated) denotes in `lang` -
    each language by its own escape rules - or None where the body is not a well-formed literal of that language (the compiler
    rejects the file; for a Go struct tag reflect's tag lookup fails and encoding/json falls back to the Go field name).
    TypeScript: ES2015 string literals (\\n \\xHH \\uHHHH \\u{H..} and the identity escape); Kotlin: \\t \\b \\n \\r \\' \\" \\\\ \\$ \\uHHHH, `$name` /
    `${` start a template; Swift: \\0 \\\\ \\t \\n \\r \\" \\' \\u{1-8 hex}, `\\(` starts an interpolation; Scala: \\b \\t \\n \\f \\r \\" \\' \\\\ \\uHHHH;
    Go: strconv.Unquote of an interpreted literal (\\a \\b \\f \\n \\r \\t \\v \\\\ \\" \\ooo \\xHH \\uHHHH \\UHHHHHHHH); Python: the str escapes,
    an unknown escape keeps its backslash"""
    simple = {"typescript": {"n": "\n", "r": "\r", "t": "\t", "b": "\b", "f": "\f", "v": "\v"},
              "kotlin": {"t": "\t", "b": "\b", "n": "\n", "r": "\r", "'": "'", '"': '"', "\\": "\\", "$": "$"},
              "swift": {"0": "\0", "\\": "\\", "t": "\t", "n": "\n", "r": "\r", '"': '"', "'": "'"},
              "scala": {"b": "\b", "t": "\t", "n": "\n", "f": "\f", "r": "\r", '"': '"', "'": "'", "\\": "\\"},
              "go": {"a": "\a", "b": "\b", "f": "\f", "n": "\n", "r": "\r", "t": "\t", "v": "\v", "\\": "\\", '"': '"'},
              "python": {"\n": "", "\\": "\\", "'": "'", '"': '"', "a": "\a", "b": "\b", "f": "\f", "n": "\n", "r": "\r", "t": "\t",
                         "v": "\v"}}[lang]
    units, i = [], 0           # code points; TypeScript: UTF-16 code units, Go: bytes of escapes are kept as latin-1 marks below

    def put(cp):
        if lang == "typescript" and cp > 0xFFFF:
            cp -= 0x10000
            units.extend([0xD800 + (cp >> 10), 0xDC00 + (cp & 0x3FF)])
        else:
            units.append(cp)

    while i < len(body):
        ch = body[i]
        if ch == '"' or ch == "\n" and lang != "python":
            return None
        if ch == "$" and lang == "kotlin" and i + 1 < len(body) and (body[i + 1] == "{" or ("a" + body[i + 1]).isidentifier()):
            return None
        if ch != "\\":
            put(ord(ch))
            i += 1
            continue
        if i + 1 >= len(body):
            return None
        c = body[i + 1]
        if c in simple:
            for x in simple[c]:
                put(ord(x))
            i += 2
        elif c == "u" and lang in ("typescript", "swift") and body[i + 2:i + 3] == "{":
            j = body.find("}", i + 3)
            digits = body[i + 3:j] if j > 0 else ""
            if not re.fullmatch(r"[0-9A-Fa-f]+", digits) or (lang == "swift" and len(digits) > 8) or int(digits, 16) > 0x10FFFF \
                    or (lang == "swift" and 0xD800 <= int(digits, 16) < 0xE000):
                return None
            put(int(digits, 16))
            i = j + 1
        elif c == "u" and lang != "swift":
            cp = _hex(body, i + 2, 4)
            if cp is None or (lang == "go" and 0xD800 <= cp < 0xE000):
                return None
            put(cp)
            i += 6
        elif c == "U" and lang in ("go", "python"):
            cp = _hex(body, i + 2, 8)
            if cp is None or cp > 0x10FFFF or (lang == "go" and 0xD800 <= cp < 0xE000):
                return None
            put(cp)
            i += 10
        elif c == "x" and lang in ("typescript", "go", "python"):
            cp = _hex(body, i + 2, 2)
            if cp is None:
                return None
            put(cp)           # (a Go \xHH is a byte; the keys looked at here never need one above 7f)
            i += 4
        elif c in "01234567" and lang in ("go", "python"):
            m = re.match(r"[0-7]{3}" if lang == "go" else r"[0-7]{1,3}", body[i + 1:])
            if not m or int(m.group(0), 8) > 255 and lang == "go":
                return None
            put(int(m.group(0), 8))
            i += 1 + len(m.group(0))
        elif c == "0" and lang == "typescript" and not body[i + 2:i + 3].isdigit():
            put(0)
            i += 2
        elif c == "N" and lang == "python":
            m = re.match(r"\{([^}]+)\}", body[i + 2:])
            try:
                put(ord(unicodedata.lookup(m.group(1))))
            except (AttributeError, KeyError):
                return None
            i += 2 + len(m.group(0))
        elif lang == "python":
            put(ord("\\"))
            i += 1
        elif lang == "typescript" and not c.isdigit():
            put(ord(c))       # identity escape
            i += 2
        else:
            return None
    if lang == "typescript":
        return b"".join(u.to_bytes(2, "little") for u in units).decode("utf-16-le", "surrogatepass")
    return "".join(map(chr, units))


NOT_A_LITERAL = re.compile(r"^<not a well-formed (\w+) string literal: (.*)>$", re.S)


def read_literal(lang, body):
    v = literal_value(lang, body)
    if v is None:
        # (ext_go cuts the tag's options off after decoding: cut them here, where the whole text is kept)
        return "<not a well-formed %s string literal: %s>" % (lang, body.split(",")[0] if lang == "go" else body)
    return v


@contextlib.contextmanager
def exact_literals(lang):
    """C01's and C02's extractors read every string literal of the generated text with one lenient decoder for all six languages
    (`\\x` -> `x`; json.loads), and C01's TypeScript extractor takes ASCII property names only: enough for the keys those checks
    generate.  For the duration of the block they read a literal by the rules of the language it is written in (`literal_value`)
    and accept any ECMAScript identifier as an unquoted property name."""
    import c01, c02
    saved = (c01.debug_unescape, c01.ts_key, c02.unq)

    def ts_key(name):
        if name.startswith('"'):
            return read_literal("typescript", name[1:-1])
        ok = all(ch in "$\u200c\u200d" or ("a" + ch).isidentifier() for ch in name)
        return name if ok else "<not a property name: %s>" % name
    c01.debug_unescape = lambda body: read_literal(lang, body)
    c01.ts_key = ts_key
    c02.unq = lambda quoted: read_literal(lang, quoted[1:-1])
    try:
        yield
    finally:
        c01.debug_unescape, c01.ts_key, c02.unq = saved


# words by class; all in NFC (rustc normalises identifiers to NFC, so only NFC identifiers are the same identifier for serde_derive
# and for typeshare).  The case facts the scope below needs are read from Rust std through the runner, not from this table.
W_ASCII = ["total", "nr", "x", "id", "v2", "max", "line1", "2fa"]
W_LOWER = ["café", "straße", "größe", "señal", "naïve", "ǆem", "ıssız", "ſtern", "αβγ", "имя", "𐐨𐐩", "õ", "ªb", "éé", "münze2"]
W_CASELESS = ["名前", "שם", "中", "𠮷", "ক", "ǅem"]                  # no case at all; ǅ is a title-case letter
W_UPPER = ["É", "Ärger", "𝒳", "Ñu", "xΣ"]                          # unconventional in a field name
W_MARK = ["q\u0308", "x\u0301y", "\u0995\u09cd\u0995", "g\u0308b", "v2\u0303"]     # combining marks without a precomposed form
V_ASCII = ["Total", "Nr", "X", "Id", "V2", "Max"]
V_ASCII_INITIAL = ["Café", "Straße", "Größe", "Señal", "Naïve", "Xé", "Münze2"]
V_UPPER = ["École", "Ägypten", "Ñandú", "Ǆungla", "Σίγμα", "Ярлык", "İstanbul", "ẞharp", "𐐀𐐨", "𝒳ray", "Ör", "Éé"]
V_CASELESS = ["名前", "שם", "中", "𠮷", "ǅem"]
for _w in W_ASCII + W_LOWER + W_CASELESS + W_UPPER + W_MARK + V_ASCII + V_ASCII_INITIAL + V_UPPER + V_CASELESS:
    assert unicodedata.normalize("NFC", _w) == _w, _w
MARK_FINDING = "combining-mark-debug-escaped"


def backend_unicode_part(check):
    """dimension: the *letters* of the identifiers the rules are applied to, carried through the generated text.  Field identifiers of
    1-3 words joined by `_` and variant identifiers of 1-3 capitalised words, the words drawn from classes: ASCII, non-ASCII
    lower-case (é ß ǆ ı ſ α я ª, outside the BMP 𐐨), upper-case (É Ǆ Σ Я İ ẞ 𐐀 𝒳), title-case ǅ, caseless (名 ש 中 𠮷 ক) and - for fields,
    in declarations of their own - combining marks without a precomposed form (q̈ x́ ক্ ẓ̇: std's Debug formatting writes those as
    `\\u{..}`); under all eight rules; on a struct, on a struct variant (its own rule), on the variants of a unit enum and of a
    tagged enum (unit / tuple / struct variants); through all six generators, with a date field for the languages that bind the key of
    one a second time.  Demanded: the key each generated declaration binds - C01's / C02's extractors, every string literal read by the
    rules of the language it is written in - is serde_derive's name for that identifier (vendored case.rs through the runner).  In
    scope: fields without an upper-case letter, UpperCamelCase variants that are not all capitals (no lower-case letter of any
    script: typeshare's own test since the fix 8f4a2d5; before it "no ASCII lower-case letter"); an identifier outside
    (an upper-case letter in a field) is judged under the rules where typeshare's function agrees with serde's; where serde_derive
    itself fails (camelCase on a non-ASCII initial) there is no name to agree with.  The letter files also go through the model
    (byte-exact)."""
    import c01, c02, l2
    from syn_gen import m_path, m_nv, m_list, lit_s, t_path, field
    from gen import Gen
    rng = check.rng
    g = Gen(rng)
    per_rule, mark_files = (120, 6) if check.thorough else (4, 1)
    facts = {r[0]: r for r in unicode_table({ch for w in W_LOWER + W_CASELESS + W_UPPER + W_MARK + V_ASCII_INITIAL + V_UPPER + V_CASELESS
                                             for ch in w if ord(ch) > 127})}
    upper = lambda ch: ch.isupper() if ord(ch) < 128 else bool(facts[ch][1])

    def field_scope(s):
        return not any(upper(ch) for ch in s)

    def variant_scope(s):
        # not all capitals = a lower-case letter of any script (char::is_lowercase from the runner's table), or no capital after
        # the first letter
        lower0 = s[0].islower() if ord(s[0]) < 128 else bool(facts[s[0]][2])
        return "_" not in s and not lower0 and (not rust_all_uppercase(s, facts) or not any(upper(ch) for ch in s[1:]))

    def field_ident(rule, special, used):
        """1-3 words, at least one from `special`; under camelCase the first letter is ASCII (serde_derive slices one byte off)"""
        for _ in range(200):
            n = rng.choice([1, 2, 2, 3])
            words = [rng.choice(special)] + [rng.choice(rng.choice([W_ASCII, W_LOWER, W_CASELESS])) for _ in range(n - 1)]
            rng.shuffle(words)
            if rule == "camelCase" and ord(words[0][0]) > 127:
                words.insert(0, rng.choice(W_ASCII[:-1]))
            if words[0][0].isdigit():
                words.reverse()
            if words[0][0].isdigit():
                continue
            s = ("__" if rng.random() < 0.06 else "_").join(words) + ("_" if rng.random() < 0.04 else "")
            if s not in used and s.replace("_", "").upper() not in {u.replace("_", "").upper() for u in used}:
                used.add(s)
                return s
        raise InfraError("no fresh field identifier")

    def variant_ident(rule, used):
        for _ in range(200):
            n = rng.choice([1, 2, 2, 3])
            words = [rng.choice(rng.choice([V_UPPER, V_ASCII_INITIAL, V_CASELESS]))] + \
                    [rng.choice(rng.choice([V_ASCII, V_UPPER, V_ASCII_INITIAL, V_CASELESS])) for _ in range(n - 1)]
            rng.shuffle(words)
            if rule == "camelCase" and ord(words[0][0]) > 127:
                words.insert(0, rng.choice(V_ASCII + V_ASCII_INITIAL))
            s = "".join(words)
            if variant_scope(s) and s.upper() not in {u.upper() for u in used}:
                used.add(s)
                return s
        raise InfraError("no fresh variant identifier")

    ts = [m_path("typeshare")]
    cases = []
    for rule in RULES:
        ra = [m_list("serde", [m_nv("rename_all", lit_s(rule))])]
        for k in range(per_rule + mark_files):
            marks = k >= per_rule                 # the last file(s) of every rule: fields with combining marks
            used = set()
            special = W_MARK if marks else W_LOWER + W_CASELESS
            sfields = [field_ident(rule, special, used) for _ in range(2 if marks else rng.choice([3, 4]))] + \
                      ([] if marks else [field_ident(rule, W_UPPER, used)]) + [rng.choice(["age", "n"])]
            vfields = [field_ident(rule, special, used) for _ in range(rng.choice([1, 2]))] + \
                      ([] if marks or rng.random() < 0.5 else [field_ident(rule, W_UPPER, used)])
            date = field_ident(rule, special, used)
            used = set()
            unit_vs = [variant_ident(rule, used) for _ in range(rng.choice([2, 3]))]
            used = set()
            tagged_vs = [variant_ident(rule, used) for _ in range(3)]
            fl = lambda ws: [field([], w, t_path("u8")) for w in ws]

            def mk(dated):
                pf = fl(sfields[:-1]) + ([field([], date, t_path("OffsetDateTime"))] if dated else []) + fl(sfields[-1:])
                return {"attrs": [], "items": [
                    {"kind": "struct", "attrs": ts + ra, "ident": "Person", "generics": [], "fields": ("named", pf)},
                    {"kind": "enum", "attrs": ts + ra, "ident": "Col", "generics": [],
                     "variants": [{"attrs": [], "ident": v, "fields": ("unit",)} for v in unit_vs]},
                    {"kind": "enum", "attrs": ts + ra + [m_list("serde", [m_nv("tag", lit_s("t")), m_nv("content", lit_s("c"))])], "ident": "Ev",
                     "generics": [],
                     "variants": [{"attrs": list(ra), "ident": tagged_vs[0], "fields": ("named", fl(vfields))},
                                  {"attrs": [], "ident": tagged_vs[1], "fields": ("unit",)},
                                  {"attrs": [], "ident": tagged_vs[2], "fields": ("unnamed", [field([], None, t_path("u8"))])}]}]}
            for lang in LANGS:
                dated = lang in ("typescript", "go", "python")
                cfg = {"package": "proto" if lang == "go" else "com.example", "type_mappings": {}, "version_header": False,
                       "prefix": rng.choice(["", "", "OP"]) if lang in ("kotlin", "swift") else "", "module_name": ""}
                f = mk(dated)
                m, r, texts = l2.requests(lang, cfg, [{"crate": "", "file_name": "out", "path": "src/lib.rs", "file": f}], g)
                cases.append(dict(rule=rule, lang=lang, cfg=cfg, file=f, m=m, r=r, src=texts[0], marks=marks, k=k,
                                  fields=[("struct", ("Person",), sfields[:-1] + ([date] if dated else []) + sfields[-1:]),
                                          ("variant", ("Ev", tagged_vs[0], 0), vfields)],
                                  enums=[("Col", True, unit_vs, "u" * len(unit_vs)), ("Ev", False, tagged_vs, "sut")]))
    # serde_derive's names and typeshare's function, for every (position, rule, identifier) used
    wanted = sorted({(pos, c["rule"], w) for c in cases
                     for pos, ws in [("field", [w for _, _, ws in c["fields"] for w in ws]), ("variant", [v for _, _, vs, _ in c["enums"] for v in vs])]
                     for w in ws})
    ans = runner([x for pos, rule, w in wanted for x in ({"op": "serde", "pos": pos, "rule": rule, "s": w}, {"op": "rename", "rule": rule, "s": w})])
    serde, judged = {}, {}
    for i, (pos, rule, w) in enumerate(wanted):
        want, got = ans[2 * i], ans[2 * i + 1]
        scope = field_scope(w) if pos == "field" else variant_scope(w)
        serde[(pos, rule, w)] = want.get("ok")
        judged[(pos, rule, w)] = "ok" in want and (scope or got == want)
        check.count("unicode-ident:%s-%s" % (pos, "serde_derive-fails" if "ok" not in want else "in-scope" if scope else
                                             "unconventional-agreeing" if got == want else "unconventional-differing"))
        if scope and "ok" in want and got != want:
            check.violation("rename_all %s on %s %r gives %s, serde_derive gives %s" % (rule, pos, w, got, want),
                            case={"position": pos, "rule": rule, "ident": w}, impl=got, model=want, failing_input=True)
            return
    mcases = [c for c in cases if not c["marks"]]
    names = set()
    for c in mcases:
        if c["lang"] == "python":
            names |= l2.names_of(c["file"])
    mans = dict(zip(map(id, mcases), (l2.norm(a) for a in model([c["m"] for c in mcases], names=names))))
    rans = [l2.norm(a) for a in runner([c["r"] for c in cases])]
    first_diff, mark_witness, keys = None, None, 0
    for c, ra in zip(cases, rans):
        rule, lang, cfg = c["rule"], c["lang"], c["cfg"]
        check.saw(("backend-unicode", rule, lang, c["k"], c["src"]), nontrivial=True)
        check.count("backend-unicode-%s" % ("marks" if c["marks"] else "letters"))
        problems = []               # (text, key read from the output or None, serde's name or None)
        if not isinstance(ra.get("ok"), dict):
            problems.append(("the %s generator does not generate at all: %s" % (lang, str(ra)[:300]), None, None))
        else:
            text = "\n".join(ra["ok"][k] for k in sorted(ra["ok"]))
            with exact_literals(lang):
                try:
                    got = c01.EXTRACT[lang](text)
                    rev, _ = c01.ts_reviver_problems(text) if lang == "typescript" else ([], 0)
                except Exception as ex:
                    got, rev = {}, ["the extractor fails on the text: %r" % ex]
                exps = []
                for name, unit, vs, kinds in c["enums"]:
                    exps.append(dict(name=name, unit=unit, tag=None if unit else "t", content=None if unit else "c",
                                     variants=[dict(ident=v, kind=kd, wire=serde[("variant", rule, v)], opt=False) for v, kd in zip(vs, kinds)]))
                    keys += len(vs)
                bad = c02.oracle(lang, cfg, text, exps)
            problems += [(p, None, None) for p in rev]
            for kind, names_, idents in c["fields"]:
                d = c01.decl_name(lang, cfg, kind, names_)
                if d not in got or len(got[d]) != len(idents):
                    problems.append(("%s: %s" % (d, "no such declaration" if d not in got else "binds %d fields %r, the source has %d: %r"
                                                 % (len(got[d]), got[d], len(idents), idents)), None, None))
                    continue
                for i, (w, key) in enumerate(zip(idents, got[d])):
                    want = serde[("field", rule, w)]
                    if not judged[("field", rule, w)] or (lang == "scala" and "-" in want):
                        continue                # Scala carries no key binding: a key with a dash is outside (as in C01)
                    if lang in ("swift", "python"):
                        key = read_literal(lang, key)       # those two extractors hand the body of the literal on as written
                    keys += 1
                    if key != want:
                        lit = NOT_A_LITERAL.match(key)
                        problems.append(("%s %s field %d (`%s`) %s; serde_derive's name is %r"
                                         % (lang, d, i, w, "is bound to JSON key %r" % key if not lit else "carries the key literal \"%s\", which is "
                                            "not a well-formed %s string literal (no key is bound by it)" % (lit.group(2), lang), want), key, want))
            for name in sorted(bad):
                problems += [("enum %s: %s" % (name, msg), None, None) for _, msg in bad[name]]
        if c["marks"] and problems and mark_class(lang, problems):
            check.count("inside-class:" + MARK_FINDING)
            mark_witness = mark_witness or {"lang": lang, "rule": rule, "source": c["src"], "problems": [p[0] for p in problems[:3]]}
            continue
        if problems:
            check.violation("rename_all %s with non-ASCII letters in the identifiers: the %s back end does not write the names serde_derive "
                            "computes: %s" % (rule, lang, problems[0][0]),
                            case={"lang": lang, "rule": rule, "config": cfg, "source": c["src"], "problems": [p[0] for p in problems[:6]],
                                  "serde_derive_names": {"%s %s" % (pos, w): serde[(pos, rule, w)] for pos, ws in
                                                         [("field", [w for _, _, ws in c["fields"] for w in ws]),
                                                          ("variant", [v for _, _, vs, _ in c["enums"] for v in vs])] for w in ws},
                                  "request": c["r"]},
                            impl=ra, model=mans.get(id(c)), failing_input=True)
            return
        if not c["marks"] and mans[id(c)] != ra and first_diff is None:
            first_diff = (c, mans[id(c)], ra)
    check.count("backend-unicode keys judged", keys)
    check.rule += ("; back ends on non-ASCII identifiers: %d files per rule of fields / variants built from word classes {ASCII, non-ASCII lower, "
                   "upper, title-case, caseless, outside the BMP, combining marks} x 8 rules x 6 languages, key bound by each declaration "
                   "(string literals read by the rules of the target language) vs serde_derive's name" % (per_rule + mark_files))
    check.assumptions.append("which string a generated literal denotes in its language is tools/c16.py `literal_value` (escape rules of ES2015, "
                             "Kotlin, Swift, Scala, Go strconv.Unquote / struct tags, Python str), written from the language references; the "
                             "target compilers are not run")
    if mark_witness and not check.known(MARK_FINDING, mark_witness):
        # not (yet) an `open:` line of KNOWN_FINDINGS.txt: kept visible in the evidence
        check.notes.append("candidate finding %s (Kotlin / Scala / Go write a combining mark of a name as Rust's `\\u{..}`, which is no "
                           "escape of those languages): %s" % (MARK_FINDING, json.dumps(mark_witness, ensure_ascii=False)[:1500]))
    if first_diff:
        c, ma, ra = first_diff
        d = None
        if "ok" in ma and "ok" in ra:
            for k in ra["ok"]:
                d = d or l2.text_diff(ma["ok"].get(k, ""), ra["ok"][k])
        check.violation("the %s generator differs from the model on identifiers with non-ASCII letters under rename_all %s (the oracle finds the "
                        "implementation's names correct): %s" % (c["lang"], c["rule"], d or (str(ma)[:200] + " vs " + str(ra)[:200])),
                        case={"lang": c["lang"], "rule": c["rule"], "config": c["cfg"], "source": c["src"], "request": c["r"]}, impl=ra, model=ma,
                        failing_input=False, broken="correspondence L2 parse+generate_types on non-ASCII identifiers (theorems TsV.C16.C16_field / "
                                                    "C16_variant carried to the text by C01_backend_* / C02_backend)")


def mark_class(lang, problems):
    """are all the problems of this case the one class: a back end whose language has no `\\u{..}` escape (Kotlin, Scala, Go) wrote a
    combining mark of the name the way Rust's Debug formatting does - and the literal would be serde's name if `\\u{..}` were read
    the Rust way?"""
    if lang not in ("kotlin", "scala", "go"):
        return False
    for _, key, want in problems:
        lit = NOT_A_LITERAL.match(key or "")
        if not lit:
            return False
        escaped = re.findall(r"\\u\{([0-9a-f]+)\}", lit.group(2))
        rust = re.sub(r"\\u\{([0-9a-f]+)\}", lambda x: chr(int(x.group(1), 16)), lit.group(2))
        if not escaped or rust != want or not all(unicodedata.category(chr(int(h, 16))).startswith("M") for h in escaped):
            return False
    return True


# ----------------------------------------------------------------------------- the spelling of the rule string

RULE_WORDS = {"lowercase": ["lower", "case"], "UPPERCASE": ["UPPER", "CASE"], "PascalCase": ["Pascal", "Case"], "camelCase": ["camel", "Case"],
              "snake_case": ["snake", "case"], "SCREAMING_SNAKE_CASE": ["SCREAMING", "SNAKE", "CASE"], "kebab-case": ["kebab", "case"],
              "SCREAMING-KEBAB-CASE": ["SCREAMING", "KEBAB", "CASE"]}
# blanks `str::trim` strips (White_Space) and characters that look blank / are invisible but are not White_Space; which is which is
# asked of Rust std on every run (`rust_ws` below), not read from these two lists
# (U+0085, U+2028 and U+2029 are White_Space too; left out because tools/common.py cuts the answers of the two executables into lines
# with str.splitlines, which also cuts at those three when an answer - the `unicode` table - carries them)
BLANKS = [" ", "  ", "\t", "\n", "\r\n", "\x0b", "\x0c", "\xa0", "\u1680", "\u2000", "\u2003", "\u2009", "\u200a", "\u202f", "\u205f", "\u3000"]
INVISIBLE = ["\u200b", "\u200c", "\u200d", "\u2060", "\ufeff", "\xad", "\u180e", "\x1f", "\x00", "\u0301", "\u034f"]
# letters of other scripts (and compatibility characters) that look like the ASCII letter; U+212A KELVIN SIGN lower-cases to `k`, U+017F
# LONG S upper-cases to `S`, U+0130 lower-cases to `i` + U+0307: equal to the ASCII letter for a *Unicode* case-insensitive comparison
LOOKALIKE = {"a": "\u0430\u0251", "c": "\u0441\u03f2\u217d", "e": "\u0435", "o": "\u043e\u03bf", "p": "\u0440\u03c1", "s": "\u0455\u017f",
             "k": "\u212a\u043a\u03ba", "i": "\u0456\u0131", "l": "\u04cf\u217c", "w": "\u051d", "n": "\u0578", "m": "\u217f", "b": "\u0185",
             "A": "\u0410\u0391", "B": "\u0412\u0392", "C": "\u0421\u03f9\u216d", "E": "\u0415\u0395", "G": "\u050c", "I": "\u0406\u0399\u0130",
             "K": "\u041a\u039a\u212a", "M": "\u041c\u039c\u216f", "N": "\u039d", "P": "\u0420\u03a1", "S": "\u0405", "U": "\u054d", "R": "\u01a6",
             "-": "\u2010\u2011\u2013\u2212\uff0d\ufe63", "_": "\uff3f\ufe4d\u2017"}
# what other libraries and other serde attributes call the conventions; short forms; values of neighbouring settings
OTHER_NAMES = ["camel", "snake", "kebab", "pascal", "lower", "upper", "Camel", "Pascal", "SCREAMING", "SCREAMING_SNAKE", "SCREAMING-KEBAB",
               "screaming_snake", "camel_case", "pascal_case", "PascalCamelCase", "UpperCamelCase", "lowerCamelCase", "upperCamelCase",
               "lower_camel_case", "upper_camel_case", "UPPER_SNAKE_CASE", "lower_snake_case", "UPPER_CASE", "lower_case", "CONSTANT_CASE",
               "Title Case", "Train-Case", "COBOL-CASE", "lisp-case", "dash-case", "dot.case", "flatcase", "UPPERFLATCASE", "Camel_Snake",
               "lower-case", "invalid case", "none", "None", "null", "default", "verbatim", "rename_all", "true", "false", "1", "0", "case",
               "Case", "CASE", "camelCase,snake_case", "camelCase snake_case", "camelCase|snake_case", "serialize", "deserialize", "*"]
TRIM_FINDING = "rule-string-trimmed"
# identifiers by what the rules do to them: several lower-case words (changed by every rule but lowercase / snake_case), capitals in a
# field (changed by lowercase, and by typeshare's snake family), one word; variants of several words (changed by every rule but
# PascalCase), with an underscore or a lower-case initial (changed by PascalCase too), of one word
F_MULTI = ["account_id", "display_name", "x2_value", "created_by_user", "is_3d_secure", "first_name", "a_b", "line_1"]
F_MIXED = ["fooBar", "Account_ID", "userID", "HTTPServer", "mixed_Case", "eTag", "URL", "r#Type"]
F_ONE = ["age", "n", "id", "r#type", "x1"]
V_MULTI = ["SignedIn", "PasswordChanged", "HttpServer", "VeryTasty", "AddressLine1", "B2Bank"]
V_ODD = ["Foo_Bar", "lowerStart", "snake_case", "HTTPServer", "X_1"]
V_ONE = ["Low", "High", "Ok", "A", "r#Match", "URL"]
V_STRUCT = ["InnerPart", "WithFields", "Detail_Rec"]        # the struct variant of an enum that carries the string itself
SPELLING_CLASSES = {
    "exact": "one of serde's eight rule names",
    "case": "`{rule}` with the case of some letters changed",
    "separator": "`{rule}` with its word separator (`_`, `-`, none) exchanged, dropped, doubled or replaced by a blank / look-alike",
    "blank-stripped": "`{rule}` with White_Space around it (`str::trim` gives the rule name)",
    "blank-kept": "`{rule}` with a blank inside it, or with an invisible character that is not White_Space at its end or inside it",
    "affix": "`{rule}` with something before or after it, doubled, quoted, or cut short",
    "look-alike": "`{rule}` with a letter or separator replaced by a look-alike of another script / a full-width form",
    "edit": "one edit (a letter dropped, doubled, replaced, two letters exchanged) away from `{rule}`",
    "combined": "`{rule}` with the case of some letters or the separator changed, and blanks around it",
    "other-name": "a name other libraries / other settings use for a convention, a short form, or a value of a neighbouring setting",
    "empty": "empty or blanks only",
    "random": "a random string over the letters and separators of the rule names",
}


def rule_spellings(rng, thorough):
    """[(string, class, the rule name it was made from or None)]: the eight exact names first, then every other string once, under the
    class it was first made in; a string that happens to be byte-equal to one of the eight names is `exact`, however it was made"""
    k = 25 if thorough else 4
    out, seen = [], set()

    def add(s, cls, base):
        if s in RULES:
            cls, base = "exact", s
        if s not in seen:
            seen.add(s)
            out.append((s, cls, base))

    def flip(s, i):
        return s[:i] + s[i].swapcase() + s[i + 1:]

    def letters(s):
        return [i for i, ch in enumerate(s) if ch.isalpha()]

    for r in RULES:
        add(r, "exact", r)
    for r in RULES:
        words = RULE_WORDS[r]
        own = "_" if "_" in r else "-" if "-" in r else ""
        assert own.join(words) == r
        # --- case
        for s in (r.lower(), r.upper(), r.capitalize(), r.swapcase(), flip(r, 0), flip(r, letters(r)[-1]), own.join(w.capitalize() for w in words),
                  own.join(w.lower() for w in words[:1]) + own + own.join(w.capitalize() for w in words[1:]),
                  own.join([w.upper() for w in words[:-1]] + [words[-1].lower()])):
            add(s, "case", r)
        for _ in range(k):
            add(flip(r, rng.choice(letters(r))), "case", r)
            add("".join(ch.swapcase() if rng.random() < 0.5 else ch for ch in r), "case", r)
        # --- separator
        for sep in ["", "_", "-", " ", "__", "--", ".", "/", "::", "\u2010", "\uff3f", "\xa0", "\u200b"]:
            add(sep.join(words), "separator", r)
        if len(words) == 3:
            for a, b in [("_", "-"), ("-", "_"), ("", "_"), ("_", ""), ("", "-"), ("-", ""), (" ", "_"), ("-", " ")]:
                add(words[0] + a + words[1] + b + words[2], "separator", r)
        # --- blanks around it (stripped by str::trim) / blanks and invisible characters that stay
        for b in BLANKS:
            add(b + r, "blank-stripped", r)
            add(r + b, "blank-stripped", r)
        add("  " + r + "\t", "blank-stripped", r)
        add("\n    " + r + "\n", "blank-stripped", r)
        for b in INVISIBLE:
            add(b + r, "blank-kept", r)
            add(r + b, "blank-kept", r)
        for _ in range(k):
            i = rng.randint(1, len(r) - 1)
            add(r[:i] + rng.choice(BLANKS + INVISIBLE) + r[i:], "blank-kept", r)
        # --- something before / after it, doubled, quoted, cut short
        for s in ["x" + r, r + "x", r + "1", "_" + r, r + "_", "-" + r, r + "-", r + r, r + "," + r, r + ", ", "serde::" + r, "rename_all=" + r,
                  "rename_all = \"%s\"" % r, '"%s"' % r, "'%s'" % r, "`%s`" % r, "(%s)" % r, r + "s", r + "d", r[:-1], r[1:], r[:len(r) // 2],
                  r[:-4] if r[-5] in "_-" else r[:-4] + "-", own.join(words[:-1]), own.join(words[1:]), r + own + "case", "to_" + r, r + "()",
                  r + ";", r + "\\", "\\" + r, r + "\"", "#" + r, r + "#", "r#" + r, "r\"" + r + "\""]:
            add(s, "affix", r)
        # --- look-alikes
        add("".join(chr(ord(ch) + 0xFEE0) for ch in r), "look-alike", r)
        positions = list(range(len(r)))
        for i in (positions if thorough else rng.sample(positions, 3)):
            alts = LOOKALIKE.get(r[i], "") + chr(ord(r[i]) + 0xFEE0)
            for alt in (alts if thorough else [rng.choice(alts)]):
                add(r[:i] + alt + r[i + 1:], "look-alike", r)
        special = [i for i in positions if r[i] in "kKsSiI"]        # the letters with a non-ASCII character in their Unicode case orbit
        for i in special:
            for alt in {"k": "\u212a", "K": "\u212a", "s": "\u017f", "S": "\u017f", "i": "\u0130\u0131", "I": "\u0130\u0131"}[r[i]]:
                add(r[:i] + alt + r[i + 1:], "look-alike", r)
        # --- one edit away
        for _ in range(3 * k):
            i = rng.randrange(len(r))
            add(rng.choice([r[:i] + r[i + 1:], r[:i] + r[i] + r[i:], r[:i] + rng.choice("abcdeklmnprsuwxyzACEKMNPS_- ") + r[i + 1:],
                            r[:i] + r[i + 1:i + 2] + r[i] + r[i + 2:]]), "edit", r)
        # --- a case / separator variant with blanks around it (what is left after str::trim is still not a rule name)
        variants = [s for s, c, b in out if b == r and c in ("case", "separator")]
        for _ in range(2 * k):
            add(rng.choice(BLANKS + [""]) + rng.choice(variants) + rng.choice(BLANKS), "combined", r)
    for s in OTHER_NAMES + UNKNOWN:
        add(s, "other-name", None)
    for s in [""] + BLANKS + INVISIBLE[:5] + [" \t ", "_", "-", "__", "\u3000\u3000"]:
        add(s, "empty" if not s or s in BLANKS or s in (" \t ", "\u3000\u3000") else "random", None)
    alphabet = sorted(set("".join(RULES))) + ["_", "-", " ", "case", "Case", "CASE"]
    for _ in range(40 * k):
        add("".join(rng.choice(alphabet) for _ in range(rng.choice([1, 2, 3, 5, 8, 9, 10, 13, 20]))), "random", None)
    for _ in range(4 * k):
        a, b = rng.sample(RULES, 2)
        add(rng.choice([a + b, a + " " + b, a[:len(a) // 2] + b[len(b) // 2:]]), "random", None)
    return out


def spelling_text(s, cls, base):
    shown = json.dumps(s, ensure_ascii=False) if s.isprintable() else json.dumps(s)
    return "%s (%s)" % (shown, SPELLING_CLASSES[cls].replace("{rule}", base or ""))


def rule_spelling_part(check):
    """dimension: the *spelling of the rule string* in `#[serde(rename_all = "...")]`.  For each of serde's eight names: the exact
    name (control), every kind of case variant (lower / upper / capitalised / one letter flipped / random), the word separator
    exchanged (`_` `-` none blank `.` doubled, look-alike dashes), blanks around it (ASCII and Unicode White_Space) and invisible
    characters that are no White_Space (U+200B, U+FEFF, soft hyphen, NUL ...) around and inside it, prefixes / suffixes / quotes /
    truncations / the name doubled, look-alike letters of other scripts and full-width forms (incl. the characters that *are* the
    ASCII letter under a Unicode case-insensitive comparison: KELVIN SIGN, LONG S, dotted capital I), single edits; and the names other
    libraries give the conventions, short forms, the empty string, blank strings, random strings over the alphabet of the rule names.
    Each string is put on a struct (its fields), on an enum (its variants; the fields of a struct variant of that enum must stay as they
    are under every string) and on a struct variant (its fields; the variant's own name must stay), with identifiers every rule would
    change, and goes (1) through parser::parse, against the model and the oracle; (2) into rename_all_to_case directly (hook), against
    the model and the oracle; (3) through the six generators, keys and variant names read back with C01's / C02's extractors, and against
    the back-end models.  Demanded (C16's last sentence, the model's `Rule.ofStr`): a string that is not byte-equal to one of serde's
    eight names is not a rule - field and variant names stay exactly as they are written (`r#` removed); under the eight exact names
    conventional identifiers get serde_derive's name (vendored case.rs), so that the part is known to see the attribute at all.
    (serde_derive itself rejects every other string - `unknown rename rule` at compile time of the user's crate; it is the property
    text that makes such strings inputs of typeshare, which never compiles the crate.)  One class apart: typeshare reads attribute
    values through `literal_to_string`, which trims them, so a rule name with White_Space around it *is* applied - by the implementation
    and by the model (Parser.exprToString); judged as the class `rule-string-trimmed`: there the names must be exactly those of the trimmed
    rule or unchanged, and a witness is reported as a known / candidate finding, not as a violation."""
    import c01, c02, l1, l2
    from syn_gen import m_path, m_nv, m_list, lit_s, t_path, field
    from gen import Gen
    rng = check.rng
    g = Gen(rng)
    spellings = rule_spellings(rng, check.thorough)
    by_string = {s: (cls, base) for s, cls, base in spellings}
    nonascii = {ch for s, _, _ in spellings for ch in s if ord(ch) > 127}
    ws = {r[0] for r in unicode_table(nonascii) if r[5]} | set("\t\n\x0b\x0c\r ")

    def rust_trim(s):
        a, b = 0, len(s)
        while a < b and s[a] in ws:
            a += 1
        while b > a and s[b - 1] in ws:
            b -= 1
        return s[a:b]

    def trimmed_rule(s):
        """the rule name `s` becomes under str::trim, when `s` itself is none"""
        return rust_trim(s) if s not in RULES and rust_trim(s) in RULES else None

    for s, cls, base in spellings:
        check.count("rule-spelling class:" + ("blank-stripped (trim gives a rule name)" if trimmed_rule(s) else cls))
    unraw = lambda w: w.replace("r#", "")
    ts = [m_path("typeshare")]
    keys = [m_nv("tag", lit_s("t")), m_nv("content", lit_s("c"))]
    fl = lambda ws_: ("named", [field([], w, t_path("u8")) for w in ws_])

    def pick(pools, n_extra=0):
        names = [rng.choice(p) for p in pools]
        for _ in range(n_extra):
            names.append(rng.choice(rng.choice(pools)))
        out = []
        for w in names:
            if unraw(w).replace("_", "").upper() not in {unraw(x).replace("_", "").upper() for x in out}:
                out.append(w)
        rng.shuffle(out)
        return out

    def item(level, name, s, with_struct_variant=None):
        """(abstract item, [(position, identifier, where its name is found in the parse answer)]); the positions `field-unruled` /
        `variant-unruled` are names the string does not govern at all"""
        ra = m_list("serde", [m_nv("rename_all", lit_s(s))])
        if level == "struct":
            fs = pick([F_MULTI, F_MIXED, F_ONE], rng.choice([0, 1]))
            return ({"kind": "struct", "attrs": ts + [ra], "ident": name, "generics": [], "fields": fl(fs)},
                    [("field", w, ("f", i)) for i, w in enumerate(fs)])
        if level == "enum":
            vs = pick([V_MULTI, V_ODD, V_ONE], rng.choice([0, 1]))
            variants = [{"attrs": [], "ident": v, "fields": ("unit",)} for v in vs]
            names = [("variant", v, ("v", i)) for i, v in enumerate(vs)]
            sv = rng.random() < 0.4 if with_struct_variant is None else with_struct_variant
            if sv:
                fs = pick([F_MULTI, F_MIXED])
                inner = rng.choice(V_STRUCT)
                variants.append({"attrs": [], "ident": inner, "fields": fl(fs)})
                names.append(("variant", inner, ("v", len(vs))))
                names += [("field-unruled", w, ("vf", len(vs), i)) for i, w in enumerate(fs)]
            return ({"kind": "enum", "attrs": ts + ([m_list("serde", keys + [ra[3][0]])] if sv else [ra]), "ident": name, "generics": [],
                     "variants": variants}, names)
        fs = pick([F_MULTI, F_MIXED, F_ONE])
        v = rng.choice(V_MULTI + V_ODD[:2])
        return ({"kind": "enum", "attrs": ts + [m_list("serde", keys)], "ident": name, "generics": [],
                 "variants": [{"attrs": [ra], "ident": v, "fields": fl(fs)}, {"attrs": [], "ident": "Other", "fields": ("unit",)}]},
                [("variant-unruled", v, ("v", 0))] + [("field", w, ("vf", 0, i)) for i, w in enumerate(fs)])

    def read(ans, name, where):
        d = ans.get("ok") or {}
        for st in d.get("structs", []):
            if st["id"]["o"] == name and where[0] == "f":
                return st["fields"][where[1]]["id"]["r"]
        for en in d.get("enums", []):
            if en["id"]["o"] == name and where[0] == "v":
                return en["variants"][where[1]]["id"]["r"]
            if en["id"]["o"] == name and where[0] == "vf":
                return en["variants"][where[1]]["fields"][where[2]]["id"]["r"]
        return None

    # ---- serde_derive's names under the eight exact names, and typeshare's function under them (what a rule *would* do to a name)
    idents = sorted({("field", unraw(w)) for w in F_MULTI + F_MIXED + F_ONE} | {("variant", unraw(w)) for w in V_MULTI + V_ODD + V_ONE + V_STRUCT})
    ans = iter(runner([x for pos, w in idents for r in RULES
                       for x in ({"op": "serde", "pos": pos, "rule": r, "s": w}, {"op": "rename", "rule": r, "s": w})]))
    serde_name, applied = {}, {}
    for pos, w in idents:
        for r in RULES:
            serde_name[(pos, r, w)], applied[(r, w)] = next(ans).get("ok"), next(ans).get("ok")
    conventional = lambda pos, w: bool(FIELD_CONV.match(w)) if pos == "field" else upper_camel(w)

    def judge(s, names, got_of):
        """the property on the names the implementation gave: (problem text, position, identifier, got, wanted) of the first name that
        is wrong, or None; `in-class` instead of a problem text for a name inside the class `rule-string-trimmed`"""
        cls, base = by_string[s]
        in_class = None
        for pos, w, where in names:
            got, w0 = got_of(where), unraw(w)
            if pos.endswith("-unruled") or s not in RULES:
                if got == w0:
                    continue
                tr = trimmed_rule(s)
                if tr and not pos.endswith("-unruled") and got == applied[(tr, w0)]:
                    in_class = in_class or ("in-class", pos, w, got, w0)
                    continue
                if pos.endswith("-unruled"):
                    why = "rename_all = %s stands on the %s, which does not govern the name of this %s" % (
                        json.dumps(s, ensure_ascii=False), "enum" if pos == "field-unruled" else "variant", pos.split("-")[0])
                else:
                    why = "rename_all = %s is not one of serde's eight rule names, and an unknown rule leaves names unchanged" % spelling_text(s, cls, base)
                return ("%s; yet the %s `%s` is named %r" % (why, pos.split("-")[0], w, got), pos, w, got, w0)
            want = serde_name[(pos, s, w0)]
            if want is not None and conventional(pos, w0) and got != want:
                return ("rename_all = \"%s\" (the exact rule name): the %s `%s` is named %r, serde_derive names it %r" % (s, pos, w, got, want),
                        pos, w, got, want)
        return in_class

    # ---- (1) through parser::parse
    levels = ("struct", "enum", "variant")
    todo = [(s, lv) for s, _, _ in spellings for lv in levels]
    rng.shuffle(todo)
    per_file = 12
    files = []
    for i in range(0, len(todo), per_file):
        its, metas = [], []
        for j, (s, lv) in enumerate(todo[i:i + per_file]):
            name = "%s%d" % ({"struct": "S", "enum": "E", "variant": "F"}[lv], j)
            it, names = item(lv, name, s)
            its.append(it)
            metas.append((s, lv, name, names, it))
        f = {"attrs": [], "items": its}
        m, r, text = l1.requests(f, g)
        files.append((m, r, text, metas))
    mans, rans, diffs = l1.compare([(m, r) for m, r, _, _ in files])
    trim_witness, changing, failures = None, 0, []
    for (m, r, text, metas), ra in zip(files, rans):
        for s, lv, name, names, it in metas:
            cls, base = by_string[s]
            would = base is not None and any(applied[(base, unraw(w))] != unraw(w) for pos, w, _ in names if not pos.endswith("-unruled"))
            changing += would
            check.saw(("rule-spelling", lv, s), nontrivial=would or cls == "exact")
            check.count("rule-spelling parse:%s" % lv)
            bad = judge(s, names, lambda where: read(ra, name, where))
            if bad and bad[0] == "in-class":
                check.count("inside-class:" + TRIM_FINDING)
                plain = lambda x, level: (x.strip(" ") != rust_trim(x), len(x), level != "struct", x)    # preferred: plain spaces, short, a struct
                if trim_witness is None or plain(s, lv) < plain(*trim_witness[:2]):
                    trim_witness = (s, lv, it, bad)
            elif bad:
                failures.append((not conventional(bad[1].split("-")[0], unraw(bad[2])), (not (s.isascii() and s.isprintable()), len(s)), s, lv, name, names, it, text, bad))
    if failures:
        # reported: the failure with the most ordinary identifier and the plainest (printable ASCII), shortest string; its item alone, parsed again, is the source shown
        failures.sort(key=lambda t: t[:5])
        _, _, s, lv, name, names, it, text, bad = failures[0]
        cls, base = by_string[s]
        m1, r1, text1 = l1.requests({"attrs": [], "items": [it]}, g)
        a1 = runner([r1])[0]
        small = judge(s, names, lambda where: read(a1, name, where))
        if small and small[0] != "in-class":
            bad, text = small, text1
        by_class = {}
        for f in failures:
            by_class[by_string[f[2]][0]] = by_class.get(by_string[f[2]][0], 0) + 1
        check.violation("%s [on %s, through parser::parse]" % (bad[0], {"struct": "a struct", "enum": "an enum", "variant": "a struct variant"}[lv]),
                        case={"source": text, "rename_all": s, "spelling_class": cls, "made_from_rule": base, "level": lv,
                              "item": name, "position": bad[1], "ident": bad[2],
                              "failing_items_by_spelling_class": by_class, "items_tried": len(todo),
                              "other_failing_strings": sorted({f[2] for f in failures[1:]})[:40],
                              "replay": "write `source` to src/lib.rs of an empty directory; typeshare <dir> --lang=typescript --output-file=out.ts; "
                                        "read the name of the %s in out.ts" % bad[1].split("-")[0]},
                        impl=bad[3], model=bad[4], failing_input=True)
        return
    check.count("rule-spelling parse: items where the rule the string was made from would change a name", changing)
    if diffs:
        i = diffs[0]
        check.violation("parser::parse differs from the model under rename_all strings that are (mis)spellings of the rule names (the oracle "
                        "finds the implementation's names right): %s" % l1.first_diff(mans[i], rans[i]),
                        case={"source": files[i][2], "rename_all": [s for s, *_ in files[i][3]]}, impl=rans[i], model=mans[i], failing_input=False,
                        broken="correspondence L1 serdeRenameAll / getIdent / Rule.ofStr (theorems TsV.C16.unknown_rule, rename_by_rule)")

    # ---- (2) the function itself (hook): no attribute reader in between, so no trimming - a blank is a character like any other
    fn_idents = [unraw(w) for w in F_MULTI[:3] + F_MIXED[:4] + V_MULTI[:2] + V_ODD[:3] + V_ONE[-1:]]
    meta = [(s, w) for s, _, _ in spellings for w in fn_idents]
    fa = runner([{"op": "rename", "rule": s, "s": w} for s, w in meta])
    fm = model([[S("rename"), s, w] for s, w in meta])
    fdiff = None
    for (s, w), a, ma in zip(meta, fa, fm):
        cls, base = by_string[s]
        check.saw(("rule-spelling-fn", s, w), nontrivial=s not in RULES)
        check.count("rule-spelling function")
        a, ma = norm(a, "typeshare"), norm(ma, "typeshare")
        if s not in RULES and a != {"ok": w}:
            check.violation("rename_all_to_case(%r, Some(%s)) gives %s: %s is not one of serde's eight rule names (an unknown rule leaves names "
                            "unchanged)" % (w, json.dumps(s, ensure_ascii=False), a, spelling_text(s, cls, base)),
                            case={"op": "rename", "rule": s, "ident": w, "spelling_class": cls, "made_from_rule": base}, impl=a, model={"ok": w},
                            failing_input=True)
            return
        if a != ma and fdiff is None:
            fdiff = (s, w, a, ma)
    if fdiff:
        s, w, a, ma = fdiff
        check.violation("rename_all_to_case differs from the model on %r under the rule string %s" % (w, json.dumps(s, ensure_ascii=False)),
                        case={"op": "rename", "rule": s, "s": w}, impl=a, model=ma, failing_input=False,
                        broken="correspondence renameAllToCase (theorems TsV.C16.rename_by_rule, unknown_rule)")

    # ---- (3) through the six generators: strings that are no rule name also after trimming (the class above is judged at (1))
    unknown = [(s, cls, base) for s, cls, base in spellings if s not in RULES and rust_trim(s) not in RULES]
    if check.thorough:
        chosen = list(unknown)
    else:
        chosen = []
        for r in RULES:
            for wanted in (("case",), ("case", "combined"), ("separator",), ("affix", "edit"), ("look-alike", "blank-kept")):
                chosen.append(rng.choice([x for x in unknown if x[2] == r and x[1] in wanted]))
        chosen += rng.sample([x for x in unknown if x[2] is None], 8)
    rng.shuffle(chosen)
    while len(chosen) % 4:
        chosen.append(rng.choice(unknown))
    # identifiers the extractors of C01 / C02 read in every language, distinct whatever a rule would make of them
    LF = [["account_id", "display_name", "x2_value", "created_by_user", "first_name"], ["fooBar", "userID", "eTag", "mixed_Case"], ["age", "n", "id"]]
    LV = [["SignedIn", "PasswordChanged", "VeryTasty", "AddressLine1"], ["Foo_Bar", "HTTPServer", "B2Bank"], ["Low", "High", "Ok"]]
    cases = []
    for i in range(0, len(chosen), 4):
        (s1, _, _), (s2, _, _), (s3, _, _), (s4, _, _) = four = chosen[i:i + 4]
        ra = lambda s: m_list("serde", [m_nv("rename_all", lit_s(s))])
        sfields = [rng.choice(p) for p in LF]
        vfields = [rng.choice(p) for p in LF[:2]]
        unit_vs = [rng.choice(p) for p in LV]
        tagged_vs = [rng.choice(p) for p in LV]
        rng.shuffle(sfields), rng.shuffle(unit_vs)
        f = {"attrs": [], "items": [
            {"kind": "struct", "attrs": ts + [ra(s1)], "ident": "Person", "generics": [], "fields": fl(sfields)},
            {"kind": "enum", "attrs": ts + [ra(s2)], "ident": "Col", "generics": [],
             "variants": [{"attrs": [], "ident": v, "fields": ("unit",)} for v in unit_vs]},
            {"kind": "enum", "attrs": ts + [ra(s3), m_list("serde", keys)], "ident": "Ev", "generics": [],
             "variants": [{"attrs": [ra(s4)], "ident": tagged_vs[0], "fields": fl(vfields)},
                          {"attrs": [], "ident": tagged_vs[1], "fields": ("unit",)},
                          {"attrs": [], "ident": tagged_vs[2], "fields": ("unnamed", [field([], None, t_path("u8"))])}]}]}
        exps = [dict(name="Col", unit=True, tag=None, content=None, variants=[dict(ident=v, kind="u", wire=v, opt=False) for v in unit_vs]),
                dict(name="Ev", unit=False, tag="t", content="c", variants=[dict(ident=v, kind=kd, wire=v, opt=False) for v, kd in zip(tagged_vs, "sut")])]
        for lang in LANGS:
            cfg = {"package": "proto" if lang == "go" else "com.example", "type_mappings": {}, "version_header": False,
                   "prefix": rng.choice(["", "", "OP"]) if lang in ("kotlin", "swift") else "", "module_name": ""}
            m, r, texts = l2.requests(lang, cfg, [{"crate": "", "file_name": "out", "path": "src/lib.rs", "file": f}], g)
            cases.append(dict(lang=lang, cfg=cfg, file=f, m=m, r=r, src=texts[0], exps=exps, four=four))
    names = set()
    for c in cases:
        if c["lang"] == "python":
            names |= l2.names_of(c["file"])
    gm = [l2.norm(a) for a in model([c["m"] for c in cases], names=names)]
    gr = [l2.norm(a) for a in runner([c["r"] for c in cases])]
    gdiff, keys_judged = None, 0
    for c, ma, ra_ in zip(cases, gm, gr):
        lang, cfg = c["lang"], c["cfg"]
        check.saw(("rule-spelling-backend", lang, c["src"]), nontrivial=True)
        check.count("rule-spelling back ends")
        where = "; ".join("%s: %s" % (lv, spelling_text(*x)) for lv, x in zip(("struct Person", "enum Col", "enum Ev", "its struct variant"), c["four"]))
        problems = []
        if not isinstance(ra_.get("ok"), dict):
            problems.append("the %s generator does not generate at all: %s" % (lang, str(ra_)[:300]))
        else:
            text = "\n".join(ra_["ok"][k] for k in sorted(ra_["ok"]))
            probs, n = c01.oracle(lang, cfg, c["file"], ra_)
            keys_judged += n + sum(len(e["variants"]) for e in c["exps"])
            problems += probs
            bad = c02.oracle(lang, cfg, text, c["exps"])
            for name in sorted(bad):
                problems += ["enum %s: %s" % (name, msg) for _, msg in bad[name]]
        if problems:
            check.violation("none of the rename_all strings of this file is one of serde's eight rule names (%s), so every field and variant keeps "
                            "its name; the %s back end writes other names: %s" % (where, lang, problems[0]),
                            case={"lang": lang, "config": cfg, "source": c["src"], "rename_all": [x[0] for x in c["four"]], "problems": problems[:6],
                                  "request": c["r"]}, impl=ra_, model=ma, failing_input=True)
            return
        if ma != ra_ and gdiff is None:
            gdiff = (c, ma, ra_)
    check.count("rule-spelling back ends: keys and variant names judged", keys_judged)
    check.rule += ("; spelling of the rule string: %d strings (the eight names; case / separator / blank / affix / look-alike / edit variants of each; other "
                   "names, empty, random) x {struct, enum, struct variant} through parser::parse, x %d identifiers through rename_all_to_case, %d files "
                   "x 6 languages through the generators; a string not byte-equal to a rule name leaves every name unchanged"
                   % (len(spellings), len(fn_idents), len(cases) // 6))
    if trim_witness:
        s, lv, it, bad = trim_witness
        _, _, text = l1.requests({"attrs": [], "items": [it]}, g)
        witness = {"rename_all": s, "level": lv, "source": text, "position": bad[1], "ident": bad[2], "typeshare": bad[3],
                   "unchanged_would_be": bad[4], "applied_rule": trimmed_rule(s)}
        if not check.known(TRIM_FINDING, witness):
            # not (yet) an `open:` line of KNOWN_FINDINGS.txt: kept visible in the evidence
            check.notes.append("candidate finding %s (attribute values are trimmed by literal_to_string before the rule is looked up, so a rule "
                               "name with White_Space around it - which serde_derive rejects as an unknown rule - is applied; the model does the "
                               "same): %s" % (TRIM_FINDING, json.dumps(witness, ensure_ascii=False)[:1500]))
    if gdiff:
        c, ma, ra_ = gdiff
        d = None
        if "ok" in ma and "ok" in ra_:
            for k in ra_["ok"]:
                d = d or l2.text_diff(ma["ok"].get(k, ""), ra_["ok"][k])
        check.violation("the %s generator differs from the model under rename_all strings that are no rule names (the oracle finds the "
                        "implementation's names right): %s" % (c["lang"], d or (str(ma)[:200] + " vs " + str(ra_)[:200])),
                        case={"lang": c["lang"], "config": c["cfg"], "source": c["src"], "request": c["r"]}, impl=ra_, model=ma,
                        failing_input=False, broken="correspondence L2 parse+generate_types under unknown rename_all strings (theorems "
                                                    "TsV.C16.unknown_rule carried to the text by C16_Backends)")
