import TsV.Lemmas.C04_Decorators
/-!
# C04, decorators — the optional marker does not depend on a field's decorators

A field carries per-language decorators (`#[typeshare(typescript(readonly))]`,
`#[typeshare(kotlin(JvmField))]`, `#[typeshare(swift(…))]`, `#[typeshare(go(type = "…"))]` …).  Of
these the back ends read only the per-language `type = "…"` override (`C04.overrideOf`; Python reads
none) and TypeScript's `readonly`.

* `C04_Decorators` (`C04_Decorators_full`): for every back end, configuration and pair of fields
  that differ at most in their decorators and have the same type override for that back end, the
  generated declarations have exactly the same readings `(optional?, type without the marker)` under
  C04's binding semantics `C04.Declares`.  Hence `C04.FieldSpec` transfers (`fieldSpec_transfer`).
* per language the whole fact record is the same (`kotlin_same`, `swift_same`, `scala_same`,
  `go_same`, `python_same`); for TypeScript it is the same up to the `readonly` flag
  (`typescript_same`), and `readonly` changes only the prefix of the property line:
  `typescript_readonly_prefix`.
-/
namespace TsV.C04_Decorators
open TsV TsV.Lang TsV.Generate TsV.C04 TsV.C04D

/-- **C04_Decorators at full strength**: all six back ends, every configuration, every pair of
fields equal up to decorators with the same `type` override for the back end -/
def C04_Decorators_full : Prop :=
  ∀ (E : Ext) (gens : List Str) (f g : RustField) (B : LangCfg), SameBut f g → overrideOf g B = overrideOf f B →
    ∀ o core, Declares E gens f B o core ↔ Declares E gens g B o core

theorem declares_of (E : Ext) (gens : List Str) (f g : RustField) (B : LangCfg) (h : SameBut f g)
    (ho : overrideOf g B = overrideOf f B) (o : Bool) (core : Str) (hd : Declares E gens f B o core) :
    Declares E gens g B o core := by
  cases B with
  | typescript cfg =>
    obtain ⟨st, st', tf, h1, h2, h3⟩ := hd
    refine ⟨st, st', { tf with readonly := hasDecoratorNamed g .typescript s%"readonly" }, ?_, h2, h3⟩
    rw [Ts.fieldFacts_congr cfg gens h ho st, h1]
    rfl
  | kotlin cfg =>
    obtain ⟨rsn, priv, p, h1, h2, h3⟩ := hd
    exact ⟨rsn, priv, p, by rw [kotlin_paramFacts_congr cfg gens rsn priv h ho]; exact h1, h2, h3⟩
  | swift cfg =>
    obtain ⟨st, st', ty, h1, h2, h3⟩ := hd
    obtain ⟨e1, e2, _, _⟩ := swift_fieldType_congr cfg gens h ho st
    exact ⟨st, st', ty, by rw [e1]; exact h1, by rw [e2]; exact h2, by rw [e2]; exact h3⟩
  | scala cfg =>
    obtain ⟨p, h1, h2, h3⟩ := hd
    exact ⟨p, by rw [scala_paramFacts_congr cfg gens h ho]; exact h1, h2, h3⟩
  | go cfg =>
    obtain ⟨st, st', p, h1, h2, h3⟩ := hd
    exact ⟨st, st', p, by rw [go_fieldFacts_congr E.U cfg h ho st]; exact h1, h2, h3⟩
  | python cfg =>
    obtain ⟨st, st', p, h1, h2⟩ := hd
    exact ⟨st, st', p, by rw [python_fieldFacts_congr E cfg gens h st]; exact h1, h2⟩

/-- **C04_Decorators.**  The model satisfies the statement at full strength. -/
theorem C04_Decorators : C04_Decorators_full :=
  fun E gens f g B h ho o core =>
    ⟨declares_of E gens f g B h ho o core, declares_of E gens g f B h.symm ho.symm o core⟩

/-- C04's per-field demand transfers between fields that differ in decorators only -/
theorem fieldSpec_transfer (E : Ext) (gens : List Str) (f g : RustField) (B : LangCfg) (h : SameBut f g)
    (ho : overrideOf g B = overrideOf f B) (hs : FieldSpec E B gens f) : FieldSpec E B gens g := by
  intro o core hd
  have hd' := (C04_Decorators E gens f g B h ho o core).2 hd
  obtain ⟨ho', core', hc, ht⟩ := hs o core hd'
  have hopt : opt g = opt f := by simp [opt, h.2.1, h.2.2.2]
  refine ⟨by rw [hopt]; exact ho', core', (C04_Decorators E gens f g B h ho o core').1 hc, ?_⟩
  rw [h.2.1]
  exact ht

/-- decorators never put a field out of C04's scope unless they add a `type` override -/
theorem inScope_transfer (gens : List Str) (f g : RustField) (B : LangCfg) (h : SameBut f g)
    (ho : overrideOf g B = overrideOf f B) (hs : InScope gens f B) : InScope gens g B := by
  obtain ⟨h1, h2, h3⟩ := hs
  refine ⟨by rw [ho]; exact h1, by rw [h.2.1]; exact h2, ?_⟩
  cases B <;> simp only [h.2.1] at * <;> exact h3

/-! ## the whole fact record, per language -/

/-- **TypeScript**: same state, same record up to the `readonly` flag -/
theorem typescript_same (cfg : TypeScript.Cfg) (gens : List Str) (f g : RustField) (h : SameBut f g)
    (ho : typeOverride g .typescript = typeOverride f .typescript) (st st' : TypeScript.CustomMap)
    (tf : TypeScript.TsField) (hf : TypeScript.fieldFacts cfg gens f st = .ok (tf, st')) :
    TypeScript.fieldFacts cfg gens g st =
      .ok ({ tf with readonly := hasDecoratorNamed g .typescript s%"readonly" }, st') := by
  rw [Ts.fieldFacts_congr cfg gens h ho st, hf]
  rfl

/-- **TypeScript**: `readonly` changes only the prefix of the property line — the line is the
comments, a tab, `readonly ` or nothing, and `lineCore`, which is the same for both fields (name,
`?`, type, ` | null`) -/
theorem typescript_readonly_prefix (cfg : TypeScript.Cfg) (gens : List Str) (f g : RustField) (h : SameBut f g)
    (ho : typeOverride g .typescript = typeOverride f .typescript) (st st' : TypeScript.CustomMap)
    (tf : TypeScript.TsField) (hf : TypeScript.fieldFacts cfg gens f st = .ok (tf, st')) :
    ∃ tg, TypeScript.fieldFacts cfg gens g st = .ok (tg, st') ∧
      tg.readonly = hasDecoratorNamed g .typescript s%"readonly" ∧
      tf.readonly = hasDecoratorNamed f .typescript s%"readonly" ∧
      Ts.lineCore tg = Ts.lineCore tf ∧
      TypeScript.renderField tf = TypeScript.comments 1 f.comments ++ s%"\t" ++
        (if tf.readonly then s%"readonly " else []) ++ Ts.lineCore tf ∧
      TypeScript.renderField tg = TypeScript.comments 1 f.comments ++ s%"\t" ++
        (if tg.readonly then s%"readonly " else []) ++ Ts.lineCore tf := by
  refine ⟨_, typescript_same cfg gens f g h ho st st' tf hf, rfl, ?_, rfl, ?_, ?_⟩
  · unfold TypeScript.fieldFacts at hf
    obtain ⟨⟨ty, st1⟩, _, hf⟩ := C04.bind_ok hf
    simp only [Outcome.ok.injEq, Prod.mk.injEq] at hf
    rw [← hf.1]
  · have hc : tf.comments = f.comments := by
      unfold TypeScript.fieldFacts at hf
      obtain ⟨⟨ty, st1⟩, _, hf⟩ := C04.bind_ok hf
      simp only [Outcome.ok.injEq, Prod.mk.injEq] at hf
      rw [← hf.1]
    rw [Ts.renderField_split, hc]
  · have hc : tf.comments = f.comments := by
      unfold TypeScript.fieldFacts at hf
      obtain ⟨⟨ty, st1⟩, _, hf⟩ := C04.bind_ok hf
      simp only [Outcome.ok.injEq, Prod.mk.injEq] at hf
      rw [← hf.1]
    rw [Ts.renderField_split]
    simp only [hc]
    rfl

theorem kotlin_same (cfg : Kotlin.Cfg) (gens : List Str) (rsn priv : Bool) (f g : RustField) (h : SameBut f g)
    (ho : typeOverride g .kotlin = typeOverride f .kotlin) :
    Kotlin.paramFacts cfg gens rsn priv g = Kotlin.paramFacts cfg gens rsn priv f :=
  kotlin_paramFacts_congr cfg gens rsn priv h ho

theorem swift_same (cfg : Swift.Cfg) (gens : List Str) (f g : RustField) (h : SameBut f g)
    (ho : typeOverride g .swift = typeOverride f .swift) (st : Swift.St) :
    Swift.fieldType cfg gens g st = Swift.fieldType cfg gens f st ∧ Swift.fieldOptional g = Swift.fieldOptional f ∧
      Swift.memberName g = Swift.memberName f ∧ Swift.fieldCodingKey g = Swift.fieldCodingKey f :=
  swift_fieldType_congr cfg gens h ho st

theorem scala_same (cfg : Scala.Cfg) (gens : List Str) (f g : RustField) (h : SameBut f g)
    (ho : typeOverride g .scala = typeOverride f .scala) : Scala.paramFacts cfg gens g = Scala.paramFacts cfg gens f :=
  scala_paramFacts_congr cfg gens h ho

theorem go_same (U : UnicodeOps) (cfg : Go.Cfg) (f g : RustField) (h : SameBut f g)
    (ho : typeOverride g .go = typeOverride f .go) (st : Go.Imports) :
    Go.fieldFacts U cfg g st = Go.fieldFacts U cfg f st := go_fieldFacts_congr U cfg h ho st

/-- **Python** reads no field decorator: no hypothesis on overrides -/
theorem python_same (E : Ext) (cfg : Python.Cfg) (gens : List Str) (f g : RustField) (h : SameBut f g)
    (st : Python.St) : Python.fieldFacts E cfg gens g st = Python.fieldFacts E cfg gens f st :=
  python_fieldFacts_congr E cfg gens h st

/-! ## non-vacuity -/

/-- `#[serde(default)] pub n: u32` -/
def plain : RustField :=
  { id := ⟨s%"n", s%"n", false⟩, ty := .prim .u32, comments := [s%"a number"], hasDefault := true, decorators := [] }

/-- the same field with `#[typeshare(typescript(readonly), kotlin(JvmField), swift(frozen), go(type = "uint"))]` -/
def decorated : RustField :=
  withDecorators plain [(.typescript, [.word s%"readonly"]), (.kotlin, [.word s%"JvmField"]),
    (.swift, [.word s%"frozen"]), (.go, [.nameValue s%"type" s%"uint"])]

example : SameBut plain decorated := sameBut_with _ _
example : overrideOf decorated (.typescript {}) = overrideOf plain (.typescript {}) := by decide
example : overrideOf decorated (.kotlin {}) = overrideOf plain (.kotlin {}) := by decide
example : overrideOf decorated (.swift {}) = overrideOf plain (.swift {}) := by decide
/-- the hypothesis is not vacuous the other way either: the Go override differs -/
example : overrideOf decorated (.go {}) ≠ overrideOf plain (.go {}) := by decide

def E0 : Ext := { U := .ascii, parseType := fun _ => none }

def tsLine (f : RustField) : Option Str :=
  match TypeScript.fieldFacts {} [] f [] with
  | .ok (tf, _) => some (TypeScript.renderField tf)
  | _ => none

example : tsLine plain = some s%"\t/** a number */\n\tn?: number;\n" := by decide +kernel
example : tsLine decorated = some s%"\t/** a number */\n\treadonly n?: number;\n" := by decide +kernel

/-- the conclusion of `C04_Decorators` on the example: both are declared optional with core `number` -/
example : Declares E0 [] plain (.typescript {}) true s%"number" ∧
    Declares E0 [] decorated (.typescript {}) true s%"number" := by
  have hp : Declares E0 [] plain (.typescript {}) true s%"number" :=
    ⟨[], [], _, rfl, by decide, by decide⟩
  exact ⟨hp, (C04_Decorators _ [] plain decorated (.typescript {}) (sameBut_with _ _) (by decide) true _).1 hp⟩

end TsV.C04_Decorators
