import TsV.Model.Config
/-!
# C20 — CLI options override typeshare.toml; generated config files round-trip
-/
namespace TsV.C20
open TsV TsV.Config

variable {R : Type}

/-- **precedence** for every setting that exists in both places: command line, else file, else default -/
theorem precedence (dflt : R) (file : Option (Shared × R)) (o : Cli) (c : Config R)
    (h : overrideConfiguration (loadConfig dflt file) o = some c) :
    c.shared.swiftPrefix = o.swiftPrefix.getD ((file.map (·.1.swiftPrefix)).getD []) ∧
    c.shared.kotlinPrefix = o.kotlinPrefix.getD ((file.map (·.1.kotlinPrefix)).getD []) ∧
    c.shared.kotlinPackage = o.javaPackage.getD ((file.map (·.1.kotlinPackage)).getD []) ∧
    c.shared.kotlinModule = o.kotlinModule.getD ((file.map (·.1.kotlinModule)).getD []) ∧
    c.shared.scalaPackage = o.scalaPackage.getD ((file.map (·.1.scalaPackage)).getD []) ∧
    c.shared.scalaModule = o.scalaModule.getD ((file.map (·.1.scalaModule)).getD []) ∧
    c.shared.goPackage = o.goPackage.getD ((file.map (·.1.goPackage)).getD []) := by
  simp only [overrideConfiguration] at h
  split at h
  · simp at h
  · simp only [Option.some.injEq] at h
    subst h
    cases file with
    | none => simp [loadConfig]
    | some f => obtain ⟨s, r⟩ := f; simp [loadConfig]

/-- **file-only settings are applied unchanged** -/
theorem file_only_unchanged (dflt : R) (file : Option (Shared × R)) (o : Cli) (c : Config R)
    (h : overrideConfiguration (loadConfig dflt file) o = some c) :
    c.rest = (file.map (·.2)).getD dflt := by
  simp only [overrideConfiguration] at h
  split at h
  · simp at h
  · simp only [Option.some.injEq] at h
    subst h
    cases file with
    | none => simp [loadConfig]
    | some f => obtain ⟨s, r⟩ := f; simp [loadConfig]

/-- `--target-os` comes from the command line only -/
theorem target_os_cli_only (c0 : Config R) (o : Cli) (c : Config R)
    (h : overrideConfiguration c0 o = some c) : c.targetOs = o.targetOs.getD [] := by
  simp only [overrideConfiguration] at h
  split at h
  · simp at h
  · simp only [Option.some.injEq] at h; subst h; rfl

/-- the only failure: generating Go without any package name -/
theorem override_fails_iff (c0 : Config R) (o : Cli) :
    overrideConfiguration c0 o = none ↔
      (o.langIsGo = true ∧ (o.goPackage.getD c0.shared.goPackage) = []) := by
  simp only [overrideConfiguration]
  split
  · rename_i h
    simp only [Bool.and_eq_true, List.isEmpty_iff] at h
    simpa using h
  · rename_i h
    simp only [Bool.and_eq_true, List.isEmpty_iff, not_and] at h
    simp
    exact h

/-- **`-g` never overwrites** an existing file -/
theorem store_never_overwrites (c : Config R) : storeConfig true c = none := rfl

/-- **round trip** of `-g`: what is stored reloads to the same effective settings, for every
later command line (given that TOML (de)serialisation round-trips — the `toml` crate, external) -/
theorem generated_config_round_trips (dflt : R) (c : Config R) (stored : Shared × R)
    (h : storeConfig false c = some stored) (o : Cli) :
    overrideConfiguration (loadConfig dflt (some stored)) o =
      overrideConfiguration { c with targetOs := [] } o := by
  simp [storeConfig] at h
  subst h
  simp [loadConfig, overrideConfiguration]

/-! ### non-vacuity: the 2x2 matrix for one option -/
def fileK : Shared × Unit := ({ kotlinPrefix := s%"F" }, ())
example : (overrideConfiguration (loadConfig () none) {}).map (·.shared.kotlinPrefix) = some [] := by decide
example : (overrideConfiguration (loadConfig () (some fileK)) {}).map (·.shared.kotlinPrefix) = some s%"F" := by decide
example : (overrideConfiguration (loadConfig () none) { kotlinPrefix := some s%"C" }).map (·.shared.kotlinPrefix) = some s%"C" := by decide
example : (overrideConfiguration (loadConfig () (some fileK)) { kotlinPrefix := some s%"C" }).map (·.shared.kotlinPrefix) = some s%"C" := by decide
example : (overrideConfiguration (loadConfig () none) { langIsGo := true } : Option (Config Unit)).isNone = true := by decide

end TsV.C20
