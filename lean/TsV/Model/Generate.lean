import TsV.Model.Lang.TypeScript
import TsV.Model.Lang.Kotlin
import TsV.Model.Lang.Swift
import TsV.Model.Lang.Scala
import TsV.Model.Lang.Go
import TsV.Model.Lang.Python
/-!
# The in-process pipeline of one run (what `cli/src/main.rs::generate_types` does between the
directory walk and the file system), for every back end.
-/
namespace TsV.Generate
open TsV TsV.Syn

inductive LangCfg where
  | typescript (c : Lang.TypeScript.Cfg)
  | kotlin (c : Lang.Kotlin.Cfg)
  | swift (c : Lang.Swift.Cfg)
  | scala (c : Lang.Scala.Cfg)
  | go (c : Lang.Go.Cfg)
  | python (c : Lang.Python.Cfg)

/-- `Language::ignored_reference_types` -/
def ignoredTypes : LangCfg → List Str
  | .typescript c => c.typeMappings.map (·.1)
  | .kotlin c => c.typeMappings.map (·.1)
  | _ => []

structure SourceFile where
  crateName : Str
  fileName : Str
  path : Str
  file : File

inductive RunResult where
  | outputs (files : List (Str × Str))        -- crate ↦ generated text, in crate order
  | parseErrors (errs : List (ErrKind × Str)) -- `check_parse_errors` aborted the run

/-- parse the files in arrival order and fold them per crate -/
def parseAll (E : Ext) (ctx : ParseContext) (pick : List ImportedType → Option ImportedType) :
    List SourceFile → Outcome (List ParsedData)
  | [] => .ok []
  | f :: fs =>
    (Visitor.parseFile E ctx pick f.crateName f.fileName f.path f.file).bind fun r =>
    (parseAll E ctx pick fs).bind fun rest =>
      .ok (match r with | some d => d :: rest | none => rest)

/-- the re-export fallback of `used_imports`: among the crates other than `current` that define
`name`, the one with the smallest crate name (`.min_by_key(|(k, _)| *k)` over the `all_types` hash
map, since the `fix:` commit "resolve a type name imported from several crates the same way in
every run"; it was `.next()`, the first such crate in the map's iteration order).  `all` is the
map in some iteration order. -/
def firstOther (all : List (Str × List Str)) (current : Str) (name : Str) : Option Str :=
  (Pipeline.minByKey (all.filter fun (c, names) => c != current && names.contains name)).map (·.1)

def run (E : Ext) (lang : LangCfg) (multiFile : Bool) (targetOs : List Str)
    (pick : List ImportedType → Option ImportedType) (files : List SourceFile) : Outcome RunResult :=
  let ctx : ParseContext := { ignoredTypes := ignoredTypes lang, multiFile, targetOs }
  (parseAll E ctx pick files).bind fun arrivals =>
    let crates := Pipeline.reconcile (Pipeline.collect arrivals)
    let all := if multiFile then Pipeline.allTypes crates else []
    let errs := Pipeline.allErrors crates
    if !errs.isEmpty then .ok (.parseErrors errs)
    else
      let jobs := crates.map fun (c, d) =>
        (c, d, if multiFile then
            some (Pipeline.usedImports d all d.importTypes (firstOther all d.crateName))
          else none)
      (match lang with
      | .typescript cfg => Lang.TypeScript.generateAll E cfg multiFile jobs
      | .kotlin cfg => Lang.Kotlin.generateAll E cfg multiFile jobs
      | .swift cfg => Lang.Swift.generateAll E cfg multiFile jobs
      | .scala cfg => Lang.Scala.generateAll E cfg multiFile jobs
      | .go cfg => Lang.Go.generateAll E cfg multiFile jobs
      | .python cfg => Lang.Python.generateAll E cfg multiFile jobs).bind fun o => .ok (.outputs o)

end TsV.Generate
