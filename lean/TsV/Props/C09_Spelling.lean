import TsV.Props.C09
/-!
# C09_Spelling — a type-level `serde(rename)` value that is *any* string is spelled the same where the
type is defined and wherever it is referred to

`#[serde(rename = "line-item")]`, `"gift.marker"`, `"2nd"`, `"with space"`: wire names that are not
identifiers.  C09 does not ask the back ends to make identifiers of them (that is C10's
`dashed-type-name`); it asks that *whatever* a back end writes for the definition, it writes for every
reference.  `C09.InScope` puts no condition on the characters of `id.renamed`, so `C09_partial` /
`C09_exact` already quantify over arbitrary strings; this module states the consequence in terms of
the string itself:

* `def_spelling` — every back end defines an item under `prefix ++ <the rename string>`, byte for byte
  (no `remove_dash`, no escaping, no re-casing) — except Go for enums (Rust name: the open finding
  `definition-under-original-name`);
* `C09_Spelling : C09_Spelling_full` — in a program in scope without shadowing, for **every** string
  `s` an item is renamed to: its definition is `prefix ++ s` and every reference to it, in all the
  positions of `C09.refs` (field, payload, generic argument / head, alias target, at any depth), is
  spelled `prefix ++ s` too (all back ends; Go for structs and aliases);
* `scala_dash_fields_only`, `kotlin_dash_fields_only`, `swift_dash_fields_only` — `remove_dash` (`-` to
  `_`) is applied to *field* names only: the class / struct name of the record is the rename string
  with its dashes.

Nothing is false on the model.
-/
namespace TsV.C09_Spelling
open TsV TsV.Pipeline TsV.Generate TsV.Lang TsV.C09

/-- **the definition carries the rename string verbatim behind the prefix** -/
theorem def_spelling (lc : LangCfg) (t : RustItem) (h : defUsesOriginal lc t = false) :
    defName lc t = pfxOf lc ++ (itemId t).renamed := by
  cases lc <;> cases t <;> first | rfl | (simp [defUsesOriginal] at h)

/-- C09_Spelling at full strength: every string, every program in scope, every back end, every
reference position -/
def C09_Spelling_full : Prop :=
  ∀ (s : Str) (P : ParsedData), InScope P → ∀ lc : LangCfg, CfgOk lc → Known_shadow P = false →
    ∀ t ∈ typeItems P, (itemId t).renamed = s → defUsesOriginal lc t = false →
      defName lc t = pfxOf lc ++ s ∧
      ∀ it ∈ typeItems P, ∀ ref ∈ refs lc (renamesOf P) it, ref.target = .type (itemId t).original →
        ref.spelling = pfxOf lc ++ s

theorem C09_Spelling : C09_Spelling_full := by
  intro s P hs lc hc hsh t ht hren hdo
  have hdef : defName lc t = pfxOf lc ++ s := by rw [def_spelling lc t hdo, hren]
  refine ⟨hdef, ?_⟩
  intro it hit ref href htg
  have hd : Defines lc P ref.target (defName lc t) := by
    rw [htg]; exact ⟨t, ht, rfl, rfl⟩
  have hk : KnownRef lc P ref = false := by
    have : ref = ⟨ref.spelling, .type (itemId t).original, ref.head⟩ := by
      cases ref; simp only at htg; subst htg; rfl
    rw [this, knownRef_type hs.distinct lc ht, hdo, Bool.and_false]
  rw [← hdef]
  exact C09_partial P hs lc hc hsh it hit ref href hk _ hd

/-- … the exact form for Go enums (the known class): the definition is the Rust name, the references
are the rename string — they agree only if the enum is not renamed -/
theorem go_enum_spelling (s : Str) (P : ParsedData) (hs : InScope P) (c : Go.Cfg) (hc : CfgOk (.go c))
    (hsh : Known_shadow P = false) (e : RustEnum) (he : RustItem.enum e ∈ typeItems P) (hren : e.id.renamed = s)
    (it : RustItem) (hit : it ∈ typeItems P) (ref : Ref) (href : ref ∈ refs (.go c) (renamesOf P) it)
    (htg : ref.target = .type e.id.original) :
    defName (.go c) (.enum e) = e.id.original ∧ (ref.spelling = e.id.original ↔ s = e.id.original) := by
  refine ⟨rfl, ?_⟩
  have hd : Defines (.go c) P ref.target (defName (.go c) (.enum e)) := by
    rw [htg]; exact ⟨.enum e, he, rfl, rfl⟩
  have hex := C09_exact P hs (.go c) hc hsh it hit ref href _ hd
  have hk : KnownRef (.go c) P ref = (e.id.renamed != e.id.original) := by
    have : ref = ⟨ref.spelling, .type (itemId (.enum e)).original, ref.head⟩ := by
      cases ref; simp only at htg; subst htg; rfl
    rw [this, knownRef_type hs.distinct (.go c) he]
    simp [Renamed, defUsesOriginal, itemId]
  rw [show defName (.go c) (.enum e) = e.id.original from rfl] at hex
  rw [hex, hk, ← hren]
  simp

/-! ## `remove_dash` is for field names -/

/-- **Scala**: the class is named by the rename string with its dashes; only the parameter (field)
names have `-` replaced by `_` -/
theorem scala_dash_fields_only (c : Scala.Cfg) (rs : RustStruct) (d : Scala.ScClass) (h : Scala.classFacts c rs = .ok d) :
    d.name = rs.id.renamed ∧ d.params.map (·.name) = rs.fields.map fun f => Str.replaceChar f.id.renamed '-' s%"_" := by
  unfold Scala.classFacts at h
  obtain ⟨ps, hps, h⟩ := bindOk h
  cases h
  refine ⟨rfl, ?_⟩
  refine Outcome.mapM'_map (Scala.paramFacts c rs.genericTypes) (·.name) (fun f => Str.replaceChar f.id.renamed '-' s%"_") ?_ _ _ hps
  intro f p hp
  unfold Scala.paramFacts at hp
  obtain ⟨ty, _, hp⟩ := bindOk hp
  cases hp; rfl

/-- **Kotlin**: class name `prefix ++ renamed` with its dashes -/
theorem kotlin_dash_fields_only (c : Kotlin.Cfg) (rs : RustStruct) (d : Kotlin.KtDecl) (h : Kotlin.structFacts c rs = .ok d) :
    ktName d = c.pfx ++ rs.id.renamed := tie_kotlin_struct c rs d h

/-- **Swift**: struct name `prefix ++ renamed` with its dashes (inside back-ticks if a keyword) -/
theorem swift_dash_fields_only (U : UnicodeOps) (c : Swift.Cfg) (rs : RustStruct) (st st' : Swift.St) (d : Swift.SwiftStruct)
    (h : Swift.structFacts U c rs st = .ok (d, st')) : d.name = Swift.kw (c.pfx ++ rs.id.renamed) :=
  tie_swift_struct U c rs st st' d h

/-! ## non-vacuity: rename values with a dash, a dot, a blank, a leading digit -/

/-- `#[serde(rename = "line-item")] struct Li { a: u8 }`, `#[serde(rename = "2nd thing.x", tag = "t", content = "c")] enum En { A(u8) }`,
`#[serde(rename = "al ias")] type Al = String;`,
`struct User { f0: Li, f1: Vec<En>, f2: Option<Al>, f3: HashMap<String, Li> }` -/
def wLi : RustStruct := mkStruct s%"Li" (some s%"line-item") [] [fld s%"a-b" (.prim .u8)]
def wEn : RustEnum :=
  { keys := some (s%"t", s%"c"), id := mkId s%"En" (some s%"2nd thing.x"), genericTypes := [], comments := [],
    variants := [.tuple (mkId s%"A" none) [] (.prim .u8)], decorators := {}, isRecursive := false, isRedacted := false }
def wAl : RustTypeAlias :=
  { id := mkId s%"Al" (some s%"al ias"), genericTypes := [], ty := .prim .string, comments := [], decorators := {}, isRedacted := false }
def wUser : RustStruct :=
  mkStruct s%"User" none []
    [fld s%"f0" (.simple s%"Li"), fld s%"f1" (.vec (.simple s%"En")), fld s%"f2" (.option (.simple s%"Al")),
     fld s%"f3" (.hashMap (.prim .string) (.simple s%"Li"))]
def W_odd : ParsedData := { structs := [wLi, wUser], enums := [wEn], aliases := [wAl] }

theorem W_odd_inScope : InScope W_odd := inScope_of _ (by decide) (by decide) (by decide) (by decide) rfl rfl

/-- the hypotheses of `C09_Spelling` are met by `W_odd`, all eight configurations -/
example : InScope W_odd ∧ (∀ lc ∈ allLangs, CfgOk lc) ∧ Known_shadow W_odd = false ∧
    RustItem.struct wLi ∈ typeItems W_odd ∧ (itemId (.struct wLi)).renamed = s%"line-item" ∧
    (∀ lc ∈ allLangs, defUsesOriginal lc (.struct wLi) = false) :=
  ⟨W_odd_inScope, cfgOk_all, by decide +kernel, by simp [typeItems, W_odd], rfl, by decide⟩

/-- … and the reference semantics evaluated: in every configuration the four references of `User` are
spelled with the rename strings, verbatim, behind the prefix -/
theorem odd_refs_example :
    (allLangs.all fun lc =>
      (refs lc (renamesOf W_odd) (.struct wUser)).map (fun r => (r.spelling, r.target)) ==
        [(pfxOf lc ++ s%"line-item", .type s%"Li"), (pfxOf lc ++ s%"2nd thing.x", .type s%"En"),
         (pfxOf lc ++ s%"al ias", .type s%"Al"), (pfxOf lc ++ s%"line-item", .type s%"Li")]) = true ∧
    (allLangs.map fun lc => defName lc (.struct wLi)) =
      [s%"line-item", s%"line-item", s%"OPline-item", s%"line-item", s%"OPline-item", s%"line-item", s%"line-item", s%"line-item"] := by
  decide +kernel

/-- `scala_dash_fields_only` on the witness: class `line-item`, parameter `a_b` -/
example : ((Scala.classFacts { package := s%"com.example" } wLi).bind fun d => .ok (d.name, d.params.map (·.name))) =
    .ok (s%"line-item", [s%"a_b"]) := by decide +kernel

end TsV.C09_Spelling
