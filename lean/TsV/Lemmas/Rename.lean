import TsV.Model.Rename
import TsV.Model.Serde
/-! helper lemmas for C16: character facts by case analysis, loop lemmas by induction -/
namespace TsV.RenameLemmas
open TsV TsV.Str TsV.Rename TsV.Serde

/-- conventional field characters: `[a-z0-9_]` -/
def fcChar (c : Char) : Bool := isAsciiLower c || isAsciiDigit c || c == '_'
/-- ASCII letters and digits -/
def alnum (c : Char) : Bool := isAsciiLower c || isAsciiUpper c || isAsciiDigit c

theorem lower_ascii (c : Char) (h : isAsciiLower c = true) : c.toNat < 128 := by
  unfold isAsciiLower at h; split at h <;> first | decide | simp at h
theorem upper_ascii (c : Char) (h : isAsciiUpper c = true) : c.toNat < 128 := by
  unfold isAsciiUpper at h; split at h <;> first | decide | simp at h
theorem digit_ascii (c : Char) (h : isAsciiDigit c = true) : c.toNat < 128 := by
  unfold isAsciiDigit at h; split at h <;> first | decide | simp at h

theorem lower_lowerId (c : Char) (h : isAsciiLower c = true) : asciiLower c = c := by
  unfold isAsciiLower at h; split at h <;> first | decide | simp at h
theorem digit_lowerId (c : Char) (h : isAsciiDigit c = true) : asciiLower c = c := by
  unfold isAsciiDigit at h; split at h <;> first | decide | simp at h
theorem digit_upperId (c : Char) (h : isAsciiDigit c = true) : asciiUpper c = c := by
  unfold isAsciiDigit at h; split at h <;> first | decide | simp at h
theorem upper_upperId (c : Char) (h : isAsciiUpper c = true) : asciiUpper c = c := by
  unfold isAsciiUpper at h; split at h <;> first | decide | simp at h
theorem lower_upperNe (c : Char) (h : isAsciiLower c = true) : asciiUpper c ≠ c := by
  unfold isAsciiLower at h; split at h <;> first | decide | simp at h
theorem lower_notUpper (c : Char) (h : isAsciiLower c = true) : isAsciiUpper c = false := by
  unfold isAsciiLower at h; split at h <;> first | decide | simp at h
theorem digit_notUpper (c : Char) (h : isAsciiDigit c = true) : isAsciiUpper c = false := by
  unfold isAsciiDigit at h; split at h <;> first | decide | simp at h
theorem lower_ne_us (c : Char) (h : isAsciiLower c = true) : c ≠ '_' := by
  unfold isAsciiLower at h; split at h <;> first | decide | simp at h
theorem upper_ne_us (c : Char) (h : isAsciiUpper c = true) : c ≠ '_' := by
  unfold isAsciiUpper at h; split at h <;> first | decide | simp at h
theorem digit_ne_us (c : Char) (h : isAsciiDigit c = true) : c ≠ '_' := by
  unfold isAsciiDigit at h; split at h <;> first | decide | simp at h

theorem asciiUpper_eq_us (c : Char) : asciiUpper c = '_' ↔ c = '_' := by
  unfold asciiUpper; split <;> first | decide | exact Iff.rfl

theorem fc_ascii (c : Char) (h : fcChar c = true) : c.toNat < 128 := by
  simp only [fcChar, Bool.or_eq_true, beq_iff_eq] at h
  rcases h with (h | h) | h
  · exact lower_ascii c h
  · exact digit_ascii c h
  · subst h; decide
theorem fc_lowerId (c : Char) (h : fcChar c = true) : asciiLower c = c := by
  simp only [fcChar, Bool.or_eq_true, beq_iff_eq] at h
  rcases h with (h | h) | h
  · exact lower_lowerId c h
  · exact digit_lowerId c h
  · subst h; decide
theorem fc_notUpper (c : Char) (h : fcChar c = true) : isAsciiUpper c = false := by
  simp only [fcChar, Bool.or_eq_true, beq_iff_eq] at h
  rcases h with (h | h) | h
  · exact lower_notUpper c h
  · exact digit_notUpper c h
  · subst h; decide

theorem alnum_ascii (c : Char) (h : alnum c = true) : c.toNat < 128 := by
  simp only [alnum, Bool.or_eq_true] at h
  rcases h with (h | h) | h
  · exact lower_ascii c h
  · exact upper_ascii c h
  · exact digit_ascii c h
theorem alnum_ne_us (c : Char) (h : alnum c = true) : c ≠ '_' := by
  simp only [alnum, Bool.or_eq_true] at h
  rcases h with (h | h) | h
  · exact lower_ne_us c h
  · exact upper_ne_us c h
  · exact digit_ne_us c h

/-! string-level -/

theorem lowerStr_ascii (U : UnicodeOps) (hU : U.AsciiCorrect) (s : Str)
    (h : ∀ c ∈ s, c.toNat < 128) : U.lowerStr s = toAsciiLower s := by
  induction s with
  | nil => rfl
  | cons c t ih =>
    simp only [UnicodeOps.lowerStr, toAsciiLower, List.flatMap_cons, List.map_cons] at *
    rw [hU.toLower c (h c (by simp)), ih (fun x hx => h x (by simp [hx]))]; rfl

theorem upperStr_ascii (U : UnicodeOps) (hU : U.AsciiCorrect) (s : Str)
    (h : ∀ c ∈ s, c.toNat < 128) : U.upperStr s = toAsciiUpper s := by
  induction s with
  | nil => rfl
  | cons c t ih =>
    simp only [UnicodeOps.upperStr, toAsciiUpper, List.flatMap_cons, List.map_cons] at *
    rw [hU.toUpper c (h c (by simp)), ih (fun x hx => h x (by simp [hx]))]; rfl

theorem toAsciiLower_id (s : Str) (h : ∀ c ∈ s, asciiLower c = c) : toAsciiLower s = s := by
  induction s with
  | nil => rfl
  | cons c t ih =>
    simp only [toAsciiLower, List.map_cons] at *
    rw [h c (by simp), ih (fun x hx => h x (by simp [hx]))]

/-- upper-casing commutes with `_ ↦ -` -/
theorem upper_replace_comm (s : Str) :
    toAsciiUpper (replaceChar s '_' ['-']) = replaceChar (toAsciiUpper s) '_' ['-'] := by
  induction s with
  | nil => rfl
  | cons c t ih =>
    simp only [replaceChar, toAsciiUpper, List.flatMap_cons, List.map_cons, List.map_append] at *
    rw [ih]
    by_cases hc : c = '_'
    · subst hc
      have h1 : asciiUpper '-' = '-' := by decide
      have h2 : asciiUpper '_' = '_' := by decide
      simp [h1, h2]
    · have : asciiUpper c ≠ '_' := fun h => hc ((asciiUpper_eq_us c).1 h)
      simp [hc, this]

/-- `toAsciiUpper s == s` means every character is fixed by upper-casing (the all-capitals test
before the `fix:` commit 8f4a2d5; kept for the bridge `isAllUpper_ascii`) -/
theorem allUpper_fixed (s : Str) (h : (toAsciiUpper s == s) = true) : ∀ c ∈ s, asciiUpper c = c := by
  have h' : toAsciiUpper s = s := eq_of_beq h
  induction s with
  | nil => intro c hc; simp at hc
  | cons a t ih =>
    simp only [toAsciiUpper, List.map_cons, List.cons.injEq] at h'
    intro c hc
    simp only [List.mem_cons] at hc
    rcases hc with rfl | hc
    · exact h'.1
    · exact ih (by simpa [toAsciiUpper] using h'.2) h'.2 c hc

/-! the all-capitals test since the `fix:` commit 8f4a2d5: `isAllUpper U s = !(s.any U.isLower)` -/

/-- the test says: no character is a lowercase letter -/
theorem isAllUpper_iff (U : UnicodeOps) (s : Str) :
    isAllUpper U s = true ↔ ∀ c ∈ s, U.isLower c = false := by
  simp [isAllUpper]

/-- … and fails exactly when some character is a lowercase letter -/
theorem isAllUpper_false_iff (U : UnicodeOps) (s : Str) :
    isAllUpper U s = false ↔ ∃ c ∈ s, U.isLower c = true := by
  simp [isAllUpper]

/-- a name with a lowercase letter is not all capitals -/
theorem isAllUpper_of_lower (U : UnicodeOps) (s : Str) (c : Char) (hc : c ∈ s) (hl : U.isLower c = true) :
    isAllUpper U s = false := (isAllUpper_false_iff U s).2 ⟨c, hc, hl⟩

/-- on an ASCII character "fixed by upper-casing" is "not a lowercase letter" -/
theorem upperFixed_iff_notLower (c : Char) : asciiUpper c = c ↔ isAsciiLower c = false := by
  constructor
  · intro h
    cases hl : isAsciiLower c with
    | false => rfl
    | true => exact absurd h (lower_upperNe c hl)
  · intro h
    unfold isAsciiLower at h
    unfold asciiUpper
    split <;> first | rfl | simp at h

/-- **the bridge**: over ASCII names the repaired test is the old one, `to_ascii_uppercase() == self` -/
theorem isAllUpper_ascii (U : UnicodeOps) (hU : U.AsciiCorrect) (s : Str) (h : ∀ c ∈ s, c.toNat < 128) :
    isAllUpper U s = (toAsciiUpper s == s) := by
  induction s with
  | nil => rfl
  | cons a t ih =>
    have ht := ih (fun x hx => h x (by simp [hx]))
    have ha := hU.lower a (h a (by simp))
    simp only [isAllUpper, List.any_cons, Bool.not_or] at ht ⊢
    rw [ht, ha]
    simp only [toAsciiUpper, List.map_cons]
    cases hl : isAsciiLower a with
    | false =>
      have := (upperFixed_iff_notLower a).2 hl
      rw [this]
      simp
    | true =>
      have := lower_upperNe a hl
      simp [this]

/-- over ASCII names `to_pascal_case` / `to_snake_case`'s flag does not depend on which (correct) table is used -/
theorem isAllUpper_asciiTable (U : UnicodeOps) (hU : U.AsciiCorrect) (s : Str) (h : ∀ c ∈ s, c.toNat < 128) :
    isAllUpper U s = isAllUpper UnicodeOps.ascii s := by
  rw [isAllUpper_ascii U hU s h, isAllUpper_ascii _ UnicodeOps.ascii_correct s h]

theorem toPascal_asciiTable (U : UnicodeOps) (hU : U.AsciiCorrect) (s : Str) (h : ∀ c ∈ s, c.toNat < 128) :
    toPascal U s = toPascal UnicodeOps.ascii s := by
  unfold toPascal; rw [isAllUpper_asciiTable U hU s h]

/-- the form used by the scope lemmas: an ASCII lowercase letter in the name switches the test off -/
theorem isAllUpper_asciiLower (U : UnicodeOps) (hU : U.AsciiCorrect) (s : Str) (c : Char) (hc : c ∈ s)
    (hl : isAsciiLower c = true) : isAllUpper U s = false :=
  isAllUpper_of_lower U s c hc (by rw [hU.lower c (lower_ascii c hl)]; exact hl)

theorem pascalGo_field (tl : Bool) (s : Str) (h : ∀ c ∈ s, asciiLower c = c) :
    ∀ cap, pascalGo tl cap s = fieldPascalGo cap s := by
  induction s with
  | nil => intro cap; rfl
  | cons c t ih =>
    intro cap
    have ht : ∀ x ∈ t, asciiLower x = x := fun x hx => h x (by simp [hx])
    simp only [pascalGo, fieldPascalGo, ih ht]
    have hc := h c (by simp)
    by_cases h1 : c = '_' <;> by_cases h2 : cap = true <;> cases tl <;> simp [h1, h2, hc]

theorem pascalGo_id (tl : Bool) (s : Str)
    (h : ∀ c ∈ s, c ≠ '_' ∧ (tl = true → asciiLower c = c)) : pascalGo tl false s = s := by
  induction s with
  | nil => rfl
  | cons c t ih =>
    have ht := ih (fun x hx => h x (by simp [hx]))
    have hc := h c (by simp)
    simp only [pascalGo, hc.1, if_false, Bool.false_eq_true, ht]
    cases tl
    · simp
    · simp [hc.2 rfl]

theorem snakeGo_id (U : UnicodeOps) (au : Bool) (s : Str)
    (h : ∀ c ∈ s, U.isUpper c = false ∧ asciiLower c = c) : ∀ first, snakeGo U au first s = s := by
  induction s with
  | nil => intro first; rfl
  | cons c t ih =>
    intro first
    have hc := h c (by simp)
    simp [snakeGo, hc.1, hc.2, ih (fun x hx => h x (by simp [hx]))]

theorem snakeGo_variant (U : UnicodeOps) (au : Bool) (s : Str)
    (h : au = true → ∀ c ∈ s, U.isUpper c = false) :
    snakeGo U au false s = variantSnakeGo U false s := by
  induction s with
  | nil => rfl
  | cons c t ih =>
    have ht := ih (fun ha x hx => h ha x (by simp [hx]))
    simp only [snakeGo, variantSnakeGo, ht]
    cases au
    · simp
    · simp [h rfl c (by simp)]

end TsV.RenameLemmas
