import TsV.Lemmas.C07_Backends_Run
import TsV.Lemmas.C07_Backends_Eval
/-!
# C07, generation side — the whole in-process pipeline never panics

`Props/C07.lean` proves that the parser side (`parser::parse` and everything below it) never takes a
`panic` branch.  This file extends the statement to the rest of one run (`Generate.run`): the
collector fold, `reconcile_aliases`, the ordering pass (`topsort`), `used_imports` and the six back
ends (`generateAll`).

Panic sites of the generation-side model (every `.panic` in `Model/Lang/*.lean`) and their status:

| site | where | discharged by |
|---|---|---|
| `topsort` (5 back ends; Scala does not sort) | `generate` | `topsort_never_panics` (C11: `graph_total`, `graph_wf`, `topsort_perm`) — unconditional |
| `typescript.rs:137` | `TypeScript.formatType` on `u64/i64/usize/isize` | unreachable on jobs without 64-bit primitives (`jobsNo64`); the parser never produces one (`tryFrom_no64`) |
| `python.rs:368` | `Python.unitMembers` on a non-unit variant of a `RustEnum::Unit` | unreachable on jobs with `jobsUnitOk`; the parser guarantees it (`enumShape_wf`) |
| `go.rs:301` | `Go.unitConsts`, same `unreachable!()` | same |
| `go.rs:333` | `Go.algVariant`: `format_type(..).unwrap()` | Go's `format_type` has no error arm (`go_formatType_total`) — unconditional |
| `index.rs:1020`, `go.rs:600` | `Go.replaceRange` in `convert_acronyms_to_uppercase` | unreachable when the configuration satisfies `Go.cfgOk` (`go_acronyms_total`); **reachable otherwise** (`go_acronym_witness`, known finding `go-nonascii-acronym`) |

So the full statement `Run_full` fails only through the last row: `run_not_full`, `run_never_panics`.
-/
namespace TsV.C07_Backends
open TsV TsV.Syn TsV.Outcome TsV.C07BE

/-! ## 0. the pieces that are unconditional -/

/-- **the ordering pass never panics and loses nothing**: `topsort` returns a permutation of the
items for every item list (`types.get(dep).unwrap()`, `get_index(..).expect(..)`, `graph[d]`,
`indices[i]`, `data.swap` are all in range; the fuel suffices) -/
theorem topsort_never_panics (items : List RustItem) :
    ∃ out, Deps.topsort items = some out ∧ out.Perm items := topsort_total items

/-- Go's `format_type` always returns (so the `unwrap()` at go.rs:333 cannot fire) -/
theorem go_formatType_total (cfg : Lang.Go.Cfg) (t : RustType) (st : Lang.Go.Imports) :
    ∃ r, Lang.Go.formatType cfg t st = .ok r := Go.formatType_ok cfg t st

/-- `convert_acronyms_to_uppercase` returns for **every** name under `Go.cfgOk` -/
theorem go_acronyms_total (U : UnicodeOps) (cfg : Lang.Go.Cfg) (h : Go.cfgOk U cfg = true) (name : Str) :
    ∃ r, Lang.Go.convertAcronyms U cfg.uppercaseAcronyms name = .ok r := Go.acr_ok U cfg h name

/-- with Rust's case mapping on ASCII, `Go.cfgOk` holds as soon as every `uppercase_acronyms` entry is ASCII -/
theorem go_cfgOk_of_ascii (U : UnicodeOps) (hU : U.AsciiCorrect) (cfg : Lang.Go.Cfg)
    (h : cfg.uppercaseAcronyms.all Go.asciiStr = true) : Go.cfgOk U cfg = true := Go.cfgOk_of_ascii hU h

/-! ## 1. the six back ends on arbitrary jobs -/

/-- Kotlin, Scala, Swift: no hypothesis at all -/
theorem kotlin_never_panics (E : Ext) (cfg : Lang.Kotlin.Cfg) (multi : Bool) (jobs : List Job) :
    NP (Lang.Kotlin.generateAll E cfg multi jobs) := Kotlin.generateAll_np E cfg multi jobs
theorem scala_never_panics (E : Ext) (cfg : Lang.Scala.Cfg) (multi : Bool) (jobs : List Job) :
    NP (Lang.Scala.generateAll E cfg multi jobs) := Scala.generateAll_np E cfg multi jobs
theorem swift_never_panics (E : Ext) (cfg : Lang.Swift.Cfg) (multi : Bool) (jobs : List Job) :
    NP (Lang.Swift.generateAll E cfg multi jobs) := Swift.generateAll_np E cfg multi jobs

/-! ### TypeScript -/
def TypeScript_full : Prop :=
  ∀ (E : Ext) (cfg : Lang.TypeScript.Cfg) (multi : Bool) (jobs : List Job),
    NP (Lang.TypeScript.generateAll E cfg multi jobs)

def exE : Ext := { U := .ascii, parseType := fun _ => none }
def mkId (n : Str) : Id := ⟨n, n, false⟩

/-- a job no parser run can produce: `struct A { x: u64 }` with the `u64` kept -/
def data64 : ParsedData :=
  { structs := [{ id := mkId s%"A", genericTypes := [], comments := [], decorators := {}, isRedacted := false,
                  fields := [{ id := mkId s%"x", ty := .prim .u64, comments := [], hasDefault := false,
                               decorators := [] }] }] }
def job64 : Job := (s%"c", data64, none)

/-- `panic!("64 bit types not allowed in Typeshare")` -/
theorem typescript_witness :
    Lang.TypeScript.generateAll exE {} false [job64] = .panic s%"typescript.rs:137" := by
  have ho : Pipeline.generateOrder data64 = some (itemsOf data64) := generateOrder_trivial (by decide +kernel)
  simp only [Lang.TypeScript.generateAll, job64, Lang.TypeScript.generateFrom, Lang.TypeScript.generate, ho]
  decide +kernel

theorem TypeScript_not_full : ¬ TypeScript_full := by
  intro h
  have := h exE {} false [job64]
  rw [typescript_witness] at this
  exact absurd this (by simp [NP, Outcome.isPanic])

/-- TypeScript never panics on jobs whose types contain no 64-bit primitive -/
theorem TypeScript_partial (E : Ext) (cfg : Lang.TypeScript.Cfg) (multi : Bool) (jobs : List Job)
    (h : jobsNo64 jobs = true) : NP (Lang.TypeScript.generateAll E cfg multi jobs) :=
  TypeScript.generateAll_np E cfg multi jobs h

/-! ### Python -/
def Python_full : Prop :=
  ∀ (E : Ext) (cfg : Lang.Python.Cfg) (multi : Bool) (jobs : List Job),
    NP (Lang.Python.generateAll E cfg multi jobs)

/-- a job no parser run can produce: a `RustEnum::Unit` holding a tuple variant -/
def dataBadUnit : ParsedData :=
  { enums := [{ keys := none, id := mkId s%"E", genericTypes := [], comments := [], decorators := {},
                isRecursive := false, isRedacted := false,
                variants := [.tuple (mkId s%"V") [] (.prim .u32)] }] }
def jobBadUnit : Job := (s%"c", dataBadUnit, none)

theorem badUnit_order : Pipeline.generateOrder dataBadUnit = some (itemsOf dataBadUnit) :=
  generateOrder_trivial (by decide +kernel)

/-- the `unreachable!()` of `write_enum` -/
theorem python_witness : Lang.Python.generateAll exE {} false [jobBadUnit] = .panic s%"python.rs:368" := by
  simp only [Lang.Python.generateAll, jobBadUnit, Lang.Python.generateFrom, Lang.Python.generate, badUnit_order]
  decide +kernel

theorem Python_not_full : ¬ Python_full := by
  intro h
  have := h exE {} false [jobBadUnit]
  rw [python_witness] at this
  exact absurd this (by simp [NP, Outcome.isPanic])

/-- Python never panics on jobs whose unit enums hold unit variants only -/
theorem Python_partial (E : Ext) (cfg : Lang.Python.Cfg) (multi : Bool) (jobs : List Job)
    (h : jobsUnitOk jobs = true) : NP (Lang.Python.generateAll E cfg multi jobs) :=
  Python.generateAll_np E cfg multi jobs h

/-! ### Go -/
def Go_full : Prop :=
  ∀ (E : Ext) (cfg : Lang.Go.Cfg) (multi : Bool) (jobs : List Job),
    NP (Lang.Go.generateAll E cfg multi jobs)

/-- the open finding `go-nonascii-acronym`: `uppercase_acronyms = ["ü"]` and a type named `ü` -/
def goCfgBad : Lang.Go.Cfg := { package := s%"p", uppercaseAcronyms := [s%"ü"] }
def dataUmlaut : ParsedData :=
  { structs := [{ id := mkId s%"ü", genericTypes := [], comments := [], decorators := {},
                  isRedacted := false, fields := [] }] }
def jobUmlaut : Job := (s%"c", dataUmlaut, none)

/-- the job is well formed — the panic is the configuration's -/
example : jobsNo64 [jobUmlaut] = true ∧ jobsUnitOk [jobUmlaut] = true := by decide

/-- `replace_range(0..1)` inside the two-byte `ü`: `is_char_boundary` assertion, go.rs:600 -/
theorem go_acronym_witness :
    Lang.Go.generateAll exE goCfgBad false [jobUmlaut] = .panic s%"go.rs:600" := by
  have ho : Pipeline.generateOrder dataUmlaut = some (itemsOf dataUmlaut) :=
    generateOrder_trivial (by decide +kernel)
  simp only [Lang.Go.generateAll, jobUmlaut, Lang.Go.generateFrom, Lang.Go.generate, ho]
  decide +kernel

theorem Go_not_full : ¬ Go_full := by
  intro h
  have := h exE goCfgBad false [jobUmlaut]
  rw [go_acronym_witness] at this
  exact absurd this (by simp [NP, Outcome.isPanic])

/-- neither hypothesis of `Go_partial` can be dropped: the acronym condition (above, on a well-formed
job) and the unit-enum condition (here, with no acronyms configured at all) -/
theorem go_unit_witness : Lang.Go.generateAll exE {} false [jobBadUnit] = .panic s%"go.rs:301" := by
  simp only [Lang.Go.generateAll, jobBadUnit, Lang.Go.generateFrom, Lang.Go.generate, badUnit_order]
  decide +kernel

/-- Go never panics when the acronyms are `cfgOk` and unit enums hold unit variants only -/
theorem Go_partial (E : Ext) (cfg : Lang.Go.Cfg) (multi : Bool) (jobs : List Job)
    (hc : Go.cfgOk E.U cfg = true) (h : jobsUnitOk jobs = true) :
    NP (Lang.Go.generateAll E cfg multi jobs) := Go.generateAll_np E cfg multi jobs hc h

/-! ## 2. the whole run -/

/-- what the parser and the glue hand to the back ends is well formed (so the `jobsNo64` /
`jobsUnitOk` hypotheses above are met in every run) -/
theorem crates_well_formed (E : Ext) (ctx : ParseContext) (pick : List ImportedType → Option ImportedType)
    (files : List Generate.SourceFile) (arrivals : List ParsedData)
    (h : Generate.parseAll E ctx pick files = .ok arrivals) :
    ∀ p ∈ Pipeline.reconcile (Pipeline.collect arrivals), dataNo64 p.2 = true ∧ dataUnitOk p.2 = true :=
  fun p hp => ⟨(crates_wf E ctx pick files arrivals h p hp).no64, (crates_wf E ctx pick files arrivals h p hp).unitOk⟩

/-- **C07 for the in-process pipeline at full strength**: no input, configuration or language makes
`generate_types` panic -/
def Run_full : Prop :=
  ∀ (E : Ext) (lang : Generate.LangCfg) (multi : Bool) (targetOs : List Str)
    (pick : List ImportedType → Option ImportedType) (files : List Generate.SourceFile),
    NP (Generate.run E lang multi targetOs pick files)

def tsAttr : Attr := ⟨.path [s%"typeshare"]⟩

/-- `#[typeshare] struct ü;` -/
def fileUmlaut : Generate.SourceFile :=
  { crateName := s%"c", fileName := s%"a.rs", path := s%"a.rs",
    file := { attrs := [], marker := true, items := [.struct [tsAttr] s%"ü" [] .unit] } }

/-- the same finding end to end, from source text to panic -/
theorem run_go_witness :
    (Generate.run exE (.go goCfgBad) false [] (fun l => l.head?) [fileUmlaut]).isPanic = true := by
  rw [run_go_eval _ _ _ _ _ _ (by decide +kernel)]
  decide +kernel

theorem run_not_full : ¬ Run_full := by
  intro h
  have := h exE (.go goCfgBad) false [] (fun l => l.head?) [fileUmlaut]
  rw [NP, run_go_witness] at this
  exact absurd this (by decide)

/-- the narrow, decidable class of configurations outside the theorem: the target is Go and some
`uppercase_acronyms` entry is not `acronymOk` -/
def Known_goAcronym (E : Ext) (lang : Generate.LangCfg) : Prop := GoOk E lang = false

instance (E : Ext) (lang : Generate.LangCfg) : Decidable (Known_goAcronym E lang) := by
  unfold Known_goAcronym; infer_instance

/-- **the whole pipeline never panics** — for every set of source files `syn` accepts, single- or
multi-file mode, every `--target-os` list, every hash-order choice `pick`, all six languages and every
configuration, except a Go configuration with a non-`acronymOk` acronym -/
theorem run_never_panics (E : Ext) (lang : Generate.LangCfg) (multi : Bool) (targetOs : List Str)
    (pick : List ImportedType → Option ImportedType) (files : List Generate.SourceFile)
    (hgo : GoOk E lang = true) : NP (Generate.run E lang multi targetOs pick files) :=
  run_np E lang multi targetOs pick files hgo

theorem Run_partial (E : Ext) (lang : Generate.LangCfg) (multi : Bool) (targetOs : List Str)
    (pick : List ImportedType → Option ImportedType) (files : List Generate.SourceFile)
    (hk : ¬ Known_goAcronym E lang) : NP (Generate.run E lang multi targetOs pick files) :=
  run_never_panics E lang multi targetOs pick files (by
    unfold Known_goAcronym at hk; cases h : GoOk E lang <;> simp_all)

/-- for the five other languages there is no hypothesis -/
theorem run_never_panics_nonGo (E : Ext) (lang : Generate.LangCfg) (multi : Bool) (targetOs : List Str)
    (pick : List ImportedType → Option ImportedType) (files : List Generate.SourceFile)
    (h : ∀ cfg, lang ≠ .go cfg) : NP (Generate.run E lang multi targetOs pick files) := by
  apply run_never_panics
  cases lang with
  | go cfg => exact absurd rfl (h cfg)
  | _ => rfl

/-- for Go with Rust's case mapping on ASCII: ASCII acronyms suffice -/
theorem run_never_panics_go_ascii (E : Ext) (hU : E.U.AsciiCorrect) (cfg : Lang.Go.Cfg)
    (hc : cfg.uppercaseAcronyms.all Go.asciiStr = true) (multi : Bool) (targetOs : List Str)
    (pick : List ImportedType → Option ImportedType) (files : List Generate.SourceFile) :
    NP (Generate.run E (.go cfg) multi targetOs pick files) :=
  run_never_panics E (.go cfg) multi targetOs pick files (Go.cfgOk_of_ascii hU hc)

/-! ## 3. non-vacuity -/

def goCfgGood : Lang.Go.Cfg := { package := s%"p", uppercaseAcronyms := [s%"id", s%"url", s%"API"] }

/-- the hypothesis is met by an ordinary configuration -/
example : GoOk exE (.go goCfgGood) = true := by decide +kernel
example : goCfgGood.uppercaseAcronyms.all Go.asciiStr = true := by decide
example : Known_goAcronym exE (.go goCfgBad) := by decide +kernel

def serdeTC : Attr :=
  ⟨.list [s%"serde"] true [.nameValue [s%"tag"] (some (.str s%"t")), .nameValue [s%"content"] (some (.str s%"c"))]⟩
def src (items : List Item) : Generate.SourceFile :=
  { crateName := s%"c", fileName := s%"a.rs", path := s%"a.rs", file := { attrs := [], marker := true, items } }

/-- `struct UserId { id: u32, tags: Vec<String> }` -/
def fileStruct : Generate.SourceFile :=
  src [.struct [tsAttr] s%"UserId" [] (.named [⟨[], some s%"id", .path [] s%"u32" []⟩,
         ⟨[], some s%"tags", .path [] s%"Vec" [.path [] s%"String" []]⟩])]
/-- `enum Color { Red, Green }` -/
def fileUnitEnum : Generate.SourceFile :=
  src [.enum [tsAttr] s%"Color" [] [⟨[], s%"Red", .unit⟩, ⟨[], s%"Green", .unit⟩]]
/-- `#[serde(tag = "t", content = "c")] enum Shape { Dot, Circle(f32), Rect { w: u32 } }` -/
def fileAlgEnum : Generate.SourceFile :=
  src [.enum [tsAttr, serdeTC] s%"Shape" []
         [⟨[], s%"Dot", .unit⟩, ⟨[], s%"Circle", .unnamed [⟨[], none, .path [] s%"f32" []⟩]⟩,
          ⟨[], s%"Rect", .named [⟨[], some s%"w", .path [] s%"u32" []⟩]⟩]]

/-- the theorem is not about runs that fail anyway: whole Go runs that succeed — through the acronym
pass (`UserID`, `ID`), the `unreachable!()` of unit enums and the `unwrap()` of tuple variants -/
example : (match Generate.run exE (.go goCfgGood) false [] (fun l => l.head?) [fileStruct] with
    | .ok (.outputs [(_, text)]) => text == s%"package p\n\nimport \"encoding/json\"\n\ntype UserID struct {\n\tID uint32 `json:\"id\"`\n\tTags []string `json:\"tags\"`\n}\n"
    | _ => false) = true := by
  rw [run_go_eval _ _ _ _ _ _ (by decide +kernel)]
  decide +kernel
example : (Generate.run exE (.go goCfgGood) false [] (fun l => l.head?) [fileUnitEnum]).isOk = true := by
  rw [run_go_eval _ _ _ _ _ _ (by decide +kernel)]
  decide +kernel
example : (Generate.run exE (.go goCfgGood) true [] (fun l => l.head?) [fileAlgEnum]).isOk = true := by
  rw [run_go_eval _ _ _ _ _ _ (by decide +kernel)]
  decide +kernel

/-- what the parser hands on for the three files, as jobs for the other back ends -/
def jobOf (f : Generate.SourceFile) : Job :=
  match getOk (Generate.parseAll exE {} (fun l => l.head?) [f]) with
  | [d] => (s%"c", d, none)
  | _ => default

/-- …and they succeed in the five other languages -/
theorem order_struct : Pipeline.generateOrder (jobOf fileStruct).2.1 = some (itemsOf (jobOf fileStruct).2.1) :=
  generateOrder_trivial (by decide +kernel)
theorem order_alg : Pipeline.generateOrder (jobOf fileAlgEnum).2.1 = some (itemsOf (jobOf fileAlgEnum).2.1) :=
  generateOrder_trivial (by decide +kernel)
example : (Lang.TypeScript.generateAll exE {} false [(s%"c", (jobOf fileAlgEnum).2.1, none)]).isOk = true := by
  simp only [Lang.TypeScript.generateAll, Lang.TypeScript.generateFrom, Lang.TypeScript.generate, order_alg]
  decide +kernel
example : (Lang.Python.generateAll exE {} false [(s%"c", (jobOf fileAlgEnum).2.1, none)]).isOk = true := by
  simp only [Lang.Python.generateAll, Lang.Python.generateFrom, Lang.Python.generate, order_alg]
  decide +kernel
example : (Lang.Kotlin.generateAll exE { package := s%"p" } false [(s%"c", (jobOf fileAlgEnum).2.1, none)]).isOk = true := by
  simp only [Lang.Kotlin.generateAll, Lang.Kotlin.generateFrom, Lang.Kotlin.generate, order_alg]
  decide +kernel
example : (Lang.Swift.generateAll exE {} false [(s%"c", (jobOf fileStruct).2.1, none)]).isOk = true := by
  simp only [Lang.Swift.generateAll, Lang.Swift.generateFrom, Lang.Swift.generate, order_struct]
  decide +kernel
example : (Lang.Scala.generateAll exE { package := s%"p" } false [jobOf fileAlgEnum]).isOk = true := by
  decide +kernel

/-- the acronym pass really runs in the Go example -/
example : Lang.Go.convertAcronyms .ascii goCfgGood.uppercaseAcronyms s%"UserId" = .ok s%"UserID" := by
  decide +kernel

/-- a `u64` field is a parse *error* (reported by `check_parse_errors`), never the TypeScript panic -/
def file64 : Generate.SourceFile :=
  src [.struct [tsAttr] s%"A" [] (.named [⟨[], some s%"x", .path [] s%"u64" []⟩])]
example : (match Generate.run exE (.go goCfgGood) false [] (fun l => l.head?) [file64] with
    | .ok (.parseErrors [(e, _)]) => e == .unsupportedType
    | _ => false) = true := by
  rw [run_go_eval _ _ _ _ _ _ (by decide +kernel)]
  decide +kernel
example : ((getOk (Generate.parseAll exE {} (fun l => l.head?) [file64])).map fun d =>
    (d.structs.length, d.errors.map (·.1))) = [(0, [.unsupportedType])] := by decide +kernel

/-- the well-formedness predicates on a non-trivial job -/
def jobOk : Job :=
  (s%"c", { structs := [{ id := mkId s%"A", genericTypes := [s%"T"], comments := [], decorators := {}, isRedacted := false,
                          fields := [{ id := mkId s%"x", ty := .vec (.option (.prim .u32)), comments := [],
                                       hasDefault := false, decorators := [] },
                                     { id := mkId s%"m", ty := .hashMap (.prim .string) (.generic s%"B" [.simple s%"T"]),
                                       comments := [], hasDefault := true, decorators := [] }] }],
            enums := [{ keys := none, id := mkId s%"E", genericTypes := [], comments := [], decorators := {},
                        isRecursive := false, isRedacted := false,
                        variants := [.unit (mkId s%"V") [], .unit (mkId s%"W") []] },
                      { keys := some (s%"t", s%"c"), id := mkId s%"F", genericTypes := [], comments := [],
                        decorators := {}, isRecursive := false, isRedacted := false,
                        variants := [.unit (mkId s%"V") [], .tuple (mkId s%"W") [] (.prim .i54)] }] }, none)
example : jobsNo64 [jobOk] = true ∧ jobsUnitOk [jobOk] = true := by decide
example : jobsNo64 [job64] = false := by decide
example : jobsUnitOk [jobBadUnit] = false := by decide

end TsV.C07_Backends
