import TsV.Lemmas.C06_Multi_Collect
import TsV.Lemmas.Outcome
import TsV.Props.C03
/-!
# C06_RepeatedNames — helper lemmas: the visitor over `xs ++ ys` is the merge of the visitor over `xs` and over `ys`

No hypothesis on the names of the items anywhere in this file.
-/
namespace TsV.C06_RepeatedNames
open TsV TsV.Pipeline TsV.Visitor TsV.Collect TsV.C06M

/-! ## `insertSet` folds -/

theorem mem_insertSet {α} [BEq α] [LawfulBEq α] (x y : α) (l : List α) : x ∈ insertSet y l ↔ x = y ∨ x ∈ l := by
  unfold insertSet
  by_cases h : l.contains y = true
  · simp only [h, if_true]
    constructor
    · exact .inr
    · rintro (rfl | h')
      · simpa using h
      · exact h'
  · simp only [h, Bool.false_eq_true, if_false, List.mem_append, List.mem_singleton]
    constructor
    · rintro (h' | h')
      · exact .inr h'
      · exact .inl h'
    · rintro (h' | h')
      · exact .inr h'
      · exact .inl h'

theorem mem_foldl_insertSet {α} [BEq α] [LawfulBEq α] (x : α) : ∀ (l acc : List α),
    x ∈ l.foldl (fun acc i => insertSet i acc) acc ↔ x ∈ acc ∨ x ∈ l
  | [], acc => by simp
  | y :: t, acc => by
    rw [List.foldl_cons, mem_foldl_insertSet x t, mem_insertSet, List.mem_cons]
    constructor
    · rintro ((h | h) | h)
      · exact .inr (.inl h)
      · exact .inl h
      · exact .inr (.inr h)
    · rintro (h | h | h)
      · exact .inl (.inr h)
      · exact .inl (.inl h)
      · exact .inr h

theorem insertSet_of_mem {α} [BEq α] [LawfulBEq α] {x : α} {l : List α} (h : x ∈ l) : insertSet x l = l := by
  unfold insertSet
  simp [h]

theorem insertSet_of_not_mem {α} [BEq α] [LawfulBEq α] {x : α} {l : List α} (h : x ∉ l) : insertSet x l = l ++ [x] := by
  unfold insertSet
  simp [h]

/-- inserting into the merged set = merging the set one has inserted into -/
theorem insertSet_foldl {α} [BEq α] [LawfulBEq α] (n : α) (acc l : List α) :
    insertSet n (l.foldl (fun acc i => insertSet i acc) acc) = (insertSet n l).foldl (fun acc i => insertSet i acc) acc := by
  by_cases h : n ∈ l
  · rw [insertSet_of_mem h, insertSet_of_mem ((mem_foldl_insertSet n l acc).2 (.inr h))]
  · rw [insertSet_of_not_mem h, List.foldl_append]
    rfl

theorem nodup_insertSet {α} [BEq α] [LawfulBEq α] (x : α) {l : List α} (h : l.Nodup) : (insertSet x l).Nodup := by
  by_cases hx : x ∈ l
  · rwa [insertSet_of_mem hx]
  · rw [insertSet_of_not_mem hx]
    exact List.nodup_append.2 ⟨h, (by simp : [x].Nodup), by
      intro a ha b hb
      simp only [List.mem_singleton] at hb
      subst hb
      exact fun e => hx (e ▸ ha)⟩

theorem nodup_foldl_insertSet {α} [BEq α] [LawfulBEq α] : ∀ (l acc : List α), acc.Nodup →
    (l.foldl (fun acc i => insertSet i acc) acc).Nodup
  | [], _, h => h
  | x :: t, acc, h => nodup_foldl_insertSet t _ (nodup_insertSet x h)

theorem foldl_insertSet_of_nodup {α} [BEq α] [LawfulBEq α] : ∀ (l acc : List α), (acc ++ l).Nodup →
    l.foldl (fun acc i => insertSet i acc) acc = acc ++ l
  | [], acc, _ => by simp
  | x :: t, acc, h => by
    have hx : x ∉ acc := by
      intro hm
      have := (List.nodup_append.1 h).2.2 x hm x List.mem_cons_self
      exact this rfl
    rw [List.foldl_cons, insertSet_of_not_mem hx, foldl_insertSet_of_nodup t (acc ++ [x]) (by simpa using h)]
    simp

/-! ## pushing into a merge -/

theorem push_addAssign (base d : ParsedData) (it : RustItem) : push (addAssign base d) it = addAssign base (push d it) := by
  cases it <;> simp [push, addAssign, insertSet_foldl, List.append_assoc]

theorem collectResult_addAssign (p : Str) (base d : ParsedData) (o : Outcome RustItem) :
    collectResult (addAssign base d) p o = (collectResult d p o).bind fun d' => .ok (addAssign base d') := by
  cases o with
  | ok it => simp [collectResult, push_addAssign]
  | err e => simp [collectResult, addAssign, List.append_assoc]
  | panic s => rfl

/-- **the fold of `collect_result` started from a merge is the merge with the fold** -/
theorem collectAll_addAssign (p : Str) (base : ParsedData) : ∀ (l : List (Outcome RustItem)) (d : ParsedData),
    C03.collectAll p (addAssign base d) l = (C03.collectAll p d l).bind fun d' => .ok (addAssign base d')
  | [], d => rfl
  | o :: os, d => by
    simp only [C03.collectAll]
    rw [collectResult_addAssign]
    cases h : collectResult d p o with
    | ok d1 => simp [collectAll_addAssign p base os d1]
    | err e => rfl
    | panic s => rfl

/-- the start value of the visitor in single-file mode -/
def fresh (crateName fileName : Str) : ParsedData := { crateName, fileName, multiFile := false }

/-- what the fold never touches, and two invariants -/
structure Meta (d0 d : ParsedData) : Prop where
  crateName : d.crateName = d0.crateName
  fileName : d.fileName = d0.fileName
  multiFile : d.multiFile = d0.multiFile
  importTypes : d.importTypes = d0.importTypes

theorem collectResult_meta (p : Str) (d d' : ParsedData) (o : Outcome RustItem) (h : collectResult d p o = .ok d') :
    Meta d d' ∧ (d.typeNames.Nodup → d'.typeNames.Nodup) := by
  cases o with
  | ok it =>
    simp only [collectResult, Outcome.ok.injEq] at h
    subst h
    cases it <;> exact ⟨⟨rfl, rfl, rfl, rfl⟩, fun hn => nodup_insertSet _ hn⟩
  | err e =>
    simp only [collectResult, Outcome.ok.injEq] at h
    subst h
    exact ⟨⟨rfl, rfl, rfl, rfl⟩, id⟩
  | panic s => cases h

theorem collectAll_meta (p : Str) : ∀ (l : List (Outcome RustItem)) (d d' : ParsedData), C03.collectAll p d l = .ok d' →
    Meta d d' ∧ (d.typeNames.Nodup → d'.typeNames.Nodup)
  | [], d, d', h => by
    simp only [C03.collectAll, pure, Outcome.ok.injEq] at h
    subst h
    exact ⟨⟨rfl, rfl, rfl, rfl⟩, id⟩
  | o :: os, d, d', h => by
    simp only [C03.collectAll] at h
    obtain ⟨d1, h1, h2⟩ := (Outcome.bind_eq_ok _ _ _).1 h
    obtain ⟨m1, n1⟩ := collectResult_meta p d d1 o h1
    obtain ⟨m2, n2⟩ := collectAll_meta p os d1 d' h2
    exact ⟨⟨m2.crateName.trans m1.crateName, m2.fileName.trans m1.fileName, m2.multiFile.trans m1.multiFile,
      m2.importTypes.trans m1.importTypes⟩, fun hn => n2 (n1 hn)⟩

theorem addAssign_fresh (c fn : Str) (a : ParsedData) (h : Meta (fresh c fn) a) : addAssign a (fresh c fn) = a := by
  obtain ⟨h1, h2, h3, h4⟩ := h
  cases a
  simp only [fresh] at h1 h2 h3 h4
  simp [addAssign, fresh, h1, h2, h3]

/-- **splitting the list of outcomes**: folding over `l₁ ++ l₂` from the fresh value is folding over each part
from the fresh value and merging — for every outcome (a panic in the first part wins, as in one go) -/
theorem collectAll_split (p c fn : Str) (l1 l2 : List (Outcome RustItem)) :
    C03.collectAll p (fresh c fn) (l1 ++ l2) =
      (C03.collectAll p (fresh c fn) l1).bind fun a =>
        (C03.collectAll p (fresh c fn) l2).bind fun b => .ok (addAssign a b) := by
  rw [C03.collectAll_append]
  cases h : C03.collectAll p (fresh c fn) l1 with
  | ok a =>
    simp only [Outcome.bind_ok]
    have hm := (collectAll_meta p l1 _ a h).1
    conv => lhs; rw [← addAssign_fresh c fn a hm]
    exact collectAll_addAssign p a l2 (fresh c fn)
  | err e => rfl
  | panic s => rfl

theorem annotatedList_append (ctx : ParseContext) : ∀ xs ys : List Syn.Item,
    C03.annotatedList ctx (xs ++ ys) = C03.annotatedList ctx xs ++ C03.annotatedList ctx ys
  | [], ys => by simp [C03.annotatedList]
  | x :: xs, ys => by simp [C03.annotatedList, annotatedList_append ctx xs ys, List.append_assoc]

/-! ## the path is a label on the errors -/

/-- the same data with every error attributed to `q` -/
def relabel (q : Str) (d : ParsedData) : ParsedData := { d with errors := d.errors.map fun e => (e.1, q) }

theorem collectAll_relabel (p q : Str) : ∀ (l : List (Outcome RustItem)) (d : ParsedData),
    C03.collectAll q (relabel q d) l = (C03.collectAll p d l).bind fun d' => .ok (relabel q d')
  | [], d => rfl
  | o :: os, d => by
    simp only [C03.collectAll]
    cases o with
    | ok it =>
      have : push (relabel q d) it = relabel q (push d it) := by cases it <;> rfl
      simp only [collectResult, Outcome.bind_ok, this]
      exact collectAll_relabel p q os _
    | err e =>
      have : ({ relabel q d with errors := (relabel q d).errors ++ [(e, q)] } : ParsedData) =
          relabel q { d with errors := d.errors ++ [(e, p)] } := by simp [relabel]
      simp only [collectResult, Outcome.bind_ok, this]
      exact collectAll_relabel p q os _
    | panic s => rfl

/-! ## the collector on one crate -/

theorem addAssign_nil_assoc (d1 d2 : ParsedData) (hn : d1.typeNames.Nodup) (hi1 : d1.importTypes = [])
    (hi2 : d2.importTypes = []) :
    addAssign {} (addAssign d1 d2) = addAssign (addAssign {} d1) d2 := by
  have e1 : d1.typeNames.foldl (fun acc i => insertSet i acc) [] = d1.typeNames :=
    (foldl_insertSet_of_nodup d1.typeNames [] (by simpa using hn)).trans (by simp)
  have hnd : (d2.typeNames.foldl (fun acc i => insertSet i acc) d1.typeNames).Nodup := nodup_foldl_insertSet _ _ hn
  have e2 : (d2.typeNames.foldl (fun acc i => insertSet i acc) d1.typeNames).foldl (fun acc i => insertSet i acc) [] =
      d2.typeNames.foldl (fun acc i => insertSet i acc) d1.typeNames :=
    (foldl_insertSet_of_nodup _ [] (by simpa using hnd)).trans (by simp)
  simp [addAssign, hi1, hi2, e1, e2]

/-! ## the merge is associative; the collector -/

theorem foldl_insertSet_assoc {α} [BEq α] [LawfulBEq α] (v : List α) : ∀ (l2 l1 : List α),
    (l2.foldl (fun acc i => insertSet i acc) l1).foldl (fun acc i => insertSet i acc) v =
      l2.foldl (fun acc i => insertSet i acc) (l1.foldl (fun acc i => insertSet i acc) v)
  | [], _ => rfl
  | x :: t, l1 => by
    rw [List.foldl_cons, foldl_insertSet_assoc v t (insertSet x l1), ← insertSet_foldl, List.foldl_cons]

/-- **`AddAssign` is associative** (lists append, sets are inserted into in order, the last meta data win) -/
theorem addAssign_assoc (v d1 d2 : ParsedData) : addAssign v (addAssign d1 d2) = addAssign (addAssign v d1) d2 := by
  simp [addAssign, foldl_insertSet_assoc, List.append_assoc]

theorem upsert_split (d1 d2 : ParsedData) (hc : d2.crateName = d1.crateName) : ∀ m : List (Str × ParsedData),
    upsert m (addAssign d1 d2) = upsert (upsert m d1) d2
  | [] => by
    have e : (addAssign d1 d2).crateName = d1.crateName := hc
    simp only [upsert, e, hc, beq_self_eq_true, if_true]
    rw [addAssign_assoc]
  | (k, v) :: rest => by
    have e : (addAssign d1 d2).crateName = d1.crateName := hc
    simp only [upsert, e]
    by_cases h1 : (k == d1.crateName) = true
    · simp only [h1, if_true, upsert, hc]
      rw [addAssign_assoc]
    · simp only [h1, Bool.false_eq_true, if_false]
      by_cases h2 : Str.lt d1.crateName k = true
      · simp only [h2, if_true, upsert, hc, beq_self_eq_true]
        rw [addAssign_assoc]
      · simp only [h2, Bool.false_eq_true, if_false, upsert, hc, h1]
        rw [upsert_split d1 d2 hc rest]

/-- **the collector**: a merged result delivered once, or its two parts delivered one after the other, anywhere
in the stream of arrivals -/
theorem collect_split_general (pre post : List ParsedData) (d1 d2 : ParsedData) (hc : d2.crateName = d1.crateName) :
    collect (pre ++ addAssign d1 d2 :: post) = collect (pre ++ d1 :: d2 :: post) := by
  simp only [collect, List.foldl_append, List.foldl_cons, upsert_split d1 d2 hc]

/-! ## reconcile on maps that agree up to order — without unique names -/

/-- the rename table never gives two different new names to one (original name, crate) -/
def Agree (r : Renames) : Prop := ∀ e ∈ r, ∀ e' ∈ r, e.1 = e'.1 → e.2.1 = e'.2.1 → e.2.2 = e'.2.2

theorem renameOf_agree (r r' : Renames) (hp : r.Perm r') (ha : Agree r) (x c : Str) : renameOf r x c = renameOf r' x c := by
  unfold renameOf
  generalize hpd : (fun e : Str × Str × Str => e.1 == x && e.2.1 == c) = p
  have hkey : ∀ e, p e = true → e.1 = x ∧ e.2.1 = c := by
    intro e he
    rw [← hpd] at he
    simpa using he
  cases h1 : r.reverse.find? p with
  | none =>
    cases h2 : r'.reverse.find? p with
    | none => rfl
    | some e' =>
      have hm : e' ∈ r := hp.symm.subset (List.mem_reverse.1 (List.mem_of_find?_eq_some h2))
      have := List.find?_eq_none.1 h1 e' (List.mem_reverse.2 hm)
      exact absurd (List.find?_some h2) this
  | some e =>
    cases h2 : r'.reverse.find? p with
    | none =>
      have hm : e ∈ r' := hp.subset (List.mem_reverse.1 (List.mem_of_find?_eq_some h1))
      have := List.find?_eq_none.1 h2 e (List.mem_reverse.2 hm)
      exact absurd (List.find?_some h1) this
    | some e' =>
      have hm : e ∈ r := List.mem_reverse.1 (List.mem_of_find?_eq_some h1)
      have hm' : e' ∈ r := hp.symm.subset (List.mem_reverse.1 (List.mem_of_find?_eq_some h2))
      obtain ⟨a1, a2⟩ := hkey e (List.find?_some h1)
      obtain ⟨b1, b2⟩ := hkey e' (List.find?_some h2)
      simp only [Option.map_some]
      rw [ha e hm e' hm' (a1.trans b1.symm) (a2.trans b2.symm)]

theorem renEquiv_of_agree (r r' : Renames) (hp : r.Perm r') (ha : Agree r) : RenEquiv r r' :=
  fun x c => ⟨renameOf_agree r r' hp ha x c, hasRename_perm r r' hp x⟩

theorem flatMap_perm_congr {α β} {f g : α → List β} : ∀ {l : List α}, (∀ x ∈ l, (f x).Perm (g x)) →
    (l.flatMap f).Perm (l.flatMap g)
  | [], _ => .refl _
  | x :: t, h => by
    simp only [List.flatMap_cons]
    exact (h x List.mem_cons_self).append (flatMap_perm_congr fun y hy => h y (List.mem_cons_of_mem _ hy))

theorem sortBy_perm {α} (key : α → Str) (l : List α) : (sortBy key l).Perm l := List.mergeSort_perm _ _

/-- `reconcile_aliases` on two per-crate results that agree up to order, with equivalent rename tables: the
reconciled results agree up to order — no uniqueness of names needed -/
theorem reconcileOne_dataEq (r r' : Renames) (c : Str) (d d' : ParsedData) (he : DataEq d d') (hr : RenEquiv r r') :
    DataEq (reconcileOne r c d) (reconcileOne r' c d') := by
  have hres : ∀ id, resolveRenamed c r d.importTypes id = resolveRenamed c r' d'.importTypes id := fun id =>
    (resolve_congr_mem c r _ _ id he.imports).trans (resolve_equiv r r' hr c _ id)
  have hct : checkType c r d.importTypes = checkType c r' d'.importTypes := funext (checkType_congr hres)
  have hcf : checkField c r d.importTypes = checkField c r' d'.importTypes := by
    funext f; simp only [checkField, hct]
  have hcv : checkVariant c r d.importTypes = checkVariant c r' d'.importTypes := by
    funext v
    cases v with
    | unit i cs => rfl
    | tuple i cs ty => simp only [checkVariant, hct]
    | anonymousStruct i cs fs => simp only [checkVariant, hcf]
  refine ⟨?_, ?_, ?_, ?_, he.errors, he.imports, he.typeNames, he.crateName, he.fileName, he.multiFile⟩
  · simp only [reconcileOne, hcf]
    exact (sortBy_perm _ _).trans ((he.structs.map _).trans (sortBy_perm _ _).symm)
  · simp only [reconcileOne, hcv]
    exact (sortBy_perm _ _).trans ((he.enums.map _).trans (sortBy_perm _ _).symm)
  · simp only [reconcileOne, hct]
    exact (sortBy_perm _ _).trans ((he.aliases.map _).trans (sortBy_perm _ _).symm)
  · simp only [reconcileOne]
    exact (sortBy_perm _ _).trans (he.consts.trans (sortBy_perm _ _).symm)

theorem reconcile_mapEq' {m m' : List (Str × ParsedData)} (h : MapEq m m')
    (hr : RenEquiv (collectSerdeRenames m) (collectSerdeRenames m')) : MapEq (reconcile m) (reconcile m') := by
  rw [reconcile_eq, reconcile_eq]
  apply Rel₂.map
  apply Rel₂.imp h
  intro p q _ _ hpq
  refine ⟨hpq.1, ?_⟩
  show DataEq (reconcileOne _ p.1 p.2) (reconcileOne _ q.1 q.2)
  rw [← hpq.1]
  exact reconcileOne_dataEq _ _ p.1 p.2 q.2 hpq.2 hr

end TsV.C06_RepeatedNames
