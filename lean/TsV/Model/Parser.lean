import TsV.Model.RustTypes
import TsV.Model.Rename
import TsV.Model.TargetOs
/-!
# Model of `core/src/parser.rs`
-/
namespace TsV
open TsV.Syn

inductive Lang where
  | go | kotlin | scala | swift | typescript | python
deriving DecidableEq, Repr, Inhabited

structure Id where
  original : Str
  renamed : Str
  serdeRename : Bool
deriving Repr, Inhabited, DecidableEq

inductive FieldDecorator where
  | word (name : Str)
  | nameValue (name : Str) (value : Str)
deriving Repr, Inhabited, DecidableEq

/-- `HashMap<DecoratorKind, BTreeSet<String>>`: association list in the fixed kind order
swift, swiftGenericConstraints, kotlin; each value sorted and duplicate-free -/
structure DecoratorMap where
  swift : Option (List Str) := none
  swiftGenericConstraints : Option (List Str) := none
  kotlin : Option (List Str) := none
deriving Repr, Inhabited

structure RustField where
  id : Id
  ty : RustType
  comments : List Str
  hasDefault : Bool
  /-- `HashMap<SupportedLanguage, BTreeSet<FieldDecorator>>`, values sorted and duplicate-free -/
  decorators : List (Lang × List FieldDecorator)
deriving Repr, Inhabited

structure RustStruct where
  id : Id
  genericTypes : List Str
  fields : List RustField
  comments : List Str
  decorators : DecoratorMap
  isRedacted : Bool
deriving Repr, Inhabited

inductive RustEnumVariant where
  | unit (id : Id) (comments : List Str)
  | tuple (id : Id) (comments : List Str) (ty : RustType)
  | anonymousStruct (id : Id) (comments : List Str) (fields : List RustField)
deriving Repr, Inhabited

def RustEnumVariant.id : RustEnumVariant → Id
  | .unit i _ | .tuple i _ _ | .anonymousStruct i _ _ => i
def RustEnumVariant.comments : RustEnumVariant → List Str
  | .unit _ c | .tuple _ c _ | .anonymousStruct _ c _ => c

structure RustEnum where
  /-- `some (tag, content)` for `RustEnum::Algebraic` -/
  keys : Option (Str × Str)
  id : Id
  genericTypes : List Str
  comments : List Str
  variants : List RustEnumVariant
  decorators : DecoratorMap
  isRecursive : Bool
  isRedacted : Bool
deriving Repr, Inhabited

structure RustTypeAlias where
  id : Id
  genericTypes : List Str
  ty : RustType
  comments : List Str
  decorators : DecoratorMap
  isRedacted : Bool
deriving Repr, Inhabited

structure RustConst where
  id : Id
  ty : RustType
  expr : Nat          -- `RustConstExpr::Int(i128)`; literals are non-negative
deriving Repr, Inhabited

inductive RustItem where
  | struct (s : RustStruct)
  | enum (e : RustEnum)
  | alias (a : RustTypeAlias)
  | const (c : RustConst)
deriving Repr, Inhabited

def RustItem.originalName : RustItem → Str
  | .struct s => s.id.original
  | .enum e => e.id.original
  | .alias a => a.id.original
  | .const c => c.id.original

def RustItem.renamedName : RustItem → Str
  | .struct s => s.id.renamed
  | .enum e => e.id.renamed
  | .alias a => a.id.renamed
  | .const c => c.id.renamed

/-- external functions the parser uses -/
structure Ext where
  U : UnicodeOps
  /-- `syn::parse_str::<syn::Type>` on `serialized_as` strings -/
  parseType : Str → Option SynType
  /-- `convert_case::Casing::to_case(Case::Snake)` (used by the Python back end only) -/
  snakeCase : Str → Str := id

namespace Parser
open Rename TargetOs

def kTypeshare : Str := s%"typeshare"
def kSerde : Str := s%"serde"
def i128Max : Nat := 170141183460469231731687303715884105727

/-- `get_meta_items(attr, ident)` -/
def getMetaItems (a : Attr) (ident : Str) : List Meta :=
  match a.val with
  | .list segs true args => if segs == [ident] then args else []
  | _ => []

/-- `expr_to_string`: string literals only, trimmed -/
def exprToString (E : Ext) : Option Lit → Option Str
  | some (.str s) => some (E.U.trim s)
  | _ => none

/-- `get_name_value_meta_items(attrs, name, ident)` -/
def getNameValueMetaItems (E : Ext) (attrs : List Attr) (name ident : Str) : List Str :=
  attrs.flatMap fun a =>
    (getMetaItems a ident).filterMap fun m =>
      match m with
      | .nameValue segs v => if segs == [name] then exprToString E v else none
      | _ => none

def serdeRenameAll (E : Ext) (attrs : List Attr) : Option Str :=
  (getNameValueMetaItems E attrs s%"rename_all" kSerde).head?
def getSerializedAsType (E : Ext) (attrs : List Attr) : Option Str :=
  (getNameValueMetaItems E attrs s%"serialized_as" kTypeshare).head?
def serdeRename (E : Ext) (attrs : List Attr) : Option Str :=
  (getNameValueMetaItems E attrs s%"rename" kSerde).head?
def getTagKey (E : Ext) (attrs : List Attr) : Option Str :=
  (getNameValueMetaItems E attrs s%"tag" kSerde).head?
def getContentKey (E : Ext) (attrs : List Attr) : Option Str :=
  (getNameValueMetaItems E attrs s%"content" kSerde).head?

/-- `has_typeshare_annotation`: some attribute path has a segment `typeshare` -/
def hasTypeshareAnnotation (attrs : List Attr) : Bool :=
  attrs.any fun a => a.val.segs.any (· == kTypeshare)

/-- `get_ident`.  `rename_all_to_case` runs before `serde(rename)` is looked at. -/
def getIdent (E : Ext) (ident : Option Str) (attrs : List Attr) (renameAll : Option Str) : Outcome Id := do
  let original := match ident with
    | some i => Str.replaceSub i s%"r#" []
    | none => s%"???"
  let renamed ← renameAllToCase E.U original renameAll
  match serdeRename E attrs with
  | some s => pure ⟨original, s, true⟩
  | none => pure ⟨original, renamed, false⟩

/-- the lines of a doc string: `doc.replace("\r\n", "\n").split(['\n', '\r'])` — split at `\n`, `\r\n`
and lone `\r` (never empty: the empty string has one empty line) -/
def docLines : Str → List Str
  | [] => [[]]
  | c :: r =>
    if c = '\r' ∧ r.head? = some '\n' then docLines r
    else if c = '\n' ∨ c = '\r' then [] :: docLines r
    else match docLines r with
      | l :: ls => (c :: l) :: ls
      | [] => [[c]]

/-- `split_comment_lines`: every line trimmed -/
def splitCommentLines (U : UnicodeOps) (doc : Str) : List Str := (docLines doc).map U.trim

/-- the comment entries of the `#[doc = ".."]` strings of one item, in order: each string trimmed
(`expr_to_string`), then one entry per line -/
def docEntries (U : UnicodeOps) (docs : List Str) : List Str :=
  docs.flatMap fun d => splitCommentLines U (U.trim d)

/-- the string literals of the `doc` attributes (non-string values are ignored by `expr_to_string`) -/
def docStrings (attrs : List Attr) : List Str :=
  attrs.filterMap fun a =>
    match a.val with
    | .nameValue segs (some (.str s)) => if segs == [s%"doc"] then some s else none
    | _ => none

/-- `parse_comment_attrs` -/
def parseCommentAttrs (E : Ext) (attrs : List Attr) : List Str :=
  docEntries E.U (docStrings attrs)

def hasPathArg (a : Attr) (ident name : Str) : Bool :=
  (getMetaItems a ident).any fun m => match m with
    | .path segs => segs == [name]
    | _ => false

/-- the `skip` half of `is_skipped` -/
def skipMarked (attrs : List Attr) : Bool :=
  attrs.any fun a => hasPathArg a kSerde s%"skip" || hasPathArg a kTypeshare s%"skip"

/-- `is_skipped` (`none`: the target-os walk ran out of fuel — proved impossible) -/
def isSkipped (attrs : List Attr) (targetOs : List Str) : Bool :=
  skipMarked attrs || !((TargetOs.accept attrs targetOs).getD true)

def isRedacted (attrs : List Attr) : Bool := attrs.any fun a => hasPathArg a kTypeshare s%"redacted"
def serdeAttr (attrs : List Attr) (name : Str) : Bool := attrs.any fun a => hasPathArg a kSerde name
def serdeDefault (attrs : List Attr) : Bool := serdeAttr attrs s%"default"
def serdeFlatten (attrs : List Attr) : Bool := serdeAttr attrs s%"flatten"

/-- `SupportedLanguage::from_str` (case-insensitive via `to_lowercase`) -/
def langOfStr (E : Ext) (s : Str) : Option Lang :=
  let l := E.U.lowerStr s
  if l = s%"go" then some .go else if l = s%"kotlin" then some .kotlin
  else if l = s%"scala" then some .scala else if l = s%"swift" then some .swift
  else if l = s%"typescript" then some .typescript else if l = s%"python" then some .python
  else none

def FieldDecorator.lt : FieldDecorator → FieldDecorator → Bool
  | .word a, .word b => Str.lt a b
  | .word _, .nameValue _ _ => true
  | .nameValue _ _, .word _ => false
  | .nameValue a x, .nameValue b y => Str.lt a b || (a == b && Str.lt x y)

def insertSorted {α} (lt : α → α → Bool) (x : α) : List α → List α
  | [] => [x]
  | y :: ys => if lt x y then x :: y :: ys else if lt y x then y :: insertSorted lt x ys else y :: ys

/-- `BTreeSet` as a sorted duplicate-free list -/
def toSet {α} (lt : α → α → Bool) (xs : List α) : List α := xs.foldl (fun acc x => insertSorted lt x acc) []

/-- the custom decorator-list parser: every argument must be `ident` or `ident = "str"` -/
def decoratorArgs (E : Ext) (args : List Meta) : Option (List FieldDecorator) :=
  args.mapM fun m => match m with
    | .path [w] => some (.word w)
    | .nameValue [n] (some (.str v)) => some (.nameValue n (E.U.trim v))
    | _ => none

def langOrder : List Lang := [.go, .kotlin, .scala, .swift, .typescript, .python]

/-- the nested `typeshare(<language>(…))` lists of a field, in attribute order; a nested list whose
name is not a language is ignored (before the `fix:` commit 26c823b it panicked in
`ident.try_into().unwrap()`) -/
def decoratorLists (E : Ext) (attrs : List Attr) : List (Lang × List FieldDecorator) :=
  (attrs.flatMap fun a => getMetaItems a kTypeshare).filterMap fun m =>
    match m with
    | .list [name] _ args => (langOfStr E name).map fun l => (l, (decoratorArgs E args).getD [])
    | _ => none

/-- `get_field_decorators` -/
def getFieldDecorators (E : Ext) (attrs : List Attr) : List (Lang × List FieldDecorator) :=
  let pairs := decoratorLists E attrs
  langOrder.filterMap fun l =>
    let mine := pairs.filter (·.1 == l)
    if mine.isEmpty then none
    else some (l, toSet FieldDecorator.lt (mine.flatMap (·.2)))

/-- `str::split(',')` -/
def splitComma (s : Str) : List Str :=
  let rec go : Str → Str → List Str
    | [], cur => [cur.reverse]
    | c :: rest, cur => if c = ',' then cur.reverse :: go rest [] else go rest (c :: cur)
  go s []

/-- `get_decorators` -/
def getDecorators (E : Ext) (attrs : List Attr) : DecoratorMap :=
  let one (kind : Str) : Option (List Str) :=
    let vals := getNameValueMetaItems E attrs kind kTypeshare
    if vals.isEmpty then none
    else some (toSet Str.lt (vals.flatMap fun v => (splitComma v).map E.U.trim))
  { swift := one s%"swift", swiftGenericConstraints := one s%"swiftGenericConstraints",
    kotlin := one s%"kotlin" }

def genericTypes (gs : List GenericParam) : List Str :=
  gs.filterMap fun g => match g with
    | .type n => some n
    | _ => none

/-- a field's type: the `serialized_as` override or the written type -/
def fieldType (E : Ext) (attrs : List Attr) (ty : SynType) : Outcome RustType :=
  match getSerializedAsType E attrs with
  | some s => RustTypes.fromStr E.parseType s
  | none => RustTypes.tryFrom ty

/-- one named field of a struct or of a struct variant (`checkFlatten` is `true` at both call
sites since the `fix:` commit that made struct-variant fields reject `serde(flatten)` too) -/
def parseField (E : Ext) (checkFlatten : Bool) (renameAll : Option Str) (f : Field) : Outcome RustField := do
  let ty ← fieldType E f.attrs f.ty
  if checkFlatten && serdeFlatten f.attrs then .err .serdeFlattenNotAllowed
  else
    let id ← getIdent E f.ident f.attrs renameAll
    pure { id, ty, comments := parseCommentAttrs E f.attrs, hasDefault := serdeDefault f.attrs,
           decorators := getFieldDecorators E f.attrs }

def mkAlias (E : Ext) (ident : Str) (attrs : List Attr) (gens : List GenericParam) (ty : RustType) :
    Outcome RustItem := do
  let id ← getIdent E (some ident) attrs none
  pure (.alias { id, genericTypes := genericTypes gens, ty, comments := parseCommentAttrs E attrs,
                 decorators := getDecorators E attrs, isRedacted := isRedacted attrs })

def mkStruct (E : Ext) (ident : Str) (attrs : List Attr) (gens : List GenericParam)
    (fields : List RustField) : Outcome RustItem := do
  let id ← getIdent E (some ident) attrs none
  pure (.struct { id, genericTypes := genericTypes gens, fields, comments := parseCommentAttrs E attrs,
                  decorators := getDecorators E attrs, isRedacted := isRedacted attrs })

/-- the `serialized_as` hack on a struct or enum: the item becomes an alias of the given type -/
def serializedAlias (E : Ext) (ident : Str) (attrs : List Attr) (gens : List GenericParam) (s : Str) :
    Outcome RustItem := do
  let ty ← RustTypes.fromStr E.parseType s
  mkAlias E ident attrs gens ty

/-- `parse_struct` -/
def parseStruct (E : Ext) (targetOs : List Str) (attrs : List Attr) (ident : Str)
    (gens : List GenericParam) (fields : Fields) : Outcome RustItem :=
  match getSerializedAsType E attrs with
  | some s => serializedAlias E ident attrs gens s
  | none =>
    match fields with
    | .named fs => do
      let rfs ← Outcome.mapM' (parseField E true (serdeRenameAll E attrs))
        (fs.filter fun f => !isSkipped f.attrs targetOs)
      mkStruct E ident attrs gens rfs
    | .unnamed fs =>
      if fs.length > 1 then .err .complexTupleStruct
      else
        match fs with
        | [] => .err .unsupportedItem
        | f :: _ => do
          let ty ← fieldType E f.attrs f.ty
          mkAlias E ident attrs gens ty
    | .unit => mkStruct E ident attrs gens []

/-- `parse_enum_variant` -/
def parseEnumVariant (E : Ext) (targetOs : List Str) (enumRenameAll : Option Str) (v : Variant) :
    Outcome RustEnumVariant := do
  let id ← getIdent E (some v.ident) v.attrs enumRenameAll
  let comments := parseCommentAttrs E v.attrs
  match v.fields with
  | .unit => pure (.unit id comments)
  | .unnamed fs =>
    if fs.length > 1 then .err .multipleUnnamedAssociatedTypes
    else
      match fs with
      | [] => .err .unsupportedItem
      | f :: _ => do
        let ty ← fieldType E f.attrs f.ty
        pure (.tuple id comments ty)
  | .named fs => do
    let rfs ← Outcome.mapM' (parseField E true (serdeRenameAll E v.attrs))
      (fs.filter fun f => !isSkipped f.attrs targetOs)
    pure (.anonymousStruct id comments rfs)

def variantIsUnit : RustEnumVariant → Bool
  | .unit _ _ => true
  | _ => false

def variantRefs (name : Str) : RustEnumVariant → Bool
  | .unit _ _ => false
  | .tuple _ _ ty => ty.containsType name
  | .anonymousStruct _ _ fs => fs.any fun f => f.ty.containsType name

/-- unit or algebraic, and the `tag` / `content` requirements -/
def enumShape (E : Ext) (attrs : List Attr) (shared : RustEnum) : Outcome RustItem :=
  if shared.variants.all variantIsUnit then
    if (getTagKey E attrs).isSome then .err .serdeTagNotAllowed
    else if (getContentKey E attrs).isSome then .err .serdeContentNotAllowed
    else pure (.enum shared)
  else
    match getTagKey E attrs with
    | none => .err .serdeTagRequired
    | some tag =>
      match getContentKey E attrs with
      | none => .err .serdeContentRequired
      | some content => pure (.enum { shared with keys := some (tag, content) })

/-- `parse_enum` -/
def parseEnum (E : Ext) (targetOs : List Str) (attrs : List Attr) (ident : Str)
    (gens : List GenericParam) (variants : List Variant) : Outcome RustItem :=
  match getSerializedAsType E attrs with
  | some s => serializedAlias E ident attrs gens s
  | none => do
    let vs ← Outcome.mapM' (parseEnumVariant E targetOs (serdeRenameAll E attrs))
      (variants.filter fun v => !isSkipped v.attrs targetOs)
    let id ← getIdent E (some ident) attrs none
    enumShape E attrs
      { keys := none, id, genericTypes := genericTypes gens, comments := parseCommentAttrs E attrs,
        variants := vs, decorators := getDecorators E attrs,
        isRecursive := vs.any (variantRefs ident), isRedacted := isRedacted attrs }

/-- `parse_type_alias` -/
def parseTypeAlias (E : Ext) (attrs : List Attr) (ident : Str) (gens : List GenericParam)
    (ty : SynType) : Outcome RustItem := do
  let t ← fieldType E attrs ty
  mkAlias E ident attrs gens t

/-- `parse_const_expr`: only a plain integer literal is accepted (`init = none`: the initialiser
is some other expression) -/
def parseConstExpr (init : Option Lit) : Outcome Nat :=
  match init with
  | some (.int v _) => if v ≤ i128Max then pure v else .err .rustConstTypeInvalid
  | some _ => .err .rustConstTypeInvalid
  | none => .err .rustConstExprInvalid

def constTypeOk : RustType → Bool
  | .hashMap _ _ | .vec _ | .option _ => false
  | .array _ _ | .slice _ | .prim _ => true
  | .simple _ => true
  | .generic _ _ => false

/-- `parse_const` -/
def parseConst (E : Ext) (attrs : List Attr) (ident : Str) (ty : SynType) (init : Option Lit) :
    Outcome RustItem := do
  let expr ← parseConstExpr init
  let t ← fieldType E attrs ty
  if constTypeOk t then
    let id ← getIdent E (some ident) attrs none
    pure (.const { id, ty := t, expr })
  else .err .rustConstTypeInvalid

end Parser
end TsV
