import TsV.Model.Pipeline
/-!
# Shared pieces of the back-end models (`core/src/language/mod.rs`)
-/
namespace TsV.Lang
open TsV

/-- `HashMap<String,String>::get` on the configured type mappings (keys are unique) -/
def mapGet (m : List (Str × Str)) (k : Str) : Option Str := (m.find? (·.1 == k)).map (·.2)

def hexDigit (n : Nat) : Char :=
  if n < 10 then Char.ofNat ('0'.toNat + n) else Char.ofNat ('a'.toNat + (n - 10))

def hexOf (n : Nat) : Str :=
  if n < 16 then [hexDigit n]
  else if n < 256 then [hexDigit (n / 16), hexDigit (n % 16)]
  else (Nat.toDigits 16 n)

/-- `format!("{:?}", s)` for strings: `"`, `\`, `\n`, `\r`, `\t`, `\0` escaped, other ASCII control
characters as `\u{..}`; everything else (printable ASCII, and the non-ASCII letters of the
generators' alphabet, which are printable) is kept.  (`char::escape_debug` also escapes
grapheme-extending and non-printable code points; those are outside the alphabet.) -/
def debugStr (s : Str) : Str :=
  ['"'] ++ s.flatMap (fun c =>
    if c = '"' then ['\\', '"'] else if c = '\\' then ['\\', '\\']
    else if c = '\n' then ['\\', 'n'] else if c = '\r' then ['\\', 'r']
    else if c = '\t' then ['\\', 't'] else if c.toNat = 0 then ['\\', '0']
    else if c.toNat < 32 || c.toNat = 127 then s%"\\u{" ++ hexOf c.toNat ++ s%"}"
    else [c]) ++ ['"']

def tabs (n : Nat) : Str := List.replicate n '\t'
def nl : Str := ['\n']

def concat (l : List Str) : Str := l.flatten

/-- `Language::format_generic_parameters` default: `<A, B>` -/
def angle (ps : List Str) : Str := s%"<" ++ Str.intercalate s%", " ps ++ s%">"

/-- `(!generic_types.is_empty()).then(|| format!("<{}>", generic_types.join(", ")))` -/
def genericSuffix (gs : List Str) : Str := if gs.isEmpty then [] else angle gs

/-- `RustField::type_override(lang)` -/
def typeOverride (f : RustField) (l : Lang) : Option Str :=
  match f.decorators.find? (·.1 == l) with
  | some (_, fds) => fds.findSome? fun fd => match fd with
    | .nameValue n v => if n == s%"type" then some v else none
    | _ => none
  | none => none

def hasDecoratorNamed (f : RustField) (l : Lang) (name : Str) : Bool :=
  match f.decorators.find? (·.1 == l) with
  | some (_, fds) => fds.any fun fd => match fd with
    | .word n => n == name
    | .nameValue n _ => n == name
  | none => false

/-- the struct `write_types_for_anonymous_structs` synthesises for one struct variant -/
def anonymousStruct (e : RustEnum) (structName : Str) (variantOriginal : Str) (fields : List RustField) :
    RustStruct :=
  { id := ⟨structName, structName, false⟩,
    fields,
    genericTypes := (fields.flatMap fun f => e.genericTypes.filter fun g => f.ty.containsType g).eraseDups,
    comments := [s%"Generated type representing the anonymous struct variant `" ++ variantOriginal ++
      s%"` of the `" ++ e.id.original ++ s%"` Rust enum"],
    decorators := e.decorators,
    isRedacted := e.isRedacted }

/-- the struct variants of an enum, in order -/
def structVariants (e : RustEnum) : List (Id × List RustField) :=
  e.variants.filterMap fun v => match v with
    | .anonymousStruct id _ fs => some (id, fs)
    | _ => none

end TsV.Lang
