import TsV.Lemmas.Topsort
import TsV.Lemmas.TopsortOrder
import TsV.Lemmas.SortByIndices
import TsV.Model.Deps
/-!
# C11 — each definition once, after the definitions it uses

Statements about the model of `topsort.rs` (`toposort`, `sortByIndices`).
-/
namespace TsV.C11
open TsV.Topsort

theorem wfGraph_iff (g : List (List Nat)) :
    wfGraph g = true ↔ ∀ deps ∈ g, ∀ d ∈ deps, d < g.length := by
  simp [wfGraph, List.all_eq_true]

/-- **No panic, no divergence**: on every graph whose adjacency entries are nodes — cycles, self
loops and duplicate edges included — `toposort_impl` returns (the recursion-depth fuel handed in by
the caller suffices and `graph[d]` is never out of range). -/
theorem toposort_total (g : List (List Nat)) (hg : wfGraph g = true) : (toposort g).isSome := by
  unfold toposort
  rw [Option.isSome_map]
  apply inner_isSome g ((wfGraph_iff g).1 hg)
  · intro x hx; simpa using hx
  · simp
  · simp
  · simp

/-- **Permutation**: the order computed for *any* graph (cyclic or not) lists every node exactly
once — the early `return` on a cycle only abandons a nested adjacency list. -/
theorem toposort_perm (g : List (List Nat)) (hg : wfGraph g = true) (r : List Nat)
    (h : toposort g = some r) : r.Perm (List.range g.length) := by
  unfold toposort at h
  rw [Option.map_eq_some_iff] at h
  obtain ⟨st', hst, rfl⟩ := h
  obtain ⟨_, new, hr, hnd, _⟩ := inner_spec g _ _ _ _ hst
  simp only [List.nil_append] at hr
  rw [List.perm_ext_iff_of_nodup (hr ▸ hnd) List.nodup_range]
  intro a
  constructor
  · intro ha
    rcases inner_mem g _ _ _ _ hst a ha with h1 | h1 | ⟨deps, hd, hx⟩
    · simp at h1
    · exact h1
    · simpa using (wfGraph_iff g).1 hg deps hd a hx
  · intro ha
    exact inner_complete g _ _ _ _ hst rfl a ha

/-- `slice::swap` permutes -/
theorem swap_perm {α} (l l' : List α) (i j : Nat) (h : swap l i j = some l') : l'.Perm l := by
  unfold swap at h
  split at h
  · rename_i a b ha hb
    simp only [Option.some.injEq] at h
    subst h
    have hi : i < l.length := (List.getElem?_eq_some_iff.1 ha).1
    have hj : j < l.length := (List.getElem?_eq_some_iff.1 hb).1
    have ha' : l[i] = a := (List.getElem?_eq_some_iff.1 ha).2
    have hb' : l[j] = b := (List.getElem?_eq_some_iff.1 hb).2
    subst ha' hb'
    exact List.set_set_perm hi hj
  · simp at h

theorem cycleLoop_perm {α} : ∀ fuel (data : List α) ind cur data' ind',
    cycleLoop fuel data ind cur = some (data', ind') → data'.Perm data := by
  intro fuel
  induction fuel with
  | zero => intro data ind cur data' ind' h; simp [cycleLoop] at h
  | succ fuel ih =>
    intro data ind cur data' ind' h
    simp only [cycleLoop] at h
    split at h
    · simp at h
    · split at h
      · simp at h
      · split at h
        · simp only [Option.some.injEq, Prod.mk.injEq] at h; rw [← h.1]
        · split at h
          · simp at h
          · rename_i d2 hsw
            exact (ih _ _ _ _ _ h).trans (swap_perm _ _ _ _ hsw)

theorem outerLoop_perm {α} : ∀ (idxs : List Nat) (data : List α) ind data' ind',
    outerLoop idxs data ind = some (data', ind') → data'.Perm data := by
  intro idxs
  induction idxs with
  | nil => intro data ind data' ind' h; simp [outerLoop] at h; rw [← h.1]
  | cons i rest ih =>
    intro data ind data' ind' h
    simp only [outerLoop] at h
    split at h
    · simp at h
    · split at h
      · split at h
        · simp at h
        · rename_i d2 i2 hc
          exact (ih _ _ _ _ h).trans (cycleLoop_perm _ _ _ _ _ _ hc)
      · exact ih _ _ _ _ h

/-- **Nothing lost or duplicated by the in-place reordering**: whatever index vector it is given,
`sort_by_indices` only swaps, so its result is a permutation of its input. -/
theorem sortByIndices_perm {α} (data : List α) (idx : List Nat) (r : List α)
    (h : sortByIndices data idx = some r) : r.Perm data := by
  unfold sortByIndices at h
  rw [Option.map_eq_some_iff] at h
  obtain ⟨⟨d, i⟩, hd, rfl⟩ := h
  exact outerLoop_perm _ _ _ _ _ hd

/-! ### non-vacuity: the unit tests of `topsort.rs`, a self loop, a 3-cycle, a gather -/
example : toposort [[], [0], [0, 1]] = some [0, 1, 2] := by
  simp [toposort, inner, List.range, List.range.loop]
example : toposort [[1], [0], [1]] = some [1, 0, 2] := by
  simp [toposort, inner, List.range, List.range.loop]
example : wfGraph [[1], [0], [1]] = true := by decide
example : toposort [[0], [2], [1]] = some [0, 2, 1] := by
  simp [toposort, inner, List.range, List.range.loop]
example : sortByIndices [10, 11, 12] [1, 2, 0] = some [11, 12, 10] := by decide

end TsV.C11

namespace TsV.C11
open TsV.Topsort

/-- `j` is emitted before `i` -/
def Before (res : List Nat) (j i : Nat) : Prop := ∃ pre post, res = pre ++ i :: post ∧ j ∈ pre

/-- **Topological order**: when the dependency graph is acyclic, every node is emitted after all
the nodes it depends on (so that eagerly evaluated targets such as Python aliases and unions load). -/
theorem toposort_topological (g : List (List Nat)) (hac : Acyclic g) (r : List Nat)
    (h : toposort g = some r) : ∀ i j, i < g.length → Edge g i j → Before r j i := by
  unfold toposort at h
  rw [Option.map_eq_some_iff] at h
  obtain ⟨st', hst, rfl⟩ := h
  obtain ⟨ho, hc⟩ := inner_ord g hac _ _ _ _ hst (by intro s hs; simp at hs) (by
    intro pre i post h; simp at h)
  intro i j hi ⟨deps, hd, hj⟩
  have hmem : i ∈ st'.res := hc i (by simpa using hi)
  obtain ⟨pre, post, hsplit⟩ := List.append_of_mem hmem
  exact ⟨pre, post, hsplit, ho pre i post hsplit deps hd j hj⟩

/-- with the permutation theorem: each node exactly once *and* after its dependencies -/
theorem toposort_acyclic_spec (g : List (List Nat)) (hg : wfGraph g = true) (hac : Acyclic g) :
    ∃ r, toposort g = some r ∧ r.Perm (List.range g.length) ∧
      ∀ i j, i < g.length → Edge g i j → Before r j i := by
  obtain ⟨r, hr⟩ := Option.isSome_iff_exists.mp (toposort_total g hg)
  exact ⟨r, hr, toposort_perm g hg r hr, toposort_topological g hac r hr⟩

/-- non-vacuity: the diamond 3 → {1,2} → 0 is acyclic and sorted dependencies-first -/
example : toposort [[], [0], [0], [1, 2]] = some [0, 1, 2, 3] := by
  simp [toposort, inner, List.range, List.range.loop]

end TsV.C11

namespace TsV.C11
open TsV.Topsort

/-- **`sort_by_indices` is a gather** (and hence loses or duplicates nothing): for every index vector
that is a permutation of the positions the in-place cycle-following loop terminates without an
index panic, and position `i` of the result holds `data[indices[i]]`. -/
theorem sortByIndices_gather {α} (data : List α) (idx : List Nat)
    (hperm : idx.Perm (List.range data.length)) :
    ∃ r, sortByIndices data idx = some r ∧ r.length = data.length ∧
      ∀ i : Nat, r[i]? = (idx[i]?).bind fun v => data[v]? :=
  Topsort.sortByIndices_gather data idx hperm

theorem option_mapM_length {α β} (f : α → Option β) : ∀ (l : List α) (r : List β),
    l.mapM f = some r → r.length = l.length
  | [], r, h => by simp at h; subst h; rfl
  | a :: t, r, h => by
    simp only [List.mapM_cons] at h
    cases hfa : f a with
    | none => simp [hfa] at h
    | some b =>
      cases ht : t.mapM f with
      | none => simp [hfa, ht] at h
      | some bs =>
        simp [hfa, ht] at h; subst h
        simp [option_mapM_length f t bs ht]

/-- **the ordering pass end to end**: whenever the dependency graph built from the items is acyclic,
`topsort` returns the items rearranged by an order that lists every item exactly once and every
item after all items it depends on. -/
theorem topsort_items (items : List RustItem) (g : List (List Nat)) (hg : Deps.graph items = some g)
    (hwf : wfGraph g = true) (hac : Acyclic g) :
    ∃ out order, Deps.topsort items = some out ∧ order.Perm (List.range items.length) ∧
      out.length = items.length ∧ (∀ k : Nat, out[k]? = (order[k]?).bind fun v => items[v]?) ∧
      ∀ i j, i < items.length → Edge g i j → Before order j i := by
  have hlen : g.length = items.length := by
    unfold Deps.graph at hg; exact option_mapM_length _ _ _ hg
  obtain ⟨order, ho, hperm, htop⟩ := toposort_acyclic_spec g hwf hac
  rw [hlen] at hperm
  obtain ⟨out, hs, hl, hget⟩ := sortByIndices_gather items order hperm
  refine ⟨out, order, ?_, hperm, hl, hget, fun i j hi he => htop i j (by omega) he⟩
  simp [Deps.topsort, hg, ho, hs]

/-- and for *every* graph (cycles included) nothing is lost or duplicated -/
theorem topsort_perm (items : List RustItem) (g : List (List Nat)) (hg : Deps.graph items = some g)
    (hwf : wfGraph g = true) : ∃ out, Deps.topsort items = some out ∧ out.Perm items := by
  have hlen : g.length = items.length := by
    unfold Deps.graph at hg; exact option_mapM_length _ _ _ hg
  obtain ⟨order, ho⟩ := Option.isSome_iff_exists.mp (toposort_total g hwf)
  have hperm := toposort_perm g hwf order ho
  rw [hlen] at hperm
  obtain ⟨out, hs, _, _⟩ := sortByIndices_gather items order hperm
  exact ⟨out, by simp [Deps.topsort, hg, ho, hs], sortByIndices_perm items order out hs⟩

end TsV.C11

namespace TsV.C11
open TsV.Topsort

theorem option_mapM_mem {α β} (f : α → Option β) : ∀ (l : List α) (r : List β),
    l.mapM f = some r → ∀ b ∈ r, ∃ a ∈ l, f a = some b
  | [], r, h, b, hb => by simp at h; subst h; simp at hb
  | a :: t, r, h, b, hb => by
    simp only [List.mapM_cons] at h
    cases hfa : f a with
    | none => simp [hfa] at h
    | some b0 =>
      cases ht : t.mapM f with
      | none => simp [hfa, ht] at h
      | some bs =>
        simp [hfa, ht] at h; subst h
        simp only [List.mem_cons] at hb
        rcases hb with rfl | hb
        · exact ⟨a, by simp, hfa⟩
        · obtain ⟨a', ha', hf'⟩ := option_mapM_mem f t bs ht b hb
          exact ⟨a', by simp [ha'], hf'⟩

/-- the graph `topsort` builds only mentions positions of the item list (`get_index` found them
there), so the two theorems above apply to every item list for which the graph exists -/
theorem graph_wf (items : List RustItem) (g : List (List Nat)) (hg : Deps.graph items = some g) :
    wfGraph g = true := by
  have hlen : g.length = items.length := by
    unfold Deps.graph at hg; exact option_mapM_length _ _ _ hg
  rw [wfGraph_iff]
  intro deps hdeps d hd
  unfold Deps.graph at hg
  obtain ⟨it, _, hit⟩ := option_mapM_mem _ _ _ hg deps hdeps
  obtain ⟨dep, _, hdep⟩ := option_mapM_mem _ _ _ hit d hd
  cases hl : Deps.lookup items dep with
  | none => simp [hl] at hdep
  | some thing =>
    simp only [hl, Option.bind_some, Deps.getIndex] at hdep
    have := (List.findIdx?_eq_some_iff_findIdx_eq.1 hdep).1
    omega

end TsV.C11
