import TsV.Props.C11
import TsV.Lemmas.C11_Coverage
/-!
# C11, coverage half — the graph `get_dependencies` builds contains every reference

`Props/C11.lean` shows that `toposort_impl` orders any *acyclic graph* dependencies-first.  This file
connects that graph to the program: it states what "item `i` refers to item `j`" means (trusted
specification, §1) and proves about the model `Deps.depsItem` / `Deps.depsType` / `Deps.graph`:

* `seen_empty_after_item`, `seen_restored_type`, `seen_restored_item`, `quirk_harmless` — state
  restoration of the `seen` set (§3);
* `coverage : Coverage_full` — every reference is an edge of the graph (§4), unconditionally in the
  shape of the types (no acyclicity needed);
* `edge_sound`, `graph_acyclic` — every edge is a chain of references (§5);
* `graph_total` — `get_index(...).expect(..)` / `types.get(dep).unwrap()` never panic (§5);
* `C11_order : C11_order_full` — end to end on `Deps.topsort` (§6).

Model state: `get_dependencies_from_type` walks the arguments of `G<args>` unconditionally (after the
repair of the two classes "head is not an item" / "head already on the path", which an earlier
version of this file isolated as `Known_droppedArgs`; they are regression examples in §8 now).
-/
namespace TsV.C11
open TsV TsV.Deps TsV.Topsort

/-! ## 1. Trusted specification: the direct reference relation of a program -/

mutual
  /-- every `Simple` / `Generic` name occurring anywhere in a type (under `Vec`, arrays, slices,
  `Option`, both sides of `HashMap`, generic arguments at any depth) -/
  def refsType : RustType → List Str
    | .simple id => [id]
    | .generic id ps => id :: refsTypes ps
    | .vec t | .array t _ | .slice t | .option t => refsType t
    | .hashMap k v => refsType k ++ refsType v
    | .prim _ => []
  def refsTypes : List RustType → List Str
    | [] => []
    | t :: ts => refsType t ++ refsTypes ts
end

/-- the types an item mentions: all field types of a struct; tuple payloads and struct-variant field
types of an algebraic enum (a unit enum has none); the target of an alias; the type of a const -/
def itemTypes : RustItem → List RustType
  | .struct s => s.fields.map (·.ty)
  | .enum e =>
    match e.keys with
    | none => []
    | some _ => e.variants.flatMap fun v => match v with
      | .tuple _ _ ty => [ty]
      | .anonymousStruct _ _ fs => fs.map (·.ty)
      | .unit _ _ => []
  | .alias a => [a.ty]
  | .const c => [c.ty]

/-- the names an item refers to -/
def refsItem (it : RustItem) : List Str := (itemTypes it).flatMap refsType

def refersB (items : List RustItem) (i j : Nat) : Bool :=
  match items[i]?, items[j]? with
  | some a, some b => (refsItem a).contains b.originalName
  | _, _ => false

/-- item `i` mentions the original name of item `j` (`i = j` allowed: a self reference is a cycle) -/
def Refers (items : List RustItem) (i j : Nat) : Prop := refersB items i j = true

/-- a chain of at least one reference -/
inductive RefReach (items : List RustItem) : Nat → Nat → Prop
  | single {a b} : Refers items a b → RefReach items a b
  | step {a b c} : RefReach items a b → Refers items b c → RefReach items a c

/-- the reference relation of the program has no cycle (in particular no item mentions itself) -/
def AcyclicRefs (items : List RustItem) : Prop := ∀ a, ¬ RefReach items a a

/-! ## 2. Hypotheses of the theorems (all decidable, see the examples at the end) -/

mutual
  /-- nesting depth of a type -/
  def depth : RustType → Nat
    | .simple _ => 1
    | .prim _ => 1
    | .generic _ ps => depthList ps + 1
    | .vec t | .array t _ | .slice t | .option t => depth t + 1
    | .hashMap k v => max (depth k) (depth v) + 1
  def depthList : List RustType → Nat
    | [] => 0
    | t :: ts => max (depth t) (depthList ts)
end

/-- the model's recursion fuel (`fuelFor items = 4·n + 256`; the Rust code has none) exceeds the
nesting depth of every type of the program -/
def DepthOk (items : List RustItem) : Prop :=
  ∀ it ∈ items, ∀ t ∈ itemTypes it, depth t < fuelFor items

/-- the generic parameter names of an alias (`get_type_alias_dependencies` looks each of them up as
if it were a type of the program) -/
def itemGenerics : RustItem → List Str
  | .alias a => a.genericTypes
  | _ => []

/-- a generic parameter of an alias that happens to be spelled like an item of the program also
occurs in the alias target (always so in Rust source: an unused type parameter is error E0091) -/
def GenericsUsed (items : List RustItem) : Prop :=
  ∀ it ∈ items, ∀ g ∈ itemGenerics it, (lookup items g).isSome → g ∈ refsItem it

instance (items : List RustItem) : Decidable (NamesDistinct items) := by
  unfold NamesDistinct; infer_instance
instance (items : List RustItem) : Decidable (DepthOk items) := by
  unfold DepthOk; infer_instance
instance (items : List RustItem) : Decidable (GenericsUsed items) := by
  unfold GenericsUsed; infer_instance
instance (items : List RustItem) (i j : Nat) : Decidable (Refers items i j) := by
  unfold Refers; infer_instance

/-! ### small facts about the specification -/

theorem itemTypes_eq (it : RustItem) : itemTypes it = typesOf it := by
  cases it <;> rfl
theorem itemGenerics_eq (it : RustItem) : itemGenerics it = gensOf it := by
  cases it <;> rfl

theorem mem_refsItem {it : RustItem} {x : Str} :
    x ∈ refsItem it ↔ ∃ t ∈ itemTypes it, x ∈ refsType t := by
  simp [refsItem, List.mem_flatMap]

theorem mem_refsTypes {ps : List RustType} {x : Str} :
    x ∈ refsTypes ps ↔ ∃ p ∈ ps, x ∈ refsType p := by
  induction ps with
  | nil => simp [refsTypes]
  | cons a t ih => simp [refsTypes, ih]

theorem depth_pos (t : RustType) : 1 ≤ depth t := by
  cases t <;> simp [depth]

theorem depth_le_depthList {p : RustType} {ps : List RustType} (h : p ∈ ps) :
    depth p ≤ depthList ps := by
  induction ps with
  | nil => simp at h
  | cons a t ih =>
    simp only [depthList]
    rcases List.mem_cons.1 h with rfl | h'
    · exact Nat.le_max_left _ _
    · exact Nat.le_trans (ih h') (Nat.le_max_right _ _)

theorem refers_iff {items : List RustItem} {i j : Nat} :
    Refers items i j ↔ ∃ a b, items[i]? = some a ∧ items[j]? = some b ∧ b.originalName ∈ refsItem a := by
  unfold Refers refersB
  constructor
  · intro h
    split at h
    · rename_i a b ha hb
      exact ⟨a, b, ha, hb, by simpa using h⟩
    · simp at h
  · rintro ⟨a, b, ha, hb, h⟩
    simp [ha, hb, h]

theorem RefReach.head {items : List RustItem} {a b c : Nat} (h1 : Refers items a b)
    (h2 : RefReach items b c) : RefReach items a c := by
  induction h2 with
  | single h => exact .step (.single h1) h
  | step _ h ih => exact .step ih h

theorem RefReach.trans {items : List RustItem} {a b c : Nat} (h1 : RefReach items a b)
    (h2 : RefReach items b c) : RefReach items a c := by
  induction h2 with
  | single h => exact .step h1 h
  | step _ h ih => exact .step ih h

/-- a decidable sufficient condition for `AcyclicRefs`: some rank strictly decreases along references -/
theorem acyclic_of_rank (items : List RustItem) (rank : Nat → Nat)
    (h : ((List.range items.length).all fun i => (List.range items.length).all fun j =>
      !refersB items i j || decide (rank j < rank i)) = true) : AcyclicRefs items := by
  have hstep : ∀ i j, Refers items i j → rank j < rank i := by
    intro i j hr
    obtain ⟨a, b, ha, hb, _⟩ := refers_iff.1 hr
    have hi : i < items.length := (List.getElem?_eq_some_iff.1 ha).1
    have hj : j < items.length := (List.getElem?_eq_some_iff.1 hb).1
    simp only [List.all_eq_true, List.mem_range] at h
    have := h i hi j hj
    unfold Refers at hr
    simpa [hr] using this
  have hreach : ∀ i j, RefReach items i j → rank j < rank i := by
    intro i j hr
    induction hr with
    | single h => exact hstep _ _ h
    | step _ h ih => exact Nat.lt_trans (hstep _ _ h) ih
  intro a ha
  exact Nat.lt_irrefl _ (hreach a a ha)

/-! ## 3. State restoration of `seen` (where the trailing `seen.remove(tp.id())` is shown harmless) -/

/-- **Unconditionally** — cycles and self references included — `seen` only ever loses elements
(it is a sublist of what it was), `res` only grows, and every pushed name resolves. -/
theorem seen_shrinks_res_grows (items : List RustItem) (fuel : Nat) (ds : DS) :
    (∀ it, Deps.Ext items ds (depsItem items fuel it ds)) ∧
      (∀ t, Deps.Ext items ds (depsType items fuel t ds)) :=
  ⟨fun it => depsItem_ext items fuel it ds, fun t => depsType_ext items fuel t ds⟩

/-- The traversal of an item that `topsort` starts on a fresh `HashSet` ends with an empty set. -/
theorem seen_empty_after_item (items : List RustItem) (fuel : Nat) (it : RustItem) :
    (depsItem items fuel it ⟨[], []⟩).seen = [] := depsItem_top_seen items fuel it

/-- `get_dependencies_from_type` hands `seen` back exactly as found when no name in `seen` occurs in
the type (`allIds`: ids at any depth, including `tp.id()` of containers and primitives). -/
theorem seen_restored_type (items : List RustItem) (fuel : Nat) (t : RustType) (ds : DS)
    (hn : ds.seen.Nodup) (h : ∀ y ∈ ds.seen, y ∉ t.allIds) :
    (depsType items fuel t ds).seen = ds.seen := depsType_seen_eq items fuel t ds hn h

/-- `get_dependencies` hands `seen` back exactly as found when neither a name in `seen` nor the item's
own name occurs in its types (and no generic parameter of the item is spelled like an item). -/
theorem seen_restored_item (items : List RustItem) (fuel : Nat) (it : RustItem) (ds : DS)
    (hn : ds.seen.Nodup) (hg : ∀ g ∈ itemGenerics it, lookup items g = none)
    (h : ∀ t ∈ itemTypes it, ∀ y ∈ t.allIds, y ∉ ds.seen ∧ y ≠ it.originalName) :
    (depsItem items fuel it ds).seen = ds.seen := by
  rw [itemGenerics_eq] at hg; rw [itemTypes_eq] at h
  exact depsItem_seen_eq items fuel it ds hn hg h

/-- ids of a type are its references or built-in ids (`Vec`, `[]`, `&[]`, `Option`, `HashMap`, and
the primitive names) -/
def builtinIds : List Str :=
  [s%"Vec", s%"[]", s%"&[]", s%"Option", s%"HashMap", s%"()", s%"f64", s%"f32", s%"OffsetDateTime",
   s%"String", s%"char", s%"bool", s%"i8", s%"i16", s%"i32", s%"i64", s%"u8", s%"u16", s%"u32",
   s%"u64", s%"isize", s%"usize", s%"U53", s%"I54"]

theorem prim_id_builtin (p : Prim) : p.id ∈ builtinIds := by
  cases p <;> decide

theorem allIds_sub (f : Nat) : ∀ (t : RustType), depth t ≤ f → ∀ y ∈ t.allIds,
    y ∈ refsType t ∨ y ∈ builtinIds := by
  induction f with
  | zero => intro t h; have := depth_pos t; omega
  | succ f ih =>
    have hl : ∀ (ps : List RustType), depthList ps ≤ f → ∀ y ∈ RustType.allIdsList ps,
        y ∈ refsTypes ps ∨ y ∈ builtinIds := by
      intro ps
      induction ps with
      | nil => intro _ y hy; simp [RustType.allIdsList] at hy
      | cons a t iht =>
        intro hd y hy
        simp only [depthList, Nat.max_le] at hd
        simp only [RustType.allIdsList, List.mem_append] at hy
        simp only [refsTypes, List.mem_append]
        rcases hy with hy | hy
        · rcases ih a hd.1 y hy with h | h
          · exact Or.inl (Or.inl h)
          · exact Or.inr h
        · rcases iht hd.2 y hy with h | h
          · exact Or.inl (Or.inr h)
          · exact Or.inr h
    intro t hd y hy
    cases t with
    | simple id => left; simpa [RustType.allIds, refsType] using hy
    | generic id ps =>
      simp only [depth] at hd
      simp only [RustType.allIds, List.mem_cons] at hy
      simp only [refsType, List.mem_cons]
      rcases hy with rfl | hy
      · exact Or.inl (Or.inl rfl)
      · rcases hl ps (by omega) y hy with h | h
        · exact Or.inl (Or.inr h)
        · exact Or.inr h
    | vec t =>
      simp only [depth] at hd
      simp only [RustType.allIds, List.mem_cons] at hy
      rcases hy with rfl | hy
      · right; decide
      · simpa [refsType] using ih t (by omega) y hy
    | array t n =>
      simp only [depth] at hd
      simp only [RustType.allIds, List.mem_cons] at hy
      rcases hy with rfl | hy
      · right; decide
      · simpa [refsType] using ih t (by omega) y hy
    | slice t =>
      simp only [depth] at hd
      simp only [RustType.allIds, List.mem_cons] at hy
      rcases hy with rfl | hy
      · right; decide
      · simpa [refsType] using ih t (by omega) y hy
    | option t =>
      simp only [depth] at hd
      simp only [RustType.allIds, List.mem_cons] at hy
      rcases hy with rfl | hy
      · right; decide
      · simpa [refsType] using ih t (by omega) y hy
    | hashMap k v =>
      simp only [depth] at hd
      have hk : depth k ≤ f := by have := Nat.le_max_left (depth k) (depth v); omega
      have hv : depth v ≤ f := by have := Nat.le_max_right (depth k) (depth v); omega
      simp only [RustType.allIds, List.mem_cons, List.mem_append] at hy
      simp only [refsType, List.mem_append]
      rcases hy with rfl | hy | hy
      · right; decide
      · rcases ih k hk y hy with h | h
        · exact Or.inl (Or.inl h)
        · exact Or.inr h
      · rcases ih v hv y hy with h | h
        · exact Or.inl (Or.inr h)
        · exact Or.inr h
    | prim p =>
      right
      simp only [RustType.allIds, List.mem_singleton] at hy
      subst hy; exact prim_id_builtin p

/-- **The quirk is harmless on acyclic programs**: while `topsort` walks item `i` of a program whose
reference relation is acyclic (here only: the item does not mention itself) and whose name is not a
built-in id, `seen` is exactly `[name]` after each of its types — the trailing
`seen.remove(tp.id())` never removes anything. -/
theorem quirk_harmless (items : List RustItem) (hac : AcyclicRefs items) (i : Nat) (it : RustItem)
    (hi : items[i]? = some it) (hb : it.originalName ∉ builtinIds) (fuel : Nat)
    (done rest : List RustType) (hsplit : itemTypes it = done ++ rest) :
    (typesFold items fuel done ⟨[], [it.originalName]⟩).seen = [it.originalName] := by
  apply typesFold_seen_eq items fuel done ⟨[], [it.originalName]⟩ (by simp)
  intro t ht y hy hy'
  simp only [List.mem_singleton] at hy
  subst hy
  rcases allIds_sub (depth t) t (Nat.le_refl _) _ hy' with h | h
  · apply hac i
    apply RefReach.single
    rw [refers_iff]
    exact ⟨it, it, hi, hi, mem_refsItem.2 ⟨t, by rw [hsplit]; simp [ht], h⟩⟩
  · exact hb h

/-! ## 4. Coverage: every reference is pushed -/

/-- what `depsType` with fuel `f` achieves (proof device): every name of the type that resolves and
is not in `seen` is pushed -/
def Covers (items : List RustItem) (f : Nat) : Prop :=
  ∀ (t : RustType) (ds : DS), depth t ≤ f → ∀ x ∈ refsType t, (lookup items x).isSome →
    x ∉ ds.seen → x ∈ (depsType items f t ds).res

theorem typesFold_covers (items : List RustItem) (f : Nat) (H : Covers items f) :
    ∀ (ts : List RustType) (ds : DS), (∀ t ∈ ts, depth t ≤ f) →
      ∀ t ∈ ts, ∀ x ∈ refsType t, (lookup items x).isSome → x ∉ ds.seen →
        x ∈ (typesFold items f ts ds).res := by
  intro ts
  induction ts with
  | nil => intro _ _ t ht; simp at ht
  | cons a ts ih =>
    intro ds hd t ht x hx hl hne
    simp only [typesFold, List.foldl_cons]
    rcases List.mem_cons.1 ht with rfl | ht'
    · have := H t ds (hd t (by simp)) x hx hl hne
      exact (typesFold_ext items f ts _).mono this
    · exact ih (depsType items f a ds) (fun t' h' => hd t' (by simp [h'])) t ht' x hx hl
        (fun hy => hne ((depsType_ext items f a ds).seen.subset hy))

theorem depsType_covers (items : List RustItem) (f : Nat) : Covers items f := by
  induction f with
  | zero => intro t _ h; have := depth_pos t; omega
  | succ f ih =>
    intro t ds hd x hx hl hne
    cases t with
    | simple id =>
      simp only [refsType, List.mem_singleton] at hx
      subst hx
      rw [depsType_simple]
      simp only [remove_res]
      exact (mem_headPush_res items).2 (Or.inr ⟨rfl, hl, hne⟩)
    | generic id ps =>
      simp only [depth] at hd
      simp only [refsType, List.mem_cons] at hx
      rw [depsType_generic]
      simp only [remove_res]
      rcases hx with rfl | hx
      · exact (typesFold_ext items f ps _).mono
          ((mem_headPush_res items).2 (Or.inr ⟨rfl, hl, hne⟩))
      · obtain ⟨p, hp, hxp⟩ := mem_refsTypes.1 hx
        exact typesFold_covers items f ih ps _
          (fun t' h' => Nat.le_trans (depth_le_depthList h') (by omega)) p hp x hxp hl
          (by simpa using hne)
    | vec t =>
      simp only [depth] at hd; simp only [refsType] at hx
      rw [depsType_vec]; exact ih t ds (by omega) x hx hl hne
    | array t n =>
      simp only [depth] at hd; simp only [refsType] at hx
      rw [depsType_array]; exact ih t ds (by omega) x hx hl hne
    | slice t =>
      simp only [depth] at hd; simp only [refsType] at hx
      rw [depsType_slice]; exact ih t ds (by omega) x hx hl hne
    | option t =>
      simp only [depth] at hd; simp only [refsType] at hx
      rw [depsType_option]; exact ih t ds (by omega) x hx hl hne
    | hashMap k v =>
      simp only [depth] at hd
      have hkd : depth k ≤ f := by have := Nat.le_max_left (depth k) (depth v); omega
      have hvd : depth v ≤ f := by have := Nat.le_max_right (depth k) (depth v); omega
      simp only [refsType, List.mem_append] at hx
      rw [depsType_hashMap]
      simp only [remove_res]
      rcases hx with hx | hx
      · exact (depsType_ext items f v _).mono (ih k ds hkd x hx hl hne)
      · exact ih v _ hvd x hx hl
          (fun hy => hne ((depsType_ext items f k ds).seen.subset hy))
    | prim p => simp [refsType] at hx

/-- coverage for one item walked from a fresh `HashSet` -/
theorem depsItem_covers (items : List RustItem) (f : Nat) (it : RustItem)
    (hd : ∀ t ∈ itemTypes it, depth t ≤ f)
    (x : Str) (hx : x ∈ refsItem it) (hl : (lookup items x).isSome) (hne : x ≠ it.originalName) :
    x ∈ (depsItem items (f+1) it ⟨[], []⟩).res := by
  obtain ⟨t, ht, hxt⟩ := mem_refsItem.1 hx
  rw [depsItem_top]
  apply (gensFold_ext items f _ _).mono
  rw [← itemTypes_eq]
  exact typesFold_covers items f (depsType_covers items f) (itemTypes it) _ hd t ht x hxt hl
    (by simp [hne])

/-! ### reading the graph -/

theorem graph_length {items : List RustItem} {g : List (List Nat)} (hg : Deps.graph items = some g) :
    g.length = items.length := by
  unfold Deps.graph at hg; exact mapM_length _ _ _ hg

theorem graph_row {items : List RustItem} {g : List (List Nat)} (hg : Deps.graph items = some g)
    {i : Nat} {it : RustItem} (hi : items[i]? = some it) :
    ∃ deps, g[i]? = some deps ∧
      (depsItem items (fuelFor items) it ⟨[], []⟩).res.mapM
        (fun dep => (lookup items dep).bind (getIndex items)) = some deps := by
  unfold Deps.graph at hg
  exact mapM_getElem? _ _ _ hg i it hi

/-- the statement at full strength: every reference between two different items is an edge -/
def Coverage_full : Prop :=
  ∀ (items : List RustItem) (g : List (List Nat)), NamesDistinct items → DepthOk items →
    Deps.graph items = some g → ∀ i j, Refers items i j → i ≠ j → Edge g i j

/-- **Coverage.**  Every reference of item `i` to another item `j` — in a field, a tuple or struct
variant, an alias target or a const type, at any depth under `Vec`/`Option`/`HashMap`/arrays/slices/
generic arguments (whatever the head of the generic type is) — is an edge `i → j` of the graph handed
to `toposort_impl`.  No acyclicity is needed. -/
theorem coverage : Coverage_full := by
  intro items g hd hdepth hg i j hr hij
  obtain ⟨a, b, ha, hb, hx⟩ := refers_iff.1 hr
  have hamem : a ∈ items := List.mem_iff_getElem?.2 ⟨i, ha⟩
  obtain ⟨deps, hdeps, hmap⟩ := graph_row hg ha
  have hlb := lookup_of_distinct hd hb
  have hne : b.originalName ≠ a.originalName := fun h => hij (names_inj hd ha hb h.symm)
  have hfuel : fuelFor items = (4 * items.length + 255) + 1 := by simp [fuelFor]
  have hres : b.originalName ∈ (depsItem items (fuelFor items) a ⟨[], []⟩).res := by
    rw [hfuel]
    apply depsItem_covers items _ a
    · intro t ht; have := hdepth a hamem t ht; simp only [fuelFor] at this; omega
    · exact hx
    · simp [hlb]
    · exact hne
  obtain ⟨d, hdmem, hdval⟩ := mapM_mem_of_mem _ _ _ hmap _ hres
  simp only [hlb, Option.bind_some, getIndex_of_distinct hd hb, Option.some.injEq] at hdval
  subst hdval
  exact ⟨deps, hdeps, hdmem⟩

/-! ## 5. Soundness of edges, totality of the graph -/

theorem depsType_sound (items : List RustItem) (f : Nat) : ∀ (t : RustType) (ds : DS) (x : Str),
    x ∈ (depsType items f t ds).res → x ∈ ds.res ∨ x ∈ refsType t := by
  induction f with
  | zero => intro t ds x hx; rw [depsType_zero] at hx; exact Or.inl hx
  | succ f ih =>
    have hfold : ∀ (ps : List RustType) (ds : DS) (x : Str),
        x ∈ (typesFold items f ps ds).res → x ∈ ds.res ∨ x ∈ refsTypes ps := by
      intro ps
      induction ps with
      | nil => intro ds x hx; exact Or.inl hx
      | cons p t iht =>
        intro ds x hx
        simp only [typesFold, List.foldl_cons] at hx
        simp only [refsTypes, List.mem_append]
        rcases iht _ x hx with h | h
        · rcases ih p ds x h with h' | h'
          · exact Or.inl h'
          · exact Or.inr (Or.inl h')
        · exact Or.inr (Or.inr h)
    intro t ds x hx
    cases t with
    | simple id =>
      rw [depsType_simple] at hx
      simp only [remove_res] at hx
      rcases (mem_headPush_res items).1 hx with h | ⟨h, _, _⟩
      · exact Or.inl h
      · exact Or.inr (by simp [refsType, h])
    | generic id ps =>
      rw [depsType_generic] at hx
      simp only [remove_res] at hx
      simp only [refsType, List.mem_cons]
      rcases hfold ps _ x hx with h | h
      · rcases (mem_headPush_res items).1 h with h' | ⟨h', _, _⟩
        · exact Or.inl h'
        · exact Or.inr (Or.inl h')
      · exact Or.inr (Or.inr h)
    | vec t => rw [depsType_vec] at hx; simpa [refsType] using ih t ds x hx
    | array t n => rw [depsType_array] at hx; simpa [refsType] using ih t ds x hx
    | slice t => rw [depsType_slice] at hx; simpa [refsType] using ih t ds x hx
    | option t => rw [depsType_option] at hx; simpa [refsType] using ih t ds x hx
    | hashMap k v =>
      rw [depsType_hashMap] at hx
      simp only [remove_res] at hx
      simp only [refsType, List.mem_append]
      rcases ih v _ x hx with h | h
      · rcases ih k ds x h with h' | h'
        · exact Or.inl h'
        · exact Or.inr (Or.inl h')
      · exact Or.inr (Or.inr h)
    | prim p => rw [depsType_prim] at hx; exact Or.inl hx

theorem typesFold_sound (items : List RustItem) (f : Nat) : ∀ (ts : List RustType) (ds : DS) (x : Str),
    x ∈ (typesFold items f ts ds).res → x ∈ ds.res ∨ ∃ t ∈ ts, x ∈ refsType t := by
  intro ts
  induction ts with
  | nil => intro ds x hx; exact Or.inl hx
  | cons p t iht =>
    intro ds x hx
    simp only [typesFold, List.foldl_cons] at hx
    rcases iht _ x hx with h | ⟨t', ht', h⟩
    · rcases depsType_sound items f p ds x h with h' | h'
      · exact Or.inl h'
      · exact Or.inr ⟨p, by simp, h'⟩
    · exact Or.inr ⟨t', by simp [ht'], h⟩

/-- every item called `x` is reachable from item `k` by references -/
def NameReach (items : List RustItem) (k : Nat) (x : Str) : Prop :=
  ∀ j b, items[j]? = some b → b.originalName = x → RefReach items k j

/-- everything `get_dependencies` pushes for item `k` names an item reachable from `k` -/
theorem depsItem_sound (items : List RustItem) (hgu : GenericsUsed items) (f : Nat) :
    ∀ (k : Nat) (it : RustItem) (ds : DS) (x : Str), items[k]? = some it →
      x ∈ (depsItem items f it ds).res → x ∈ ds.res ∨ NameReach items k x := by
  induction f with
  | zero => intro k it ds x _ hx; rw [depsItem_zero] at hx; exact Or.inl hx
  | succ f ih =>
    intro k it ds x hk hx
    have hitmem : it ∈ items := List.mem_iff_getElem?.2 ⟨k, hk⟩
    by_cases hs : it.originalName ∈ ds.seen
    · rw [depsItem_of_seen items _ it ds hs] at hx; exact Or.inl hx
    · rw [depsItem_succ items f it ds hs] at hx
      simp only [remove_res] at hx
      -- the `generic_types` loop
      have hgens : ∀ (gs : List Str) (ds' : DS), (∀ g ∈ gs, g ∈ gensOf it) →
          x ∈ (gensFold items f gs ds').res → x ∈ ds'.res ∨ NameReach items k x := by
        intro gs
        induction gs with
        | nil => intro ds' _ h; exact Or.inl h
        | cons g gs ihg =>
          intro ds' hsub h
          simp only [gensFold, List.foldl_cons] at h
          rcases ihg _ (fun g' hg' => hsub g' (by simp [hg'])) h with h1 | h1
          · cases hl : lookup items g with
            | none => simp only [hl] at h1; exact Or.inl h1
            | some thing =>
              simp only [hl] at h1
              obtain ⟨k', hk'⟩ := List.mem_iff_getElem?.1 (lookup_mem hl)
              rcases ih k' thing ds' x hk' h1 with h2 | h2
              · exact Or.inl h2
              · right
                have hgin : g ∈ refsItem it :=
                  hgu it hitmem g (by rw [itemGenerics_eq]; exact hsub g (by simp)) (by simp [hl])
                have hkk' : Refers items k k' :=
                  refers_iff.2 ⟨it, thing, hk, hk', by rw [lookup_name hl]; exact hgin⟩
                intro j b hj hb
                exact RefReach.head hkk' (h2 j b hj hb)
          · exact Or.inr h1
      rcases hgens _ _ (fun g hg => hg) hx with h | h
      · -- pushed by the walk over the item's own types
        have hext := (typesFold_ext items f (typesOf it) ⟨ds.res, ds.seen ++ [it.originalName]⟩).res
        obtain ⟨new, hnew, hres⟩ := hext
        rw [hnew] at h
        rcases List.mem_append.1 h with h0 | h0
        · exact Or.inl h0
        · have hx' : x ∈ (typesFold items f (typesOf it) ⟨ds.res, ds.seen ++ [it.originalName]⟩).res := by
            rw [hnew]; simp [h0]
          rcases typesFold_sound items f _ _ x hx' with h1 | ⟨t, ht, hxt⟩
          · exact Or.inl h1
          · right
            intro j b hj hb
            apply RefReach.single
            exact refers_iff.2 ⟨it, b, hk, hj, by
              rw [hb]; exact mem_refsItem.2 ⟨t, by rw [itemTypes_eq]; exact ht, hxt⟩⟩
      · exact Or.inr h

/-- **Soundness of edges**: every edge of the graph is a chain of references. -/
theorem edge_sound (items : List RustItem) (g : List (List Nat)) (hgu : GenericsUsed items)
    (hg : Deps.graph items = some g) (i j : Nat) (he : Edge g i j) : RefReach items i j := by
  obtain ⟨deps, hdeps, hj⟩ := he
  have hi : i < items.length := by
    rw [← graph_length hg]; exact (List.getElem?_eq_some_iff.1 hdeps).1
  obtain ⟨deps', hdeps', hmap⟩ := graph_row hg (it := items[i]) (List.getElem?_eq_getElem hi)
  rw [hdeps] at hdeps'; cases hdeps'
  obtain ⟨dep, hdep, hval⟩ := mapM_mem _ _ _ hmap j hj
  cases hl : lookup items dep with
  | none => simp [hl] at hval
  | some thing =>
    simp only [hl, Option.bind_some] at hval
    obtain ⟨c, hc, hcn⟩ := getIndex_spec hval
    rcases depsItem_sound items hgu _ i items[i] ⟨[], []⟩ dep (List.getElem?_eq_getElem hi) hdep with h | h
    · simp at h
    · exact h j c hc (by rw [hcn, lookup_name hl])

/-- so the graph is acyclic whenever the reference relation is -/
theorem graph_acyclic (items : List RustItem) (g : List (List Nat)) (hgu : GenericsUsed items)
    (hg : Deps.graph items = some g) (hac : AcyclicRefs items) : Acyclic g := by
  have : ∀ a b, Reach g a b → RefReach items a b := by
    intro a b h
    induction h with
    | single h => exact edge_sound items g hgu hg _ _ h
    | step _ h ih => exact ih.trans (edge_sound items g hgu hg _ _ h)
  intro a ha
  exact hac a (this a a ha)

/-- **No panic while building the graph**: every pushed name is a key of `types`
(`types.get(dep).unwrap()`) and its item is found by `get_index` (`expect("Unable to find thing…")`),
for every program. -/
theorem graph_total (items : List RustItem) : ∃ g, Deps.graph items = some g := by
  apply Option.isSome_iff_exists.1
  unfold Deps.graph
  apply mapM_isSome
  intro it _
  apply mapM_isSome
  intro dep hdep
  obtain ⟨new, hnew, hres⟩ := (depsItem_ext items (fuelFor items) it ⟨[], []⟩).res
  have : dep ∈ new := by rw [hnew] at hdep; simpa using hdep
  obtain ⟨thing, hth⟩ := Option.isSome_iff_exists.1 (hres dep this)
  simp only [hth, Option.bind_some]
  exact getIndex_isSome_of_mem (lookup_mem hth)

/-! ## 6. End to end -/

/-- the ordering statement for one program: `topsort` returns the items rearranged so that whenever
the item at position `pa` mentions the name of the item at position `pb`, `pb` comes first -/
def Ordered (items : List RustItem) : Prop :=
  ∃ out, Deps.topsort items = some out ∧ out.Perm items ∧
    ∀ (pa pb : Nat) (a b : RustItem), out[pa]? = some a → out[pb]? = some b →
      b.originalName ∈ refsItem a → pb < pa

/-- the statement at full strength -/
def C11_order_full : Prop :=
  ∀ items : List RustItem, NamesDistinct items → DepthOk items → GenericsUsed items →
    AcyclicRefs items → Ordered items

theorem before_pos {order : List Nat} (hn : order.Nodup) {i j pa pb : Nat}
    (hb : Before order j i) (hpa : order[pa]? = some i) (hpb : order[pb]? = some j) : pb < pa := by
  obtain ⟨pre, post, hsplit, hj⟩ := hb
  obtain ⟨hpa', hpa''⟩ := List.getElem?_eq_some_iff.1 hpa
  obtain ⟨hpb', hpb''⟩ := List.getElem?_eq_some_iff.1 hpb
  have h1 : order[pre.length]? = some i := by
    rw [hsplit, List.getElem?_append_right (Nat.le_refl _)]; simp
  obtain ⟨h1', h1''⟩ := List.getElem?_eq_some_iff.1 h1
  have e1 : pa = pre.length := (List.getElem_inj hn).mp (by rw [hpa'', h1''])
  obtain ⟨q, hq⟩ := List.mem_iff_getElem?.1 hj
  have hqlt : q < pre.length := (List.getElem?_eq_some_iff.1 hq).1
  have h2 : order[q]? = some j := by
    rw [hsplit, List.getElem?_append_left hqlt]; exact hq
  obtain ⟨h2', h2''⟩ := List.getElem?_eq_some_iff.1 h2
  have e2 : pb = q := (List.getElem_inj hn).mp (by rw [hpb'', h2''])
  omega

/-- **C11, end to end.**  For a program with pairwise distinct original names, types nested less
deeply than the model's fuel, alias parameters that are used, and an acyclic reference relation,
`topsort` returns a permutation of the items in which every definition comes after every definition
it refers to. -/
theorem C11_order : C11_order_full := by
  intro items hd hdepth hgu hac
  obtain ⟨g, hg⟩ := graph_total items
  have hwf := graph_wf items g hg
  have hacg := graph_acyclic items g hgu hg hac
  obtain ⟨out, order, htop, hperm, hlen, hget, hbefore⟩ := topsort_items items g hg hwf hacg
  obtain ⟨out', htop', hperm'⟩ := topsort_perm items g hg hwf
  rw [htop] at htop'; cases htop'
  refine ⟨out, htop, hperm', ?_⟩
  intro pa pb a b hpa hpb hx
  have hnd : order.Nodup := (hperm.nodup_iff).2 List.nodup_range
  -- the indices of `a` and `b` in `items`
  have ha := hget pa; rw [hpa] at ha
  have hb := hget pb; rw [hpb] at hb
  cases hoa : order[pa]? with
  | none => simp [hoa] at ha
  | some ia =>
    cases hob : order[pb]? with
    | none => simp [hob] at hb
    | some ib =>
      simp only [hoa, Option.bind_some] at ha
      simp only [hob, Option.bind_some] at hb
      have hr : Refers items ia ib := refers_iff.2 ⟨a, b, ha.symm, hb.symm, hx⟩
      have hne : ia ≠ ib := by
        intro h; subst h; exact hac ia (.single hr)
      have hedge := coverage items g hd hdepth hg ia ib hr hne
      have hia : ia < items.length := (List.getElem?_eq_some_iff.1 ha.symm).1
      exact before_pos hnd (hbefore ia ib hia hedge) hoa hob

/-! ## 7. The fuel is immaterial

`DepthOk` only speaks about the model's recursion fuel: once the fuel exceeds the nesting depth of a
type the result no longer depends on it. -/

theorem depsType_fuel (items : List RustItem) (f : Nat) : ∀ (f' : Nat) (t : RustType) (ds : DS),
    depth t ≤ f → depth t ≤ f' → depsType items f t ds = depsType items f' t ds := by
  induction f with
  | zero => intro f' t ds h; have := depth_pos t; omega
  | succ f ih =>
    intro f' t ds h h'
    cases f' with
    | zero => have := depth_pos t; omega
    | succ f' =>
      cases t with
      | simple id => rw [depsType_simple, depsType_simple]
      | generic id ps =>
        simp only [depth] at h h'
        rw [depsType_generic, depsType_generic]
        congr 1
        apply foldl_congr_mem
        intro p hp b
        have := depth_le_depthList hp
        exact ih f' p b (by omega) (by omega)
      | vec t =>
        simp only [depth] at h h'
        rw [depsType_vec, depsType_vec, ih f' t ds (by omega) (by omega)]
      | array t n =>
        simp only [depth] at h h'
        rw [depsType_array, depsType_array, ih f' t ds (by omega) (by omega)]
      | slice t =>
        simp only [depth] at h h'
        rw [depsType_slice, depsType_slice, ih f' t ds (by omega) (by omega)]
      | option t =>
        simp only [depth] at h h'
        rw [depsType_option, depsType_option, ih f' t ds (by omega) (by omega)]
      | hashMap k v =>
        simp only [depth] at h h'
        have h1 := Nat.le_max_left (depth k) (depth v)
        have h2 := Nat.le_max_right (depth k) (depth v)
        rw [depsType_hashMap, depsType_hashMap, ih f' k ds (by omega) (by omega),
          ih f' v _ (by omega) (by omega)]
      | prim p => rw [depsType_prim, depsType_prim]

/-- for an item none of whose generic parameters is spelled like an item, any two fuels above the
depth of its types give the same result (with such parameters the recursion additionally descends
along the chain of shadowed aliases; not covered here) -/
theorem depsItem_fuel (items : List RustItem) (f f' : Nat) (it : RustItem) (ds : DS)
    (hg : ∀ g ∈ itemGenerics it, lookup items g = none)
    (h : ∀ t ∈ itemTypes it, depth t ≤ f ∧ depth t ≤ f') :
    depsItem items (f+1) it ds = depsItem items (f'+1) it ds := by
  rw [itemGenerics_eq] at hg; rw [itemTypes_eq] at h
  by_cases hs : it.originalName ∈ ds.seen
  · rw [depsItem_of_seen items _ it ds hs, depsItem_of_seen items _ it ds hs]
  · rw [depsItem_succ items f it ds hs, depsItem_succ items f' it ds hs,
      gensFold_of_none items f _ _ hg, gensFold_of_none items f' _ _ hg]
    congr 1
    apply foldl_congr_mem
    intro t ht b
    exact depsType_fuel items f f' t b (h t ht).1 (h t ht).2

/-! ## 8. Non-vacuity, regression examples, and kernel-checked witnesses for the hypotheses -/

namespace Ex
def mkId (n : Str) : Id := ⟨n, n, false⟩
def fld (n : Str) (t : RustType) : RustField :=
  { id := mkId n, ty := t, comments := [], hasDefault := false, decorators := [] }
def strct (n : Str) (fs : List RustField) : RustItem :=
  .struct { id := mkId n, genericTypes := [], fields := fs, comments := [], decorators := {},
            isRedacted := false }
def alias (n : Str) (gs : List Str) (t : RustType) : RustItem :=
  .alias { id := mkId n, genericTypes := gs, ty := t, comments := [], decorators := {},
           isRedacted := false }
def enm (n : Str) (vs : List RustEnumVariant) : RustItem :=
  .enum { keys := some (s%"type", s%"content"), id := mkId n, genericTypes := [], comments := [],
          variants := vs, decorators := {}, isRecursive := false, isRedacted := false }
def names (r : Option (List RustItem)) : Option (List Str) := r.map (·.map RustItem.originalName)

/-- `struct A { b: B, cs: Vec<C>, m: HashMap<String, Option<W<C>>> }`,
`enum B { V(C), S { x: [C; 2] } }` (tag/content), `struct W<T> { t: T }`, `struct C { n: u32 }` -/
def prog : List RustItem :=
  [ strct (s%"A") [fld (s%"b") (.simple (s%"B")), fld (s%"cs") (.vec (.simple (s%"C"))),
      fld (s%"m") (.hashMap (.prim .string) (.option (.generic (s%"W") [.simple (s%"C")])))],
    enm (s%"B") [.tuple (mkId (s%"V")) [] (.simple (s%"C")),
      .anonymousStruct (mkId (s%"S")) [] [fld (s%"x") (.array (.simple (s%"C")) 2)]],
    strct (s%"W") [fld (s%"t") (.simple (s%"T"))],
    strct (s%"C") [fld (s%"n") (.prim .u32)] ]

/-- `struct A { x: Foo<Foo<Bar>> }`, `struct Foo<T> { t: T }`, `struct Bar {}` -/
def nested : List RustItem :=
  [ strct (s%"A") [fld (s%"x") (.generic (s%"Foo") [.generic (s%"Foo") [.simple (s%"Bar")]])],
    strct (s%"Foo") [fld (s%"t") (.simple (s%"T"))],
    strct (s%"Bar") [] ]

/-- `struct A { x: Ext<Bar> }` (`Ext` is not an item of the list), `struct Bar {}` -/
def unknownHead : List RustItem :=
  [ strct (s%"A") [fld (s%"x") (.generic (s%"Ext") [.simple (s%"Bar")])],
    strct (s%"Bar") [] ]

/-- `struct A { a: A, a2: A, b: B }`, `struct B {}` -/
def selfTwice : List RustItem :=
  [ strct (s%"A") [fld (s%"a") (.simple (s%"A")), fld (s%"a2") (.simple (s%"A")),
      fld (s%"b") (.simple (s%"B"))],
    strct (s%"B") [] ]

/-- `type A<T> = u32`, `struct X { a: A, y: Y }`, `struct T { x: X }`, `struct Y {}` -/
def shadow : List RustItem :=
  [ alias (s%"A") [s%"T"] (.prim .u32),
    strct (s%"X") [fld (s%"a") (.simple (s%"A")), fld (s%"y") (.simple (s%"Y"))],
    strct (s%"T") [fld (s%"x") (.simple (s%"X"))],
    strct (s%"Y") [] ]
end Ex
open Ex

theorem topsort_eq {items : List RustItem} {g : List (List Nat)} {order : List Nat}
    (hg : Deps.graph items = some g) (ho : toposort g = some order) :
    Deps.topsort items = sortByIndices items order := by
  simp [Deps.topsort, hg, ho]

/-! ### a program that meets every hypothesis of `C11_order` -/
example : NamesDistinct prog := by decide
example : DepthOk prog := by decide
example : GenericsUsed prog := by decide
example : AcyclicRefs prog := acyclic_of_rank prog (fun i => 4 - i) (by decide)
example : Refers prog 0 1 ∧ Refers prog 0 2 ∧ Refers prog 0 3 ∧ Refers prog 1 3 := by decide
example : Ordered prog :=
  C11_order prog (by decide) (by decide) (by decide)
    (acyclic_of_rank prog (fun i => 4 - i) (by decide))
/-- the graph (with the duplicate edges the traversal produces) and the emitted order -/
example : Deps.graph prog = some [[1, 3, 2, 3], [3, 3], [], []] := by decide +kernel
example : names (Deps.topsort prog) = some [s%"C", s%"B", s%"W", s%"A"] := by
  have hg : Deps.graph prog = some [[1, 3, 2, 3], [3, 3], [], []] := by decide +kernel
  have ho : toposort [[1, 3, 2, 3], [3, 3], [], []] = some [3, 1, 2, 0] := by
    simp [toposort, inner, List.range, List.range.loop]
  rw [topsort_eq hg ho]
  decide +kernel
/-- state restoration is not vacuous: while `A` is walked, `seen` is `[A]` after each field -/
example : ∀ it, prog[0]? = some it →
    (typesFold prog 300 (itemTypes it) ⟨[], [it.originalName]⟩).seen = [it.originalName] := by
  intro it h
  refine quirk_harmless prog (acyclic_of_rank prog (fun i => 4 - i) (by decide)) 0 it h ?_ 300
    (itemTypes it) [] (by simp)
  simp only [prog, List.getElem?_cons_zero, Option.some.injEq] at h
  subst h; decide

/-! ### regression examples: generic arguments are followed whatever the head is
(before the repair of `get_dependencies_from_type` both programs were emitted with `A` before `Bar`:
the arguments were only walked when the head was an item *and* newly inserted into `seen`) -/

/-- `G<G<T1>>`: the head `Foo` is an item and occurs again on the path (it is pushed twice, a harmless
duplicate edge); `Bar` is now a dependency of `A` -/
example : NamesDistinct nested ∧ DepthOk nested ∧ GenericsUsed nested ∧ Refers nested 0 2 := by
  decide
example : AcyclicRefs nested := acyclic_of_rank nested (fun i => 3 - i) (by decide)
example : Deps.graph nested = some [[1, 1, 2], [], []] := by decide +kernel
example : Ordered nested :=
  C11_order nested (by decide) (by decide) (by decide)
    (acyclic_of_rank nested (fun i => 3 - i) (by decide))
example : names (Deps.topsort nested) = some [s%"Foo", s%"Bar", s%"A"] := by
  have hg : Deps.graph nested = some [[1, 1, 2], [], []] := by decide +kernel
  have ho : toposort [[1, 1, 2], [], []] = some [1, 2, 0] := by
    simp [toposort, inner, List.range, List.range.loop]
  rw [topsort_eq hg ho]
  decide +kernel

/-- `Unknown<T1>`: the head `Ext` is not an item of the list; `Bar` is now a dependency of `A` -/
example : NamesDistinct unknownHead ∧ DepthOk unknownHead ∧ GenericsUsed unknownHead ∧
    Refers unknownHead 0 1 := by decide
example : Deps.graph unknownHead = some [[1], []] := by decide +kernel
example : Ordered unknownHead :=
  C11_order unknownHead (by decide) (by decide) (by decide)
    (acyclic_of_rank unknownHead (fun i => 2 - i) (by decide))
example : names (Deps.topsort unknownHead) = some [s%"Bar", s%"A"] := by
  have hg : Deps.graph unknownHead = some [[1], []] := by decide +kernel
  have ho : toposort [[1], []] = some [1, 0] := by
    simp [toposort, inner, List.range, List.range.loop]
  rw [topsort_eq hg ho]
  decide +kernel

/-! ### acyclicity is needed, and this is where the trailing `seen.remove(tp.id())` bites:
the first `a: A` is skipped (`A` is in `seen`) but the trailing `remove` then deletes `A` from `seen`,
the second `a2: A` is pushed, the graph gets the self loop `0 → 0`, `toposort_impl` treats it as a
cycle and abandons the rest of the adjacency list — `A` is emitted before `B`. -/
example : NamesDistinct selfTwice ∧ DepthOk selfTwice ∧ GenericsUsed selfTwice ∧
    Refers selfTwice 0 1 ∧ Refers selfTwice 0 0 := by decide
example : ¬ AcyclicRefs selfTwice := fun h => h 0 (.single (by decide))
example : Deps.graph selfTwice = some [[0, 1], []] := by decide +kernel
example : names (Deps.topsort selfTwice) = some [s%"A", s%"B"] := by
  have hg : Deps.graph selfTwice = some [[0, 1], []] := by decide +kernel
  have ho : toposort [[0, 1], []] = some [0, 1] := by
    simp [toposort, inner, List.range, List.range.loop]
  rw [topsort_eq hg ho]
  decide +kernel
/-- coverage itself does not need acyclicity: the edge `0 → 1` is there -/
example : Edge [[0, 1], []] 0 1 := ⟨[0, 1], rfl, by simp⟩

/-! ### `GenericsUsed` is needed (only for alias parameters that Rust itself rejects as unused):
the parameter `T` of `type A<T> = u32` is looked up as the *struct* `T`, whose field type `X` becomes
a dependency of `A`; with the genuine reference `X → A` the graph has the cycle `A → X → A` although
the reference relation is acyclic, and `X` is emitted before the `Y` it uses. -/
example : NamesDistinct shadow ∧ DepthOk shadow ∧ ¬ GenericsUsed shadow := by decide
example : AcyclicRefs shadow :=
  acyclic_of_rank shadow (fun i => match i with | 0 => 0 | 1 => 2 | 2 => 3 | _ => 1) (by decide)
example : Refers shadow 1 3 := by decide
example : Deps.graph shadow = some [[1], [0, 3], [1], []] := by decide +kernel
example : names (Deps.topsort shadow) = some [s%"X", s%"A", s%"T", s%"Y"] := by
  have hg : Deps.graph shadow = some [[1], [0, 3], [1], []] := by decide +kernel
  have ho : toposort [[1], [0, 3], [1], []] = some [1, 0, 2, 3] := by
    simp [toposort, inner, List.range, List.range.loop]
  rw [topsort_eq hg ho]
  decide +kernel

end TsV.C11
