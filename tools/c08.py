"""C08 — unsupported constructs are rejected with an error, never silently mis-generated."""
import copy
from common import *
from syn_gen import *
from gen import Gen, UNSUPPORTED
import l1

NEEDS = ("runner", "cli")
SKIPS = [m_list("serde", [m_path("skip")]), m_list("typeshare", [m_path("skip")])]
LOOKALIKES = [m_list("serde", [m_path("skip_serializing")]), m_list("serde", [m_path("skip_deserializing")]),
              m_list("serde", [m_nv("skip_serializing_if", lit_s("Option::is_none"))]), m_list("serde", [m_path("skipped")]),
              m_list("typeshare", [m_path("skip_me")]), m_list("serde", [m_nv("skip", lit_s("no"))]), m_list("other", [m_path("skip")])]


def type_slots(file):
    """every place a type is written: (container dict/list, key, member-with-attrs or None, item)"""
    out = []

    def walk_items(items):
        for it in items:
            k = it["kind"]
            if k in ("mod", "other"):
                walk_items(it["items"])
            if not any(a[0] == "p" and "typeshare" in a[1] or (a[0] == "l" and a[1] == ["typeshare"]) for a in it.get("attrs", [])):
                continue
            if any(a[0] == "l" and a[1] == ["typeshare"] and any(x[0] == "nv" and x[1] == ["serialized_as"] for x in a[3])
                   for a in it.get("attrs", [])):
                continue
            if k == "struct" and it["fields"][0] != "unit":
                for f in it["fields"][1]:
                    out.append((f, "ty", f if it["fields"][0] == "named" else None, it, "struct-field" if it["fields"][0] == "named" else "newtype", f))
            elif k == "enum":
                for v in it["variants"]:
                    if v["fields"][0] != "unit":
                        for f in v["fields"][1]:
                            out.append((f, "ty", f if v["fields"][0] == "named" else v, it,
                                        "variant-field" if v["fields"][0] == "named" else "payload", f))
            elif k == "alias":
                out.append((it, "ty", None, it, "alias", it))
            elif k == "const":
                out.append((it, "ty", None, it, "const", it))
    walk_items(file["items"])
    return out


def member_has(member, what):
    for a in member["attrs"]:
        if a[0] == "l" and a[1] in (["serde"], ["typeshare"]):
            for x in a[3]:
                if x[0] == "nv" and x[1] == [what]:
                    return True
                if x[0] == "p" and x[1] == [what]:
                    return True
    return False


def bad_leaf(rng):
    r = rng.random()
    if r < 0.7:
        return t_path(rng.choice(UNSUPPORTED), (), rng.choice([[], [], ["std", "primitive"]]))
    return ("tuple", [t_path("String"), t_path("u8")][: rng.choice([1, 2])])


def wrap(rng, t, depth):
    for _ in range(depth):
        r = rng.random()
        if r < 0.2:
            t = t_path("Vec", [t])
        elif r < 0.4:
            t = t_path("Option", [t])
        elif r < 0.55:
            t = t_path("HashMap", [t_path("String"), t] if rng.random() < 0.7 else [t, t_path("String")])
        elif r < 0.7:
            t = t_path(rng.choice(["Box", "Arc", "Rc", "Mutex"]), [t])
        elif r < 0.8:
            t = ("array", t, 4)
        elif r < 0.88:
            t = ("ref", ("slice", t), False)
        elif r < 0.94:
            t = ("ref", t, False)
        else:
            t = t_path("Wrapper", [t_path("String"), t])
    return t


def rejected(ans):
    return "err" in ans or "panic" in ans or (ans.get("ok") is not None and len(ans["ok"]["errors"]) > 0)


def run(check):
    rng = check.rng
    n = 12000 if check.thorough else 1500
    check.rule = ("a valid generated program with ONE unsupported construct planted: a 64-bit integer type or tuple at a "
                  "random position (struct field, newtype, payload, struct-variant field, alias, const type, or inside a "
                  "serialized_as string) under 0-5 wrappers (Vec/Option/HashMap key or value/smart pointer/array/slice/"
                  "reference/generic argument), or an item-level construct (second unnamed field, flatten, missing "
                  "tag/content, tag on unit enum, non-literal const); each also with a skip marker on the enclosing member; "
                  "non-trivial = the planted construct sits in a non-skipped position of an annotated item")
    cases = []
    for i in range(n):
        g = Gen(rng, p_skip=0.0, p_serialized_as=0.0, p_cfg=0.0, p_mod=0.15, p_noise=0.2)
        f = g.file()
        slots = type_slots(f)
        kind = None
        member = None
        r = rng.random()
        if slots and r < 0.7:
            holder, key, member, item, where, sa_target = rng.choice(slots)
            depth = rng.randint(0, 5)
            bad = wrap(rng, bad_leaf(rng), depth)
            if rng.random() < 0.2 and where != "const":
                # via serialized_as on the member / item
                s_ = render_type(bad)
                g.ext[s_] = bad
                sa_target["attrs"] = sa_target["attrs"] + [m_list("typeshare", [m_nv("serialized_as", lit_s(s_))])]
                kind = "serialized_as@" + where
            else:
                holder[key] = bad
                kind = "type@%s depth=%d" % (where, depth)
        else:
            structs = [it for it in f["items"] if it["kind"] == "struct" and it["fields"][0] == "named" and it["fields"][1]
                       and any(a[0] == "p" and a[1][-1] == "typeshare" for a in it["attrs"])]
            enums = [it for it in f["items"] if it["kind"] == "enum" and it["variants"]
                     and any(a[0] == "p" and a[1][-1] == "typeshare" for a in it["attrs"])]
            r2 = rng.random()
            if structs and r2 < 0.3:
                member = rng.choice(rng.choice(structs)["fields"][1])
                member["attrs"] = member["attrs"] + [m_list("serde", [m_path("flatten")])]
                kind = "flatten@struct-field"
            elif enums and r2 < 0.45:
                e = rng.choice(enums)
                cands = [fl for v in e["variants"] if v["fields"][0] == "named" for fl in v["fields"][1]]
                if cands:
                    member = rng.choice(cands)
                    member["attrs"] = member["attrs"] + [m_list("serde", [m_path("flatten")])]
                    kind = "flatten@variant-field"
            elif enums and r2 < 0.7:
                e = rng.choice(enums)
                has_data = any(v["fields"][0] != "unit" for v in e["variants"])
                strip = lambda e, names: [
                    (a[0], a[1], a[2], [x for x in a[3] if not (x[0] == "nv" and x[1][0] in names)], a[4])
                    if a[0] == "l" and a[1] == ["serde"] else a for a in e["attrs"]]
                if has_data:
                    which = rng.choice([["tag"], ["content"], ["tag", "content"]])
                    e["attrs"] = [a for a in strip(e, which) if not (a[0] == "l" and a[1] == ["serde"] and not a[3])]
                    kind = "missing-" + "+".join(which)
                else:
                    which = rng.choice(["tag", "content"])
                    e["attrs"] = e["attrs"] + [m_list("serde", [m_nv(which, lit_s("t"))])]
                    kind = "unit-enum-with-" + which
            elif enums and r2 < 0.85:
                e = rng.choice(enums)
                cands = [v for v in e["variants"] if v["fields"][0] == "unnamed" and len(v["fields"][1]) == 1]
                if cands:
                    v = rng.choice(cands)
                    v["fields"] = ("unnamed", v["fields"][1] + [field([], None, t_path("u8"))])
                    member = v
                    kind = "two-payloads"
            if kind is None and rng.random() < 0.5:
                # an enum whose only data-carrying variants can be skipped: with them present and no tag/content it must be
                # rejected; once they are skipped it is a plain unit enum and must be accepted (the twin below), and a unit enum
                # whose data variants are all skipped must still refuse tag/content
                with_keys = rng.random() < 0.5
                vs = [{"attrs": [], "ident": "Plain", "fields": ("unit",)},
                      {"attrs": [], "ident": "Data", "fields": ("unnamed", [field([], None, t_path("u8"))])},
                      {"attrs": [], "ident": "Other", "fields": ("unit",)}]
                rng.shuffle(vs)
                member = next(v for v in vs if v["ident"] == "Data")
                attrs = [m_path("typeshare")]
                if with_keys:
                    # tag/content on what is a unit enum once `Data` is skipped: planted construct = keys on a unit enum
                    member["attrs"] = [rng.choice(SKIPS)]
                    attrs.append(m_list("serde", [m_nv("tag", lit_s("t")), m_nv("content", lit_s("c"))]))
                    kind = "unit-enum-after-skip-with-tag"
                    member = None
                else:
                    kind = "missing-tag+content (skippable variant)"
                f["items"].append({"kind": "enum", "attrs": attrs, "ident": "SkipProbe", "generics": [], "variants": vs})
            if kind is None:
                c = g.const("bad_const", {"types": [], "generics": []})
                c["attrs"] = [m_path("typeshare")]
                c["ty"] = t_path("u32")
                c["expr_text"], c["init"] = rng.choice([("OTHER", None), ('"s"', ("s", "s")), ("1.5", ("o", "1.5")),
                                                        ("-5", None), ("1 + 2", None), ("f(3)", None), ("(4)", None)])
                f["items"].append(c)
                kind = "const " + c["expr_text"]
        mreq, rreq, text = l1.requests(f, g)
        cases.append(dict(kind=kind, skipped=False, m=mreq, r=rreq, text=text))
        check.count(kind.split(" depth")[0])
        # the same program with an attribute on the enclosing member that only *looks* like a skip marker (the member stays on
        # the wire in one direction / is not skipped at all): the construct must still be rejected
        if member is not None and "attrs" in member:
            member["attrs"] = member["attrs"] + [rng.choice(LOOKALIKES)]
            mreq1, rreq1, text1 = l1.requests(f, g)
            cases.append(dict(kind=kind + " (member carries a skip look-alike)", skipped=False, m=mreq1, r=rreq1, text=text1))
            check.count("skip-look-alike")
        # the same program with the enclosing member skipped
        if member is not None and "attrs" in member and kind not in ("two-payloads",) or (kind == "two-payloads"):
            f2 = f
            member["attrs"] = member["attrs"] + [rng.choice(SKIPS)]
            mreq2, rreq2, text2 = l1.requests(f2, g)
            cases.append(dict(kind=kind, skipped=True, m=mreq2, r=rreq2, text=text2))
    mans, rans, diffs = l1.compare([(c["m"], c["r"]) for c in cases])
    for c, ma, ra in zip(cases, mans, rans):
        check.saw(c["text"], nontrivial=not c["skipped"])
        c["model"], c["impl"] = ma, ra
        if len(check.samples) < 4 and rng.random() < 0.01:
            check.sample({"planted": c["kind"], "skipped": c["skipped"], "source": c["text"],
                          "impl_errors": ra.get("ok", {}).get("errors") if isinstance(ra.get("ok"), dict) else ra})
    # --- the property on the implementation
    KNOWN = {}
    unrejected_new = []
    for c in cases:
        if not c["skipped"] and not rejected(c["impl"]):
            kid = KNOWN.get(c["kind"])
            if kid and check.known(kid, {"source": c["text"]}):
                continue
            unrejected_new.append(c)
    # stored witnesses of the open known findings, replayed on the implementation on every run
    # former known findings (now `fixed:` in KNOWN_FINDINGS.txt); replayed so that a regression is reported
    WITNESS = {
        "flatten-on-variant-field": "#[typeshare]\n#[serde(tag = \"t\", content = \"c\")]\npub enum E { V { #[serde(flatten)] f: Inner } }\n",
        "const-first-literal": "#[typeshare]\npub const X: i32 = -5;\n",
    }
    wans = runner([{"op": "parse", "src": src, "crate": "", "file_name": "o", "path": "w.rs"} for src in WITNESS.values()])
    for (kid, src), a in zip(WITNESS.items(), wans):
        if not rejected(a) and not check.known(kid, {"source": src}):
            check.violation("regression of a repaired defect (%s): the construct is accepted again" % kid,
                            case={"source": src}, impl=a, failing_input=True)
    for i in diffs:
        c = cases[i]
        if unrejected_new:
            break
        check.violation("parser::parse differs from the model on a planted program (%s): %s" % (c["kind"], l1.first_diff(c["model"], c["impl"])),
                        case={"source": c["text"], "planted": c["kind"], "request": c["r"]}, impl=c["impl"], model=c["model"],
                        failing_input=False, broken="correspondence L1 parser::parse (theorems TsV.C08.*)")
        break
    for c in unrejected_new[:1]:
        check.violation("an unsupported construct (%s) is accepted without an error" % c["kind"],
                        case={"source": c["text"], "planted": c["kind"], "request": c["r"]}, impl=c["impl"], model=c["model"],
                        failing_input=True)
    cli_bad = [c for c in cases if not c["skipped"] and rejected(c["impl"]) and "panic" not in c["impl"]]
    cli_good = [c for c in cases if c["skipped"] and not rejected(c["impl"]) and c["impl"].get("ok")]
    cli_part(check, cli_bad, cli_good)
    check.rule += ("; arrival part: the planted program reaches the scanned tree as a plain file, in a nested directory, as a "
                   "symbolic link (absolute / relative / chained / to a target not named *.rs / with -L), as a hard link, inside a "
                   "symlinked directory (without and with -L), twice (same root twice, root and sub-root, link and plain file), as "
                   "a root of its own (file, link to a file, link to a directory), or in a place the tool documents as not scanned "
                   "(hidden / git-ignored / tools/typeshare directory), next to 1-3 ordinary annotated files, single-file and "
                   "folder output, relative / absolute roots")
    arrival_part(check, cli_bad, cli_good)
    check.rule += ("; positional-members part: tuple structs and tuple variants with 1-4 positional members, every subset of the "
                   "positions carrying a skip marker (serde(skip) / typeshare(skip) / merged with other serde arguments / "
                   "cfg(target_os) that does or does not match --target-os), the unsupported construct (64-bit integer / tuple "
                   "under 0-3 wrappers, or through serialized_as) at each position or nowhere, generic and plain items, the "
                   "variant itself skipped or not; parser::parse against the model, in-process generation in all six languages, "
                   "the binary with --target-os over a pre-existing destination")
    positional_members_part(check)
    replay_positional_skip(check)
    check.rule += ("; annotation-spelling part: the planted program with its `#[typeshare]` annotations respelled (path "
                   "`typeshare::typeshare`, leading `::`, blanks / tabs / line breaks / comments between `#`, `[`, the path and "
                   "`]`, with arguments, inside cfg_attr) - all of them alike or each its own way; only spellings the tool takes "
                   "for an annotation on an ordinary item are demanded; parser::parse and the binary next to an ordinarily "
                   "annotated file over a pre-existing destination, single-file and folder output")
    annotation_spelling_part(check, cli_bad, cli_good)
    check.assumptions += ["the generator plants one construct into programs the generator itself considers valid; validity is confirmed by the skipped twin being accepted"]


def cli_part(check, bad, good):
    """process level: a rejected program exits non-zero, names the file, and leaves a pre-existing output untouched;
    the skipped twin exits 0 and writes output."""
    rng = check.rng
    nb = 60 if check.thorough else 18
    picks = [(c, True) for c in rng.sample(bad, min(nb, len(bad)))] + [(c, False) for c in rng.sample(good, min(nb // 2, len(good)))]
    for idx, (c, is_bad) in enumerate(picks):
        lang = LANGS[idx % len(LANGS)]
        multi = is_bad and idx % 2 == 1
        with Scratch() as sc:
            if multi:
                # folder-output mode: the offending crate sorts before (and, next case, after) a clean one
                bad_crate, ok_crate = (("aaa", "zzz") if idx % 4 == 1 else ("zzz", "aaa"))
                sc.write("proj/%s/src/lib.rs" % bad_crate, c["text"])
                sc.write("proj/%s/src/ok.rs" % ok_crate, "#[typeshare]\npub struct Fine { pub a: u8 }\n")
                out = sc.path("outdir")
                os.makedirs(out)
                with open(os.path.join(out, "keep.txt"), "w") as f:
                    f.write("PRE-EXISTING\n")
            else:
                sc.write("proj/src/lib.rs", c["text"])
                sc.write("proj/src/ok.rs", "#[typeshare]\npub struct Fine { pub a: u8 }\n")
                out = sc.path("out." + EXT[lang])
                with open(out, "w") as f:
                    f.write("PRE-EXISTING\n")
            before = snapshot(sc.dir)
            # both arrival orders of the two per-file results at the collector (the offending file first / last)
            for order in (("0,1", "1,0") if is_bad else (None,)):
                r = run_cli(["--lang", lang, "-d" if multi else "-o", out, sc.path("proj")] + lang_args(lang), cwd=sc.dir,
                            env={"TYPESHARE_VERIF_ORDER": order} if order else None)
                if r["timed_out"] or r["rc"] == 0:
                    break
            after = snapshot(sc.dir)
            check.saw(("cli", lang, c["text"]), nontrivial=True)
            check.count("cli-" + ("rejected" if is_bad else "skipped-twin") + ("-multi-file" if multi else ""))
            if is_bad:
                problems = []
                if r["timed_out"]:
                    problems.append("timed out")
                elif r["rc"] == 0:
                    problems.append("exit status 0")
                if after != before:
                    problems.append("files changed: %s" % sorted(k for k in set(after) | set(before) if after.get(k) != before.get(k)))
                if not r["timed_out"] and r["rc"] != 0 and "lib.rs" not in r["err"] + r["out"]:
                    problems.append("diagnostic does not name the file")
                if problems:
                    check.violation("CLI on a program with an unsupported construct (%s, %s): %s" % (c["kind"], lang, "; ".join(problems)),
                                    case={"source": c["text"], "lang": lang}, impl={"rc": r["rc"], "stderr": r["err"][-2000:]},
                                    failing_input=True)
            else:
                # consts are not supported by every back end (C07 known classes): only require that no parse error is reported
                if r["rc"] != 0 and "Parsing error" in r["err"]:
                    check.violation("CLI rejects the skipped twin (%s, %s)" % (c["kind"], lang),
                                    case={"source": c["text"], "lang": lang}, impl={"rc": r["rc"], "stderr": r["err"][-2000:]},
                                    failing_input=True)


# ----------------------------------------------------------------------------- how the offending file gets into the scanned tree

NEIGHBOUR = "#[typeshare]\npub struct PlainNeighbourFile%s { pub n: u8 }\n"
HARMLESS = "// nothing annotated in this file\npub struct NotShared { pub n: u64 }\n"
# layout -> is the file scanned at all?  (False: the unchanged tool documents / shows that it is not: `-L` "follow symbolic links
# to directories instead of ignoring them", hidden directories, git-ignored directories, the `tools/typeshare` override)
ARRIVALS = [("plain", True), ("nested", True),
            ("symlink-absolute", True), ("symlink-relative", True), ("symlink-chain", True), ("symlink-odd-target", True),
            ("symlink-with-L", True), ("hard-link", True),
            ("linked-dir", False), ("linked-dir-with-L", True),
            ("twice-same-root", True), ("twice-root-and-sub-root", True), ("twice-link-and-plain", True),
            ("root-file", True), ("root-link-to-file", True), ("root-link-to-dir", True),
            ("hidden-dir", False), ("git-ignored-dir", False), ("tools-typeshare-dir", False)]


def arrival_tree(sc, layout, text, rng):
    """build a workspace below sc.dir: crate `mmm` with 1-3 ordinary annotated files, and `text` arriving in crate `aaa` / `zzz`
    (sorting before / after `mmm`) the way `layout` says.  The draws shared by all layouts come first, so the same seed gives the
    same crate, file name and neighbours for every layout.  Returns dict(roots, flags, shown, real):
    roots = root arguments relative to sc.dir; shown = the relative paths under which the walker meets the file (the diagnostic
    has to name one of them); real = the regular file that holds the text."""
    crate = rng.choice(["aaa", "zzz"])
    name = rng.choice(["lib.rs", "mod.rs", "a_types.rs", "wire.rs", "zz_models.rs"])
    for i in range(rng.randint(1, 3)):
        sc.write("proj/mmm/src/%s" % ["lib.rs", "b_other.rs", "zzz_last.rs"][i], NEIGHBOUR % ("" if i == 0 else str(i)))
    root_style = rng.choice(["relative", "relative", "absolute", "dot-slash", "trailing-slash"])
    src = "proj/%s/src" % crate
    roots, flags = ["proj"], []

    def link(target_rel, link_rel, relative):
        os.makedirs(os.path.dirname(sc.path(link_rel)), exist_ok=True)
        target = sc.path(target_rel)
        os.symlink(os.path.relpath(target, os.path.dirname(sc.path(link_rel))) if relative else target, sc.path(link_rel))

    real = shown = None
    if layout == "plain":
        real = "%s/%s" % (src, name)
    elif layout == "nested":
        dirs = [rng.choice(["deep", "er", "v1", "models", "inner"]) for _ in range(rng.randint(1, 4))]
        real = "%s/%s/%s" % (src, "/".join(dirs), name)
        os.makedirs(sc.path("%s/%s/empty_dir" % (src, dirs[0])), exist_ok=True)
    elif layout in ("symlink-absolute", "symlink-relative", "symlink-with-L", "symlink-odd-target"):
        real = "elsewhere/" + (rng.choice(["models.rs.in", "MODELS", "shared.txt"]) if layout == "symlink-odd-target" else
                               rng.choice(["shared_models.rs", name]))
        shown = "%s/%s" % (src, name)
        link(real, shown, layout == "symlink-relative" or (layout in ("symlink-with-L", "symlink-odd-target") and rng.random() < 0.5))
        if layout == "symlink-with-L":
            flags = ["-L"]
    elif layout == "symlink-chain":
        real = "elsewhere/shared_models.rs"
        at = real
        for h in range(rng.randint(1, 2)):
            hop = "elsewhere/hops/hop%d.rs" % h
            link(at, hop, rng.random() < 0.5)
            at = hop
        shown = "%s/%s" % (src, name)
        link(at, shown, rng.random() < 0.5)
    elif layout == "hard-link":
        real = "elsewhere/shared_models.rs"
        shown = "%s/%s" % (src, name)
    elif layout in ("linked-dir", "linked-dir-with-L"):
        # the directory link is the crate directory, its src directory, or a directory below src
        level = rng.choice(["crate", "src", "below-src"])
        if level == "crate":
            real, at, to = "elsewhere/cratedir/src/" + name, "proj/" + crate, "elsewhere/cratedir"
        elif level == "src":
            real, at, to = "elsewhere/srcdir/" + name, src, "elsewhere/srcdir"
        else:
            real, at, to = "elsewhere/shared/" + name, src + "/shared", "elsewhere/shared"
        shown = at + real[len(to):]
        if layout == "linked-dir-with-L":
            flags = ["-L"]
    elif layout == "twice-same-root":
        real = "%s/%s" % (src, name)
        roots = ["proj", "proj"]
    elif layout == "twice-root-and-sub-root":
        real = "%s/inner/%s" % (src, name)
        roots = ["proj", rng.choice(["proj/" + crate, src, src + "/inner"])]
        if rng.random() < 0.5:
            roots.reverse()
    elif layout == "twice-link-and-plain":
        real = "%s/%s" % (src, name)
        shown = [real, "proj/mmm/src/linked_" + name]
    elif layout == "root-file":
        real = "other/%s/src/%s" % (crate, name)
        roots = ["proj", real]
    elif layout == "root-link-to-file":
        real = "elsewhere/shared_models.rs"
        shown = "other/%s/src/%s" % (crate, name)
        roots = ["proj", shown]
    elif layout == "root-link-to-dir":
        real = "elsewhere/ws/%s/src/%s" % (crate, name)
        shown = "rootlink/%s/src/%s" % (crate, name)
        roots = ["proj", "rootlink"]
    elif layout == "hidden-dir":
        real = "%s/%s/%s" % (src, rng.choice([".private", ".cache/gen"]), name)
    elif layout == "git-ignored-dir":
        real = "%s/generated/%s" % (src, name)
        sc.write("proj/%s/.gitignore" % crate, rng.choice(["generated/\n", "/src/generated\n", "**/generated/*.rs\n"]))
    elif layout == "tools-typeshare-dir":
        real = "%s/tools/typeshare/%s" % (rng.choice([src, "proj/" + crate, "proj"]), name if rng.random() < 0.5 else "src/" + name)
    else:
        raise ValueError(layout)
    sc.write(real, text)
    if layout == "hard-link":
        os.makedirs(sc.path(src), exist_ok=True)
        os.link(sc.path(real), sc.path(shown))
    elif layout in ("linked-dir", "linked-dir-with-L"):
        link(to, at, rng.random() < 0.5)
    elif layout == "twice-link-and-plain":
        link(real, shown[1], rng.random() < 0.5)
    elif layout == "root-link-to-file":
        link(real, shown, rng.random() < 0.5)
    elif layout == "root-link-to-dir":
        link("elsewhere/ws", "rootlink", rng.random() < 0.5)
    if layout.startswith("root-") and rng.random() < 0.5:
        roots.reverse()
    if not flags and layout != "linked-dir" and not layout.startswith("symlink-") and rng.random() < 0.15:
        flags = ["-L"]          # following links changes nothing when no directory link is involved
    shown = [real] if shown is None else ([shown] if isinstance(shown, str) else shown)
    style = {"relative": lambda r: r, "absolute": sc.path, "dot-slash": lambda r: "./" + r, "trailing-slash": lambda r: r + ("" if r.endswith(".rs") else "/")}
    return dict(roots=[style[root_style](r) for r in roots], flags=flags, shown=shown, real=real, root_style=root_style)


def tree_listing(root):
    """the workspace as a reader can rebuild it: D directory / F file [links=n] / L link -> target"""
    out = []
    for d, dirs, files in os.walk(root):
        dirs.sort()
        if ".git" in dirs:
            dirs.remove(".git")
        for n in sorted(dirs + files):
            p = os.path.join(d, n)
            rel = os.path.relpath(p, root)
            if os.path.islink(p):
                out.append("L %s -> %s" % (rel, os.readlink(p).replace(root, "$PWD")))
            elif os.path.isdir(p):
                out.append("D %s" % rel)
            else:
                st = os.stat(p)
                out.append("F %s%s" % (rel, " [hard links=%d]" % st.st_nlink if st.st_nlink > 1 else ""))
    return out


def arrival_run(sc, t, lang, folder, dest, order=None):
    args = ["--lang", lang, "-d" if folder else "-o", dest] + lang_args(lang) + t["flags"] + t["roots"]
    return args, run_cli(args, cwd=sc.dir, env={"TYPESHARE_VERIF_ORDER": order} if order else None)


def produced(sc, dest):
    """what a run left at the destination: {relative path: bytes}"""
    p = sc.path(dest)
    if os.path.isdir(p):
        return {k: v[0] for k, v in snapshot(p).items()}
    return {"": open(p, "rb").read()} if os.path.exists(p) else {}


def show(prod):
    return {k: v.decode("utf-8", "replace")[-1500:] for k, v in prod.items()}


def arrival_part(check, bad, good):
    """Dimension: HOW the file with the unsupported construct gets into the scanned tree - written there, in a nested directory,
    as a symbolic link to a file kept elsewhere (absolute, relative, chained, target not named *.rs, with -L), as a hard link,
    inside a symlinked directory (crate / src / lower level; without -L and with -L), seen twice (the same root twice, a root and a
    root inside it, a plain file plus a link to it), named as a root itself (a file, a link to a file, a link to a directory), or
    put where the unchanged tool does not look (hidden directory, git-ignored directory, tools/typeshare) - always next to 1-3
    ordinary annotated files of another crate that sorts before / after it, with single-file and folder output over a pre-existing
    destination, roots written relative / absolute / with ./ / with a trailing slash, both orders of arrival at the collector.
    Demands, for every way in which the file IS scanned: non-zero exit, the diagnostic names the path under which the walker met
    the file, nothing below the workspace is created or modified; and the skipped twin arriving the same way succeeds and
    generates byte for byte what it generates as a plain file (twice-seen files: every line of that).  For the ways in which the
    file is NOT scanned: the run succeeds and writes exactly what it writes when that file holds nothing annotated."""
    if not bad:
        return
    rng = check.rng
    per = 12 if check.thorough else 3
    reported = 0
    for layout, scanned in ARRIVALS:
        if reported >= 3:
            return
        for k in range(per):
            c = rng.choice(bad)
            lang = rng.choice(LANGS)
            folder = rng.random() < 0.35
            seed = rng.getrandbits(32)
            check.count("arrival-" + layout)
            check.count("arrival-output-" + ("folder" if folder else "file"))
            with Scratch() as sc:
                t = arrival_tree(sc, layout, c["text"], random.Random(seed))
                check.count("arrival-roots-" + t["root_style"])
                if folder:
                    dest = "outdir"
                    sc.write("outdir/keep.txt", "PRE-EXISTING\n")
                    sc.write("outdir/%s.%s" % (t["shown"][0].split("/")[1], EXT[lang]), "PRE-EXISTING\n")
                else:
                    dest = "out." + EXT[lang]
                    sc.write(dest, "PRE-EXISTING\n")
                listing = tree_listing(sc.dir)
                before = snapshot(sc.dir)
                for order in (None, "rev"):
                    args, r = arrival_run(sc, t, lang, folder, dest, order)
                    if r["timed_out"] or r["rc"] == 0:
                        break
                after = snapshot(sc.dir)
                check.saw(("arrival", layout, lang, folder, c["text"]), nontrivial=True)
                case = {"source": c["text"], "planted": c["kind"], "lang": lang, "layout": layout, "workspace": listing,
                        "file_with_the_source": t["real"], "command": "cd <workspace> && typeshare " + " ".join(args),
                        "other_files": "every F under proj/mmm holds `%s` (with its own number); F out.* / outdir/* hold `PRE-EXISTING`" % (NEIGHBOUR % "<n>").strip(),
                        "order_of_arrival": order}
                log = r["err"] + r["out"]
                if scanned:
                    problems = []
                    if r["timed_out"]:
                        problems.append("timed out")
                    elif r["rc"] == 0:
                        problems.append("exit status 0")
                    if after != before:
                        problems.append("files changed: %s" % sorted(k for k in set(after) | set(before) if after.get(k) != before.get(k)))
                    if not r["timed_out"] and not any(s in log for s in t["shown"]):
                        problems.append("no diagnostic names the file (%s)" % " / ".join(t["shown"]))
                    if problems:
                        check.violation("CLI, the file with an unsupported construct (%s) reaches the scanned tree as `%s` "
                                        "(%s, %s output): %s" % (c["kind"], layout, lang, "folder" if folder else "single-file",
                                                                 "; ".join(problems)),
                                        case=case, impl={"rc": r["rc"], "stderr": r["err"][-2000:], "destination_after": show(produced(sc, dest))},
                                        failing_input=True)
                        reported += 1
                        break
                else:
                    # legitimately not scanned: the file must not influence the run at all
                    with_bad = produced(sc, dest)
                    with open(sc.path(t["real"]), "w", encoding="utf-8") as f:
                        f.write(HARMLESS)
                    args, r2 = arrival_run(sc, t, lang, folder, dest)
                    without = produced(sc, dest)
                    check.count("arrival-not-scanned")
                    if r["rc"] != 0 or r2["rc"] != 0 or with_bad != without or any(s in log for s in t["shown"]):
                        check.violation("CLI, a file with an unsupported construct (%s) in a place the tool does not scan (`%s`; %s, "
                                        "%s output) influences the run: exit status %s against %s with a harmless file there, "
                                        "destination %s" % (c["kind"], layout, lang, "folder" if folder else "single-file", r["rc"],
                                                            r2["rc"], "identical" if with_bad == without else "differs"),
                                        case=case, impl={"rc": r["rc"], "stderr": r["err"][-2000:], "destination_after": show(with_bad)},
                                        model={"rc": r2["rc"], "destination_after": show(without)}, failing_input=True)
                        reported += 1
                        break
            if not scanned or not good:
                continue
            # --- the skipped twin, arriving the same way, against the same twin as a plain file
            g = rng.choice(good)
            lang = rng.choice(LANGS)
            folder = rng.random() < 0.35
            seed = rng.getrandbits(32)
            dest = "outdir" if folder else "out." + EXT[lang]
            got = []
            for lay in ("plain", layout):
                with Scratch() as sc:
                    t = arrival_tree(sc, lay, g["text"], random.Random(seed))
                    if folder:
                        os.makedirs(sc.path(dest))
                    listing = tree_listing(sc.dir)
                    args, r = arrival_run(sc, t, lang, folder, dest)
                    got.append((r, produced(sc, dest), listing, args, t))
            (r0, p0, _, _, _), (r1, p1, listing, args, t) = got
            check.saw(("arrival-twin", layout, lang, folder, g["text"]), nontrivial=False)
            if r0["rc"] != 0 or r0["timed_out"]:
                check.count("arrival-twin-not-generated-as-plain-file")     # e.g. consts in a back end without them: cli_part / C07
                continue
            check.count("arrival-twin-" + layout)
            if layout.startswith("twice-"):
                lines = lambda p: {k: set(v.splitlines()) for k, v in p.items()}
                same = r1["rc"] == 0 and all(ls <= lines(p1).get(k, set()) for k, ls in lines(p0).items())
            else:
                same = r1["rc"] == 0 and p1 == p0
            if not same:
                check.violation("CLI, the skipped twin (%s) reaches the scanned tree as `%s` (%s, %s output): %s" % (
                    g["kind"], layout, lang, "folder" if folder else "single-file",
                    "exit status %s although the same sources as plain files are generated" % r1["rc"] if r1["rc"] != 0 else
                    "the run succeeds but does not generate what the same sources as plain files give"),
                    case={"source": g["text"], "planted": g["kind"], "lang": lang, "layout": layout, "workspace": listing,
                          "file_with_the_source": t["real"], "command": "cd <workspace> && typeshare " + " ".join(args),
                          "other_files": "every F under proj/mmm holds `%s` (with its own number)" % (NEIGHBOUR % "<n>").strip()},
                    impl={"rc": r1["rc"], "stderr": r1["err"][-1500:], "destination_after": show(p1)},
                    model={"as_plain_files": show(p0)}, failing_input=True)
                reported += 1
                break


# ----------------------------------------------------------------------------- positional members with skip markers

POS_WAYS = ["serde", "typeshare", "serde-merged", "serde-split", "cfg", "cfg-not"]
POS_GOOD = ["String", "u8", "bool", "f64", "i16", "u32", "char", "i8"]
POS_TARGETS = [["ios"], ["ios"], ["ios"], ["ios", "macos"], ["android"], ["macos", "android"], []]


def pos_marker(rng, way):
    """-> (attributes of the member, f(target_os) -> is the member skipped under that --target-os list)"""
    if way == "serde":
        return [m_list("serde", [m_path("skip")])], lambda tos: True
    if way == "typeshare":
        return [m_list("typeshare", [m_path("skip")])], lambda tos: True
    if way == "serde-merged":
        args = [m_path("skip"), m_path("default")]
        rng.shuffle(args)
        return [m_list("serde", args)], lambda tos: True
    if way == "serde-split":
        attrs = [m_list("serde", [m_path("default")]), m_list(rng.choice(["serde", "typeshare"]), [m_path("skip")])]
        rng.shuffle(attrs)
        return attrs, lambda tos: True
    if way == "cfg":
        # documented: with --target-os, a member whose cfg(target_os = ..) names none of the targets is left out
        return [m_list("cfg", [m_nv("target_os", lit_s("android"))])], lambda tos: bool(tos) and "android" not in tos
    if way == "cfg-not":
        return [m_list("cfg", [m_list("not", [m_nv("target_os", lit_s("ios"))])])], lambda tos: "ios" in tos
    raise ValueError(way)


def pos_neighbour(rng, k):
    if rng.random() < 0.5:
        return {"kind": "struct", "attrs": [m_path("typeshare")], "ident": "Neighbour%d" % k, "generics": [],
                "fields": ("named", [field([], "name", t_path("String")), field([], "age", t_path("u32"))])}
    return {"kind": "enum", "attrs": [m_path("typeshare")], "ident": "Neighbour%d" % k, "generics": [],
            "variants": [{"attrs": [], "ident": v, "fields": ("unit",)} for v in ("Red", "Green")]}


def pos_file(rng, shape, members, generic, variant_attrs, before, after):
    """members: list of (attrs, type); -> abstract file with the probe item `Probe` among `before` + `after` neighbours.
    The enum around a tuple variant carries serde(tag, content) exactly when a variant with data is left on the wire (the probed
    variant, unless it is skipped itself, or a newtype / struct variant next to it): tag/content on what is a unit enum is an
    unsupported construct of its own."""
    fs = ("unnamed", [field(list(a), None, t) for a, t in members])
    gens = [("ty", "T")] if generic else []
    if shape == "struct":
        probe = {"kind": "struct", "attrs": [m_path("typeshare")], "ident": "Probe", "generics": gens, "fields": fs}
    else:
        vs = list(before["variants"]) + [{"attrs": list(variant_attrs), "ident": "Probed", "fields": fs}] + list(after["variants"])
        data = not variant_attrs or any(v["fields"][0] != "unit" for v in before["variants"] + after["variants"])
        keys = [m_list("serde", [m_nv("tag", lit_s("t")), m_nv("content", lit_s("c"))])] if data else []
        probe = {"kind": "enum", "attrs": [m_path("typeshare")] + keys, "ident": "Probe", "generics": gens, "variants": vs}
    return {"attrs": [], "items": list(before["items"]) + [probe] + list(after["items"])}


def gen_rejected(a):
    return "ok" not in a


def replay_positional_skip(check):
    """open finding skip-on-positional-member-ignored: the skip markers of *positional* members are not consulted - the sole member of a
    newtype struct / variant is taken whatever it carries, so moving an unsupported construct under serde(skip) there does not make the
    run succeed again (the property's last sentence)"""
    srcs = ["#[typeshare]\npub struct S(#[serde(skip)] u64);\n",
            "#[typeshare]\n#[serde(tag = \"t\", content = \"c\")]\npub enum E { A(#[typeshare(skip)] (u8, u8)), B(u8) }\n"]
    reqs = [{"op": "parse", "src": s, "crate": "", "file_name": "o", "path": "src/lib.rs"} for s in srcs]
    for s, a in zip(srcs, runner(reqs)):
        check.saw(("positional-skip-witness", s), nontrivial=True)
        rejected = "err" in a or bool((a.get("ok") or {}).get("errors"))
        if rejected:
            if not check.known("skip-on-positional-member-ignored", {"source": s, "answer": str(a)[:400]}):
                check.violation("an unsupported construct in a *skipped* positional member is still reported: %s" % s.replace("\n", " "),
                                case={"source": s}, impl=a, failing_input=True)
                return


def positional_members_part(check):
    """Dimension: the *positional* members of an annotated item and which of them are skipped.  Tuple structs and tuple variants
    with 1-4 positional members; every subset of the positions carries a skip marker (serde(skip), typeshare(skip), skip merged
    with / next to another serde argument, cfg(target_os = "android") and cfg(not(target_os = "ios")) - which are skip markers
    only under a --target-os list that makes them so; every list is tried: matching, not matching, absent); the remaining
    positions sometimes carry an attribute that only looks like a skip marker; the unsupported construct (u64 / i64 / usize /
    isize / a tuple, under 0-3 wrappers, or named by serialized_as on the member) sits at each position in turn, skipped or not,
    or nowhere (the base program); supported members have pairwise different types (and PhantomData<T> / T in the generic version
    of the item) so the output shows which member was taken; the tuple variant stands first / in the middle / last among unit,
    newtype and struct variants and is also tried with the variant itself skipped; 0-2 ordinary annotated items before and after.

    With `live` = the members that are NOT skipped under the given --target-os, the property demands of the implementation
    (parser::parse in-process, generate_types in-process in all six languages, and the binary):
      (1) two or more live members ("tuple struct / variant with several fields", documented as unsupported): rejected;
      (2) the unsupported construct in a live member: rejected - never silently accepted, whatever stands in the skipped members;
      (3) exactly one live member and nothing unsupported in it: what stands in the *skipped* members does not matter - the
          verdict is the verdict of the base program (same markers, supported types everywhere), and an accepted program yields
          exactly the parsed data / the generated text of the program with the skipped members deleted (so a skipped member's
          type is never what is generated);
      (4) the tuple variant itself skipped: accepted, and nothing of it in the parsed data.
    Items all of whose members are skipped are counted, nothing is demanded of them (there is no wire form to describe).
    Also compared: parser::parse = Visitor.parseFile of the model on every program (broken correspondence, no failing input)."""
    rng = check.rng
    rounds = 24 if check.thorough else 4
    g = Gen(rng)
    cases = []
    for rnd in range(rounds):
        for shape in ("struct", "variant"):
            for n in (1, 2, 3, 4):
                for mask in range(1 << n):
                    marked = [i for i in range(n) if mask >> i & 1]
                    ways = {i: rng.choice(POS_WAYS) for i in marked}
                    tos = rng.choice(POS_TARGETS) if any(w.startswith("cfg") for w in ways.values()) or rng.random() < 0.15 else []
                    generic = rng.random() < 0.35
                    good = rng.sample(POS_GOOD, n)
                    members, rules = [], []
                    for i in range(n):
                        if i in ways:
                            attrs, rule = pos_marker(rng, ways[i])
                            ty = t_path("PhantomData", [t_path("T")]) if generic and rng.random() < 0.5 else t_path(good[i])
                        else:
                            attrs, rule = ([rng.choice(LOOKALIKES)] if rng.random() < 0.15 else []), (lambda tos: False)
                            ty = t_path("T") if generic and rng.random() < 0.4 else t_path(good[i])
                        members.append((attrs, ty))
                        rules.append(rule)
                    live = [i for i in range(n) if not rules[i](tos)]
                    variant_skipped = shape == "variant" and rng.random() < 0.12
                    vattrs = pos_marker(rng, rng.choice(POS_WAYS[:4]))[0] if variant_skipped else []
                    if shape == "variant":
                        pool = [{"attrs": [], "ident": "Plain", "fields": ("unit",)},
                                {"attrs": [], "ident": "Newtype", "fields": ("unnamed", [field([], None, t_path("String"))])},
                                {"attrs": [], "ident": "Record", "fields": ("named", [field([], "a", t_path("u8"))])}]
                        rng.shuffle(pool)
                        cut = rng.randint(0, 3)
                        vb, va = pool[:cut][:rng.randint(0, 2)], pool[cut:][:rng.randint(0, 2)]
                        if variant_skipped and not vb + va:
                            va = [pool[0]]          # an enum is left when the probed variant is gone
                    else:
                        vb = va = []
                    before = {"items": [pos_neighbour(rng, k) for k in range(rng.randint(0, 2))], "variants": vb}
                    after = {"items": [pos_neighbour(rng, 5 + k) for k in range(rng.randint(0, 2))], "variants": va}
                    group = []
                    for bad_at in [None] + list(range(n)):
                        ms = [(list(a), t) for a, t in members]
                        planted = None
                        if bad_at is not None:
                            bad = wrap(rng, bad_leaf(rng), rng.randint(0, 3))
                            if rng.random() < 0.2:
                                text_ = render_type(bad)
                                g.ext[text_] = bad
                                ms[bad_at] = (ms[bad_at][0] + [m_list("typeshare", [m_nv("serialized_as", lit_s(text_))])], ms[bad_at][1])
                                planted = "serialized_as = %r" % text_
                            else:
                                ms[bad_at] = (ms[bad_at][0], bad)
                                planted = render_type(bad)
                        f = pos_file(rng, shape, ms, generic, vattrs, before, after)
                        if variant_skipped:
                            expect = "accept"
                        elif len(live) >= 2:
                            expect = "reject-several"
                        elif bad_at is not None and bad_at in live:
                            expect = "reject-unsupported"
                        elif len(live) == 1:
                            expect = "as-base"
                        else:
                            expect = "nothing-live"
                        # the same item with the skipped members deleted (what an accepted program has to generate)
                        reduced = pos_file(rng, shape, [ms[i] for i in live], generic, vattrs, before, after) if live else None
                        mreq, rreq, text = l1.requests(f, g, target_os=tos)
                        c = dict(shape=shape, n=n, marked=marked, ways=[ways.get(i) for i in range(n)], tos=tos, live=live, bad_at=bad_at,
                                 planted=planted, expect=expect, file=f, reduced=reduced, m=mreq, r=rreq, text=text, generic=generic,
                                 variant_skipped=variant_skipped, group=group)
                        group.append(c)
                        cases.append(c)
    # ext_sx grows while programs are drawn: every model request gets the final table
    for c in cases:
        c["m"][2] = g.ext_sx()
    mans, rans, diffs = l1.compare([(c["m"], c["r"]) for c in cases])
    greqs = []
    for c in cases:
        for lang in LANGS:
            greqs.append({"op": "generate", "lang": lang, "config": pos_cfg(lang), "multi_file": False, "target_os": list(c["tos"]),
                          "files": [{"src": c["text"], "crate": "", "file_name": "out", "path": "src/lib.rs"}]})
    gans = runner(greqs)
    for k, (c, ma, ra) in enumerate(zip(cases, mans, rans)):
        c["model"], c["impl"] = ma, ra
        c["gen"] = dict(zip(LANGS, gans[k * len(LANGS):(k + 1) * len(LANGS)]))

    def describe(c):
        return ("tuple %s with %d positional member(s), skip marker on position(s) %s (%s)%s, --target-os %s => live member(s) %s; "
                "unsupported construct %s" % (
                    c["shape"], c["n"], c["marked"] or "none", ", ".join(w for w in c["ways"] if w) or "-",
                    ", the variant itself skipped" if c["variant_skipped"] else "", " ".join(c["tos"]) or "(none)", c["live"] or "none",
                    "nowhere" if c["bad_at"] is None else "`%s` at position %d (%s)" % (
                        c["planted"], c["bad_at"], "live" if c["bad_at"] in c["live"] else "skipped")))

    def case_of(c, **more):
        d = {"source": c["text"], "target_os": c["tos"], "shape": describe(c), "request": c["r"],
             "replay": "typeshare --lang typescript -o out.ts <dir with the source as src/lib.rs>%s" % (
                 " --target-os " + " ".join(c["tos"]) if c["tos"] else "")}
        d.update(more)
        return d

    found = []          # (size, kind of finding, text of the report, case, impl, model)
    followups = []
    for c in cases:
        key = "%s n=%d live=%s %s" % (c["shape"] + ("(itself skipped)" if c["variant_skipped"] else ""), c["n"],
                                      min(len(c["live"]), 2) if len(c["live"]) < 2 else "2+", "nothing-unsupported" if c["bad_at"] is None else
                                      "unsupported-in-live" if c["bad_at"] in c["live"] else "unsupported-in-skipped")
        check.saw(("positional", c["text"], tuple(c["tos"])), nontrivial=c["expect"].startswith("reject"))
        check.count("positional-" + c["shape"])
        check.count("positional-expect-" + c["expect"])
        for w in c["ways"]:
            if w:
                check.count("positional-marker-" + w)
        check.count("positional-target-os-" + ("+".join(c["tos"]) or "none"))
        acc = not rejected(c["impl"])
        gen_acc = [l for l in LANGS if not gen_rejected(c["gen"][l])]
        check.count("positional-observed %s: %s" % (key, "accepted" if acc else "rejected"))
        shown = {l: list(c["gen"][l]["ok"].values())[0][-600:] for l in gen_acc}
        if c["expect"].startswith("reject"):
            why = ("%d positional members are not skipped (several fields: unsupported)" % len(c["live"]) if c["expect"] == "reject-several"
                   else "the unsupported construct stands in a member that is not skipped")
            if acc:
                found.append((len(c["text"]), "accepted", "parser::parse accepts a %s without an error although %s" % (describe(c), why),
                              case_of(c), {"parse": c["impl"], "generated": shown}, c["model"]))
            elif gen_acc:
                found.append((len(c["text"]), "generated", "in-process generation (%s) succeeds for a %s although %s" % (
                    ", ".join(gen_acc), describe(c), why), case_of(c), {"parse": c["impl"], "generated": shown}, c["model"]))
        elif c["expect"] == "accept":
            if not acc or len(gen_acc) != len(LANGS):
                found.append((len(c["text"]), "skipped-variant", "a %s is rejected although the variant that holds the positional members is skipped "
                              "(parse: %s; generated in: %s)" % (describe(c), "accepted" if acc else "rejected", gen_acc or "no language"),
                              case_of(c), {"parse": c["impl"], "generate": {l: c["gen"][l] for l in LANGS if l not in gen_acc}}, c["model"]))
            elif "Probed" in json.dumps(c["impl"]):
                found.append((len(c["text"]), "skipped-variant", "a %s: the skipped variant shows in the parsed data" % describe(c), case_of(c), c["impl"], c["model"]))
        elif c["expect"] == "as-base":
            base = c["group"][0]
            if c is not base and (acc, gen_acc) != (not rejected(base["impl"]), [l for l in LANGS if not gen_rejected(base["gen"][l])]):
                found.append((len(c["text"]), "skipped-member-decides", "what stands in a SKIPPED member decides: a %s is %s, the same program with a supported "
                              "type in that member is %s" % (describe(c), "accepted" if acc else "rejected",
                                                             "accepted" if not rejected(base["impl"]) else "rejected"),
                              case_of(c, base_program=base["text"]), {"parse": c["impl"], "generated": shown},
                              {"base_program_parse": base["impl"]}))
            if (acc or gen_acc) and c["n"] > 1:
                followups.append(c)
        else:
            check.count("positional-nothing-live-" + ("accepted" if acc else "rejected"))
    # (3), second half: an accepted program with one live member among skipped ones = the program with the skipped members deleted
    if followups:
        freqs = []
        for c in followups:
            text = render_file(c["reduced"])
            c["reduced_text"] = text
            freqs.append({"op": "parse", "src": text, "crate": "", "file_name": "out.ts", "path": "src/lib.rs", "target_os": list(c["tos"]),
                          "multi_file": False, "ignored_types": []})
            for lang in LANGS:
                freqs.append({"op": "generate", "lang": lang, "config": pos_cfg(lang), "multi_file": False, "target_os": list(c["tos"]),
                              "files": [{"src": text, "crate": "", "file_name": "out", "path": "src/lib.rs"}]})
        fans = runner(freqs)
        for k, c in enumerate(followups):
            part = fans[k * (1 + len(LANGS)):(k + 1) * (1 + len(LANGS))]
            check.count("positional-compared-with-skipped-members-deleted")
            differing = (["parsed data"] if part[0] != c["impl"] else []) + [l for l, a in zip(LANGS, part[1:]) if a != c["gen"][l]]
            if differing:
                l_ = next((l for l in LANGS if l in differing), None)
                found.append((len(c["text"]), "not-the-live-member", "a %s is accepted but does not give what the same item with the skipped members deleted "
                              "gives (%s differ)" % (describe(c), ", ".join(differing)),
                              case_of(c, skipped_members_deleted=c["reduced_text"]),
                              {"parse": c["impl"], "generated": {l_: c["gen"][l_]} if l_ else None},
                              {"skipped_members_deleted_parse": part[0], "generated": {l_: part[1 + LANGS.index(l_)]} if l_ else None}))
    if found:
        # the shortest failing program of each kind of finding, at most three reports
        seen = set()
        order = ["accepted", "generated", "skipped-member-decides", "not-the-live-member", "skipped-variant"]
        for size, kind, what, case, impl, mod_ in sorted(found, key=lambda t: (order.index(t[1]), t[0], t[2])):
            if kind in seen or len(seen) >= 3:
                continue
            seen.add(kind)
            check.violation(what, case=case, impl=impl, model=mod_, failing_input=True)
    else:
        for i in diffs:
            c = cases[i]
            check.violation("parser::parse differs from the model on a %s: %s" % (describe(c), l1.first_diff(c["model"], c["impl"])),
                            case=case_of(c), impl=c["impl"], model=c["model"], failing_input=False,
                            broken="correspondence L1 parser::parse (theorems TsV.C08.*)")
            break
    # --- the binary: --target-os reaches the members; a rejected program leaves a pre-existing destination alone
    must = [c for c in cases if c["expect"].startswith("reject")]
    with_os = [c for c in must if c["tos"]]
    k = 24 if check.thorough else 6
    picks = rng.sample(with_os, min(k // 2, len(with_os))) + rng.sample(must, min(k - k // 2, len(must)))
    for idx, c in enumerate(picks):
        lang = LANGS[idx % len(LANGS)]
        with Scratch() as sc:
            sc.write("proj/src/lib.rs", c["text"])
            sc.write("proj/src/ok.rs", "#[typeshare]\npub struct Fine { pub a: u8 }\n")
            out = sc.path("out." + EXT[lang])
            with open(out, "w") as fh:
                fh.write("PRE-EXISTING\n")
            before_ = snapshot(sc.dir)
            args = ["--lang", lang, "-o", out] + lang_args(lang) + [sc.path("proj")] + ((["--target-os"] + c["tos"]) if c["tos"] else [])
            r = run_cli(args, cwd=sc.dir)
            after_ = snapshot(sc.dir)
            check.saw(("positional-cli", lang, c["text"], tuple(c["tos"])), nontrivial=True)
            check.count("positional-cli" + ("-with-target-os" if c["tos"] else ""))
            problems = []
            if r["timed_out"]:
                problems.append("timed out")
            elif r["rc"] == 0:
                problems.append("exit status 0")
            if after_ != before_:
                problems.append("files changed: %s" % sorted(k_ for k_ in set(after_) | set(before_) if after_.get(k_) != before_.get(k_)))
            if not r["timed_out"] and r["rc"] != 0 and "lib.rs" not in r["err"] + r["out"]:
                problems.append("diagnostic does not name the file")
            if problems:
                check.violation("CLI on a %s (%s): %s" % (describe(c), lang, "; ".join(problems)),
                                case=case_of(c, lang=lang, command="typeshare " + " ".join(args).replace(sc.dir, "<workspace>")),
                                impl={"rc": r["rc"], "stderr": r["err"][-2000:],
                                      "destination_after": open(out, errors="replace").read()[-1500:] if os.path.exists(out) else None},
                                failing_input=True)
                break


# ----------------------------------------------------------------------------- how the annotation is spelled

SPELL_GAPS = ["", "", " ", "  ", "\t", "\n", "\n    ", " /* shared */ ", "/**/", "// wire type\n", "\r\n"]
SPELL_PATHS = ["typeshare", "typeshare", "typeshare::typeshare", "::typeshare::typeshare", "typeshare :: typeshare",
               ":: typeshare ::\ntypeshare", "typeshare::/* the macro */typeshare", "::typeshare"]
SPELL_ARGS = ["", "", "", '(swift = "Equatable")', '( swift = "Equatable, Hashable" )', "()", '(kotlin = "JvmInline")']


def draw_spelling(rng):
    """-> dict(g1 = between `#` and `[`, g2 = between `[` and the path, path, g3 = after the path, args, g4 = before `]`, wrap)"""
    gap = (lambda pool: "") if rng.random() < 0.3 else rng.choice          # three in ten: nothing but the path differs
    sp = dict(g1=gap(SPELL_GAPS), g2=gap(SPELL_GAPS), path=rng.choice(SPELL_PATHS), g3=gap(SPELL_GAPS[:7]),
              args=rng.choice(SPELL_ARGS), g4=gap(SPELL_GAPS), wrap=rng.random() < 0.08)
    return sp


def spell_item(sp):
    """the item-level annotation `#[typeshare]` in the spelling sp"""
    if sp["wrap"]:
        return "#%s[%scfg_attr(all(), %s%s)%s]" % (sp["g1"], sp["g2"], sp["path"], sp["args"], sp["g4"])
    return "#%s[%s%s%s%s%s]" % (sp["g1"], sp["g2"], sp["path"], sp["g3"] if sp["args"] else "", sp["args"], sp["g4"])


def spell_member(sp):
    """the opening of a member-level `#[typeshare(..)]` (skip, serialized_as): only the gaps vary - the arguments of these are read
    from attributes whose path is exactly `typeshare`; never the bare byte sequence `#[typeshare`"""
    g1, g2 = sp["g1"], sp["g2"]
    if not g1 and not g2:
        g2 = " "
    return "#%s[%stypeshare(" % (g1, g2)


def respell(text, rng, uniform):
    """every `#[typeshare]` / `#[typeshare(` of the program text respelled: all alike (uniform) or each drawn on its own
    (then a bare `#[typeshare]` may stay among them).  -> (new text, spellings used for item annotations)"""
    first = draw_spelling(rng)
    used = []

    def one(m):
        if m.group(1) == "(":
            return spell_member(first if uniform else draw_spelling(rng))
        sp = first if uniform else (draw_spelling(rng) if rng.random() < 0.7 else None)
        if sp is None:
            used.append(None)
            return "#[typeshare]"
        used.append(sp)
        return spell_item(sp)

    return re.sub(r"#\[typeshare([\](])", one, text), used


def vis(spellings):
    return " / ".join("`%s`" % a.replace("\n", "\\n").replace("\r", "\\r").replace("\t", "\\t") for a in spellings)


def spelling_class(sp):
    if sp is None:
        return "bare"
    gaps = "gaps" if any(sp[k] for k in ("g1", "g2", "g4")) else "tight"
    comment = "+comment" if any("/" in sp[k] for k in ("g1", "g2", "g4", "path")) else ""
    path = "cfg_attr" if sp["wrap"] else ("leading-colons" if sp["path"].lstrip().startswith("::") else
                                          "two-segments" if "::" in sp["path"] else "bare-path")
    return "%s/%s%s%s" % (path, gaps, comment, "/arguments" if sp["args"] else "")


def annotation_spelling_part(check, bad, good):
    """Dimension: how the `typeshare` ANNOTATION is spelled in the file that holds the unsupported construct.  Every
    `#[typeshare]` of a planted program (and the opening of every member-level `#[typeshare(..)]`) is rewritten: the path bare /
    `typeshare::typeshare` / with a leading `::` / `::typeshare` / blanks, line breaks and comments inside the path; blanks, tabs,
    line breaks (LF, CRLF), block and line comments between `#` and `[`, between `[` and the path, before `]`; with arguments
    (`(swift = "..")`, `(kotlin = "..")`, `()`); wrapped as `cfg_attr(all(), typeshare)`; all annotations of the file spelled alike
    (then the byte sequence `#[typeshare` is often nowhere in the file) or each on its own with bare ones left among them.
    Which spellings the tool under test takes for an annotation is found out from the tool: an ordinary struct under that spelling,
    in a file that also has a plainly annotated struct, is in the parsed data or is not (`cfg_attr(..)` is not, for the unchanged
    tool).  Demanded, when every spelling used in the program is one the tool recognises: parser::parse still rejects the program
    (in-process; equal to the model's answer for the program when no arguments were added), the binary run over the file next to
    an ordinarily annotated file (single-file and folder output, both orders of arrival) exits non-zero, names the file and
    changes nothing; the skipped twin respelled the same way is accepted and - when no arguments were added - the binary
    generates byte for byte what it generates for the twin with `#[typeshare]`.  Programs with a spelling the tool does not
    recognise are counted, nothing is demanded of them."""
    if not bad:
        return
    rng = check.rng
    n_bad, n_good = (400, 150) if check.thorough else (90, 30)
    n_cli, n_twin = (60, 18) if check.thorough else (14, 4)
    progs = []
    for c, is_bad in ([(rng.choice(bad), True) for _ in range(n_bad)] + [(rng.choice(good), False) for _ in range(n_good if good else 0)]):
        if "#[typeshare]" not in c["text"]:
            check.count("spelling-program-without-a-bare-annotation")
            continue
        uniform = rng.random() < 0.7
        text, used = respell(c["text"], rng, uniform)
        progs.append(dict(c=c, bad=is_bad, text=text, used=used, uniform=uniform,
                          tight_free="#[typeshare" not in text, plain_args=all(sp is None or not sp["args"] for sp in used)))
    # which spellings does the tool take for an annotation?  (an ordinary item, next to a plainly annotated one)
    spelled = {}
    for p in progs:
        for sp in p["used"]:
            if sp is not None:
                spelled.setdefault(spell_item(sp), sp)
    keys = sorted(spelled)
    probe = lambda a: "%s\npub struct SpelledProbe { pub a: u8 }\n\n#[typeshare]\npub struct PlainProbe { pub b: u8 }\n" % a
    reqs = [{"op": "parse", "src": probe(a), "crate": "", "file_name": "o", "path": "src/probe.rs"} for a in keys]
    reqs += [dict(p["c"]["r"], src=p["text"]) for p in progs]
    ans = runner(reqs)
    recognised = {}
    for a, r in zip(keys, ans):
        dump = json.dumps(r)
        recognised[a] = "SpelledProbe" in dump and "PlainProbe" in dump and not rejected(r)
        check.count("spelling-%s: %s" % (spelling_class(spelled[a]), "an annotation" if recognised[a] else "not an annotation"))
    found = []
    for p, r in zip(progs, ans[len(keys):]):
        p["impl"] = r
        p["demanded"] = all(sp is None or recognised[spell_item(sp)] for sp in p["used"])
        check.saw(("spelling", p["text"]), nontrivial=p["bad"] and p["demanded"])
        check.count("spelling-%s-%s" % ("rejected-program" if p["bad"] else "skipped-twin", "all-alike" if p["uniform"] else "each-its-own"))
        if p["tight_free"]:
            check.count("spelling-file-without-the-bytes-#[typeshare")
        if not p["demanded"]:
            check.count("spelling-nothing-demanded (a spelling the tool does not take for an annotation): %s" % (
                "rejected" if rejected(r) else "accepted"))
            continue
        case = {"source": p["text"], "source_with_plain_annotations": p["c"]["text"], "planted": p["c"]["kind"],
                "spellings": sorted(set(spell_item(sp) for sp in p["used"] if sp is not None)),
                "request": dict(p["c"]["r"], src=p["text"])}
        if p["bad"] and not rejected(r):
            found.append((len(case["spellings"]) * 10 ** 6 + len(p["text"]), "parser::parse accepts a program with an unsupported construct (%s) without an error once its "
                          "annotations are spelled %s (rejected with `#[typeshare]`)" % (
                              p["c"]["kind"], vis(case["spellings"])), case, r, p["c"]["model"], True))
        elif not p["bad"] and rejected(r):
            found.append((len(p["text"]), "parser::parse rejects the skipped twin (%s) once its annotations are spelled %s (accepted with "
                          "`#[typeshare]`)" % (p["c"]["kind"], vis(case["spellings"])),
                          case, r, p["c"]["model"], True))
        elif p["plain_args"] and r != p["c"]["model"] and p["c"]["model"] == p["c"]["impl"]:
            found.append((10 ** 9 + len(p["text"]), "parser::parse on a planted program (%s) with respelled annotations differs from the model's "
                          "answer for that program: %s" % (p["c"]["kind"], l1.first_diff(p["c"]["model"], r)), case, r, p["c"]["model"], False))
    for size, what, case, impl, mod_, failing in sorted(found, key=lambda t: (t[0], t[1]))[:1]:
        if failing:
            check.violation(what, case=case, impl=impl, model=mod_, failing_input=True)
        else:
            check.violation(what, case=case, impl=impl, model=mod_, failing_input=False,
                            broken="correspondence L1 parser::parse (theorems TsV.C08.*)")
    # --- the binary
    must = [p for p in progs if p["bad"] and p["demanded"]]
    # half of the runs on files in which the bytes `#[typeshare` occur nowhere
    free = [p for p in must if p["tight_free"]]
    picks = rng.sample(free, min(n_cli // 2, len(free)))
    picks += rng.sample(must, min(n_cli - len(picks), len(must)))
    reported = 0
    for idx, p in enumerate(picks):
        lang = LANGS[idx % len(LANGS)]
        folder = idx % 3 == 2
        with Scratch() as sc:
            if folder:
                bad_crate, ok_crate = ("aaa", "zzz") if idx % 2 else ("zzz", "aaa")
                shown = "proj/%s/src/lib.rs" % bad_crate
                sc.write(shown, p["text"])
                sc.write("proj/%s/src/ok.rs" % ok_crate, "#[typeshare]\npub struct Fine { pub a: u8 }\n")
                sc.write("outdir/keep.txt", "PRE-EXISTING\n")
                sc.write("outdir/%s.%s" % (ok_crate, EXT[lang]), "PRE-EXISTING\n")
                dest = "outdir"
            else:
                shown = "proj/src/lib.rs"
                sc.write(shown, p["text"])
                sc.write("proj/src/ok.rs", "#[typeshare]\npub struct Fine { pub a: u8 }\n")
                dest = "out." + EXT[lang]
                sc.write(dest, "PRE-EXISTING\n")
            before = snapshot(sc.dir)
            args = ["--lang", lang, "-d" if folder else "-o", dest, "proj"] + lang_args(lang)
            for order in ("0,1", "1,0"):
                r = run_cli(args, cwd=sc.dir, env={"TYPESHARE_VERIF_ORDER": order}, timeout=120)
                if r["timed_out"] or r["rc"] == 0:
                    break
            after = snapshot(sc.dir)
            check.saw(("spelling-cli", lang, folder, p["text"]), nontrivial=True)
            check.count("spelling-cli-rejected-program" + ("-folder-output" if folder else ""))
            problems = []
            if r["timed_out"]:
                problems.append("timed out")
            elif r["rc"] == 0:
                problems.append("exit status 0")
            if after != before:
                problems.append("files changed: %s" % sorted(k for k in set(after) | set(before) if after.get(k) != before.get(k)))
            if not r["timed_out"] and shown not in r["err"] + r["out"]:
                problems.append("no diagnostic names the file (%s)" % shown)
            if problems:
                sps = sorted(set(spell_item(sp) for sp in p["used"] if sp is not None))
                check.violation("CLI on a program with an unsupported construct (%s) whose annotations are spelled %s, next to an "
                                "ordinarily annotated file (%s, %s output): %s" % (
                                    p["c"]["kind"], vis(sps), lang,
                                    "folder" if folder else "single-file", "; ".join(problems)),
                                case={"source": p["text"], "source_with_plain_annotations": p["c"]["text"], "planted": p["c"]["kind"],
                                      "spellings": sps, "lang": lang, "file_with_the_source": shown,
                                      "other_files": "proj/%ssrc/ok.rs holds `#[typeshare] pub struct Fine { pub a: u8 }`; %s holds `PRE-EXISTING`" % (
                                          ok_crate + "/" if folder else "", "every file of outdir/" if folder else dest),
                                      "command": "cd <workspace> && typeshare " + " ".join(args), "order_of_arrival": order},
                                impl={"rc": r["rc"], "stderr": r["err"][-2000:], "destination_after": show(produced(sc, dest))},
                                failing_input=True)
                reported += 1
                if reported >= 2:
                    return
    # --- the skipped twin through the binary: what it generates does not depend on the spelling of the annotation
    twins = [p for p in progs if not p["bad"] and p["demanded"] and p["plain_args"] and not rejected(p["impl"])]
    free = [p for p in twins if p["tight_free"]]
    picks = rng.sample(free, min(n_twin // 2, len(free)))
    picks += rng.sample(twins, min(n_twin - len(picks), len(twins)))
    for idx, p in enumerate(picks):
        lang = LANGS[idx % len(LANGS)]
        got = []
        for text in (p["c"]["text"], p["text"]):
            with Scratch() as sc:
                sc.write("proj/src/lib.rs", text)
                sc.write("proj/src/ok.rs", "#[typeshare]\npub struct Fine { pub a: u8 }\n")
                dest = "out." + EXT[lang]
                args = ["--lang", lang, "-o", dest, "proj"] + lang_args(lang)
                r = run_cli(args, cwd=sc.dir, timeout=120)
                got.append((r, produced(sc, dest)))
        (r0, p0), (r1, p1) = got
        check.saw(("spelling-cli-twin", lang, p["text"]), nontrivial=False)
        if r0["rc"] != 0 or r0["timed_out"]:
            check.count("spelling-cli-twin-not-generated-with-plain-annotations")      # consts in a back end without them: C07
            continue
        check.count("spelling-cli-skipped-twin")
        if r1["rc"] != 0 or p1 != p0:
            sps = sorted(set(spell_item(sp) for sp in p["used"] if sp is not None))
            check.violation("CLI, the skipped twin (%s) with its annotations spelled %s (%s): %s" % (
                p["c"]["kind"], vis(sps), lang,
                "exit status %s although the same program with `#[typeshare]` is generated" % r1["rc"] if r1["rc"] != 0 else
                "the run succeeds but does not generate what the same program with `#[typeshare]` gives"),
                case={"source": p["text"], "source_with_plain_annotations": p["c"]["text"], "planted": p["c"]["kind"], "spellings": sps,
                      "lang": lang, "file_with_the_source": "proj/src/lib.rs",
                      "other_files": "proj/src/ok.rs holds `#[typeshare] pub struct Fine { pub a: u8 }`",
                      "command": "cd <workspace> && typeshare " + " ".join(args)},
                impl={"rc": r1["rc"], "stderr": r1["err"][-1500:], "destination_after": show(p1)},
                model={"with_plain_annotations": show(p0)}, failing_input=True)
            return


def pos_cfg(lang):
    return {"type_mappings": {}, "version_header": False, "package": "proto" if lang == "go" else "com.example", "module_name": "", "prefix": ""}
