import TsV.Lemmas.C01_Backends
/-!
# C01: gluing the parse half to the back-end half
-/
namespace TsV.C01
open TsV TsV.Str TsV.Syn TsV.Parser TsV.Serde TsV.Lang TsV.Outcome

theorem forall₂_map_both {α β γ δ} {R : γ → δ → Prop} (g : α → γ) (k : β → δ) :
    ∀ {l1 : List α} {l2 : List β}, Forall₂ (fun a b => R (g a) (k b)) l1 l2 → Forall₂ R (l1.map g) (l2.map k)
  | _, _, .nil => .nil
  | _, _, .cons hab t => .cons hab (forall₂_map_both g k t)


theorem inScopeB_sound (E : Ext) (L : TsV.Lang) (ra : Option Str) (f : Field)
    (h : inScopeB E L ra f = true) : InScope E L ra f := by
  unfold inScopeB at h
  simp only [Bool.and_eq_true] at h
  obtain ⟨⟨h1, h2⟩, h3⟩ := h
  refine ⟨⟨?_, ?_⟩, ?_⟩
  · cases hi : f.ident with
    | none => rw [hi] at h1; simp at h1
    | some i => rw [hi] at h1; exact ⟨i, rfl, by simpa using h1⟩
  · intro k hk
    rw [hk] at h2
    simpa using h2
  · intro k hk
    rw [hk] at h3
    simpa using h3

theorem inScopeB_all (E : Ext) (L : TsV.Lang) (ra : Option Str) (fs : List Field)
    (h : fs.all (inScopeB E L ra) = true) : ∀ f ∈ fs, InScope E L ra f :=
  fun f hf => inScopeB_sound E L ra f (List.all_eq_true.1 h f hf)

theorem variantsInScopeB_sound (E : Ext) (L : TsV.Lang) (targetOs : List Str) (vs : List Variant)
    (h : variantsInScopeB E L targetOs vs = true) :
    ∀ v ∈ vs, ∀ fs, v.fields = .named fs → ∀ f ∈ kept targetOs fs, InScope E L (serdeRenameAll E v.attrs) f := by
  intro v hv fs hfs f hf
  have := List.all_eq_true.1 h v hv
  rw [hfs] at this
  exact inScopeB_sound _ _ _ _ (List.all_eq_true.1 this f hf)

theorem keyOk_of_scope (E : Ext) (L : TsV.Lang) (ra : Option Str) (f : Field) (k : Str)
    (hs : InScope E L ra f) (hk : fieldKeyOf E ra f = .ok k) : KeyOk L k := by
  have h1 := fieldKeyOf_keyStr E ra f k hs.1 hk
  have h2 := hs.2 k hk
  cases L <;> first | exact h1 | exact h2 | trivial

theorem forall₂_of_map_left {α β γ} {R : γ → β → Prop} (g : α → γ) :
    ∀ {l1 : List α} {l2 : List β}, Forall₂ R (l1.map g) l2 → Forall₂ (fun a b => R (g a) b) l1 l2
  | [], [], _ => .nil
  | [], _ :: _, h => by cases h
  | _ :: _, [], h => by cases h
  | _ :: _, _ :: _, .cons hab t => .cons hab (forall₂_of_map_left g t)

theorem forall₂_map_left {α β γ} {R : γ → β → Prop} (g : α → γ) :
    ∀ {l1 : List α} {l2 : List β}, Forall₂ (fun a b => R (g a) b) l1 l2 → Forall₂ R (l1.map g) l2
  | _, _, .nil => .nil
  | _, _, .cons hab t => .cons hab (forall₂_map_left g t)

/-- composition of the two halves on one field list -/
theorem compose_fields (E : Ext) (L : TsV.Lang) (ra : Option Str) (fs : List Field) (ids : List Id)
    (rfs' : List RustField) (ks : List Str)
    (hp : Forall₂ (fun f id => ParsedKey E ra f id) fs ids)
    (hids : fieldIds rfs' = ids)
    (hs : ∀ f ∈ fs, InScope E L ra f)
    (hb : Forall₂ (Binds L) rfs' ks) : Forall₂ (SerdeKey E ra) fs ks := by
  subst hids
  have hp' := forall₂_mem_left (forall₂_of_map_right (R := fun f id => ParsedKey E ra f id) _ hp) hs
  refine forall₂_imp ?_ (forall₂_comp hp' hb)
  rintro f k ⟨rf, ⟨hsc, hpk⟩, hbk⟩ v hv
  have hag := hpk.2 (Or.inl hsc.1.1) v hv
  cases hag
  have := hbk (keyOk_of_scope E L ra f _ hsc hv)
  rw [this]


/-- source variant ↔ parsed variant, in both directions -/
def VariantRel (E : Ext) (targetOs : List Str) (v : Variant) (rv : RustEnumVariant) : Prop :=
  (namedFields v = true → ∃ id cs rfs, rv = .anonymousStruct id cs rfs) ∧
  (∀ id cs rfs, rv = .anonymousStruct id cs rfs → namedFields v = true ∧
    ∃ fs, v.fields = .named fs ∧
      Forall₂ (fun f rf => ParsedKey E (serdeRenameAll E v.attrs) f rf.id) (kept targetOs fs) rfs)

theorem parseEnumVariant_rel (E : Ext) (hU : E.U.AsciiCorrect) (targetOs : List Str) (enumRa : Option Str)
    (v : Variant) (rv : RustEnumVariant) (h : parseEnumVariant E targetOs enumRa v = .ok rv) :
    VariantRel E targetOs v rv := by
  constructor
  · intro hn
    obtain ⟨attrs, ident, fields⟩ := v
    cases fields with
    | named fs =>
      unfold parseEnumVariant at h
      obtain ⟨vid, _, h2⟩ := (bind_eq_ok _ _ _).1 h
      simp only at h2
      obtain ⟨rfs', _, h4⟩ := (bind_eq_ok _ _ _).1 h2
      cases h4
      exact ⟨_, _, _, rfl⟩
    | unnamed fs => simp [namedFields] at hn
    | unit => simp [namedFields] at hn
  · intro id cs rfs hrv
    subst hrv
    obtain ⟨fs, hfs, hk⟩ := parseEnumVariant_keys E hU targetOs enumRa v id cs rfs h
    refine ⟨?_, fs, hfs, hk⟩
    obtain ⟨attrs, ident, fields⟩ := v
    simp only at hfs
    subst hfs
    rfl

theorem parseEnum_rel (E : Ext) (hU : E.U.AsciiCorrect) (targetOs : List Str) (attrs : List Attr)
    (ident : Str) (gens : List GenericParam) (variants : List Variant) (e : RustEnum)
    (h : parseEnum E targetOs attrs ident gens variants = .ok (.enum e)) :
    Forall₂ (VariantRel E targetOs) (variants.filter fun v => !isSkipped v.attrs targetOs) e.variants := by
  unfold parseEnum at h
  split at h
  · unfold serializedAlias at h
    obtain ⟨ty, _, h2⟩ := (bind_eq_ok _ _ _).1 h
    exact absurd h2 (mkAlias_not_enum _ _ _ _ _ _)
  · obtain ⟨vs, h1, h2⟩ := (bind_eq_ok _ _ _).1 h
    obtain ⟨id, _, h3⟩ := (bind_eq_ok _ _ _).1 h2
    rw [enumShape_variants _ _ _ _ h3]
    exact forall₂_imp (fun v rv hv => parseEnumVariant_rel E hU targetOs _ v rv hv) (mapM'_forall₂ _ _ _ h1)

/-- the struct variants of the source line up with `structVariants` of the parsed enum -/
theorem struct_variants_aligned (E : Ext) (targetOs : List Str) :
    ∀ {vs : List Variant} {rvs : List RustEnumVariant}, Forall₂ (VariantRel E targetOs) vs rvs →
      Forall₂ (fun v (p : Id × List RustField) => ∃ fs, v.fields = .named fs ∧
          Forall₂ (fun f rf => ParsedKey E (serdeRenameAll E v.attrs) f rf.id) (kept targetOs fs) p.2)
        (vs.filter namedFields)
        (rvs.filterMap fun rv => match rv with
          | .anonymousStruct id _ fs => some (id, fs)
          | _ => none)
  | _, _, .nil => .nil
  | v :: vs, rv :: rvs, .cons hrel t => by
    have ih := struct_variants_aligned E targetOs t
    cases hn : namedFields v with
    | true =>
      obtain ⟨id, cs, rfs, hrv⟩ := hrel.1 hn
      subst hrv
      obtain ⟨_, fs, hfs, hk⟩ := hrel.2 id cs rfs rfl
      simp only [List.filter_cons, hn, if_true, List.filterMap_cons]
      exact .cons ⟨fs, hfs, hk⟩ ih
    | false =>
      simp only [List.filter_cons, hn, Bool.false_eq_true, if_false]
      cases rv with
      | unit id cs => simpa [List.filterMap_cons] using ih
      | tuple id cs ty => simpa [List.filterMap_cons] using ih
      | anonymousStruct id cs rfs =>
        have := (hrel.2 id cs rfs rfl).1
        rw [hn] at this
        cases this


end TsV.C01
