import TsV.Lemmas.C06_Multi_Collect
import TsV.Model.Generate
/-!
# The job list of a multi-file run, up to arrival order and hash orders

`jobsWith σ m` is the list `(crate, data, scoped imports)` that `Generate.run` hands to the back ends in
multi-file mode, for the collected map `m`; `σ` is the iteration order of the `all_types` hash map, which only the
re-export fallback of `used_imports` (`firstOther`) looks at — and whose result no longer depends on it.
-/
namespace TsV.C06M
open TsV TsV.Pipeline TsV.Collect

/-! ### the fallback choice `firstOther`

Since the `fix:` commit "resolve a type name imported from several crates the same way in every run" it is the
candidate crate with the smallest name (`Lemmas/MinByKey.lean`): no hypothesis on the number of candidates. -/

/-- a crate other than `cur` that defines `name` -/
def cand (cur name : Str) (p : Str × List Str) : Bool := p.1 != cur && p.2.contains name

theorem firstOther_eq (all : List (Str × List Str)) (cur name : Str) :
    Generate.firstOther all cur name = (minByKey (all.filter (cand cur name))).map (·.1) := rfl

/-- hash order of `all_types`: every iteration order finds the same crate -/
theorem firstOther_perm (all all' : List (Str × List Str)) (cur name : Str) (hp : all.Perm all') :
    Generate.firstOther all cur name = Generate.firstOther all' cur name :=
  MinByKey.firstOther_perm all all' cur name hp

theorem AllRel.mem {c : Str} : ∀ {all all' : List (Str × List Str)}, AllRel all all' →
    ∀ ns, (c, ns) ∈ all → ∃ ns', (c, ns') ∈ all' ∧ ∀ t, t ∈ ns ↔ t ∈ ns'
  | [], [], _, _, h => by simp at h
  | x :: t, y :: t', h, ns, hm => by
    rcases List.mem_cons.1 hm with rfl | hm
    · have hk : c = y.1 := h.1.1
      exact ⟨y.2, by rw [hk]; simp, h.1.2⟩
    · obtain ⟨ns', h1, h2⟩ := AllRel.mem h.2 ns hm
      exact ⟨ns', List.mem_cons_of_mem _ h1, h2⟩
  | [], _ :: _, h, _, _ => h.elim
  | _ :: _, [], h, _, _ => h.elim

theorem AllRel.symm : ∀ {all all' : List (Str × List Str)}, AllRel all all' → AllRel all' all
  | [], [], _ => trivial
  | _ :: _, _ :: _, h => ⟨⟨h.1.1.symm, fun t => (h.1.2 t).symm⟩, AllRel.symm h.2⟩
  | [], _ :: _, h => h.elim
  | _ :: _, [], h => h.elim

/-- … and so does every order inside the name sets -/
theorem AllRel.firstOther (cur name : Str) {all all' : List (Str × List Str)} (h : AllRel all all') :
    Generate.firstOther all cur name = Generate.firstOther all' cur name := by
  apply MinByKey.firstOther_congr_mem
  intro c
  constructor
  · rintro ⟨ns, h1, h2, h3⟩
    obtain ⟨ns', h4, h5⟩ := h.mem ns h1
    exact ⟨ns', h4, h2, (h5 name).1 h3⟩
  · rintro ⟨ns, h1, h2, h3⟩
    obtain ⟨ns', h4, h5⟩ := h.symm.mem ns h1
    exact ⟨ns', h4, h2, (h5 name).1 h3⟩

/-! ### the job list -/

abbrev Job := Str × ParsedData × Option ScopedCrateTypes

/-- the jobs of a multi-file run on the collected map `m`; `σ` = iteration order of the `all_types` hash map -/
def jobsWith (σ : List (Str × List Str) → List (Str × List Str)) (m : List (Str × ParsedData)) : List Job :=
  let crates := reconcile m
  let all := allTypes crates
  crates.map fun (c, d) =>
    (c, d, some (usedImports d all d.importTypes (Generate.firstOther (σ all) d.crateName)))

/-- what a back end can see of a job: the sorted item lists, crate key, crate name, file name, mode and the
scoped imports (the hash sets `import_types` / `type_names` have been consumed by `used_imports`) -/
def jobView (j : Job) : Str × List RustStruct × List RustEnum × List RustTypeAlias × List RustConst ×
    Str × Str × Bool × Option ScopedCrateTypes :=
  (j.1, j.2.1.structs, j.2.1.enums, j.2.1.aliases, j.2.1.consts, j.2.1.crateName, j.2.1.fileName,
   j.2.1.multiFile, j.2.2)

theorem allRel_of_mapEq {m m' : List (Str × ParsedData)} (h : MapEq m m') : AllRel (allTypes m) (allTypes m') := by
  unfold allTypes AllRel
  apply Rel₂.map
  exact Rel₂.imp h fun p q _ _ hpq => ⟨hpq.1, hpq.2.typeNames⟩

theorem mem_reconcile {m : List (Str × ParsedData)} {x : Str × ParsedData} (hx : x ∈ reconcile m) :
    ∃ p ∈ m, x.2.importTypes = p.2.importTypes ∧ x.2.crateName = p.2.crateName := by
  rw [reconcile_eq] at hx
  obtain ⟨p, hp, rfl⟩ := List.mem_map.1 hx
  exact ⟨p, hp, rfl, rfl⟩

/-- **the job list is a function of the equivalence class of the collected map** -/
theorem jobs_congr {m m' : List (Str × ParsedData)} (h : MapEq m m') (wf : MapWF m)
    (σ σ' : List (Str × List Str) → List (Str × List Str))
    (hσ : ∀ l, (σ l).Perm l) (hσ' : ∀ l, (σ' l).Perm l) :
    (jobsWith σ m).map jobView = (jobsWith σ' m').map jobView := by
  have hrec := reconcile_mapEq h wf
  have hall : AllRel (allTypes m) (allTypes m') := allRel_of_mapEq h
  unfold jobsWith
  simp only [List.map_map, allTypes_reconcile]
  apply Rel₂.map_eq hrec
  intro x y hx _ hxy
  have husd : usedImports x.2 (allTypes m) x.2.importTypes (Generate.firstOther (σ (allTypes m)) x.2.crateName) =
      usedImports y.2 (allTypes m') y.2.importTypes (Generate.firstOther (σ' (allTypes m')) y.2.crateName) := by
    apply usedImports_congr x.2 y.2 hxy.crateName _ _ _ _ _ _ hxy.imports
    intro i hi hne
    apply contrib_congr _ _ _ _ _ hall
    intro _
    rw [firstOther_perm _ _ _ _ (hσ (allTypes m)), hall.firstOther, ← hxy.crateName,
      firstOther_perm _ _ _ _ (hσ' (allTypes m'))]
  obtain ⟨c, d⟩ := x
  obtain ⟨c', d'⟩ := y
  simp only [Function.comp, jobView]
  simp only at husd
  rw [husd, hxy.structs, hxy.enums, hxy.aliases, hxy.consts, hxy.crateName, hxy.fileName, hxy.multiFile]
  have := hxy.key
  simp only at this
  rw [this]

/-- the hash sets and the recorded errors of the jobs agree as sets / up to order -/
theorem jobs_sets {m m' : List (Str × ParsedData)} (h : MapEq m m') (wf : MapWF m) :
    Rel₂ (fun p q : Str × ParsedData => (∀ i, i ∈ p.2.importTypes ↔ i ∈ q.2.importTypes) ∧
      (∀ t, t ∈ p.2.typeNames ↔ t ∈ q.2.typeNames) ∧ p.2.errors.Perm q.2.errors) (reconcile m) (reconcile m') :=
  Rel₂.imp (reconcile_mapEq h wf) fun _ _ _ _ hr => ⟨hr.imports, hr.typeNames, hr.errors⟩

/-- `check_parse_errors` takes the same branch -/
theorem allErrors_isEmpty_congr {m m' : List (Str × ParsedData)} (h : MapEq m m') (wf : MapWF m) :
    (allErrors (reconcile m)).isEmpty = (allErrors (reconcile m')).isEmpty := by
  have hp : (allErrors (reconcile m)).Perm (allErrors (reconcile m')) := by
    unfold allErrors
    exact Rel₂.flatMap_perm (jobs_sets h wf) fun _ _ _ _ hr => hr.2.2
  rw [Bool.eq_iff_iff]
  simp only [List.isEmpty_iff]
  exact ⟨fun e => by rw [e] at hp; exact hp.symm.eq_nil, fun e => by rw [e] at hp; exact hp.eq_nil⟩

/-- `Generate.run` in multi-file mode hands exactly `jobsWith id (collect arrivals)` to the back end -/
theorem run_multi_eq (E : Ext) (lang : Generate.LangCfg) (targetOs : List Str)
    (pick : List ImportedType → Option ImportedType) (files : List Generate.SourceFile) :
    Generate.run E lang true targetOs pick files =
      (Generate.parseAll E { ignoredTypes := Generate.ignoredTypes lang, multiFile := true, targetOs } pick files).bind
        fun arrivals =>
          let errs := allErrors (reconcile (collect arrivals))
          if !errs.isEmpty then .ok (.parseErrors errs)
          else
            (match lang with
            | .typescript cfg => Lang.TypeScript.generateAll E cfg true (jobsWith id (collect arrivals))
            | .kotlin cfg => Lang.Kotlin.generateAll E cfg true (jobsWith id (collect arrivals))
            | .swift cfg => Lang.Swift.generateAll E cfg true (jobsWith id (collect arrivals))
            | .scala cfg => Lang.Scala.generateAll E cfg true (jobsWith id (collect arrivals))
            | .go cfg => Lang.Go.generateAll E cfg true (jobsWith id (collect arrivals))
            | .python cfg => Lang.Python.generateAll E cfg true (jobsWith id (collect arrivals))).bind
              fun o => .ok (.outputs o) := rfl

end TsV.C06M
