import TsV.Lemmas.C09_HelperParams
import TsV.Lemmas.C09_HelperParams_Tie
import TsV.Props.C09
/-!
# C09_HelperParams — the helper struct of a struct variant declares the generic parameters its fields mention

For a struct variant `V { f₁: t₁, … }` of a tagged enum `E<A, B, …>` every back end but TypeScript
writes a helper struct `EVInner` (`write_types_for_anonymous_structs`, language/mod.rs:366; model
`Lang.anonymousStruct`) whose generic parameter list is computed from the enum's list by the mention
test `RustType::contains_type`.  A parameter the helper does not declare would be printed inside it as
a *user type* (`format_simple_type`: "mapping, else generic parameter, else prefixed") — C09's
`Target.type` instead of `Target.param`.

* `mention_test_exact` — `contains_type` is the inductive "is written in" predicate `Mentions` over
  every constructor position; `mention_test_misses_no_position`, `mention_test_names` — relative to
  the name positions (`leaves`: plain leaves and generic heads at any depth) of C09's reference
  semantics it misses nothing, and it sees nothing else for a name that is not a primitive's.
* `helper_params_exact`, `helper_params_nodup`, `helper_params_order` — the helper declares exactly the
  enum's parameters some field mentions, each once, in first-mention order.
* `helper_scope_param`, `helper_scope_agrees`, `helper_refs`, `variant_refs_helper`,
  `helper_never_type`, `helper_param_refs`, `helper_param_spelling`, `undeclared_would_be_prefixed` —
  over the C09 reference semantics: read as a struct of its own (scope = its own declared list) the
  helper has exactly the references `variantRefs` gives the variant's fields in the enum's scope; no
  reference to a parameter of the enum is a `Target.type`; every occurrence of a parameter is a
  `Target.param` reference, spelled bare.
* `C09_HelperParams : C09_HelperParams_full` — the above for every enum, every field list, all back ends.
* `C09_HelperParams_program` — in a program in scope without shadowing: every occurrence of a
  parameter of the enum in a field of a struct variant is the reference `⟨g, .param g, _⟩` of
  `refs … (.enum e)`, and the helper (built from the reconciled fields, as the back ends see them)
  declares `g`.
* `helper_declares_kotlin / swift / scala / go / python` — tie: the generic parameter list in each
  back end's fact record of the helper declaration is that list; `helper_applied_*` — Kotlin, Swift
  and Scala apply the helper to the same list where the enum's case refers to it (Go and Python refer
  to it by its bare name: `go_python_use_site_bare`).

Nothing is false on the model here: the mention test looks into every position (`Vec`, array, slice,
`Option`, map key, map value, generic head, generic argument at any depth).  One over-approximation:
a parameter *named like a primitive* (`enum E<u8> { V { x: u8 } }`) counts as mentioned where the
primitive stands (`prim_name_counts_as_mention`); the field is printed as the primitive in the enum as
in the helper, so no reference is affected.
-/
namespace TsV.C09_HelperParams
open TsV TsV.Pipeline TsV.Generate TsV.Lang TsV.C09

/-! ## 1. the mention test -/

/-- **`RustType::contains_type` is exactly "the name is written in the type"** (`Mentions`: the type
itself, a generic head, inside a generic argument, `Vec`, array, slice, `Option`, map key, map value —
recursively; a primitive mentions its own Rust name) -/
theorem mention_test_exact (t : RustType) (g : Str) : t.containsType g = true ↔ Mentions t g :=
  containsType_iff_mentions t g

/-- **no position is missed**: every name position of the C09 reference semantics — a plain leaf or
the head of a generic application, at any depth, in any container, map keys included — passes the test -/
theorem mention_test_misses_no_position (t : RustType) (l : Leaf) (h : l ∈ leaves t) :
    t.containsType l.id = true :=
  contains_of_leaf t l h

/-- **and nothing else is seen**: a name that is not the Rust name of a primitive passes the test
exactly when it stands at a name position -/
theorem mention_test_names (t : RustType) (g : Str) (hg : ∀ p : Prim, p.id ≠ g) :
    t.containsType g = true ↔ ∃ hd, (⟨g, hd⟩ : Leaf) ∈ leaves t :=
  ⟨leaf_of_contains hg t, fun ⟨_, h⟩ => contains_of_leaf t _ h⟩

/-! ## 2. the parameters of the helper struct -/

/-- **the helper declares exactly the parameters of the enum that some field mentions** -/
theorem helper_params_exact (e : RustEnum) (n v : Str) (fs : List RustField) (g : Str) :
    g ∈ (anonymousStruct e n v fs).genericTypes ↔ g ∈ e.genericTypes ∧ ∃ f ∈ fs, Mentions f.ty g := by
  rw [anonymousStruct_generics, mem_helperGens]
  simp only [containsType_iff_mentions]

/-- the same, read per parameter of the enum -/
theorem helper_params_iff_mentioned (e : RustEnum) (n v : Str) (fs : List RustField) :
    ∀ g ∈ e.genericTypes, (∃ f ∈ fs, Mentions f.ty g) ↔ g ∈ (anonymousStruct e n v fs).genericTypes :=
  fun g hg => ⟨fun h => (helper_params_exact e n v fs g).2 ⟨hg, h⟩, fun h => ((helper_params_exact e n v fs g).1 h).2⟩

/-- **each once** -/
theorem helper_params_nodup (e : RustEnum) (n v : Str) (fs : List RustField) :
    (anonymousStruct e n v fs).genericTypes.Nodup :=
  nodup_eraseDups _

/-- **in first-mention order**: none for no field; for `f :: fs` the parameters `f` mentions, in the
order of the enum's own list, then the parameters of the helper for `fs` that `f` does not mention.
(So the list need not be a sublist of the enum's: `enum E<A, B> { V { x: B, y: A } }` gives `[B, A]`,
see `order_example`.) -/
theorem helper_params_order (e : RustEnum) (n v : Str) :
    (anonymousStruct e n v []).genericTypes = [] ∧
    ∀ (f : RustField) (fs : List RustField),
      (anonymousStruct e n v (f :: fs)).genericTypes =
        (e.genericTypes.filter fun g => f.ty.containsType g).eraseDups ++
          (anonymousStruct e n v fs).genericTypes.filter fun g => !f.ty.containsType g :=
  ⟨rfl, fun f fs => helperGens_cons e f fs⟩

/-- one field, enum parameters pairwise different (Rust demands it): the enum's list, filtered -/
theorem helper_params_single (e : RustEnum) (n v : Str) (f : RustField) (hn : e.genericTypes.Nodup) :
    (anonymousStruct e n v [f]).genericTypes = e.genericTypes.filter fun g => f.ty.containsType g := by
  rw [(helper_params_order e n v).2 f [], (helper_params_order e n v).1]
  simp [eraseDups_of_nodup _ (hn.sublist List.filter_sublist)]

/-- the name and the variant do not matter, the five back ends and the C09 semantics compute one list -/
theorem helper_params_same (lc : LangCfg) (hw : writesHelper lc = true) (e : RustEnum) (n v : Str) (fs : List RustField) :
    innerGens lc e fs = (anonymousStruct e n v fs).genericTypes ∧
    Kotlin.usedGenerics e fs = (anonymousStruct e n v fs).genericTypes ∧
    Scala.usedGenerics e fs = (anonymousStruct e n v fs).genericTypes :=
  ⟨innerGens_eq hw e fs, rfl, rfl⟩

/-! ## 3. over the C09 reference semantics -/

/-- **with the helper's declared list as scope, a mentioned parameter of the enum is a parameter** -/
theorem helper_scope_param (e : RustEnum) (n v : Str) (fs : List RustField) (f : RustField) (hf : f ∈ fs)
    (g : Str) (hg : g ∈ e.genericTypes) (hm : Mentions f.ty g) :
    tgt (anonymousStruct e n v fs).genericTypes g = .param g := by
  have : g ∈ (anonymousStruct e n v fs).genericTypes := (helper_params_exact e n v fs g).2 ⟨hg, f, hf, hm⟩
  simp [tgt_eq, this]

/-- **the helper's scope and the enum's scope agree on every name a field mentions** -/
theorem helper_scope_agrees (e : RustEnum) (n v : Str) (fs : List RustField) (f : RustField) (hf : f ∈ fs)
    (id : Str) (hm : Mentions f.ty id) :
    tgt (anonymousStruct e n v fs).genericTypes id = tgt e.genericTypes id := by
  have : id ∈ (anonymousStruct e n v fs).genericTypes ↔ id ∈ e.genericTypes := by
    rw [helper_params_exact]
    exact ⟨fun h => h.1, fun h => ⟨h, f, hf, hm⟩⟩
  simp [tgt_eq, this]

/-- **the references of the helper, read as a struct of its own** (scope and `generic_types` = its own
declared list), **are the references `variantRefs` gives the fields of the variant** (scope = the
enum's list, `generic_types` = `innerGens`): same targets, same spellings, same order -/
theorem helper_refs (lc : LangCfg) (hw : writesHelper lc = true) (r : Renames) (e : RustEnum) (n v : Str)
    (fs : List RustField) :
    refs lc r (.struct (anonymousStruct e n v fs)) =
      fs.flatMap fun f => typeRefs lc r e.genericTypes (innerGens lc e fs) f.ty := by
  simp only [refs, anonymousStruct_fields, anonymousStruct_generics, innerGens_eq hw, List.flatMap_def]
  congr 1
  apply List.map_congr_left
  intro f hf
  apply typeRefs_scope_congr
  intro id hc
  rw [mem_helperGens]
  exact ⟨fun h => h.1, fun h => ⟨h, f, hf, hc⟩⟩

/-- hence the references of a struct variant of a tagged enum are: the parent, the helper, and the
helper's own references -/
theorem variant_refs_helper (lc : LangCfg) (hw : writesHelper lc = true) (r : Renames) (e : RustEnum)
    (kc : Str × Str) (hk : e.keys = some kc) (id : Id) (cs : List Str) (fs : List RustField) (n v : Str) :
    variantRefs lc r e (.anonymousStruct id cs fs) =
      parentRefs lc e ++ (innerRefs lc e id.original ++ refs lc r (.struct (anonymousStruct e n v fs))) := by
  rw [helper_refs lc hw]
  simp [variantRefs, hk]

/-- **no reference inside the helper treats a parameter of the enum as a type** (any back end, any
rename map) -/
theorem helper_never_type (lc : LangCfg) (r : Renames) (e : RustEnum) (n v : Str) (fs : List RustField) :
    ∀ ref ∈ refs lc r (.struct (anonymousStruct e n v fs)), ∀ g ∈ e.genericTypes, ref.target ≠ .type g := by
  intro ref href g hg htg
  simp only [refs, List.mem_flatMap, anonymousStruct_fields, anonymousStruct_generics] at href
  obtain ⟨f, hf, hfr⟩ := href
  obtain ⟨id, hc, hr⟩ := mem_typeRefs lc r _ _ ref f.ty hfr
  have htg' : tgt (helperGens e fs) id = .type g := by
    rcases hr with rfl | rfl <;> exact htg
  rw [tgt_eq] at htg'
  split at htg'
  · cases htg'
  · rename_i hni
    cases htg'
    exact hni (mem_helperGens.2 ⟨hg, f, hf, hc⟩)

/-- **every occurrence of a parameter of the enum in a field is a `Target.param` reference of the
helper** (plain leaf or generic head, in whatever container) -/
theorem helper_param_refs (lc : LangCfg) (r : Renames) (e : RustEnum) (n v : Str) (fs : List RustField)
    (f : RustField) (hf : f ∈ fs) (l : Leaf) (hl : l ∈ leaves f.ty) (hg : l.id ∈ e.genericTypes) :
    (⟨spell lc (anonymousStruct e n v fs).genericTypes (recName r l.id), .param l.id, l.head⟩ : Ref) ∈
      refs lc r (.struct (anonymousStruct e n v fs)) := by
  have h := ref_of_leaf lc r (anonymousStruct e n v fs).genericTypes (anonymousStruct e n v fs).genericTypes f.ty l hl
  rw [helper_scope_param e n v fs f hf l.id hg (mentions_of_contains _ _ (contains_of_leaf _ _ hl))] at h
  simp only [refs, List.mem_flatMap]
  exact ⟨f, hf, h⟩

/-- **and it is spelled bare**: with the helper's declared list as `generic_types` every back end
prints a mentioned parameter of the enum as its own name — not `prefix ++ name` — unless the
configuration maps that very name to something else -/
theorem helper_param_spelling (lc : LangCfg) (e : RustEnum) (n v : Str) (fs : List RustField) (f : RustField)
    (hf : f ∈ fs) (g : Str) (hg : g ∈ e.genericTypes) (hm : Mentions f.ty g)
    (hmap : mapGet (typeMappingsOf lc) g = none) :
    spell lc (anonymousStruct e n v fs).genericTypes g = g ∧
    (pfxOf lc ≠ [] → spell lc (anonymousStruct e n v fs).genericTypes g ≠ pfxOf lc ++ g) := by
  have h := spell_param hmap ((helper_params_exact e n v fs g).2 ⟨hg, f, hf, hm⟩)
  exact ⟨h, fun hp => by rw [h]; exact ne_append_self hp⟩

/-- why the declaration matters: a name the back end is *not* told about is printed behind the prefix
(Swift, Kotlin) — an undeclared parameter would come out as a user type -/
theorem undeclared_would_be_prefixed (lc : LangCfg) (hc : typeMappingsOf lc = []) (gens : List Str) (g : Str)
    (hg : g ∉ gens) : spell lc gens g = pfxOf lc ++ g := by
  rw [spell_eq hc]; simp [hg]

/-! ## the statement at full strength -/

/-- **C09_HelperParams**: for every enum, every name and every field list of a struct variant, the
synthesised helper struct `H` declares each parameter of the enum that some field mentions — at a name
position of whatever depth — exactly once and nothing else; under `H`'s own scope no reference inside
`H` takes a parameter of the enum for a type, every occurrence of one is a `param` reference, `H`'s
references are those of the variant's fields in the enum's scope (the five helper-writing back ends),
and a mentioned parameter is spelled bare by all back-end leaf printers. -/
def C09_HelperParams_full : Prop :=
  ∀ (e : RustEnum) (n v : Str) (fs : List RustField),
    (anonymousStruct e n v fs).genericTypes.Nodup ∧
    (∀ g, g ∈ (anonymousStruct e n v fs).genericTypes ↔ g ∈ e.genericTypes ∧ ∃ f ∈ fs, Mentions f.ty g) ∧
    (∀ f ∈ fs, ∀ l ∈ leaves f.ty, l.id ∈ e.genericTypes → l.id ∈ (anonymousStruct e n v fs).genericTypes) ∧
    (∀ (lc : LangCfg) (r : Renames),
      (∀ ref ∈ refs lc r (.struct (anonymousStruct e n v fs)), ∀ g ∈ e.genericTypes, ref.target ≠ .type g) ∧
      (∀ f ∈ fs, ∀ l ∈ leaves f.ty, l.id ∈ e.genericTypes →
        (⟨spell lc (anonymousStruct e n v fs).genericTypes (recName r l.id), .param l.id, l.head⟩ : Ref) ∈
          refs lc r (.struct (anonymousStruct e n v fs))) ∧
      (writesHelper lc = true → refs lc r (.struct (anonymousStruct e n v fs)) =
        fs.flatMap fun f => typeRefs lc r e.genericTypes (innerGens lc e fs) f.ty) ∧
      (∀ g ∈ e.genericTypes, (∃ f ∈ fs, Mentions f.ty g) → mapGet (typeMappingsOf lc) g = none →
        spell lc (anonymousStruct e n v fs).genericTypes g = g))

theorem C09_HelperParams : C09_HelperParams_full := by
  intro e n v fs
  refine ⟨helper_params_nodup e n v fs, helper_params_exact e n v fs, ?_, fun lc r => ⟨helper_never_type lc r e n v fs,
    fun f hf l hl hg => helper_param_refs lc r e n v fs f hf l hl hg, fun hw => helper_refs lc hw r e n v fs, ?_⟩⟩
  · intro f hf l hl hg
    exact (helper_params_exact e n v fs l.id).2 ⟨hg, f, hf, mentions_of_contains _ _ (contains_of_leaf _ _ hl)⟩
  · rintro g hg ⟨f, hf, hm⟩ hmap
    exact (helper_param_spelling lc e n v fs f hf g hg hm hmap).1

/-! ## in a program -/

/-- **In a program in scope, without shadowing**: every occurrence `l` of a generic parameter of a
tagged enum in a field of one of its struct variants is, in `refs … (.enum e)`, a reference to the
*parameter*, spelled with the bare name — in all six back ends, every prefix; and the helper struct the
five helper-writing back ends build *from the reconciled fields* declares it (it declares what the
helper of the source fields would). -/
theorem C09_HelperParams_program (P : ParsedData) (hs : InScope P) (lc : LangCfg) (hc : CfgOk lc)
    (hsh : Known_shadow P = false) (e : RustEnum) (he : e ∈ P.enums) (kc : Str × Str) (hk : e.keys = some kc)
    (id : Id) (cs : List Str) (fs : List RustField) (hv : RustEnumVariant.anonymousStruct id cs fs ∈ e.variants)
    (f : RustField) (hf : f ∈ fs) (l : Leaf) (hl : l ∈ leaves f.ty) (hg : l.id ∈ e.genericTypes) :
    (⟨l.id, .param l.id, l.head⟩ : Ref) ∈ refs lc (renamesOf P) (.enum e) ∧
    ∀ (e' : RustEnum) (n v : Str), e'.genericTypes = e.genericTypes →
      (anonymousStruct e' n v (fs.map (checkField [] (renamesOf P) []))).genericTypes =
        (anonymousStruct e n v fs).genericTypes ∧
      l.id ∈ (anonymousStruct e' n v (fs.map (checkField [] (renamesOf P) []))).genericTypes := by
  have hit : RustItem.enum e ∈ typeItems P := enum_mem_typeItems he
  have hcont : f.ty.containsType l.id = true := contains_of_leaf _ _ hl
  constructor
  · have h := ref_of_leaf lc (renamesOf P) e.genericTypes (innerGens lc e fs) f.ty l hl
    have hsp := (leaf_param (it := .enum e) (gens := innerGens lc e fs) hc.1 hsh hit
      (fun hx => innerGens_complete lc e fs f hf l.id hcont hx) hg).1
    have htg : tgt e.genericTypes l.id = .param l.id := by simp [tgt_eq, hg]
    rw [hsp, htg] at h
    simp only [refs, List.mem_flatMap]
    refine ⟨_, hv, ?_⟩
    simp only [variantRefs, hk, List.mem_append, List.mem_flatMap]
    exact .inr (.inr ⟨f, hf, h⟩)
  · intro e' n v hge
    have heq := helperGens_checkField (r := renamesOf P) hge
      (fun g hgm id' => recName_param hs hsh hit (g := g) hgm id') fs
    refine ⟨heq, ?_⟩
    rw [anonymousStruct_generics, heq]
    exact mem_helperGens.2 ⟨hg, f, hf, hcont⟩

/-! ## 4. tie: the generic parameter list in each back end's record of the helper declaration -/

/-- **Kotlin**: `enumFacts` returns one declaration per struct variant, then the enum's class; the
helper of `V { fs }` declares `genericSuffix` of exactly the helper list (`""` for the `object` of a
variant without fields, which mentions nothing), the enum its own full list -/
theorem helper_declares_kotlin (c : Kotlin.Cfg) (e : RustEnum) (ds : List Kotlin.KtDecl)
    (h : Kotlin.enumFacts c e = .ok ds) :
    ds.map ktGenerics =
      ((structVariants e).map fun p =>
        genericSuffix (anonymousStruct e (e.id.renamed ++ p.1.original ++ s%"Inner") p.1.original p.2).genericTypes) ++
      [genericSuffix e.genericTypes] :=
  tie_kotlin_enum_generics c e ds h

/-- … and the case of the sealed class applies the helper to the same list -/
theorem helper_applied_kotlin (c : Kotlin.Cfg) (e : RustEnum) (key : Str) (id : Id) (cs : List Str)
    (fs : List RustField) (k : Kotlin.KtCase) (h : Kotlin.caseFacts c e key (.anonymousStruct id cs fs) = .ok k) :
    k.payload = .inner key (c.pfx ++ e.id.renamed ++ id.original ++ s%"Inner")
      (genericSuffix (anonymousStruct e (e.id.renamed ++ id.original ++ s%"Inner") id.original fs).genericTypes) :=
  tie_kotlin_case_generics c e key id cs fs k h

/-- **Swift**: the names of the `GenericParam`s of the helper structs are the helper lists (each with
its constraint set, cf. C20), those of the enum its own list -/
theorem helper_declares_swift (U : UnicodeOps) (c : Swift.Cfg) (e : RustEnum) (st st' : Swift.St)
    (ss : List Swift.SwiftStruct) (d : Swift.SwiftEnum) (h : Swift.enumFacts U c e st = .ok (ss, d, st')) :
    ss.map (fun s => s.generics.map (·.name)) =
      (structVariants e).map (fun p =>
        (anonymousStruct e (Swift.anonymousStructName e p.1.original) p.1.original p.2).genericTypes) ∧
    d.generics.map (·.name) = e.genericTypes :=
  tie_swift_enum_generics U c e st st' ss d h

theorem helper_applied_swift {U : UnicodeOps} (c : Swift.Cfg) (e : RustEnum) (id : Id) (cs : List Str) (fs : List RustField)
    (st st' : Swift.St) (k : Swift.EnumCase)
    (h : Swift.algebraicCase U c e (.anonymousStruct id cs fs) st = .ok (k, st')) :
    k.payload = some ⟨c.pfx ++ Swift.anonymousStructName e id.original ++
      genericSuffix (anonymousStruct e (Swift.anonymousStructName e id.original) id.original fs).genericTypes, false⟩ :=
  tie_swift_case_generics c e id cs fs st st' k h

/-- **Scala**: `ScClass.generics` of the helper classes (a class without parameters is printed without
the list; it mentions nothing) -/
theorem helper_declares_scala (c : Scala.Cfg) (e : RustEnum) (d : Scala.ScEnum) (h : Scala.enumFacts c e = .ok d) :
    d.inner.map (·.generics) =
      (structVariants e).map (fun p =>
        (anonymousStruct e (e.id.renamed ++ p.1.original ++ s%"Inner") p.1.original p.2).genericTypes) ∧
    d.generics = e.genericTypes :=
  tie_scala_enum_generics c e d h

theorem helper_applied_scala (c : Scala.Cfg) (e : RustEnum) (kc : Str × Str) (hk : e.keys = some kc) (id : Id)
    (cs : List Str) (fs : List RustField) (k : Scala.ScCase)
    (h : Scala.caseFacts c e (.anonymousStruct id cs fs) = .ok k) :
    k.content = some (e.genericTypes, kc.2, e.id.renamed ++ id.original ++ s%"Inner" ++
      Scala.genericSq (anonymousStruct e (e.id.renamed ++ id.original ++ s%"Inner") id.original fs).genericTypes) :=
  tie_scala_case_generics c e kc hk id cs fs k h

/-- **Go**: `GoStruct.generics` of the helper structs (printed `[T any, …]`; Go's `format_type` ignores
`generic_types`, it never prefixes anything) -/
theorem helper_declares_go (U : UnicodeOps) (c : Go.Cfg) (e : RustEnum) (tag content : Str) (cs : List Str)
    (st st' : Go.Imports) (d : Go.GoAlgEnum) (h : Go.algEnumFacts U c e tag content cs st = .ok (d, st')) :
    d.anonymous.map (·.generics) = (structVariants e).map fun p => helperGens e p.2 :=
  tie_go_enum_generics U c e tag content cs st st' d h

/-- **Python**: `PyClass.generics` of the helper classes (the `Generic[…]` base) -/
theorem helper_declares_python (E : Ext) (c : Python.Cfg) (e : RustEnum) (tag content : Str) (st st' : Python.St)
    (d : Python.PyUnion) (h : Python.unionFacts E c e tag content st = .ok (d, st')) :
    d.inner.map (·.generics) = (structVariants e).map fun p => helperGens e p.2 :=
  tie_python_enum_generics E c e tag content st st' d h

/-- one helper declaration, any name: the five `write_struct`s record the helper list -/
theorem helper_declares_one (e : RustEnum) (n v : Str) (fs : List RustField) :
    (∀ c d, Kotlin.structFacts c (anonymousStruct e n v fs) = .ok d →
      ktGenerics d = genericSuffix (anonymousStruct e n v fs).genericTypes) ∧
    (∀ U c st st' d, Swift.structFacts U c (anonymousStruct e n v fs) st = .ok (d, st') →
      d.generics.map (·.name) = (anonymousStruct e n v fs).genericTypes) ∧
    (∀ c d, Scala.classFacts c (anonymousStruct e n v fs) = .ok d → d.generics = (anonymousStruct e n v fs).genericTypes) ∧
    (∀ U c st st' d, Go.structFacts U c (anonymousStruct e n v fs) st = .ok (d, st') →
      d.generics = (anonymousStruct e n v fs).genericTypes) ∧
    (∀ E c st st' d, Python.structFacts E c (anonymousStruct e n v fs) st = .ok (d, st') →
      d.generics = (anonymousStruct e n v fs).genericTypes) :=
  ⟨fun c d h => tie_kotlin_helper c e n v fs d h, fun U c st st' d h => tie_swift_helper U c e n v fs st st' d h,
   fun c d h => tie_scala_helper c e n v fs d h, fun U c st st' d h => tie_go_helper U c e n v fs st st' d h,
   fun E c st st' d h => tie_python_helper E c e n v fs st st' d h⟩

/-- **Go and Python refer to the helper by its bare name** (no type arguments at the use site, whatever
the helper declares): `GoAlgVariant.payload`, `PyVariant.contentType` -/
theorem go_python_use_site_bare :
    (∀ (U : UnicodeOps) (c : Go.Cfg), c.uppercaseAcronyms = [] → ∀ (e : RustEnum) (sn tag : Str) (cs : List Str) (id : Id)
      (cm : List Str) (fs : List RustField) (st st' : Go.Imports) (g : Go.GoAlgVariant),
      Go.algVariant U c e sn tag cs (.anonymousStruct id cm fs) st = .ok (g, st') →
      g.payload = some ⟨e.id.original ++ id.original ++ innerSuffix, true⟩) ∧
    (∀ (E : Ext) (c : Python.Cfg) (e : RustEnum) (tag content : Str) (id : Id) (cm : List Str) (fs : List RustField)
      (st st' : Python.St) (v : Python.PyVariant),
      Python.variantFacts E c e tag content (.anonymousStruct id cm fs) st = .ok (v, st') →
      v.contentType = some (Python.innerName e id.original)) :=
  ⟨fun U c hc e sn tag cs id cm fs st st' g h => (tie_go_variant U c hc e sn tag cs id cm fs st st' g h).1,
   fun E c e tag content id cm fs st st' v h => (tie_python_variant E c e tag content id cm fs st st' v h).1⟩

/-! ## non-vacuity: a generic tagged enum whose struct variants mention parameters in every position -/

def fT : Str := s%"T"
def fU : Str := s%"U"
def fW : Str := s%"W"

/-- `#[serde(tag = "t", content = "c")] enum Gn<T, U, W> {
      Va { g: T, m: HashMap<String, Vec<U>>, k: Wrap<Option<[T; 3]>>, s: &[U], p: u8 },
      Vb { w: HashMap<W, u8> },  Vc { p: u8 },  Vd { x: U, y: T },  Ve { h: T<u8> },  Vf(T) }` -/
def wVa : List RustField :=
  [fld s%"g" (.simple fT), fld s%"m" (.hashMap (.prim .string) (.vec (.simple fU))),
   fld s%"k" (.generic s%"Wrap" [.option (.array (.simple fT) 3)]), fld s%"s" (.slice (.simple fU)),
   fld s%"p" (.prim .u8)]
def wVb : List RustField := [fld s%"w" (.hashMap (.simple fW) (.prim .u8))]
def wVc : List RustField := [fld s%"p" (.prim .u8)]
def wVd : List RustField := [fld s%"x" (.simple fU), fld s%"y" (.simple fT)]
def wVe : List RustField := [fld s%"h" (.generic fT [.prim .u8])]

def wGn3 : RustEnum :=
  { keys := some (s%"t", s%"c"), id := mkId s%"Gn" none, genericTypes := [fT, fU, fW], comments := [],
    variants := [.anonymousStruct (mkId s%"Va" none) [] wVa, .anonymousStruct (mkId s%"Vb" none) [] wVb,
                 .anonymousStruct (mkId s%"Vc" none) [] wVc, .anonymousStruct (mkId s%"Vd" none) [] wVd,
                 .anonymousStruct (mkId s%"Ve" none) [] wVe, .tuple (mkId s%"Vf" none) [] (.simple fT)],
    decorators := {}, isRecursive := false, isRedacted := false }

def W_gn3 : ParsedData := { enums := [wGn3] }

theorem W_gn3_inScope : InScope W_gn3 := inScope_of _ (by decide) (by decide) (by decide) (by decide) rfl rfl

/-- the helper lists of the five struct variants: bare / map value inside `Vec` / generic argument
inside `Option` inside an array / slice → `[T, U]`; map key → `[W]`; none → `[]`; first-mention order
→ `[U, T]`; a generic *head* that is a parameter → `[T]` -/
theorem helper_lists_example :
    (structVariants wGn3).map (fun p => (anonymousStruct wGn3 [] p.1.original p.2).genericTypes) =
      [[fT, fU], [fW], [], [fU, fT], [fT]] := by decide +kernel

/-- `helper_params_order`: the helper's list is not a sublist of the enum's -/
theorem order_example : (anonymousStruct wGn3 [] [] wVd).genericTypes = [fU, fT] ∧ wGn3.genericTypes = [fT, fU, fW] := by
  decide +kernel

/-- `Mentions` at depth: `T` inside `Wrap<Option<[T; 3]>>`, `U` as a map value inside a `Vec`, `W` as a map key -/
example : Mentions (.generic s%"Wrap" [.option (.array (.simple fT) 3)]) fT ∧
    Mentions (.hashMap (.prim .string) (.vec (.simple fU))) fU ∧ Mentions (.hashMap (.simple fW) (.prim .u8)) fW :=
  ⟨.arg (List.mem_singleton.2 rfl) (.option (.array (.simple _))), .value (.vec (.simple _)), .key (.simple _)⟩

/-- `mention_test_misses_no_position` / `mention_test_names`: the name positions of a nested type -/
example : leaves (.generic s%"Wrap" [.option (.array (.simple fT) 3), .hashMap (.simple fW) (.generic fU [])]) =
    [⟨s%"Wrap", true⟩, ⟨fT, false⟩, ⟨fW, false⟩, ⟨fU, true⟩] ∧ (∀ p : Prim, p.id ≠ fT) := by
  refine ⟨by decide +kernel, fun p => ?_⟩
  cases p <;> decide

/-- the over-approximation of the mention test: a parameter named like a primitive counts as mentioned
where the primitive stands — `enum E<u8> { V { x: u8 } }` gives the helper `<u8>` although no name
position carries it (`x` is printed as the primitive, in the helper as anywhere else) -/
theorem prim_name_counts_as_mention :
    (anonymousStruct { wGn3 with genericTypes := [s%"u8"] } [] [] wVc).genericTypes = [s%"u8"] ∧
    leaves (RustType.prim .u8) = [] ∧ Mentions (.prim .u8) s%"u8" :=
  ⟨by decide +kernel, rfl, .prim .u8⟩

/-- `helper_scope_param` / `helper_param_spelling` / `helper_param_refs`: hypotheses met (`U` inside
the map value of `m`, Swift with a prefix) -/
example : fld s%"m" (.hashMap (.prim .string) (.vec (.simple fU))) ∈ wVa ∧ fU ∈ wGn3.genericTypes ∧
    Mentions (.hashMap (.prim .string) (.vec (.simple fU))) fU ∧ mapGet (typeMappingsOf swOP) fU = none ∧
    pfxOf swOP ≠ [] ∧ (⟨fU, false⟩ : Leaf) ∈ leaves (.hashMap (.prim .string) (.vec (.simple fU))) :=
  ⟨by simp [wVa], by decide, .value (.vec (.simple _)), rfl, by decide, by decide +kernel⟩

/-- … and the reference semantics evaluated on the witness, all eight configurations: each helper's
references are `T`/`U`/`W` as parameters, spelled bare, next to `Wrap` as a (prefixed) type -/
theorem helper_refs_example :
    (allLangs.all fun lc =>
      (refs lc [] (.struct (anonymousStruct wGn3 [] [] wVa))).map (fun r => (r.spelling, r.target)) ==
        [(fT, .param fT), (fU, .param fU), (pfxOf lc ++ s%"Wrap", .type s%"Wrap"), (fT, .param fT), (fU, .param fU)] &&
      (refs lc [] (.struct (anonymousStruct wGn3 [] [] wVe))).map (fun r => (r.spelling, r.target, r.head)) ==
        [(fT, .param fT, true)]) = true := by
  decide +kernel

/-- `C09_HelperParams_program`: hypotheses met by `W_gn3`, all eight configurations -/
example : InScope W_gn3 ∧ (∀ lc ∈ allLangs, CfgOk lc) ∧ Known_shadow W_gn3 = false ∧ wGn3 ∈ W_gn3.enums ∧
    wGn3.keys = some (s%"t", s%"c") ∧ RustEnumVariant.anonymousStruct (mkId s%"Va" none) [] wVa ∈ wGn3.variants ∧
    fld s%"k" (.generic s%"Wrap" [.option (.array (.simple fT) 3)]) ∈ wVa ∧
    (⟨fT, false⟩ : Leaf) ∈ leaves (.generic s%"Wrap" [.option (.array (.simple fT) 3)]) ∧ fT ∈ wGn3.genericTypes :=
  ⟨W_gn3_inScope, cfgOk_all, by decide +kernel, by simp [W_gn3], rfl, by simp [wGn3], by simp [wVa], by decide +kernel,
   by decide⟩

/-! ### the fact records of the models on the witness -/

/-- **Kotlin** (`helper_declares_kotlin`, `helper_applied_kotlin`): the five helpers declare `<T, U>`,
`<W>`, nothing, `<U, T>`, `<T>`; the sealed class `<T, U, W>`; inside the helper `T` is printed bare
also with the prefix `OP` (`Wrap` gets it) -/
theorem kotlin_example :
    ((Kotlin.enumFacts { pfx := s%"OP" } wGn3).bind fun ds => .ok (ds.map ktGenerics)) =
      .ok [s%"<T, U>", s%"<W>", s%"", s%"<U, T>", s%"<T>", s%"<T, U, W>"] ∧
    ((Kotlin.structFacts { pfx := s%"OP" } (anonymousStruct wGn3 s%"GnVaInner" s%"Va" wVa)).bind fun d =>
        .ok (Kotlin.renderDecl d)) =
      .ok s%"/// Generated type representing the anonymous struct variant `Va` of the `Gn` Rust enum\n@Serializable\ndata class OPGnVaInner<T, U> (\n\tval g: T,\n\tval m: HashMap<String, List<U>>,\n\tval k: OPWrap<List<T>?>,\n\tval s: List<U>,\n\tval p: UByte\n)\n\n" ∧
    ((Kotlin.caseFacts { pfx := s%"OP" } wGn3 s%"c" (.anonymousStruct (mkId s%"Vd" none) [] wVd)).bind fun k =>
        .ok (Kotlin.renderCase k)) =
      .ok s%"\t@Serializable\n\t@SerialName(\"Vd\")\n\tdata class Vd<T, U, W>(val c: OPGnVdInner<U, T>): OPGn<T, U, W>()\n" := by
  decide +kernel

/-- **Swift** (`helper_declares_swift`, `helper_applied_swift`) -/
theorem swift_example :
    ((Swift.enumFacts .ascii { pfx := s%"OP" } wGn3 false).bind fun (ss, d, _) =>
        .ok (ss.map (fun s => s.generics.map (·.name)), d.generics.map (·.name))) =
      .ok ([[fT, fU], [fW], [], [fU, fT], [fT]], [fT, fU, fW]) ∧
    ((Swift.algebraicCase .ascii { pfx := s%"OP" } wGn3 (.anonymousStruct (mkId s%"Vd" none) [] wVd) false).bind fun (k, _) =>
        .ok k.payload) = .ok (some ⟨s%"OPGnVdInner<U, T>", false⟩) := by
  decide +kernel

/-- **Go** (`helper_declares_go`): `type GnVaInner[T any, U any] struct`, fields `G T`, `M map[string][]U` -/
theorem go_example :
    ((Go.algEnumFacts .ascii { package := s%"proto" } wGn3 s%"t" s%"c" [] []).bind fun (d, _) =>
        .ok (d.anonymous.map (·.generics))) = .ok [[fT, fU], [fW], [], [fU, fT], [fT]] ∧
    ((Go.structFacts .ascii { package := s%"proto" } (anonymousStruct wGn3 s%"GnVdInner" s%"Vd" wVd) []).bind fun (d, _) =>
        .ok (Go.renderStruct d)) =
      .ok s%"// Generated type representing the anonymous struct variant `Vd` of the `Gn` Rust enum\ntype GnVdInner[U any, T any] struct {\n\tX U `json:\"x\"`\n\tY T `json:\"y\"`\n}\n" := by
  decide +kernel

/-- **Scala** (`helper_declares_scala`, `helper_applied_scala`) -/
theorem scala_example :
    ((Scala.enumFacts { package := s%"com.example" } wGn3).bind fun d => .ok (d.inner.map (·.generics), d.generics)) =
      .ok ([[fT, fU], [fW], [], [fU, fT], [fT]], [fT, fU, fW]) ∧
    ((Scala.caseFacts { package := s%"com.example" } wGn3 (.anonymousStruct (mkId s%"Vd" none) [] wVd)).bind fun k =>
        .ok k.content) = .ok (some ([fT, fU, fW], s%"c", s%"GnVdInner[U, T]")) := by
  decide +kernel

/-- the same enum without the variant whose map key is a parameter (Python refuses such a key:
`GenericKeyForbiddenInTS`) -/
def wGn2 : RustEnum :=
  { wGn3 with variants := [.anonymousStruct (mkId s%"Va" none) [] wVa, .anonymousStruct (mkId s%"Vc" none) [] wVc,
                           .anonymousStruct (mkId s%"Vd" none) [] wVd, .anonymousStruct (mkId s%"Ve" none) [] wVe,
                           .tuple (mkId s%"Vf" none) [] (.simple fT)] }

/-- **Python** (`helper_declares_python`): `class GnVdInner(BaseModel, Generic[U, T])` -/
theorem python_example :
    ((Python.unionFacts E0 {} wGn2 s%"t" s%"c" {}).bind fun (d, _) => .ok (d.inner.map (·.generics))) =
      .ok [[fT, fU], [], [fU, fT], [fT]] ∧
    ((Python.structFacts E0 {} (anonymousStruct wGn2 s%"GnVdInner" s%"Vd" wVd) {}).bind fun (d, _) =>
        .ok ((Python.renderClass d).take 43)) = .ok s%"class GnVdInner(BaseModel, Generic[U, T]):\n" := by
  decide +kernel

end TsV.C09_HelperParams
