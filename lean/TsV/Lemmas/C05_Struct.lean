import TsV.Lemmas.C05
import TsV.Model.Integer
/-!
# C05 — transparency of `tryFrom`, positions and type mappings, the primitive capacity table
-/
namespace TsV.C05L
open TsV TsV.Lang TsV.Syn TsV.RustTypes

theorem bind_ok_iff {α β} (x : Outcome α) (f : α → Outcome β) (b : β) :
    x.bind f = .ok b ↔ ∃ a, x = .ok a ∧ f a = .ok b := by
  cases x with
  | ok a => simp [Outcome.bind]
  | err e => simp [Outcome.bind]
  | panic s => simp [Outcome.bind]

/-! ## (ii) transparency -/

/-- erase, at every depth, references, serde-transparent wrappers (applied to one type argument)
and path qualification -/
def unwrap (w : Str) (args : List SynType) : SynType :=
  match args with
  | [a] => if smartPointers.contains w then a else .path [] w [a]
  | _ => .path [] w args

mutual
  def strip : SynType → SynType
    | .tuple es => .tuple es
    | .reference e => strip e
    | .path _ w args => unwrap w (stripList args)
    | .array e n => .array (strip e) n
    | .slice e => .slice (strip e)
    | .other => .other
  def stripList : List SynType → List SynType
    | [] => []
    | a :: as => strip a :: stripList as
end

theorem fromPath_smart (w : Str) (h : smartPointers.contains w = true) (p : RustType) (ps : List RustType) :
    fromPath w (p :: ps) = .ok p := by
  simp only [smartPointers, List.contains_cons, List.contains_nil, Bool.or_false, Bool.or_eq_true, beq_iff_eq] at h
  rcases h with h | h | h | h | h | h | h | h | h | h | h <;> subst h <;> rfl

theorem tryFrom_reference (t : SynType) : tryFrom (.reference t) = tryFrom t := by
  simp [tryFrom]

theorem tryFrom_quals (q q' : List Str) (w : Str) (args : List SynType) :
    tryFrom (.path q w args) = tryFrom (.path q' w args) := by
  simp [tryFrom]

theorem tryFromList_single (t : SynType) : tryFromList [t] = (tryFrom t).bind fun x => .ok [x] := by
  simp only [tryFromList]
  cases tryFrom t <;> rfl

/-- a serde-transparent wrapper applied to a type is that type (whatever further arguments — an
allocator, say — follow, provided they are types typeshare can read) -/
theorem tryFrom_smart (q : List Str) (w : Str) (h : smartPointers.contains w = true) (t : SynType)
    (rest : List SynType) (rs : List RustType) (hrest : tryFromList rest = .ok rs) :
    tryFrom (.path q w (t :: rest)) = tryFrom t := by
  simp only [tryFrom, tryFromList, hrest]
  cases tryFrom t with
  | ok x => simp [fromPath_smart w h]
  | err e => rfl
  | panic s => rfl

theorem tryFrom_smart1 (q : List Str) (w : Str) (h : smartPointers.contains w = true) (t : SynType) :
    tryFrom (.path q w [t]) = tryFrom t :=
  tryFrom_smart q w h t [] [] (by simp [tryFromList])

theorem tryFrom_unwrap (q : List Str) (w : Str) (args : List SynType) :
    tryFrom (unwrap w args) = tryFrom (.path q w args) := by
  unfold unwrap
  split
  · split
    · rename_i a h; exact (tryFrom_smart1 q w h a).symm
    · exact tryFrom_quals _ _ _ _
  · exact tryFrom_quals _ _ _ _

mutual
theorem tryFrom_strip : ∀ t : SynType, tryFrom (strip t) = tryFrom t
  | .tuple es => by simp [strip]
  | .reference e => by simp only [strip, tryFrom, tryFrom_strip e]
  | .path q w args => by
    simp only [strip]
    rw [tryFrom_unwrap q w]
    simp only [tryFrom, tryFromList_strip args]
  | .array e n => by simp only [strip, tryFrom, tryFrom_strip e]
  | .slice e => by simp only [strip, tryFrom, tryFrom_strip e]
  | .other => by simp [strip]
theorem tryFromList_strip : ∀ ts : List SynType, tryFromList (stripList ts) = tryFromList ts
  | [] => by simp [stripList]
  | a :: as => by simp only [stripList, tryFromList, tryFrom_strip a, tryFromList_strip as]
end

/-! ## (iii) positions and mappings -/

/-- `Pos L c s t`: `s` occurs in `t` at a position that is not below a node replaced by a type
mapping (a mapped node is replaced as a whole, its arguments are dropped) -/
inductive Pos (L : TsV.Lang) (c : TCfg) : RustType → RustType → Prop
  | here (t) : Pos L c t t
  | vec {s r} : lookup L c (.vec r) = none → Pos L c s r → Pos L c s (.vec r)
  | slice {s r} : lookup L c (.slice r) = none → Pos L c s r → Pos L c s (.slice r)
  | array {s r n} : lookup L c (.array r n) = none → Pos L c s r → Pos L c s (.array r n)
  | option {s r} : lookup L c (.option r) = none → Pos L c s r → Pos L c s (.option r)
  | mapKey {s k v} : lookup L c (.hashMap k v) = none → Pos L c s k → Pos L c s (.hashMap k v)
  | mapVal {s k v} : lookup L c (.hashMap k v) = none → Pos L c s v → Pos L c s (.hashMap k v)
  | arg {s id ps p} : lookup L c (.generic id ps) = none → p ∈ ps → Pos L c s p → Pos L c s (.generic id ps)

/-- `TSub s t`: `s` is a sub-tree of the target tree `t` -/
inductive TSub : TTy → TTy → Prop
  | here (t) : TSub t t
  | seq {s t} : TSub s t → TSub s (.seq t)
  | fixedSeq {s t n} : TSub s t → TSub s (.fixedSeq t n)
  | mapKey {s k v} : TSub s k → TSub s (.map k v)
  | mapVal {s k v} : TSub s v → TSub s (.map k v)
  | opt {s t} : TSub s t → TSub s (.opt t)
  | arg {s n args a} : a ∈ args → TSub s a → TSub s (.user n args)

theorem translateList_mem (L : TsV.Lang) (c : TCfg) (gens : List Str) :
    ∀ (ps : List RustType) (args : List TTy), translateList L c gens ps = .ok args →
      ∀ p ∈ ps, ∃ a ∈ args, translate L c gens p = .ok a
  | [], _, _, p, hp => by simp at hp
  | q :: qs, args, h, p, hp => by
    simp only [translateList, bind_ok_iff] at h
    obtain ⟨x, hx, xs, hxs, hargs⟩ := h
    simp only [Outcome.ok.injEq] at hargs
    subst hargs
    simp only [List.mem_cons] at hp
    rcases hp with rfl | hp
    · exact ⟨x, by simp, hx⟩
    · obtain ⟨a, ha, hta⟩ := translateList_mem L c gens qs xs hxs p hp
      exact ⟨a, by simp [ha], hta⟩

theorem translateList_length (L : TsV.Lang) (c : TCfg) (gens : List Str) :
    ∀ (ps : List RustType) (args : List TTy), translateList L c gens ps = .ok args → args.length = ps.length
  | [], args, h => by simp [translateList] at h; subst h; rfl
  | q :: qs, args, h => by
    simp only [translateList, bind_ok_iff] at h
    obtain ⟨x, _, xs, hxs, hargs⟩ := h
    simp only [Outcome.ok.injEq] at hargs
    subst hargs
    simp [translateList_length L c gens qs xs hxs]

/-- generic arguments are translated one by one, in order -/
theorem translateList_get (L : TsV.Lang) (c : TCfg) (gens : List Str) :
    ∀ (ps : List RustType) (args : List TTy), translateList L c gens ps = .ok args →
      ∀ i (hi : i < ps.length) (hj : i < args.length), translate L c gens ps[i] = .ok args[i]
  | [], _, _, i, hi, _ => by simp at hi
  | q :: qs, args, h, i, hi, hj => by
    simp only [translateList, bind_ok_iff] at h
    obtain ⟨x, hx, xs, hxs, hargs⟩ := h
    simp only [Outcome.ok.injEq] at hargs
    subst hargs
    cases i with
    | zero => simpa using hx
    | succ j => simpa using translateList_get L c gens qs xs hxs j (by simpa using hi) (by simpa using hj)

/-- a type whose lookup name is a mapping key translates to the configured name -/
theorem translate_mapped (L : TsV.Lang) (c : TCfg) (gens : List Str) (t : RustType) (v : Str)
    (h : lookup L c t = some v) : translate L c gens t = .ok (.mapped v) := by
  cases t <;> simp [translate, withMap, h]

/-- the translation of a sub-tree at an unshadowed position is a sub-tree of the translation -/
theorem translate_pos (L : TsV.Lang) (c : TCfg) (gens : List Str) {s t : RustType} (hp : Pos L c s t) :
    ∀ T, translate L c gens t = .ok T → ∃ S, translate L c gens s = .ok S ∧ TSub S T := by
  induction hp with
  | here => intro T hT; exact ⟨T, hT, .here T⟩
  | vec hl _ ih =>
    intro T hT
    simp only [translate, withMap, hl, bind_ok_iff, Outcome.ok.injEq] at hT
    obtain ⟨x, hx, rfl⟩ := hT
    obtain ⟨S, hS, hsub⟩ := ih x hx
    exact ⟨S, hS, .seq hsub⟩
  | slice hl _ ih =>
    intro T hT
    simp only [translate, withMap, hl, bind_ok_iff, Outcome.ok.injEq] at hT
    obtain ⟨x, hx, rfl⟩ := hT
    obtain ⟨S, hS, hsub⟩ := ih x hx
    exact ⟨S, hS, .seq hsub⟩
  | array hl _ ih =>
    intro T hT
    simp only [translate, withMap, hl, bind_ok_iff, Outcome.ok.injEq] at hT
    obtain ⟨x, hx, rfl⟩ := hT
    obtain ⟨S, hS, hsub⟩ := ih x hx
    refine ⟨S, hS, ?_⟩
    split
    · exact .fixedSeq hsub
    · exact .seq hsub
  | option hl _ ih =>
    intro T hT
    simp only [translate, withMap, hl, bind_ok_iff, Outcome.ok.injEq] at hT
    obtain ⟨x, hx, rfl⟩ := hT
    obtain ⟨S, hS, hsub⟩ := ih x hx
    refine ⟨S, hS, ?_⟩
    split
    · exact hsub
    · exact .opt hsub
  | mapKey hl _ ih =>
    intro T hT
    simp only [translate, withMap, hl] at hT
    split at hT
    · simp at hT
    · simp only [bind_ok_iff, Outcome.ok.injEq] at hT
      obtain ⟨a, ha, b, _, rfl⟩ := hT
      obtain ⟨S, hS, hsub⟩ := ih a ha
      exact ⟨S, hS, .mapKey hsub⟩
  | mapVal hl _ ih =>
    intro T hT
    simp only [translate, withMap, hl] at hT
    split at hT
    · simp at hT
    · simp only [bind_ok_iff, Outcome.ok.injEq] at hT
      obtain ⟨a, _, b, hb, rfl⟩ := hT
      obtain ⟨S, hS, hsub⟩ := ih b hb
      exact ⟨S, hS, .mapVal hsub⟩
  | arg hl hmem _ ih =>
    intro T hT
    simp only [translate, withMap, hl, bind_ok_iff, Outcome.ok.injEq] at hT
    obtain ⟨args, hargs, rfl⟩ := hT
    obtain ⟨a, ha, hta⟩ := translateList_mem L c gens _ args hargs _ hmem
    obtain ⟨S, hS, hsub⟩ := ih a hta
    exact ⟨S, hS, .arg ha hsub⟩

/-! ## (iv) the primitive capacity table -/

/-- how serde_json writes a value (the scalar categories, and `object` for targets that are none) -/
inductive JCat where
  | integer | float | bool | string | unit | object
deriving DecidableEq, Repr

/-- serde's JSON category of a Rust primitive (`char` is a one-character string, `()` is `null`,
`OffsetDateTime` under `time::serde::rfc3339` a string) -/
def jsonCat : Prim → JCat
  | .unit => .unit
  | .bool => .bool
  | .string | .char | .dateTime => .string
  | .f32 | .f64 => .float
  | _ => .integer

/-- value range of the integer primitives -/
def primRange : Prim → Int × Int
  | .i8 => (-128, 127)
  | .i16 => (-32768, 32767)
  | .i32 => (-2147483648, 2147483647)
  | .i64 | .isize => (-9223372036854775808, 9223372036854775807)
  | .u8 => (0, 255)
  | .u16 => (0, 65535)
  | .u32 => (0, 4294967295)
  | .u64 | .usize => (0, 18446744073709551615)
  | .i54 => (Integer.I54_MIN, Integer.I54_MAX)
  | .u53 => (0, Integer.U53_MAX)
  | _ => (0, 0)

/-- significand precision of the float primitives -/
def primMant : Prim → Nat
  | .f32 => 24
  | .f64 => 53
  | _ => 0

/-- what a target type can hold: the JSON categories it is read from / written to, the integer
range (`none` = unbounded), the float precision -/
structure TInfo where
  cats : List JCat
  lo : Option Int := none
  hi : Option Int := none
  mant : Nat := 0

def tInt (lo hi : Int) : TInfo := { cats := [.integer], lo := some lo, hi := some hi }
def tFloat (m : Nat) : TInfo := { cats := [.float], mant := m }
def tCat (c : JCat) : TInfo := { cats := [c] }

/-- **trusted table**: the target types the six back ends use for primitives, by name, with the
meaning the target language (or, for Scala's unsigned names, the alias block typeshare itself
generates: `type UByte = Byte`, `type UShort = Short`, `type UInt = Int`, `type ULong = Int`) gives
them -/
def tinfo : TsV.Lang → Str → Option TInfo
  | .typescript, n =>
    if n = s%"number" then some { cats := [.integer, .float], lo := some (-9007199254740991),
                                  hi := some 9007199254740991, mant := 53 }
    else if n = s%"string" then some (tCat .string)
    else if n = s%"boolean" then some (tCat .bool)
    else if n = s%"undefined" then some (tCat .unit)
    else if n = s%"Date" then some (tCat .string)
    else none
  | .kotlin, n =>
    if n = s%"Byte" then some (tInt (-128) 127)
    else if n = s%"Short" then some (tInt (-32768) 32767)
    else if n = s%"Int" then some (tInt (-2147483648) 2147483647)
    else if n = s%"Long" then some (tInt (-9223372036854775808) 9223372036854775807)
    else if n = s%"UByte" then some (tInt 0 255)
    else if n = s%"UShort" then some (tInt 0 65535)
    else if n = s%"UInt" then some (tInt 0 4294967295)
    else if n = s%"ULong" then some (tInt 0 18446744073709551615)
    else if n = s%"Float" then some (tFloat 24)
    else if n = s%"Double" then some (tFloat 53)
    else if n = s%"String" then some (tCat .string)
    else if n = s%"Boolean" then some (tCat .bool)
    else if n = s%"Unit" then some (tCat .unit)
    else none
  | .swift, n =>
    if n = s%"Int8" then some (tInt (-128) 127)
    else if n = s%"Int16" then some (tInt (-32768) 32767)
    else if n = s%"Int32" then some (tInt (-2147483648) 2147483647)
    else if n = s%"Int64" then some (tInt (-9223372036854775808) 9223372036854775807)
    else if n = s%"UInt8" then some (tInt 0 255)
    else if n = s%"UInt16" then some (tInt 0 65535)
    else if n = s%"UInt32" then some (tInt 0 4294967295)
    else if n = s%"UInt64" then some (tInt 0 18446744073709551615)
    else if n = s%"Float" then some (tFloat 24)
    else if n = s%"Double" then some (tFloat 53)
    else if n = s%"String" then some (tCat .string)
    else if n = s%"Unicode.Scalar" then some (tCat .string)
    else if n = s%"Bool" then some (tCat .bool)
    else if n = s%"CodableVoid" then some (tCat .unit)
    else none
  | .scala, n =>
    if n = s%"Byte" then some (tInt (-128) 127)
    else if n = s%"Short" then some (tInt (-32768) 32767)
    else if n = s%"Int" then some (tInt (-2147483648) 2147483647)
    else if n = s%"Long" then some (tInt (-9223372036854775808) 9223372036854775807)
    else if n = s%"UByte" then some (tInt (-128) 127)                  -- `type UByte = Byte`
    else if n = s%"UShort" then some (tInt (-32768) 32767)             -- `type UShort = Short`
    else if n = s%"UInt" then some (tInt (-2147483648) 2147483647)     -- `type UInt = Int`
    else if n = s%"ULong" then some (tInt (-2147483648) 2147483647)    -- `type ULong = Int`
    else if n = s%"Float" then some (tFloat 24)
    else if n = s%"Double" then some (tFloat 53)
    else if n = s%"String" then some (tCat .string)
    else if n = s%"Boolean" then some (tCat .bool)
    else if n = s%"Unit" then some (tCat .unit)
    else none
  | .go, n =>
    if n = s%"int" then some (tInt (-2147483648) 2147483647)           -- at least 32 bits
    else if n = s%"uint32" then some (tInt 0 4294967295)
    else if n = s%"int64" then some (tInt (-9223372036854775808) 9223372036854775807)
    else if n = s%"uint64" then some (tInt 0 18446744073709551615)
    else if n = s%"rune" then some (tInt (-2147483648) 2147483647)     -- `int32`: a JSON number
    else if n = s%"float32" then some (tFloat 24)
    else if n = s%"float64" then some (tFloat 53)
    else if n = s%"string" then some (tCat .string)
    else if n = s%"bool" then some (tCat .bool)
    else if n = s%"struct{}" then some (tCat .object)                  -- written `{}`
    else if n = s%"time.Time" then some (tCat .string)
    else none
  | .python, n =>
    if n = s%"int" then some { cats := [.integer] }                    -- unbounded
    else if n = s%"float" then some (tFloat 53)
    else if n = s%"str" then some (tCat .string)
    else if n = s%"bool" then some (tCat .bool)
    else if n = s%"None" then some (tCat .unit)
    else if n = s%"datetime" then some (tCat .string)
    else none

/-- same JSON category, and every value of the Rust type fits -/
def fits (i : TInfo) (p : Prim) : Bool :=
  i.cats.contains (jsonCat p) &&
  (match jsonCat p with
   | .integer =>
     (match i.lo with | none => true | some l => decide (l ≤ (primRange p).1)) &&
     (match i.hi with | none => true | some h => decide ((primRange p).2 ≤ h))
   | .float => decide (primMant p ≤ i.mant)
   | _ => true)

/-- the primitives `RustTypes.tryFrom` can produce (`u64`, `i64`, `usize`, `isize` are rejected) -/
def parserPrims : List Prim :=
  [.dateTime, .unit, .string, .char, .bool, .i8, .i16, .i32, .i54, .u8, .u16, .u32, .u53, .f32, .f64]

def allLangs : List TsV.Lang := [.typescript, .kotlin, .swift, .scala, .go, .python]

/-- one cell of the table: the primitive is rejected with an error (not mis-translated), or is
given a target type of the same category that holds every value -/
def cellOk (L : TsV.Lang) (p : Prim) : Bool :=
  match primTarget L p with
  | .ok n => (match tinfo L n with | some i => fits i p | none => false)
  | .err _ => true
  | .panic _ => false

end TsV.C05L
