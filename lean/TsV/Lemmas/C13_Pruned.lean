import TsV.Lemmas.TargetOs
import TsV.Lemmas.Outcome
import TsV.Model.Visitor
/-!
# C13, metamorphic form — lemmas

`prune f T` deletes from the abstract file `f` every member the target list `T` excludes.  The lemmas
carry "the deleted member is never looked at" through the item parsers (`parseStruct_prune`,
`parseEnum_prune`) and through the visitor (`visitItems_prune`).  The visitor *does* walk the paths
inside an excluded member (`syn::visit::visit_item_struct` runs whether or not the item is parsed), so in
folder mode the raw import set may differ; `Agree` is "equal except for `importTypes`, and equal outright
in single-file mode".
-/
namespace TsV.C13P
open TsV TsV.Syn TsV.Parser TsV.Visitor

/-- the member is kept by the target list (`accept_target_os`) -/
def keep (T : List Str) (attrs : List Attr) : Bool := (TargetOs.accept attrs T).getD true

/-- named fields the list excludes are deleted; payload fields are not filtered by typeshare -/
def pruneFields (T : List Str) : Fields → Fields
  | .named fs => .named (fs.filter fun f => keep T f.attrs)
  | .unnamed fs => .unnamed fs
  | .unit => .unit

def pruneVariant (T : List Str) (v : Variant) : Variant := { v with fields := pruneFields T v.fields }

def pruneVariants (T : List Str) (vs : List Variant) : List Variant :=
  (vs.filter fun v => keep T v.attrs).map (pruneVariant T)

mutual
  /-- an annotated item the list excludes disappears; an annotated item that stays loses its excluded
  variants and named fields; modules and bodies are descended into; everything else is untouched -/
  def pruneItem (T : List Str) : Item → List Item
    | .struct a i g fs =>
      if hasTypeshareAnnotation a then (if keep T a then [.struct a i g (pruneFields T fs)] else [])
      else [.struct a i g fs]
    | .enum a i g vs =>
      if hasTypeshareAnnotation a then (if keep T a then [.enum a i g (pruneVariants T vs)] else [])
      else [.enum a i g vs]
    | .alias a i g t =>
      if hasTypeshareAnnotation a then (if keep T a then [.alias a i g t] else []) else [.alias a i g t]
    | .const a i t l =>
      if hasTypeshareAnnotation a then (if keep T a then [.const a i t l] else []) else [.const a i t l]
    | .use t => [.use t]
    | .mod a i items => [.mod a i (pruneItems T items)]
    | .other p items => [.other p (pruneItems T items)]
  def pruneItems (T : List Str) : List Item → List Item
    | [] => []
    | i :: is => pruneItem T i ++ pruneItems T is
end

/-- the file with everything the target list excludes deleted; an excluded file is the empty file -/
def prune (f : File) (T : List Str) : File :=
  if keep T f.attrs then { f with items := pruneItems T f.items } else ⟨[], [], false⟩

/-! ## `keep` -/

theorem keep_nil (attrs : List Attr) : keep [] attrs = true := by simp [keep, TargetOs.accept]

theorem keep_nil_attrs (T : List Str) : keep T [] = true := by
  unfold keep TargetOs.accept
  split
  · rfl
  · simp [TargetOs.yielded]

theorem isSkipped_eq (attrs : List Attr) (T : List Str) :
    isSkipped attrs T = (skipMarked attrs || !keep T attrs) := rfl

/-- a member that is not skipped is kept: filtering on `keep` first changes nothing -/
theorem filter_keep_notSkipped {α} (attrsOf : α → List Attr) (T : List Str) (l : List α) :
    (l.filter fun x => keep T (attrsOf x)).filter (fun x => !isSkipped (attrsOf x) T) =
      l.filter fun x => !isSkipped (attrsOf x) T := by
  rw [List.filter_filter]
  apply List.filter_congr
  intro x _
  rw [isSkipped_eq]
  cases skipMarked (attrsOf x) <;> cases keep T (attrsOf x) <;> rfl

/-! ## the item parsers never look at a deleted member -/

theorem parseStruct_prune (E : Ext) (T : List Str) (a : List Attr) (i : Str) (g : List GenericParam)
    (fs : Fields) : parseStruct E T a i g (pruneFields T fs) = parseStruct E T a i g fs := by
  cases fs with
  | named l =>
    simp only [pruneFields, parseStruct]
    rw [filter_keep_notSkipped (fun f : Field => f.attrs)]
  | unnamed l => rfl
  | unit => rfl

theorem parseEnumVariant_prune (E : Ext) (T : List Str) (ra : Option Str) (v : Variant) :
    parseEnumVariant E T ra (pruneVariant T v) = parseEnumVariant E T ra v := by
  obtain ⟨va, vi, vf⟩ := v
  cases vf with
  | named l =>
    simp only [pruneVariant, pruneFields, parseEnumVariant]
    rw [filter_keep_notSkipped (fun f : Field => f.attrs)]
  | unnamed l => rfl
  | unit => rfl

theorem mapM'_congr {α β} (f g : α → Outcome β) : ∀ l : List α, (∀ x ∈ l, f x = g x) →
    Outcome.mapM' f l = Outcome.mapM' g l
  | [], _ => rfl
  | x :: xs, h => by
    simp only [Outcome.mapM']
    rw [h x (by simp), mapM'_congr f g xs fun y hy => h y (by simp [hy])]

theorem mapM'_comp {α β γ} (f : β → Outcome γ) (p : α → β) : ∀ l : List α,
    Outcome.mapM' f (l.map p) = Outcome.mapM' (fun x => f (p x)) l
  | [] => rfl
  | x :: xs => by simp only [List.map_cons, Outcome.mapM']; rw [mapM'_comp f p xs]

theorem pruneVariants_notSkipped (T : List Str) (vs : List Variant) :
    (pruneVariants T vs).filter (fun v => !isSkipped v.attrs T) =
      (vs.filter fun v => !isSkipped v.attrs T).map (pruneVariant T) := by
  unfold pruneVariants
  rw [List.filter_map]
  have : ((fun v : Variant => !isSkipped v.attrs T) ∘ pruneVariant T) = fun v => !isSkipped v.attrs T := rfl
  rw [this, filter_keep_notSkipped (fun v : Variant => v.attrs)]

theorem parseEnum_prune (E : Ext) (T : List Str) (a : List Attr) (i : Str) (g : List GenericParam)
    (vs : List Variant) : parseEnum E T a i g (pruneVariants T vs) = parseEnum E T a i g vs := by
  unfold parseEnum
  rw [pruneVariants_notSkipped, mapM'_comp]
  rw [mapM'_congr _ (parseEnumVariant E T (serdeRenameAll E a)) _
    fun v _ => parseEnumVariant_prune E T _ v]

/-! ## the visitor -/

/-- everything the parse of a file records, except the raw import set -/
def forget (d : ParsedData) : ParsedData := { d with importTypes := [] }

/-- equal except for `importTypes`; equal outright in single-file mode -/
def Agree (ctx : ParseContext) (a b : ParsedData) : Prop :=
  forget a = forget b ∧ (ctx.multiFile = false → a = b)

def AgreeO (ctx : ParseContext) : Outcome ParsedData → Outcome ParsedData → Prop
  | .ok a, .ok b => Agree ctx a b
  | .err e, .err e' => e = e'
  | .panic s, .panic s' => s = s'
  | _, _ => False

theorem Agree.refl (ctx : ParseContext) (a : ParsedData) : Agree ctx a a := ⟨rfl, fun _ => rfl⟩

theorem AgreeO.bind {ctx : ParseContext} {x y : Outcome ParsedData} {f g : ParsedData → Outcome ParsedData}
    (h : AgreeO ctx x y) (hfg : ∀ a b, Agree ctx a b → AgreeO ctx (f a) (g b)) :
    AgreeO ctx (x.bind f) (y.bind g) := by
  cases x <;> cases y <;> simp only [AgreeO] at h <;> try exact h.elim
  · exact hfg _ _ h
  · exact h
  · exact h

theorem forget_addImports (d : ParsedData) (imps : List ImportedType) : forget (addImports d imps) = forget d := rfl

theorem agree_addPaths (E : Ext) (ctx : ParseContext) (a b : ParsedData) (ps qs : List (List Str))
    (h : Agree ctx a b) : Agree ctx (addPaths E ctx a ps) (addPaths E ctx b qs) := by
  unfold addPaths
  cases hm : ctx.multiFile with
  | false => simpa using h
  | true => exact ⟨by simpa [forget_addImports] using h.1, fun hf => by simp [hm] at hf⟩

theorem agree_addPaths_left (E : Ext) (ctx : ParseContext) (a b : ParsedData) (ps : List (List Str))
    (h : Agree ctx a b) : Agree ctx (addPaths E ctx a ps) b := by
  unfold addPaths
  cases hm : ctx.multiFile with
  | false => simpa using h
  | true => exact ⟨by simpa [forget_addImports] using h.1, fun hf => by simp [hm] at hf⟩

theorem forget_push (d : ParsedData) (it : RustItem) : forget (push d it) = push (forget d) it := by
  cases it <;> rfl

theorem agree_collectIf (ctx : ParseContext) (fp : Str) (a b : ParsedData) (attrs : List Attr)
    (p : Outcome RustItem) (h : Agree ctx a b) :
    AgreeO ctx (collectIf ctx fp a attrs p) (collectIf ctx fp b attrs p) := by
  unfold collectIf
  split
  · cases p with
    | ok it =>
      refine ⟨?_, fun hf => by rw [h.2 hf]⟩
      rw [forget_push, forget_push, h.1]
    | err e =>
      refine ⟨?_, fun hf => by rw [h.2 hf]⟩
      have hw : ∀ d : ParsedData, forget { d with errors := d.errors ++ [(e, fp)] } =
          { forget d with errors := (forget d).errors ++ [(e, fp)] } := fun _ => rfl
      show forget _ = forget _
      rw [hw, hw, h.1]
    | panic s => exact rfl
  · exact h

/-- what a non-recursive annotated-or-not item does: record the parse when accepted, then walk the paths -/
theorem agree_collectThenPaths (E : Ext) (ctx : ParseContext) (fp : Str) (a b : ParsedData)
    (attrs : List Attr) (p : Outcome RustItem) (ps qs : List (List Str)) (h : Agree ctx a b) :
    AgreeO ctx ((collectIf ctx fp a attrs p).bind fun d' => pure (addPaths E ctx d' ps))
      ((collectIf ctx fp b attrs p).bind fun d' => pure (addPaths E ctx d' qs)) :=
  AgreeO.bind (agree_collectIf ctx fp a b attrs p h) fun _ _ hab => agree_addPaths E ctx _ _ ps qs hab

theorem bind_pure (x : Outcome ParsedData) : (x.bind fun d => (pure d : Outcome ParsedData)) = x := by
  cases x <;> rfl

theorem visitItems_singleton (E : Ext) (ctx : ParseContext) (fp : Str) (d : ParsedData) (i : Item) :
    visitItems E ctx fp d [i] = visitItem E ctx fp d i := by
  simp only [visitItems]
  exact bind_pure _

theorem visitItems_append (E : Ext) (ctx : ParseContext) (fp : Str) : ∀ (l₁ l₂ : List Item) (d : ParsedData),
    visitItems E ctx fp d (l₁ ++ l₂) = (visitItems E ctx fp d l₁).bind fun d' => visitItems E ctx fp d' l₂
  | [], l₂, d => by simp [visitItems]
  | i :: is, l₂, d => by
    simp only [List.cons_append, visitItems]
    cases visitItem E ctx fp d i with
    | ok d' => simp only [Outcome.bind_ok]; exact visitItems_append E ctx fp is l₂ d'
    | err e => rfl
    | panic s => rfl

/-- an annotated item the list excludes is not parsed: only its paths are walked -/
theorem collectIf_excluded (ctx : ParseContext) (fp : Str) (d : ParsedData) (attrs : List Attr)
    (p : Outcome RustItem) (h : keep ctx.targetOs attrs = false) : collectIf ctx fp d attrs p = pure d := by
  unfold collectIf accepted
  unfold keep at h
  simp [h]

mutual
  theorem visitItem_prune (E : Ext) (ctx : ParseContext) (fp : Str) : ∀ (it : Item) (a b : ParsedData),
      Agree ctx a b →
      AgreeO ctx (visitItem E ctx fp a it) (visitItems E ctx fp b (pruneItem ctx.targetOs it))
    | .struct at' i g fs, a, b, h => by
      simp only [pruneItem]
      split
      · split
        · rw [visitItems_singleton]
          simp only [visitItem, parseStruct_prune]
          exact agree_collectThenPaths E ctx fp a b at' _ _ _ h
        · rename_i hk
          simp only [visitItem, visitItems, collectIf_excluded ctx fp a at' _ (by simpa using hk)]
          exact agree_addPaths_left E ctx a b _ h
      · rw [visitItems_singleton]
        simp only [visitItem]
        exact agree_collectThenPaths E ctx fp a b at' _ _ _ h
    | .enum at' i g vs, a, b, h => by
      simp only [pruneItem]
      split
      · split
        · rw [visitItems_singleton]
          simp only [visitItem, parseEnum_prune]
          exact agree_collectThenPaths E ctx fp a b at' _ _ _ h
        · rename_i hk
          simp only [visitItem, visitItems, collectIf_excluded ctx fp a at' _ (by simpa using hk)]
          exact agree_addPaths_left E ctx a b _ h
      · rw [visitItems_singleton]
        simp only [visitItem]
        exact agree_collectThenPaths E ctx fp a b at' _ _ _ h
    | .alias at' i g t, a, b, h => by
      simp only [pruneItem]
      split
      · split
        · rw [visitItems_singleton]
          simp only [visitItem]
          exact agree_collectThenPaths E ctx fp a b at' _ _ _ h
        · rename_i hk
          simp only [visitItem, visitItems, collectIf_excluded ctx fp a at' _ (by simpa using hk)]
          exact agree_addPaths_left E ctx a b _ h
      · rw [visitItems_singleton]
        simp only [visitItem]
        exact agree_collectThenPaths E ctx fp a b at' _ _ _ h
    | .const at' i t l, a, b, h => by
      simp only [pruneItem]
      split
      · split
        · rw [visitItems_singleton]
          simp only [visitItem]
          exact agree_collectThenPaths E ctx fp a b at' _ _ _ h
        · rename_i hk
          simp only [visitItem, visitItems, collectIf_excluded ctx fp a at' _ (by simpa using hk)]
          exact agree_addPaths_left E ctx a b _ h
      · rw [visitItems_singleton]
        simp only [visitItem]
        exact agree_collectThenPaths E ctx fp a b at' _ _ _ h
    | .use t, a, b, h => by
      simp only [pruneItem]
      rw [visitItems_singleton]
      simp only [visitItem]
      cases hm : ctx.multiFile with
      | false => simpa [AgreeO] using h
      | true =>
        simp only [if_true]
        exact ⟨by simpa [forget_addImports] using h.1, fun hf => by simp [hm] at hf⟩
    | .mod at' i items, a, b, h => by
      simp only [pruneItem]
      rw [visitItems_singleton]
      simp only [visitItem]
      exact visitItems_prune E ctx fp items _ _ (agree_addPaths E ctx a b _ _ h)
    | .other p items, a, b, h => by
      simp only [pruneItem]
      rw [visitItems_singleton]
      simp only [visitItem]
      exact visitItems_prune E ctx fp items _ _ (agree_addPaths E ctx a b _ _ h)
  theorem visitItems_prune (E : Ext) (ctx : ParseContext) (fp : Str) : ∀ (items : List Item) (a b : ParsedData),
      Agree ctx a b →
      AgreeO ctx (visitItems E ctx fp a items) (visitItems E ctx fp b (pruneItems ctx.targetOs items))
    | [], a, b, h => by simpa [pruneItems, visitItems, AgreeO] using h
    | i :: is, a, b, h => by
      simp only [pruneItems, visitItems_append]
      simp only [visitItems]
      exact AgreeO.bind (visitItem_prune E ctx fp i a b h) fun a' b' h' => visitItems_prune E ctx fp is a' b' h'
end

/-! ## idempotence, and the empty list -/

theorem pruneFields_idem (T : List Str) (fs : Fields) : pruneFields T (pruneFields T fs) = pruneFields T fs := by
  cases fs <;> simp [pruneFields, List.filter_filter]

theorem pruneVariant_idem (T : List Str) (v : Variant) : pruneVariant T (pruneVariant T v) = pruneVariant T v := by
  simp [pruneVariant, pruneFields_idem]

theorem pruneVariants_idem (T : List Str) (vs : List Variant) :
    pruneVariants T (pruneVariants T vs) = pruneVariants T vs := by
  unfold pruneVariants
  rw [List.filter_map]
  have : ((fun v : Variant => keep T v.attrs) ∘ pruneVariant T) = fun v => keep T v.attrs := rfl
  rw [this, List.filter_filter, List.map_map]
  simp only [Bool.and_self]
  apply List.map_congr_left
  intro v _
  exact pruneVariant_idem T v

theorem pruneItems_append (T : List Str) : ∀ l₁ l₂ : List Item,
    pruneItems T (l₁ ++ l₂) = pruneItems T l₁ ++ pruneItems T l₂
  | [], l₂ => by simp [pruneItems]
  | i :: is, l₂ => by simp [pruneItems, pruneItems_append T is l₂]

mutual
  theorem pruneItem_idem (T : List Str) : ∀ it : Item, pruneItems T (pruneItem T it) = pruneItem T it
    | .struct a i g fs => by
      simp only [pruneItem]
      split
      · rename_i ha
        split
        · rename_i hk; simp [pruneItems, pruneItem, ha, hk, pruneFields_idem]
        · simp [pruneItems]
      · rename_i ha; simp [pruneItems, pruneItem, ha]
    | .enum a i g vs => by
      simp only [pruneItem]
      split
      · rename_i ha
        split
        · rename_i hk; simp [pruneItems, pruneItem, ha, hk, pruneVariants_idem]
        · simp [pruneItems]
      · rename_i ha; simp [pruneItems, pruneItem, ha]
    | .alias a i g t => by
      simp only [pruneItem]
      split
      · rename_i ha
        split
        · rename_i hk; simp [pruneItems, pruneItem, ha, hk]
        · simp [pruneItems]
      · rename_i ha; simp [pruneItems, pruneItem, ha]
    | .const a i t l => by
      simp only [pruneItem]
      split
      · rename_i ha
        split
        · rename_i hk; simp [pruneItems, pruneItem, ha, hk]
        · simp [pruneItems]
      · rename_i ha; simp [pruneItems, pruneItem, ha]
    | .use t => by simp [pruneItems, pruneItem]
    | .mod a i items => by simp [pruneItems, pruneItem, pruneItems_idem T items]
    | .other p items => by simp [pruneItems, pruneItem, pruneItems_idem T items]
  theorem pruneItems_idem (T : List Str) : ∀ items : List Item, pruneItems T (pruneItems T items) = pruneItems T items
    | [] => by simp [pruneItems]
    | i :: is => by
      simp only [pruneItems, pruneItems_append]
      rw [pruneItem_idem T i, pruneItems_idem T is]
end

theorem pruneFields_nil (fs : Fields) : pruneFields [] fs = fs := by
  cases fs <;> simp [pruneFields, keep_nil]

theorem pruneVariants_nil (vs : List Variant) : pruneVariants [] vs = vs := by
  unfold pruneVariants
  simp only [keep_nil]
  rw [List.filter_eq_self.2 (fun _ _ => rfl)]
  have : pruneVariant [] = id := by funext v; simp [pruneVariant, pruneFields_nil]
  rw [this, List.map_id]

mutual
  theorem pruneItem_nil : ∀ it : Item, pruneItem [] it = [it]
    | .struct a i g fs => by simp [pruneItem, keep_nil, pruneFields_nil]
    | .enum a i g vs => by simp [pruneItem, keep_nil, pruneVariants_nil]
    | .alias a i g t => by simp [pruneItem, keep_nil]
    | .const a i t l => by simp [pruneItem, keep_nil]
    | .use t => by simp [pruneItem]
    | .mod a i items => by simp [pruneItem, pruneItems_nil items]
    | .other p items => by simp [pruneItem, pruneItems_nil items]
  theorem pruneItems_nil : ∀ items : List Item, pruneItems [] items = items
    | [] => by simp [pruneItems]
    | i :: is => by simp [pruneItems, pruneItem_nil i, pruneItems_nil is]
end

/-! ## files without any annotated item -/

mutual
  /-- no item of the list (at any depth) carries the `typeshare` annotation -/
  def noAnnotated : Item → Bool
    | .struct a _ _ _ | .enum a _ _ _ | .alias a _ _ _ | .const a _ _ _ => !hasTypeshareAnnotation a
    | .use _ => true
    | .mod _ _ items | .other _ items => noAnnotatedList items
  def noAnnotatedList : List Item → Bool
    | [] => true
    | i :: is => noAnnotated i && noAnnotatedList is
end

/-- nothing is recorded: no item, no error -/
def Blank (d : ParsedData) : Prop := isEmpty d = true

theorem blank_addPaths (E : Ext) (ctx : ParseContext) (d : ParsedData) (ps : List (List Str)) (h : Blank d) :
    Blank (addPaths E ctx d ps) := by
  unfold addPaths; split
  · exact h
  · exact h

theorem collectIf_unannotated (ctx : ParseContext) (fp : Str) (d : ParsedData) (attrs : List Attr)
    (p : Outcome RustItem) (h : hasTypeshareAnnotation attrs = false) : collectIf ctx fp d attrs p = pure d := by
  unfold collectIf accepted
  simp [h]

mutual
  theorem visitItem_blank (E : Ext) (ctx : ParseContext) (fp : Str) : ∀ (it : Item) (d : ParsedData),
      noAnnotated it = true → Blank d → ∃ d', visitItem E ctx fp d it = .ok d' ∧ Blank d'
    | .struct a i g fs, d, hn, hb => by
      simp only [noAnnotated, Bool.not_eq_true'] at hn
      exact ⟨_, by simp only [visitItem, collectIf_unannotated ctx fp d a _ hn]; rfl, blank_addPaths E ctx d _ hb⟩
    | .enum a i g vs, d, hn, hb => by
      simp only [noAnnotated, Bool.not_eq_true'] at hn
      exact ⟨_, by simp only [visitItem, collectIf_unannotated ctx fp d a _ hn]; rfl, blank_addPaths E ctx d _ hb⟩
    | .alias a i g t, d, hn, hb => by
      simp only [noAnnotated, Bool.not_eq_true'] at hn
      exact ⟨_, by simp only [visitItem, collectIf_unannotated ctx fp d a _ hn]; rfl, blank_addPaths E ctx d _ hb⟩
    | .const a i t l, d, hn, hb => by
      simp only [noAnnotated, Bool.not_eq_true'] at hn
      exact ⟨_, by simp only [visitItem, collectIf_unannotated ctx fp d a _ hn]; rfl, blank_addPaths E ctx d _ hb⟩
    | .use t, d, _, hb => by
      simp only [visitItem]
      split
      · exact ⟨_, rfl, hb⟩
      · exact ⟨_, rfl, hb⟩
    | .mod a i items, d, hn, hb => by
      simp only [noAnnotated] at hn
      simp only [visitItem]
      exact visitItems_blank E ctx fp items _ hn (blank_addPaths E ctx d _ hb)
    | .other p items, d, hn, hb => by
      simp only [noAnnotated] at hn
      simp only [visitItem]
      exact visitItems_blank E ctx fp items _ hn (blank_addPaths E ctx d _ hb)
  theorem visitItems_blank (E : Ext) (ctx : ParseContext) (fp : Str) : ∀ (items : List Item) (d : ParsedData),
      noAnnotatedList items = true → Blank d → ∃ d', visitItems E ctx fp d items = .ok d' ∧ Blank d'
    | [], d, _, hb => ⟨d, rfl, hb⟩
    | i :: is, d, hn, hb => by
      simp only [noAnnotatedList, Bool.and_eq_true] at hn
      obtain ⟨d₁, h1, hb1⟩ := visitItem_blank E ctx fp i d hn.1 hb
      obtain ⟨d₂, h2, hb2⟩ := visitItems_blank E ctx fp is d₁ hn.2 hb1
      exact ⟨d₂, by simp only [visitItems, h1, Outcome.bind_ok, h2], hb2⟩
end

end TsV.C13P
