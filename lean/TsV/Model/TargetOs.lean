import TsV.Model.Syn
/-!
# Model of `core/src/target_os_check.rs`

`drainTop` is the `TargetOsIterator` (a stack machine over nested `Meta`), drained; `accept`
is `accept_target_os`.  `collect` is the structural specification the iterator is proved against.
-/
namespace TsV.TargetOs
open TsV.Syn

inductive Scope | accept | reject
deriving DecidableEq, Repr

def kNot : Str := s%"not"
def kTargetOs : Str := s%"target_os"
def kCfg : Str := s%"cfg"

/-- `if meta.path().is_ident("not") { scope = Reject }` -/
def scopeOf (sc : Scope) (m : Meta) : Scope := if m.isIdent kNot then .reject else sc

/-- what a name-value leaf yields -/
def leaf (sc : Scope) (m : Meta) : List (Scope × Str) :=
  match m with
  | .nameValue segs (some (.str v)) => if segs == [kTargetOs] then [(scopeOf sc m, v)] else []
  | _ => []

/-- The iterator, drained.  Head of the list = top of the `Vec` stack.  `none` = out of fuel.
A nested list that does not parse ends the iteration (`.ok()?` inside `next`). -/
def drain : Nat → List (Scope × Meta) → List (Scope × Str) → Option (List (Scope × Str))
  | _, [], acc => some acc
  | 0, _ :: _, _ => none
  | fuel+1, (sc, m) :: rest, acc =>
    match m with
    | .path _ => drain fuel rest acc
    | .list _ parsed args =>
      if parsed then
        drain fuel ((args.map fun a => (scopeOf sc m, a)).reverse ++ rest) acc
      else some acc
    | .nameValue _ _ => drain fuel rest (acc ++ leaf sc m)

mutual
  def metaSize : Meta → Nat
    | .path _ => 1
    | .nameValue _ _ => 1
    | .list _ _ args => 1 + sizeList args
  def sizeList : List Meta → Nat
    | [] => 0
    | m :: ms => metaSize m + sizeList ms
end

/-- `TargetOsIterator::new(meta).collect()` with the fuel the structure of `meta` guarantees -/
def drainTop (m : Meta) : Option (List (Scope × Str)) := drain (metaSize m) [(.accept, m)] []

/-- `get_meta_items(attr, "cfg")` -/
def cfgItems (a : Attr) : List Meta :=
  match a.val with
  | .list segs true args => if segs == [kCfg] then args else []
  | _ => []

/-- all `(scope, os)` pairs of an attribute list, or `none` if some walk ran out of fuel -/
def yieldStep (acc : Option (List (Scope × Str))) (m : Meta) : Option (List (Scope × Str)) :=
  match acc, drainTop m with
  | some a, some r => some (a ++ r)
  | _, _ => none

def yielded (attrs : List Attr) : Option (List (Scope × Str)) :=
  (attrs.flatMap cfgItems).foldl yieldStep (some [])

/-- `accept_target_os`; `none` only if a walk ran out of fuel (proved impossible) -/
def accept (attrs : List Attr) (targets : List Str) : Option Bool :=
  if targets.isEmpty then some true else
  match yielded attrs with
  | none => none
  | some ys =>
    let accepted := (ys.filter fun p => p.1 == .accept).map (·.2)
    let rejected := (ys.filter fun p => p.1 != .accept).map (·.2)
    let isRejected := targets.any fun t => rejected.any fun r => t == r
    let isAccepted := accepted.isEmpty || targets.any fun t => accepted.any fun a => a == t
    some (!isRejected && isAccepted)

/-! ## structural specification -/

mutual
  /-- the `target_os = "…"` leaves of a meta tree, with the scope they are found in -/
  def collect : Scope → Meta → List (Scope × Str)
    | _, .path _ => []
    | sc, .nameValue segs v => leaf sc (.nameValue segs v)
    | sc, .list segs _ args => collectList (scopeOf sc (.list segs true args)) args
  def collectList : Scope → List Meta → List (Scope × Str)
    | _, [] => []
    | sc, m :: ms => collect sc m ++ collectList sc ms
end

mutual
  /-- every nested list parsed as a meta list (true of every `cfg(any/all/not(…))` expression) -/
  def WF : Meta → Bool
    | .path _ => true
    | .nameValue _ _ => true
    | .list _ parsed args => parsed && wfList args
  def wfList : List Meta → Bool
    | [] => true
    | m :: ms => WF m && wfList ms
end

end TsV.TargetOs
