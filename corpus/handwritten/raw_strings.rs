#[typeshare]
#[serde(rename_all = r"camelCase")]
pub struct RawStrings {
    #[serde(rename = r#"with"quote"#)]
    pub field_one: String,
    #[doc = r" raw doc \n not newline"]
    pub field_two: u8,
    #[serde(rename = "esc\"aped\\\t\u{e9}")]
    pub field_three: Vec<String>,
}
