import TsV.Lemmas.C09_Defs
import TsV.Lemmas.Outcome
/-!
# C09 — the binding semantics tied to the fact records of the six back-end models

`tie_*` lemmas: the names `defName` / `innerDefName` give are the `name` fields of the declaration
records the models build, the spellings in `refs` are what the models' type printers produce at
`simple` leaves and at the heads of generic applications, and `parentRefs` / `innerRefs` are the
`parent` / payload fields of the case records.
-/
namespace TsV.C09
open TsV TsV.Pipeline TsV.Generate TsV.Lang

theorem bindOk {α β} {x : Outcome α} {f : α → Outcome β} {b : β} (h : x.bind f = .ok b) :
    ∃ a, x = .ok a ∧ f a = .ok b := by
  cases x with
  | ok a => exact ⟨a, rfl, h⟩
  | err e => cases h
  | panic s => cases h

/-! ## leaves: `simple` ids and generic heads -/

theorem tie_ts_simple (c : TypeScript.Cfg) (gens : List Str) (id : Str) (st : TypeScript.CustomMap) :
    TypeScript.formatType c gens (.simple id) st = .ok (spell (.typescript c) gens id, st) := by
  simp [TypeScript.formatType, spell]

theorem tie_ts_head (c : TypeScript.Cfg) (gens : List Str) (id : Str) (ps : List RustType)
    (st st' : TypeScript.CustomMap) (strs : List Str) (hm : mapGet c.typeMappings id = none)
    (hps : TypeScript.formatTypes c gens ps st = .ok (strs, st')) :
    TypeScript.formatType c gens (.generic id ps) st =
      .ok (spell (.typescript c) gens id ++ (if strs.isEmpty then [] else angle strs), st') := by
  simp [TypeScript.formatType, spell, hm, hps]

theorem tie_kotlin_simple (c : Kotlin.Cfg) (gens : List Str) (id : Str) :
    Kotlin.formatType c gens (.simple id) = .ok (spell (.kotlin c) gens id) := by
  simp [Kotlin.formatType, spell]

theorem tie_kotlin_head (c : Kotlin.Cfg) (gens : List Str) (id : Str) (ps : List RustType) (strs : List Str)
    (hm : mapGet c.typeMappings id = none) (hps : Kotlin.formatTypes c gens ps = .ok strs) :
    Kotlin.formatType c gens (.generic id ps) =
      .ok (spell (.kotlin c) gens id ++ (if strs.isEmpty then [] else angle strs)) := by
  simp [Kotlin.formatType, spell, hm, hps]

theorem tie_swift_simple (c : Swift.Cfg) (gens : List Str) (id : Str) (st : Swift.St) :
    Swift.formatType c gens (.simple id) st = .ok (spell (.swift c) gens id, st) := by
  simp [Swift.formatType, spell]

theorem tie_swift_head (c : Swift.Cfg) (gens : List Str) (id : Str) (ps : List RustType) (st st' : Swift.St)
    (strs : List Str) (hm : mapGet c.typeMappings id = none)
    (hps : Swift.formatTypes c gens ps st = .ok (strs, st')) :
    Swift.formatType c gens (.generic id ps) st =
      .ok (spell (.swift c) gens id ++ (if strs.isEmpty then [] else angle strs), st') := by
  simp [Swift.formatType, spell, hm, hps]

theorem tie_scala_simple (c : Scala.Cfg) (gens : List Str) (id : Str) :
    Scala.formatType c gens (.simple id) = .ok (spell (.scala c) gens id) := by
  simp [Scala.formatType, spell]

theorem tie_scala_head (c : Scala.Cfg) (gens : List Str) (id : Str) (ps : List RustType) (strs : List Str)
    (hm : mapGet c.typeMappings id = none) (hps : Scala.formatTypes c gens ps = .ok strs) :
    Scala.formatType c gens (.generic id ps) =
      .ok (spell (.scala c) gens id ++ (if strs.isEmpty then [] else Scala.bracket strs)) := by
  simp [Scala.formatType, spell, hm, hps]

theorem tie_go_simple (c : Go.Cfg) (gens : List Str) (id : Str) (st : Go.Imports) :
    Go.formatType c (.simple id) st = .ok (spell (.go c) gens id, st) := by
  simp [Go.formatType, spell]

theorem tie_go_head (c : Go.Cfg) (gens : List Str) (id : Str) (ps : List RustType) (st st' : Go.Imports)
    (strs : List Str) (hm : mapGet c.typeMappings id = none) (hps : Go.formatTypes c ps st = .ok (strs, st')) :
    Go.formatType c (.generic id ps) st =
      .ok (spell (.go c) gens id ++ (if strs.isEmpty then [] else Go.bracket strs), st') := by
  simp [Go.formatType, spell, hm, hps, Outcome.bind]

theorem tie_python_simple (c : Python.Cfg) (gens : List Str) (id : Str) (st : Python.St) :
    Python.formatType c gens (.simple id) st = .ok (spell (.python c) gens id, Python.addImports st id) := by
  simp [Python.formatType, Python.formatSimple, spell]

theorem tie_python_head (c : Python.Cfg) (gens : List Str) (id : Str) (ps : List RustType) (st st' : Python.St)
    (strs : List Str) (hm : mapGet c.typeMappings id = none)
    (hps : Python.formatTypes c gens ps (Python.addImports st id) = .ok (strs, st')) :
    Python.formatType c gens (.generic id ps) st =
      .ok (spell (.python c) gens id ++ Python.bracketSuffix strs, Python.addImports st' id) := by
  simp [Python.formatType, Python.formatSimple, spell, hm, hps]

/-! ## Kotlin -/

/-- the name a Kotlin declaration binds -/
def ktName : Kotlin.KtDecl → Str
  | .typeAlias _ n _ _ => n
  | .valueClass _ n _ _ => n
  | .object _ n => n
  | .dataClass _ n _ _ _ => n
  | .enumClass _ n _ _ => n
  | .sealedClass _ n _ _ => n

theorem tie_kotlin_struct (c : Kotlin.Cfg) (s : RustStruct) (d : Kotlin.KtDecl)
    (h : Kotlin.structFacts c s = .ok d) : ktName d = defName (.kotlin c) (.struct s) := by
  unfold Kotlin.structFacts at h
  split at h
  · cases h; rfl
  · obtain ⟨ps, _, h⟩ := bindOk h
    cases h; rfl

theorem tie_kotlin_alias (c : Kotlin.Cfg) (a : RustTypeAlias) (d : Kotlin.KtDecl)
    (h : Kotlin.aliasFacts c a = .ok d) : ktName d = defName (.kotlin c) (.alias a) := by
  unfold Kotlin.aliasFacts at h
  split at h
  · obtain ⟨p, _, h⟩ := bindOk h
    cases h; simp [ktName, defName, itemId]
  · obtain ⟨ty, _, h⟩ := bindOk h
    cases h; simp [ktName, defName, itemId]

theorem kotlin_structs_names (c : Kotlin.Cfg) : ∀ (ss : List RustStruct) (ds : List Kotlin.KtDecl),
    Kotlin.structsFacts c ss = .ok ds → ds.map ktName = ss.map fun s => c.pfx ++ s.id.renamed
  | [], ds, h => by simp [Kotlin.structsFacts] at h; subst h; rfl
  | s :: ss, ds, h => by
    simp only [Kotlin.structsFacts] at h
    obtain ⟨d, hd, h⟩ := bindOk h
    obtain ⟨ds', hds, h⟩ := bindOk h
    cases h
    have := tie_kotlin_struct c s d hd
    simp [kotlin_structs_names c ss ds' hds, this, defName, itemId]

/-- the helper data classes come first, under `innerDefName`, the enum's own class last, under `defName` -/
theorem tie_kotlin_enum (c : Kotlin.Cfg) (e : RustEnum) (ds : List Kotlin.KtDecl)
    (h : Kotlin.enumFacts c e = .ok ds) :
    ds.map ktName = ((structVariants e).filterMap fun p => innerDefName (.kotlin c) e p.1.original) ++
      [defName (.kotlin c) (.enum e)] := by
  unfold Kotlin.enumFacts at h
  obtain ⟨inners, hi, h⟩ := bindOk h
  have hin := kotlin_structs_names c _ _ hi
  have hmap : (Kotlin.innerStructs e).map (fun s => c.pfx ++ s.id.renamed) =
      (structVariants e).filterMap fun p => innerDefName (.kotlin c) e p.1.original := by
    simp [Kotlin.innerStructs, anonymousStruct, innerDefName, innerSuffix, List.filterMap_eq_map', Function.comp_def]
  cases hk : e.keys with
  | none =>
    simp only [hk] at h
    cases h
    simp [hin, hmap, ktName, defName, itemId]
  | some kc =>
    simp only [hk] at h
    obtain ⟨cases', _, h⟩ := bindOk h
    cases h
    simp [hin, hmap, ktName, defName, itemId]

/-- every case of a Kotlin sealed class names `parentRefs` as its super class, and a struct variant's
content has the type `innerRefs` -/
theorem tie_kotlin_case (c : Kotlin.Cfg) (e : RustEnum) (kc : Str × Str) (hk : e.keys = some kc) (key : Str)
    (v : RustEnumVariant) (k : Kotlin.KtCase) (h : Kotlin.caseFacts c e key v = .ok k) :
    parentRefs (.kotlin c) e = [⟨k.parent, .parent e.id.original, false⟩] ∧
    ∀ id cs fs, v = .anonymousStruct id cs fs →
      ∃ gs : Str × Str, k.payload = .inner key gs.1 gs.2 ∧
        innerRefs (.kotlin c) e id.original = [⟨gs.1, .inner e.id.original id.original, false⟩] := by
  unfold Kotlin.caseFacts at h
  cases v with
  | unit i cs => cases h; exact ⟨by simp [parentRefs, hk], fun _ _ _ hv => by cases hv⟩
  | tuple i cs ty =>
    obtain ⟨t, _, h⟩ := bindOk h
    cases h; exact ⟨by simp [parentRefs, hk], fun _ _ _ hv => by cases hv⟩
  | anonymousStruct i cs fs =>
    cases h
    refine ⟨by simp [parentRefs, hk], fun id cs' fs' hv => ?_⟩
    cases hv
    exact ⟨(_, _), rfl, by simp [innerRefs, innerSuffix, List.append_assoc]⟩

/-! ## Scala -/

theorem tie_scala_struct (c : Scala.Cfg) (s : RustStruct) (d : Scala.ScClass)
    (h : Scala.classFacts c s = .ok d) : d.name = defName (.scala c) (.struct s) := by
  unfold Scala.classFacts at h
  obtain ⟨ps, _, h⟩ := bindOk h
  cases h; rfl

theorem tie_scala_alias (c : Scala.Cfg) (a : RustTypeAlias) (d : Scala.ScAlias)
    (h : Scala.aliasFacts c a = .ok d) : d.name = defName (.scala c) (.alias a) := by
  unfold Scala.aliasFacts at h
  obtain ⟨ty, _, h⟩ := bindOk h
  cases h; rfl

theorem tie_scala_enum (c : Scala.Cfg) (e : RustEnum) (d : Scala.ScEnum)
    (h : Scala.enumFacts c e = .ok d) :
    d.name = defName (.scala c) (.enum e) ∧
    d.inner.map (·.name) = (structVariants e).filterMap fun p => innerDefName (.scala c) e p.1.original := by
  unfold Scala.enumFacts at h
  obtain ⟨inner, hi, h⟩ := bindOk h
  obtain ⟨cases', _, h⟩ := bindOk h
  cases h
  refine ⟨rfl, ?_⟩
  have := Outcome.mapM'_map (fun (p : Id × List RustField) =>
      Scala.classFacts c (anonymousStruct e (e.id.renamed ++ p.1.original ++ s%"Inner") p.1.original p.2))
    (·.name) (fun p => e.id.renamed ++ p.1.original ++ s%"Inner")
    (fun p b hb => by
      have := tie_scala_struct c _ b hb
      simpa [defName, itemId, anonymousStruct] using this)
    (structVariants e) inner hi
  simp only [this]
  simp [innerDefName, innerSuffix, List.filterMap_eq_map']

theorem tie_scala_case (c : Scala.Cfg) (e : RustEnum) (v : RustEnumVariant) (k : Scala.ScCase)
    (h : Scala.caseFacts c e v = .ok k) :
    parentRefs (.scala c) e = [⟨k.parent, .parent e.id.original, false⟩] ∧
    ∀ kc, e.keys = some kc → ∀ id cs fs, v = .anonymousStruct id cs fs →
      ∃ g, k.content = some (e.genericTypes, kc.2, (e.id.renamed ++ id.original ++ innerSuffix) ++ g) ∧
        innerRefs (.scala c) e id.original =
          [⟨e.id.renamed ++ id.original ++ innerSuffix, .inner e.id.original id.original, false⟩] := by
  unfold Scala.caseFacts at h
  cases hk : e.keys with
  | none =>
    simp only [hk] at h
    cases h
    exact ⟨by simp [parentRefs, hk], fun kc hkc => by cases hkc⟩
  | some kc =>
    simp only [hk] at h
    cases v with
    | unit i cs =>
      cases h; exact ⟨by simp [parentRefs, hk], fun _ _ _ _ _ hv => by cases hv⟩
    | tuple i cs ty =>
      obtain ⟨t, _, h⟩ := bindOk h
      cases h; exact ⟨by simp [parentRefs, hk], fun _ _ _ _ _ hv => by cases hv⟩
    | anonymousStruct i cs fs =>
      cases h
      refine ⟨by simp [parentRefs, hk], fun kc' hkc id cs' fs' hv => ?_⟩
      cases hv; cases hkc
      exact ⟨_, rfl, by simp [innerRefs]⟩

/-! ## Swift (names are printed inside back-ticks when they are Swift keywords: `kw`) -/

theorem tie_swift_struct (U : UnicodeOps) (c : Swift.Cfg) (s : RustStruct) (st st' : Swift.St) (d : Swift.SwiftStruct)
    (h : Swift.structFacts U c s st = .ok (d, st')) : d.name = Swift.kw (defName (.swift c) (.struct s)) := by
  unfold Swift.structFacts at h
  obtain ⟨⟨props, st1⟩, _, h⟩ := bindOk h
  obtain ⟨⟨params, st2⟩, _, h⟩ := bindOk h
  cases h; rfl

theorem tie_swift_alias (U : UnicodeOps) (c : Swift.Cfg) (a : RustTypeAlias) (st st' : Swift.St) (txt : Str)
    (h : Swift.writeAlias U c a st = .ok (txt, st')) :
    ∃ ty, txt = nl ++ Swift.comments U 0 a.comments ++ s%"public typealias " ++
      Swift.kw (defName (.swift c) (.alias a)) ++ genericSuffix a.genericTypes ++ s%" = " ++ ty ++ nl := by
  unfold Swift.writeAlias at h
  obtain ⟨⟨ty, st1⟩, _, h⟩ := bindOk h
  cases h; exact ⟨ty, rfl⟩

theorem swift_anon_names (U : UnicodeOps) (c : Swift.Cfg) (e : RustEnum) :
    ∀ (vs : List (Id × List RustField)) (st st' : Swift.St) (ds : List Swift.SwiftStruct),
      Swift.anonymousStructs U c e vs st = .ok (ds, st') →
      ds.map (·.name) = vs.map fun p => Swift.kw (c.pfx ++ Swift.anonymousStructName e p.1.original)
  | [], st, st', ds, h => by simp [Swift.anonymousStructs] at h; obtain ⟨rfl, _⟩ := h; rfl
  | (id, fs) :: vs, st, st', ds, h => by
    simp only [Swift.anonymousStructs] at h
    obtain ⟨⟨d, st1⟩, hd, h⟩ := bindOk h
    obtain ⟨⟨ds', st2⟩, hds, h⟩ := bindOk h
    cases h
    have := tie_swift_struct U c _ _ _ d hd
    simp [swift_anon_names U c e vs st1 st2 ds' hds, this, defName, itemId, anonymousStruct]

theorem tie_swift_enum (U : UnicodeOps) (c : Swift.Cfg) (e : RustEnum) (st st' : Swift.St)
    (ss : List Swift.SwiftStruct) (d : Swift.SwiftEnum) (h : Swift.enumFacts U c e st = .ok (ss, d, st')) :
    d.name = Swift.kw (defName (.swift c) (.enum e)) ∧
    ss.map (·.name) = ((structVariants e).filterMap fun p => innerDefName (.swift c) e p.1.original).map Swift.kw := by
  unfold Swift.enumFacts at h
  obtain ⟨⟨structs, st1⟩, hs, h⟩ := bindOk h
  obtain ⟨⟨cases', st2⟩, _, h⟩ := bindOk h
  cases h
  refine ⟨rfl, ?_⟩
  rw [swift_anon_names U c e _ _ _ _ hs]
  simp [innerDefName, List.filterMap_eq_map', Function.comp_def]

/-- the payload of a struct variant's case is the helper struct's name (plus its generic arguments) -/
theorem tie_swift_case {U : UnicodeOps} (c : Swift.Cfg) (e : RustEnum) (id : Id) (cs : List Str) (fs : List RustField)
    (st st' : Swift.St) (k : Swift.EnumCase)
    (h : Swift.algebraicCase U c e (.anonymousStruct id cs fs) st = .ok (k, st')) :
    ∃ g, k.payload = some ⟨c.pfx ++ Swift.anonymousStructName e id.original ++ g, false⟩ ∧
      innerRefs (.swift c) e id.original =
        [⟨c.pfx ++ Swift.anonymousStructName e id.original, .inner e.id.original id.original, false⟩] := by
  unfold Swift.algebraicCase at h
  cases h
  exact ⟨_, rfl, rfl⟩

/-! ## Go, without `uppercase_acronyms` -/

theorem go_acr (U : UnicodeOps) (c : Go.Cfg) (h : c.uppercaseAcronyms = []) (x : Str) : Go.acr U c x = .ok x := by
  simp [Go.acr, Go.convertAcronyms, h]

theorem tie_go_struct (U : UnicodeOps) (c : Go.Cfg) (hc : c.uppercaseAcronyms = []) (s : RustStruct)
    (st st' : Go.Imports) (d : Go.GoStruct) (h : Go.structFacts U c s st = .ok (d, st')) :
    d.name = defName (.go c) (.struct s) := by
  unfold Go.structFacts at h
  simp only [go_acr U c hc, Outcome.bind_ok] at h
  obtain ⟨⟨fields, st1⟩, _, h⟩ := bindOk h
  cases h; rfl

theorem tie_go_alias (U : UnicodeOps) (c : Go.Cfg) (hc : c.uppercaseAcronyms = []) (a : RustTypeAlias)
    (st st' : Go.Imports) (d : Go.GoAlias) (h : Go.aliasFacts U c a st = .ok (d, st')) :
    d.name = defName (.go c) (.alias a) := by
  unfold Go.aliasFacts at h
  simp only [go_acr U c hc, Outcome.bind_ok] at h
  obtain ⟨⟨ty, st1⟩, _, h⟩ := bindOk h
  cases h; rfl

theorem tie_go_anon_name (U : UnicodeOps) (c : Go.Cfg) (hc : c.uppercaseAcronyms = []) (e : RustEnum) (v : Str) :
    (Go.anonName U c e v).bind (fun n => .ok (some n)) = .ok (innerDefName (.go c) e v) := by
  simp [Go.anonName, go_acr U c hc, innerDefName, innerSuffix]

theorem tie_go_algEnum (U : UnicodeOps) (c : Go.Cfg) (hc : c.uppercaseAcronyms = []) (e : RustEnum)
    (tag content : Str) (cs : List Str) (st st' : Go.Imports) (d : Go.GoAlgEnum)
    (h : Go.algEnumFacts U c e tag content cs st = .ok (d, st')) : d.name = defName (.go c) (.enum e) := by
  unfold Go.algEnumFacts at h
  obtain ⟨⟨anon, st1⟩, _, h⟩ := bindOk h
  obtain ⟨name, hn, h⟩ := bindOk h
  rw [go_acr U c hc] at hn
  cases hn
  obtain ⟨tagField, _, h⟩ := bindOk h
  obtain ⟨short, _, h⟩ := bindOk h
  obtain ⟨tagAcr, _, h⟩ := bindOk h
  obtain ⟨⟨variants, st2⟩, _, h⟩ := bindOk h
  cases h; rfl

/-- a struct variant's payload type is the helper struct's name -/
theorem tie_go_variant (U : UnicodeOps) (c : Go.Cfg) (hc : c.uppercaseAcronyms = []) (e : RustEnum)
    (sn tag : Str) (cs : List Str) (id : Id) (cm : List Str) (fs : List RustField) (st st' : Go.Imports)
    (g : Go.GoAlgVariant) (h : Go.algVariant U c e sn tag cs (.anonymousStruct id cm fs) st = .ok (g, st')) :
    g.payload = some ⟨e.id.original ++ id.original ++ innerSuffix, true⟩ ∧
    innerRefs (.go c) e id.original =
      [⟨e.id.original ++ id.original ++ innerSuffix, .inner e.id.original id.original, false⟩] := by
  unfold Go.algVariant at h
  simp only [go_acr U c hc, Go.anonName, Outcome.bind_ok, RustEnumVariant.id] at h
  cases h
  exact ⟨rfl, rfl⟩

/-! ## Python -/

theorem tie_python_struct (E : Ext) (c : Python.Cfg) (s : RustStruct) (st st' : Python.St) (d : Python.PyClass)
    (h : Python.structFacts E c s st = .ok (d, st')) : d.name = defName (.python c) (.struct s) := by
  unfold Python.structFacts at h
  obtain ⟨⟨fields, st1⟩, _, h⟩ := bindOk h
  cases h; rfl

theorem tie_python_alias (c : Python.Cfg) (a : RustTypeAlias) (st st' : Python.St) (d : Python.PyAlias)
    (h : Python.aliasFacts c a st = .ok (d, st')) : d.name = defName (.python c) (.alias a) := by
  unfold Python.aliasFacts at h
  obtain ⟨⟨ty, st1⟩, _, h⟩ := bindOk h
  cases h; rfl

theorem tie_python_union (E : Ext) (c : Python.Cfg) (e : RustEnum) (tag content : Str) (st st' : Python.St)
    (d : Python.PyUnion) (h : Python.unionFacts E c e tag content st = .ok (d, st')) :
    d.name = defName (.python c) (.enum e) := by
  unfold Python.unionFacts at h
  obtain ⟨⟨inner, st1⟩, _, h⟩ := bindOk h
  obtain ⟨⟨variants, st2⟩, _, h⟩ := bindOk h
  cases h; rfl

theorem tie_python_variant (E : Ext) (c : Python.Cfg) (e : RustEnum) (tag content : Str) (id : Id) (cm : List Str)
    (fs : List RustField) (st st' : Python.St) (v : Python.PyVariant)
    (h : Python.variantFacts E c e tag content (.anonymousStruct id cm fs) st = .ok (v, st')) :
    v.contentType = some (Python.innerName e id.original) ∧
    innerRefs (.python c) e id.original =
      [⟨Python.innerName e id.original, .inner e.id.original id.original, false⟩] ∧
    innerDefName (.python c) e id.original = some (Python.innerName e id.original) := by
  unfold Python.variantFacts at h
  cases h
  exact ⟨rfl, rfl, rfl⟩

/-! ## TypeScript (no declaration records: the text itself) -/

theorem tie_ts_struct (c : TypeScript.Cfg) (s : RustStruct) (st st' : TypeScript.CustomMap) (txt : Str)
    (h : TypeScript.writeStruct c s st = .ok (txt, st')) :
    ∃ body, txt = TypeScript.comments 0 s.comments ++ s%"export interface " ++ defName (.typescript c) (.struct s) ++
      genericSuffix s.genericTypes ++ s%" {\n" ++ body ++ s%"}\n\n" := by
  unfold TypeScript.writeStruct at h
  obtain ⟨⟨body, st1⟩, _, h⟩ := bindOk h
  cases h; exact ⟨body, rfl⟩

theorem tie_ts_alias (c : TypeScript.Cfg) (a : RustTypeAlias) (st st' : TypeScript.CustomMap) (txt : Str)
    (h : TypeScript.writeAlias c a st = .ok (txt, st')) :
    ∃ rest, txt = TypeScript.comments 0 a.comments ++ s%"export type " ++ defName (.typescript c) (.alias a) ++
      genericSuffix a.genericTypes ++ s%" = " ++ rest := by
  unfold TypeScript.writeAlias at h
  obtain ⟨⟨ty, st1⟩, _, h⟩ := bindOk h
  cases h
  exact ⟨ty ++ (if a.ty.isOptional then s%" | undefined" else []) ++ s%";\n\n", by simp [List.append_assoc, defName, itemId]⟩

theorem tie_ts_enum (c : TypeScript.Cfg) (e : RustEnum) (st st' : TypeScript.CustomMap) (txt : Str)
    (h : TypeScript.writeEnum c e st = .ok (txt, st')) :
    ∃ kw rest, (kw = s%"export enum " ∨ kw = s%"export type ") ∧
      txt = TypeScript.comments 0 e.comments ++ kw ++ defName (.typescript c) (.enum e) ++
        genericSuffix e.genericTypes ++ rest := by
  unfold TypeScript.writeEnum at h
  cases hk : e.keys with
  | none =>
    simp only [hk] at h
    cases h
    exact ⟨_, s%" {" ++ (e.variants.flatMap fun v => nl ++ TypeScript.comments 1 v.comments ++ s%"\t" ++
      v.id.original ++ s%" = " ++ debugStr v.id.renamed ++ s%",") ++ s%"\n}\n\n", .inl rfl,
      by simp [List.append_assoc, defName, itemId]⟩
  | some kc =>
    simp only [hk] at h
    obtain ⟨⟨body, st1⟩, _, h⟩ := bindOk h
    cases h
    exact ⟨_, s%" = " ++ body ++ s%";\n\n", .inr rfl, by simp [List.append_assoc, defName, itemId]⟩

end TsV.C09
