import TsV.Lemmas.C15_Spec
import TsV.Model.Sx
/-!
# C15 — driver request `(c15 <style> <indent> ("doc" …))`

Answers with the model's rendering of the comment block (the strings handed to the renderer as they
are), the origin tag of every character, the lexer's comment mask (`1`: the lexer of the language is in
a comment state before and after the character), `contained` and `Bad` per string; and for the same
strings read as `#[doc]` values: the parser's `entries`, the rendering of the entries, its `contained`
and `KnownScalaSub`.  `tools/c15.py` uses it to check that its python lexers, `Bad` predicates and
line splitting are the Lean ones.
-/
namespace TsV.C15
open TsV

def styleOf : String → Option Style
  | "typescript" => some .typescript
  | "kotlin" => some .kotlin
  | "swift" => some .swift
  | "scala" => some .scala
  | "go" => some .go
  | "pydoc" => some .pyDoc
  | "pyhash" => some .pyHash
  | _ => none

/-- `1`: in a comment state before and after the character -/
def mask {σ : Type} (step : σ → Char → σ) (inC : σ → Bool) : σ → Str → Str
  | _, [] => []
  | s, c :: r => (if inC s && inC (step s c) then '1' else '0') :: mask step inC (step s c) r

def maskOf (sty : Style) (text : Str) : Str :=
  match sty with
  | .typescript => mask (cStep tsSyntax) CSt.inComment .code text
  | .kotlin => mask (cStep kotlinSyntax) CSt.inComment .code text
  | .swift => mask (cStep swiftSyntax) CSt.inComment .code text
  | .scala => mask (cStep scalaSyntax) CSt.inComment .code text
  | .go => mask (cStep goSyntax) CSt.inComment .code text
  | .pyDoc | .pyHash => mask pyStep PSt.inComment .code text

def request (U : UnicodeOps) : Sx → Option J
  | .list [.atom "c15", .atom sty, n, .list ds] => do
    let sty ← styleOf sty
    let n ← n.asNat?
    let docs ← ds.mapM Sx.asStr?
    let t := renderT sty U n docs
    some (.obj [("text", .str (render sty U n docs)),
                ("erased", .str (erase t)),
                ("tags", .str (t.map fun p => if p.2 then '1' else '0')),
                ("mask", .str (maskOf sty (erase t))),
                ("contained", .bool (contained sty U n docs)),
                ("bad", .arr (docs.map fun c => .bool (Bad sty U c))),
                ("entries", .arr ((entries U docs).map .str)),
                ("entries_text", .str (render sty U n (entries U docs))),
                ("entries_contained", .bool (contained sty U n (entries U docs))),
                ("known_scala_sub", .bool (KnownScalaSub sty U docs))])
  | .list [.atom "c15-mask", .atom sty, .str text] => do
    let sty ← styleOf sty
    some (.obj [("mask", .str (maskOf sty text))])
  | _ => none

end TsV.C15
