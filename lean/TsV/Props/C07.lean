import TsV.Lemmas.NoPanic
import TsV.Lemmas.TargetOs
import TsV.Lemmas.Topsort
/-!
# C07 — the tool always terminates with output or a diagnostic; it never panics or hangs

What the model can carry: every function of the model is total (Lean has checked termination of
each; the three fuel-driven loops have fuel-sufficiency theorems), and the parser — from
`parser::parse` down to the recursive type parser, the attribute readers, `rename_all`, the
`--target-os` stack walk and the `use`-tree walk — never takes a `panic` branch.  The back ends'
remaining panic sites are listed with the back-end models.  What it cannot carry: the behaviour of
`ignore`'s thread pool and `crossbeam` after a worker panic (hang vs abort) — observed at process
level by the check.
-/
namespace TsV.C07
open TsV TsV.Syn TsV.Outcome

/-- **`parser::parse` never panics**: for every file `syn` accepts, every context (single- or
multi-file, any `--target-os` list, any ignored types), any external `serialized_as` parser and
any Unicode tables, the outcome is `ok` or an error — never a panic. -/
theorem parse_never_panics (E : Ext) (ctx : ParseContext) (pick : List ImportedType → Option ImportedType)
    (crateName fileName filePath : Str) (f : File) :
    (Visitor.parseFile E ctx pick crateName fileName filePath f).isPanic = false :=
  NoPanic.parseFile_np E ctx pick crateName fileName filePath f

/-- the recursive type parser in particular (edge of the grammar: containers without arguments,
empty tuples, arrays with non-literal lengths, non-path types) -/
theorem tryFrom_never_panics (t : SynType) : (RustTypes.tryFrom t).isPanic = false :=
  NoPanic.tryFrom_np t

/-- every item parser -/
theorem parseStruct_never_panics (E : Ext) (T : List Str) (a : List Attr) (i : Str)
    (g : List GenericParam) (fs : Fields) : (Parser.parseStruct E T a i g fs).isPanic = false :=
  NoPanic.parseStruct_np E T a i g fs
theorem parseEnum_never_panics (E : Ext) (T : List Str) (a : List Attr) (i : Str)
    (g : List GenericParam) (vs : List Variant) : (Parser.parseEnum E T a i g vs).isPanic = false :=
  NoPanic.parseEnum_np E T a i g vs

/-- the `--target-os` stack walk terminates within the fuel its caller hands it (so the
`getD true` in the model of `is_skipped` is never exercised) -/
theorem target_os_walk_terminates (attrs : List Attr) (T : List Str) :
    (TargetOs.accept attrs T).isSome := TargetOs.accept_isSome attrs T

/-- the ordering pass terminates without index panic on every in-range graph, cycles included -/
theorem toposort_terminates (g : List (List Nat)) (hg : ∀ deps ∈ g, ∀ d ∈ deps, d < g.length) :
    (Topsort.toposort g).isSome := by
  unfold Topsort.toposort
  rw [Option.isSome_map]
  apply Topsort.inner_isSome g hg
  · intro x hx; simpa using hx
  · simp
  · simp
  · simp

/-! ### the former panic sites as kernel-checked regressions (each was a `panic` before its `fix:` commit) -/
def exE : Ext := { U := .ascii, parseType := fun _ => none }

/-- `struct S();` -/
example : (Parser.parseStruct exE [] [] s%"S" [] (.unnamed [])).errKind? = some .unsupportedItem := by
  decide +kernel
/-- `Vec` without arguments -/
example : (RustTypes.tryFrom (.path [] s%"Vec" [])).errKind? = some .unsupportedType := by decide +kernel
/-- `rename_all = "camelCase"` on `__` -/
example : Rename.renameAllToCase .ascii s%"__" (some s%"camelCase") = .ok [] := by decide +kernel
/-- `#[typeshare(foo(bar))]` on a field is ignored -/
example : Parser.getFieldDecorators exE [⟨.list [s%"typeshare"] true [.list [s%"foo"] true [.path [s%"bar"]]]⟩] = [] := by
  decide +kernel

end TsV.C07
