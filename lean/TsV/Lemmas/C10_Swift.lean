import TsV.Lemmas.C10_Lex
import TsV.Lemmas.Outcome
import TsV.Model.Lang.Swift
/-!
# C10 — Swift: every declaration the model renders is lexically well-formed
-/
namespace TsV.C10Swift
open TsV TsV.Lang TsV.C10Lex TsV.Lang.Swift

/-- Swift's lexer: `<`/`>` are brackets in declarations; the back-tick (escaped identifiers) is an
ordinary character -/
def W : LexCfg := ⟨true, false⟩

structure CfgOk (cfg : Cfg) : Prop where
  pfx : KeyStr cfg.pfx
  maps : ∀ p ∈ cfg.typeMappings, wellBracketed W p.2 = true

theorem CfgOk.mapped {cfg : Cfg} (H : CfgOk cfg) {k v : Str} (h : mapGet cfg.typeMappings k = some v) : NB W v := by
  obtain ⟨p, hp, rfl⟩ := mapGet_mem h
  exact nb_of_wb (H.maps p hp)

/-! ## names -/

/-- characters of an escaped or plain Swift name: `[A-Za-z0-9_-]` and the back-tick -/
def nameChar (c : Char) : Bool := keyChar c || c == '`'

def NameStr (s : Str) : Prop := ∀ c ∈ s, nameChar c = true

theorem nameChar_plain (c : Char) (h : nameChar c = true) : plainChar W c = true := by
  simp only [nameChar, Bool.or_eq_true, beq_iff_eq] at h
  rcases h with h | h
  · exact keyChar_plain W c h
  · subst h; decide

theorem nameChar_strChar (c : Char) (h : nameChar c = true) : strChar c = true := by
  simp only [nameChar, Bool.or_eq_true, beq_iff_eq] at h
  rcases h with h | h
  · exact keyChar_strChar c h
  · subst h; decide

theorem NameStr.nb {s : Str} (h : NameStr s) : NB W s := Plain.nb fun c hc => nameChar_plain c (h c hc)

theorem KeyStr.name {s : Str} (h : KeyStr s) : NameStr s := fun c hc => by simp [nameChar, h c hc]

theorem kw_name {s : Str} (h : KeyStr s) : NameStr (kw s) := by
  unfold kw
  split
  · intro c hc
    simp only [List.mem_append, List.mem_singleton] at hc
    rcases hc with (hc | hc) | hc
    · subst hc; decide
    · exact KeyStr.name h c hc
    · subst hc; decide
  · exact KeyStr.name h

theorem removeDash_name {s : Str} (h : NameStr s) : NameStr (removeDash s) := by
  intro x hx
  simp only [removeDash, Str.replaceChar, List.mem_flatMap] at hx
  obtain ⟨y, hy, hxy⟩ := hx
  by_cases e : y = '-'
  · simp only [e, if_true, List.mem_singleton] at hxy; rw [hxy]; decide
  · simp only [e, if_false, List.mem_singleton] at hxy; rw [hxy]; exact h y hy

theorem memberName_name (f : RustField) (h : KeyStr f.id.renamed) : NameStr (memberName f) :=
  removeDash_name (kw_name h)

theorem lowerFirst_ident {s : Str} (h : IdentStr s) : IdentStr (Rename.lowerFirst s) := by
  cases s with
  | nil => exact h
  | cons c t =>
    intro d hd
    simp only [Rename.lowerFirst, List.mem_cons] at hd
    rcases hd with rfl | hd
    · exact identChar_lower c (h c (by simp))
    · exact h d (by simp [hd])

theorem toCamel_ident {U : UnicodeOps} {s : Str} (h : IdentStr s) : IdentStr (Rename.toCamel U s) := lowerFirst_ident (toPascal_ident h)

/-! ## types -/

theorem formatSimple_nb {cfg : Cfg} (H : CfgOk cfg) (gens : List Str) (base : Str) (hb : KeyStr base) :
    NB W (formatSimple cfg gens base) := by
  unfold formatSimple
  split
  · rename_i m hm; exact H.mapped hm
  · split
    · exact KeyStr.nb hb
    · exact (KeyStr.nb H.pfx).append (KeyStr.nb hb)

mutual
  theorem formatType_nb {cfg : Cfg} (H : CfgOk cfg) (gens : List Str) :
      ∀ (t : RustType) (st : Swift.St) (s : Str) (st' : Swift.St), TypeOk t → formatType cfg gens t st = .ok (s, st') → NB W s
    | .simple id, st, s, st', ht, h => by
      simp only [formatType] at h; cases h
      exact formatSimple_nb H gens id (ht id (by simp [typeNames]))
    | .generic id ps, st, s, st', ht, h => by
      simp only [formatType] at h
      split at h
      · rename_i m hm; cases h; exact H.mapped hm
      · split at h
        · rename_i strs st1 hs
          cases h
          have hall := formatTypes_nb H gens ps st strs _ (fun n hn => ht n (by simp [typeNames, hn])) hs
          refine (formatSimple_nb H gens id (ht id (by simp [typeNames]))).append ?_
          split
          · exact NB.nil
          · exact NB.angleList strs hall
        · cases h
        · cases h
    | .vec r, st, s, st', ht, h => by
      simp only [formatType] at h
      obtain ⟨x, st1, hx, h⟩ := obind_pair_ok h; cases h
      exact NB.square (formatType_nb H gens r st x _ (by simpa [TypeOk, typeNames] using ht) hx)
    | .array r n, st, s, st', ht, h => by
      simp only [formatType] at h
      obtain ⟨x, st1, hx, h⟩ := obind_pair_ok h; cases h
      exact NB.square (formatType_nb H gens r st x _ (by simpa [TypeOk, typeNames] using ht) hx)
    | .slice r, st, s, st', ht, h => by
      simp only [formatType] at h
      obtain ⟨x, st1, hx, h⟩ := obind_pair_ok h; cases h
      exact NB.square (formatType_nb H gens r st x _ (by simpa [TypeOk, typeNames] using ht) hx)
    | .option r, st, s, st', ht, h => by
      simp only [formatType] at h
      obtain ⟨x, st1, hx, h⟩ := obind_pair_ok h; cases h
      refine (formatType_nb H gens r st x _ (by simpa [TypeOk, typeNames] using ht) hx).append ?_
      nb_lit
    | .hashMap k v, st, s, st', ht, h => by
      simp only [formatType] at h
      obtain ⟨ks, st1, hk, h⟩ := obind_pair_ok h
      obtain ⟨vs, st2, hv, h⟩ := obind_pair_ok h
      cases h
      have hkn := formatType_nb H gens k st ks st1 (fun n hn => ht n (by simp [typeNames, hn])) hk
      have hvn := formatType_nb H gens v st1 vs _ (fun n hn => ht n (by simp [typeNames, hn])) hv
      intro stk
      have r1 : Run W s%"[" ⟨.code, stk⟩ ⟨.code, '[' :: stk⟩ := rfl
      have r3 : Run W s%": " ⟨.code, '[' :: stk⟩ ⟨.code, '[' :: stk⟩ := rfl
      have r5 : Run W s%"]" ⟨.code, '[' :: stk⟩ ⟨.code, stk⟩ := rfl
      exact (((r1.append (hkn _)).append r3).append (hvn _)).append r5
    | .prim p, st, s, st', _, h => by
      simp only [formatType] at h
      cases p <;> simp only at h <;> first | (cases h; nb_lit) | cases h
  theorem formatTypes_nb {cfg : Cfg} (H : CfgOk cfg) (gens : List Str) :
      ∀ (ts : List RustType) (st : Swift.St) (ss : List Str) (st' : Swift.St), TypesOk ts →
        formatTypes cfg gens ts st = .ok (ss, st') → ∀ s ∈ ss, NB W s
    | [], st, ss, st', _, h => by simp only [formatTypes] at h; cases h; simp
    | t :: ts, st, ss, st', ht, h => by
      simp only [formatTypes] at h
      obtain ⟨a, st1, ha, h⟩ := obind_pair_ok h
      obtain ⟨as, st2, has, h⟩ := obind_pair_ok h
      cases h
      intro s hs
      simp only [List.mem_cons] at hs
      rcases hs with rfl | hs
      · exact formatType_nb H gens t st _ st1 (fun n hn => ht n (by simp [typeNamesList, hn])) ha
      · exact formatTypes_nb H gens ts st1 as _ (fun n hn => ht n (by simp [typeNamesList, hn])) has s hs
end

/-! ## comments -/

def DocsOk (cs : List Str) : Prop := ∀ c ∈ cs, '\n' ∉ c
instance (cs : List Str) : Decidable (DocsOk cs) := by unfold DocsOk; infer_instance

theorem trimEnd_sub (U : UnicodeOps) (c : Str) : ∀ x ∈ trimEnd U c, x ∈ c := by
  intro x hx
  unfold trimEnd at hx
  have h1 := List.mem_reverse.mp hx
  have h2 := (List.dropWhile_sublist U.isWhite).subset h1
  exact List.mem_reverse.mp h2

theorem comments_nb (U : UnicodeOps) (n : Nat) (cs : List Str) (h : DocsOk cs) : NB W (comments U n cs) := by
  unfold comments
  apply NB.flatMap
  intro c hc
  have e : tabs n ++ s%"/// " ++ trimEnd U c ++ nl = tabs n ++ (s%"//" ++ (s%"/ " ++ trimEnd U c) ++ s%"\n") := by
    simp [nl]
  rw [e]
  refine (NB.tabs n).append (NB.lineComment _ ?_)
  have hn : '\n' ∉ trimEnd U c := fun hm => h c hc (trimEnd_sub U c _ hm)
  simp [hn]

abbrev FieldOk := FieldScope Lang.swift W DocsOk
abbrev StructOk := StructScope Lang.swift W DocsOk
abbrev AliasOk := AliasScope DocsOk
abbrev VariantOk := VariantScope Lang.swift W DocsOk
abbrev EnumOk := EnumScope Lang.swift W DocsOk

/-! ## generic clauses and conformance lists (user strings from decorators and the configuration) -/

def GPOk (p : GenericParam) : Prop := NB W p.name ∧ ∀ c ∈ p.constraints, NB W c

theorem renderGenericClause_nb (ps : List GenericParam) (h : ∀ p ∈ ps, GPOk p) : NB W (renderGenericClause ps) := by
  unfold renderGenericClause
  split
  · exact NB.nil
  · refine NB.angle ?_
    unfold renderGenericParams
    refine NB.intercalate _ nb_commaSep _ ?_
    intro x hx
    simp only [List.mem_map] at hx
    obtain ⟨p, hp, rfl⟩ := hx
    nb_pieces
    · exact (h p hp).1
    · nb_lit
    · exact NB.intercalate _ (by nb_lit) _ (h p hp).2

theorem conformances_nb (cs : List Str) (h : ∀ c ∈ cs, NB W c) : NB W (Str.intercalate s%", " cs) :=
  NB.intercalate _ nb_commaSep _ h

/-! ## structs -/

structure StructFactsOk (s : SwiftStruct) : Prop where
  docs : DocsOk s.comments
  name : NB W s.name
  generics : ∀ p ∈ s.generics, GPOk p
  conformances : ∀ c ∈ s.conformances, NB W c
  props : ∀ p ∈ s.props, DocsOk p.comments ∧ NB W p.name ∧ NB W p.ty
  codingKeys : ∀ k ∈ s.codingKeys, NB W k.caseName ∧ ∀ r, k.rawValue = some r → KeyStr r
  initParams : ∀ p ∈ s.initParams, NB W p.label ∧ NB W p.ty
  initAssigns : ∀ a ∈ s.initAssigns, NB W a.member ∧ NB W a.param

theorem renderCodingKey_nb (k : CodingKey) (h : NB W k.caseName ∧ ∀ r, k.rawValue = some r → KeyStr r) :
    NB W (renderCodingKey k) := by
  unfold renderCodingKey
  split
  · rename_i r hr
    have e : k.caseName ++ s%" = \"" ++ r ++ s%"\"" = k.caseName ++ s%" = " ++ (s%"\"" ++ r ++ s%"\"") := by
      simp only [List.append_assoc, List.cons_append, List.nil_append]
    rw [e]
    refine NB.append (NB.append h.1 ?_) (KeyStr.quoted (h.2 r hr))
    nb_lit
  · exact h.1

theorem renderCodingKeys_nb (ks : List CodingKey) (h : ∀ k ∈ ks, NB W k.caseName ∧ ∀ r, k.rawValue = some r → KeyStr r) :
    NB W (renderCodingKeys ks) := by
  unfold renderCodingKeys
  intro stk
  have r1 : Run W s%"\n\tenum CodingKeys: String, CodingKey, Codable {\n\t\tcase " ⟨.code, stk⟩ ⟨.code, '{' :: stk⟩ := rfl
  have r2 : NB W (Str.intercalate s%",\n\t\t\t" (ks.map renderCodingKey)) := by
    refine NB.intercalate _ (by nb_lit) _ ?_
    intro x hx
    simp only [List.mem_map] at hx
    obtain ⟨k, hk, rfl⟩ := hx
    exact renderCodingKey_nb k (h k hk)
  have r3 : Run W s%"\n\t}\n" ⟨.code, '{' :: stk⟩ ⟨.code, stk⟩ := rfl
  exact (r1.append (r2 _)).append r3

theorem renderStruct_nb (U : UnicodeOps) (s : SwiftStruct) (h : StructFactsOk s) : NB W (renderStruct U s) := by
  unfold renderStruct
  intro stk
  have r1 : Run W nl ⟨.code, stk⟩ ⟨.code, stk⟩ := rfl
  have r2 := comments_nb U 0 _ h.docs stk
  have r3 : Run W s%"public struct " ⟨.code, stk⟩ ⟨.code, stk⟩ := rfl
  have r5 := renderGenericClause_nb _ h.generics stk
  have r6 : Run W s%": " ⟨.code, stk⟩ ⟨.code, stk⟩ := rfl
  have r7 := conformances_nb _ h.conformances stk
  have r8 : Run W s%" {\n" ⟨.code, stk⟩ ⟨.code, '{' :: stk⟩ := rfl
  have r9 : NB W (s.props.flatMap (renderProp U)) := by
    apply NB.flatMap
    intro p hp
    obtain ⟨hd, hn, ht⟩ := h.props p hp
    unfold renderProp
    nb_pieces
    · exact comments_nb U 1 _ hd
    · nb_lit
    · exact hn
    · nb_lit
    · exact ht
    · split <;> first | nb_lit | exact NB.nil
    · exact NB.nl
  have r10 : NB W (if s.explicitCodingKeys = true then renderCodingKeys s.codingKeys else []) := by
    split
    · exact renderCodingKeys_nb _ h.codingKeys
    · exact NB.nil
  have r11 : NB W (if s.props.isEmpty = true then [] else nl) := by
    split
    · exact NB.nil
    · exact NB.nl
  have r12 : Run W s%"\tpublic init(" ⟨.code, '{' :: stk⟩ ⟨.code, '(' :: '{' :: stk⟩ := rfl
  have r13 : NB W (Str.intercalate s%", " (s.initParams.map renderInitParam)) := by
    refine NB.intercalate _ nb_commaSep _ ?_
    intro x hx
    simp only [List.mem_map] at hx
    obtain ⟨p, hp, rfl⟩ := hx
    unfold renderInitParam
    nb_pieces
    · exact (h.initParams p hp).1
    · nb_lit
    · exact (h.initParams p hp).2
    · split <;> first | nb_lit | exact NB.nil
  have r14 : Run W s%") {" ⟨.code, '(' :: '{' :: stk⟩ ⟨.code, '{' :: '{' :: stk⟩ := rfl
  have r15 : NB W (s.initAssigns.flatMap renderInitAssign) := by
    apply NB.flatMap
    intro a ha
    unfold renderInitAssign
    nb_pieces
    · nb_lit
    · exact (h.initAssigns a ha).1
    · nb_lit
    · exact (h.initAssigns a ha).2
  have r16 : NB W (if s.props.isEmpty = true then [] else s%"\n\t") := by
    split
    · exact NB.nil
    · nb_lit
  have r17 : Run W s%"}\n" ⟨.code, '{' :: '{' :: stk⟩ ⟨.code, '{' :: stk⟩ := rfl
  have r18 : Run W s%"}\n" ⟨.code, '{' :: stk⟩ ⟨.code, stk⟩ := rfl
  exact ((((((((((((((((r1.append r2).append r3).append (h.name _)).append r5).append r6).append r7).append r8).append
    (r9 _)).append (r10 _)).append (r11 _)).append r12).append (r13 _)).append r14).append (r15 _)).append (r16 _)).append
    r17).append r18

theorem fieldType_nb {cfg : Cfg} (H : CfgOk cfg) (gens : List Str) (f : RustField) (hf : FieldOk f) (st : Swift.St)
    (ty : Str) (st' : Swift.St) (h : fieldType cfg gens f st = .ok (ty, st')) : NB W ty := by
  unfold fieldType at h
  split at h
  · rename_i t ht; cases h; exact nb_of_wb (hf.override _ ht)
  · exact formatType_nb H gens f.ty st ty st' hf.ty h

theorem storedProps_ok {cfg : Cfg} (H : CfgOk cfg) (gens : List Str) : ∀ (fs : List RustField) (st : Swift.St)
    (ps : List StoredProp) (st' : Swift.St), (∀ f ∈ fs, FieldOk f) → storedProps cfg gens fs st = .ok (ps, st') →
    ∀ p ∈ ps, DocsOk p.comments ∧ NB W p.name ∧ NB W p.ty
  | [], st, ps, st', _, h => by simp only [storedProps] at h; cases h; simp
  | f :: fs, st, ps, st', hf, h => by
    simp only [storedProps] at h
    obtain ⟨ty, st1, hty, h⟩ := obind_pair_ok h
    obtain ⟨rest, st2, hrest, h⟩ := obind_pair_ok h
    cases h
    intro p hp
    simp only [List.mem_cons] at hp
    rcases hp with rfl | hp
    · exact ⟨(hf f (by simp)).docs, (memberName_name f (hf f (by simp)).key).nb,
        fieldType_nb H gens f (hf f (by simp)) st ty st1 hty⟩
    · exact storedProps_ok H gens fs st1 rest _ (fun g hg => hf g (by simp [hg])) hrest p hp

theorem initParams_ok {cfg : Cfg} (H : CfgOk cfg) (gens : List Str) : ∀ (fs : List RustField) (st : Swift.St)
    (ps : List InitParam) (st' : Swift.St), (∀ f ∈ fs, FieldOk f) → initParams cfg gens fs st = .ok (ps, st') →
    ∀ p ∈ ps, NB W p.label ∧ NB W p.ty
  | [], st, ps, st', _, h => by simp only [initParams] at h; cases h; simp
  | f :: fs, st, ps, st', hf, h => by
    simp only [initParams] at h
    obtain ⟨ty, st1, hty, h⟩ := obind_pair_ok h
    obtain ⟨rest, st2, hrest, h⟩ := obind_pair_ok h
    cases h
    intro p hp
    simp only [List.mem_cons] at hp
    rcases hp with rfl | hp
    · exact ⟨(removeDash_name (KeyStr.name (hf f (by simp)).key)).nb, fieldType_nb H gens f (hf f (by simp)) st ty st1 hty⟩
    · exact initParams_ok H gens fs st1 rest _ (fun g hg => hf g (by simp [hg])) hrest p hp

/-- decorators and generic constraints are user strings: that the lists the model computes from them
consist of balanced strings is part of the scope -/
structure DecorOk (U : UnicodeOps) (cfg : Cfg) (dm : DecoratorMap) (gens : List Str) : Prop where
  generics : ∀ p ∈ genericParams U cfg dm gens, GPOk p
  structConf : ∀ c ∈ structConformances cfg dm, NB W c

theorem structFacts_ok (U : UnicodeOps) {cfg : Cfg} (H : CfgOk cfg) (rs : RustStruct) (hs : StructOk rs)
    (hd : DecorOk U cfg rs.decorators rs.genericTypes) (st : Swift.St) (s : SwiftStruct) (st' : Swift.St)
    (h : structFacts U cfg rs st = .ok (s, st')) : StructFactsOk s := by
  unfold structFacts at h
  obtain ⟨props, st1, hp, h⟩ := obind_pair_ok h
  obtain ⟨params, st2, hpa, h⟩ := obind_pair_ok h
  cases h
  refine ⟨hs.docs, (kw_name (KeyStr.append H.pfx hs.name)).nb, hd.generics, hd.structConf,
    storedProps_ok H _ _ st props st1 hs.fields hp, ?_, initParams_ok H _ _ st1 params _ hs.fields hpa, ?_⟩
  · intro k hk
    simp only [List.mem_map] at hk
    obtain ⟨f, hf, rfl⟩ := hk
    unfold fieldCodingKey
    split
    · exact ⟨(memberName_name f (hs.fields f hf).key).nb, by intro r hr; cases hr; exact (hs.fields f hf).key⟩
    · exact ⟨(memberName_name f (hs.fields f hf).key).nb, by intro r hr; cases hr⟩
  · intro a ha
    simp only [List.mem_map] at ha
    obtain ⟨f, hf, rfl⟩ := ha
    exact ⟨(removeDash_name (KeyStr.name (hs.fields f hf).key)).nb, (memberName_name f (hs.fields f hf).key).nb⟩

theorem writeAlias_nb (U : UnicodeOps) {cfg : Cfg} (H : CfgOk cfg) (a : RustTypeAlias) (ha : AliasOk a) (st : Swift.St)
    (text : Str) (st' : Swift.St) (h : writeAlias U cfg a st = .ok (text, st')) : NB W text := by
  unfold writeAlias at h
  obtain ⟨ty, st1, hty, h⟩ := obind_pair_ok h
  cases h
  nb_pieces
  · exact NB.nl
  · exact comments_nb U 0 _ ha.docs
  · nb_lit
  · exact (kw_name (KeyStr.append H.pfx ha.renamed)).nb
  · exact NB.genericSuffix _ fun g hg => IdentStr.nb (ha.generics g hg)
  · nb_lit
  · exact formatType_nb H _ a.ty st ty _ ha.ty hty
  · exact NB.nl


/-! ## enums -/

structure CaseOk (c : EnumCase) : Prop where
  docs : DocsOk c.comments
  caseName : NameStr c.caseName
  printedName : NameStr c.printedName
  wire : KeyStr c.wireName
  payload : ∀ p, c.payload = some p → NB W p.ty

theorem renderUnitCase_nb (U : UnicodeOps) (c : EnumCase) (h : CaseOk c) : NB W (renderUnitCase U c) := by
  unfold renderUnitCase
  refine NB.append (NB.append (NB.append (NB.append (comments_nb U 1 _ h.docs) ?_) h.printedName.nb) ?_) NB.nl
  · nb_lit
  · split
    · exact NB.nil
    · refine NB.append ?_ (NB.debugStr _)
      nb_lit

theorem renderAlgebraicCase_nb (U : UnicodeOps) (c : EnumCase) (h : CaseOk c) : NB W (renderAlgebraicCase U c) := by
  unfold renderAlgebraicCase
  refine NB.append (NB.append (NB.append (NB.append (comments_nb U 1 _ h.docs) ?_) h.printedName.nb) ?_) NB.nl
  · nb_lit
  · split
    · rename_i p hp; exact NB.paren (h.payload p hp)
    · exact NB.nil

def DecodeOk : DecodeArm → Prop
  | .unit n => NB W n
  | .content n ty _ => NB W n ∧ NB W ty

def EncodeOk : EncodeArm → Prop
  | .unit n => NB W n
  | .content n => NB W n

theorem renderDecodeArm_nb (contentKey : Str) (hk : NB W contentKey) (a : DecodeArm) (h : DecodeOk a) :
    NB W (renderDecodeArm contentKey a) := by
  cases a with
  | unit n =>
    unfold renderDecodeArm
    refine NB.append (NB.append (NB.append (NB.append ?_ h) ?_) h) ?_ <;> nb_lit
  | content n ty nf =>
    obtain ⟨hn, hty⟩ := h
    unfold renderDecodeArm
    intro stk
    have r1 : Run W (if nf = true then s%"\n            case ." else s%"\n\t\t\tcase .") ⟨.code, stk⟩ ⟨.code, stk⟩ := by
      split <;> rfl
    have r3 : Run W s%":\n\t\t\t\tif let content = try? container.decode(" ⟨.code, stk⟩ ⟨.code, '(' :: stk⟩ := rfl
    have r5 : Run W s%".self, forKey: ." ⟨.code, '(' :: stk⟩ ⟨.code, '(' :: stk⟩ := rfl
    have r7 : Run W s%") {\n\t\t\t\t\tself = ." ⟨.code, '(' :: stk⟩ ⟨.code, '{' :: stk⟩ := rfl
    have r9 : Run W s%"(content)\n\t\t\t\t\treturn\n\t\t\t\t}" ⟨.code, '{' :: stk⟩ ⟨.code, stk⟩ := rfl
    have r10 : Run W (if nf = true then
        s%"\n\t\t\t\telse if let isNil = try? container.decodeNil(forKey: ." ++ contentKey ++
        s%"), isNil {\n\t\t\t\t\tself = ." ++ n ++ s%"(nil)\n\t\t\t\t\treturn\n\t\t\t\t}"
      else []) ⟨.code, stk⟩ ⟨.code, stk⟩ := by
      split
      · have a1 : Run W s%"\n\t\t\t\telse if let isNil = try? container.decodeNil(forKey: ." ⟨.code, stk⟩ ⟨.code, '(' :: stk⟩ := rfl
        have a3 : Run W s%"), isNil {\n\t\t\t\t\tself = ." ⟨.code, '(' :: stk⟩ ⟨.code, '{' :: stk⟩ := rfl
        have a5 : Run W s%"(nil)\n\t\t\t\t\treturn\n\t\t\t\t}" ⟨.code, '{' :: stk⟩ ⟨.code, stk⟩ := rfl
        exact (((a1.append (hk _)).append a3).append (hn _)).append a5
      · rfl
    exact ((((((((r1.append (hn _)).append r3).append (hty _)).append r5).append (hk _)).append r7).append (hn _)).append r9).append r10

theorem renderEncodeArm_nb (tagKey contentKey : Str) (ht : NB W tagKey) (hk : NB W contentKey) (a : EncodeArm)
    (h : EncodeOk a) : NB W (renderEncodeArm tagKey contentKey a) := by
  cases a with
  | unit n =>
    unfold renderEncodeArm
    intro stk
    have r1 : Run W s%"\n\t\tcase ." ⟨.code, stk⟩ ⟨.code, stk⟩ := rfl
    have r3 : Run W s%":\n\t\t\ttry container.encode(CodingKeys." ⟨.code, stk⟩ ⟨.code, '(' :: stk⟩ := rfl
    have r5 : Run W s%", forKey: ." ⟨.code, '(' :: stk⟩ ⟨.code, '(' :: stk⟩ := rfl
    have r7 : Run W s%")" ⟨.code, '(' :: stk⟩ ⟨.code, stk⟩ := rfl
    exact (((((r1.append (h _)).append r3).append (h _)).append r5).append (ht _)).append r7
  | content n =>
    unfold renderEncodeArm
    intro stk
    have r1 : Run W s%"\n\t\tcase ." ⟨.code, stk⟩ ⟨.code, stk⟩ := rfl
    have r3 : Run W s%"(let content):\n\t\t\ttry container.encode(CodingKeys." ⟨.code, stk⟩ ⟨.code, '(' :: stk⟩ := rfl
    have r5 : Run W s%", forKey: ." ⟨.code, '(' :: stk⟩ ⟨.code, '(' :: stk⟩ := rfl
    have r7 : Run W s%")\n\t\t\ttry container.encode(content, forKey: ." ⟨.code, '(' :: stk⟩ ⟨.code, '(' :: stk⟩ := rfl
    have r9 : Run W s%")" ⟨.code, '(' :: stk⟩ ⟨.code, stk⟩ := rfl
    exact (((((((r1.append (h _)).append r3).append (h _)).append r5).append (ht _)).append r7).append (hk _)).append r9

structure CodableOk (a : AlgebraicCodable) : Prop where
  tag : NB W a.tagKey
  content : NB W a.contentKey
  typeName : NameStr a.typeName
  decode : ∀ x ∈ a.decodeArms, DecodeOk x
  encode : ∀ x ∈ a.encodeArms, EncodeOk x

theorem renderCodable_nb (a : AlgebraicCodable) (h : CodableOk a) : NB W (renderCodable a) := by
  unfold renderCodable
  intro stk
  have hT := h.typeName.nb
  have r1 : Run W s%"\n\tprivate enum ContainerCodingKeys: String, CodingKey {\n\t\tcase " ⟨.code, stk⟩ ⟨.code, '{' :: stk⟩ := rfl
  have r3 : Run W s%", " ⟨.code, '{' :: stk⟩ ⟨.code, '{' :: stk⟩ := rfl
  have r5 : Run W s%"\n\t}\n\n\tpublic init(from decoder: Decoder) throws {\n" ⟨.code, '{' :: stk⟩ ⟨.code, '{' :: stk⟩ := rfl
  have r6 : Run W s%"\t\tlet container = try decoder.container(keyedBy: ContainerCodingKeys.self)\n"
      ⟨.code, '{' :: stk⟩ ⟨.code, '{' :: stk⟩ := rfl
  have r7 : Run W s%"\t\tif let type = try? container.decode(CodingKeys.self, forKey: ." ⟨.code, '{' :: stk⟩
      ⟨.code, '(' :: '{' :: stk⟩ := rfl
  have r9 : Run W s%") {\n" ⟨.code, '(' :: '{' :: stk⟩ ⟨.code, '{' :: '{' :: stk⟩ := rfl
  have r10 : Run W s%"\t\t\tswitch type {" ⟨.code, '{' :: '{' :: stk⟩ ⟨.code, '{' :: '{' :: '{' :: stk⟩ := rfl
  have r11 := NB.flatMap (cfg := W) (renderDecodeArm a.contentKey) a.decodeArms
    (fun x hx => renderDecodeArm_nb _ h.content x (h.decode x hx)) ('{' :: '{' :: '{' :: stk)
  have r12 : Run W s%"\n\t\t\t}\n\t\t}\n" ⟨.code, '{' :: '{' :: '{' :: stk⟩ ⟨.code, '{' :: stk⟩ := rfl
  have r13 : Run W s%"\t\tthrow DecodingError.typeMismatch(" ⟨.code, '{' :: stk⟩ ⟨.code, '(' :: '{' :: stk⟩ := rfl
  have r15 : Run W s%".self, DecodingError.Context(codingPath: decoder.codingPath, debugDescription: \"Wrong type for "
      ⟨.code, '(' :: '{' :: stk⟩ ⟨.str '"', '(' :: '(' :: '{' :: stk⟩ := rfl
  have r16 := str_body (cfg := W) a.typeName ('(' :: '(' :: '{' :: stk) fun c hc => nameChar_strChar c (h.typeName c hc)
  have r17 : Run W s%"\"))\n\t}\n\n" ⟨.str '"', '(' :: '(' :: '{' :: stk⟩ ⟨.code, stk⟩ := rfl
  have r18 : Run W s%"\tpublic func encode(to encoder: Encoder) throws {\n" ⟨.code, stk⟩ ⟨.code, '{' :: stk⟩ := rfl
  have r19 : Run W s%"\t\tvar container = encoder.container(keyedBy: ContainerCodingKeys.self)\n"
      ⟨.code, '{' :: stk⟩ ⟨.code, '{' :: stk⟩ := rfl
  have r20 : Run W s%"\t\tswitch self {" ⟨.code, '{' :: stk⟩ ⟨.code, '{' :: '{' :: stk⟩ := rfl
  have r21 := NB.flatMap (cfg := W) (renderEncodeArm a.tagKey a.contentKey) a.encodeArms
    (fun x hx => renderEncodeArm_nb _ _ h.tag h.content x (h.encode x hx)) ('{' :: '{' :: stk)
  have r22 : Run W s%"\n\t\t}\n\t}\n" ⟨.code, '{' :: '{' :: stk⟩ ⟨.code, stk⟩ := rfl
  exact ((((((((((((((((((((r1.append (h.tag _)).append r3).append (h.content _)).append r5).append r6).append r7).append
    (h.tag _)).append r9).append r10).append r11).append r12).append r13).append (hT _)).append r15).append r16).append
    r17).append r18).append r19).append r20).append r21).append r22

structure EnumFactsOk (e : SwiftEnum) : Prop where
  docs : DocsOk e.comments
  name : NB W e.name
  generics : ∀ p ∈ e.generics, GPOk p
  conformances : ∀ c ∈ e.conformances, NB W c
  cases : ∀ c ∈ e.cases, CaseOk c
  codingKeys : ∀ k ∈ e.codingKeys, NB W k.caseName ∧ ∀ r, k.rawValue = some r → KeyStr r
  codable : ∀ a, e.codable = some a → CodableOk a

theorem renderEnum_nb (U : UnicodeOps) (e : SwiftEnum) (h : EnumFactsOk e) : NB W (renderEnum U e) := by
  unfold renderEnum
  intro stk
  have r1 := comments_nb U 0 _ h.docs stk
  have r2 : Run W s%"public " ⟨.code, stk⟩ ⟨.code, stk⟩ := rfl
  have r3 : Run W (if e.indirect = true then s%"indirect " else []) ⟨.code, stk⟩ ⟨.code, stk⟩ := by split <;> rfl
  have r4 : Run W s%"enum " ⟨.code, stk⟩ ⟨.code, stk⟩ := rfl
  have r6 := renderGenericClause_nb _ h.generics stk
  have r7 : Run W s%": " ⟨.code, stk⟩ ⟨.code, stk⟩ := rfl
  have r8 := conformances_nb _ h.conformances stk
  have r9 : Run W s%" {\n" ⟨.code, stk⟩ ⟨.code, '{' :: stk⟩ := rfl
  have r10 : NB W (match e.codable with
      | none => e.cases.flatMap (renderUnitCase U)
      | some _ => e.cases.flatMap (renderAlgebraicCase U)) := by
    split
    · exact NB.flatMap _ _ fun c hc => renderUnitCase_nb U c (h.cases c hc)
    · exact NB.flatMap _ _ fun c hc => renderAlgebraicCase_nb U c (h.cases c hc)
  have r11 : NB W (if e.codingKeys.isEmpty = true then [] else renderCodingKeys e.codingKeys) := by
    split
    · exact NB.nil
    · exact renderCodingKeys_nb _ h.codingKeys
  have r12 : NB W (match e.codable with
      | none => []
      | some a => renderCodable a) := by
    split
    · exact NB.nil
    · rename_i a ha; exact renderCodable_nb a (h.codable a ha)
  have r13 : Run W s%"}\n" ⟨.code, '{' :: stk⟩ ⟨.code, stk⟩ := rfl
  exact (((((((((((r1.append r2).append r3).append r4).append (h.name _)).append r6).append r7).append r8).append r9).append
    (r10 _)).append (r11 _)).append (r12 _)).append r13

/-! ### from the parsed enum to the facts -/

theorem keywords_key : ∀ k ∈ keywords, KeyStr k := by decide

/-- `swift_keyword_aware_rename` applied to a whole type string (as the tuple-variant arm does) -/
theorem kw_nb {t : Str} (h : NB W t) : NB W (kw t) := by
  unfold kw
  split
  · rename_i hk
    have hmem : t ∈ keywords := by simpa using hk
    have hn := kw_name (keywords_key t hmem)
    simp only [kw, hk, if_true] at hn
    exact NameStr.nb hn
  · exact h

theorem algebraicCaseName_ident (U : UnicodeOps) (v : RustEnumVariant) (h : IdentStr v.id.original) : IdentStr (algebraicCaseName U v) := by
  have hp := toCamel_ident (U := U) h
  simp only [algebraicCaseName]
  cases hn : Rename.toCamel U v.id.original with
  | nil => intro c hc; simp at hc
  | cons c t =>
    rw [hn] at hp
    simp only
    split
    · intro d hd
      simp only [List.cons_append, List.nil_append, List.mem_cons] at hd
      rcases hd with rfl | hd
      · decide
      · exact hp d (by simpa using hd)
    · exact hp

theorem genericParams_sub (U : UnicodeOps) (cfg : Cfg) (dm : DecoratorMap) (gens gens' : List Str)
    (hsub : ∀ g ∈ gens', g ∈ gens) : ∀ p ∈ genericParams U cfg dm gens', p ∈ genericParams U cfg dm gens := by
  intro p hp
  simp only [genericParams, List.mem_map] at hp ⊢
  obtain ⟨g, hg, rfl⟩ := hp
  exact ⟨g, hsub g hg, rfl⟩

structure EnumDecorOk (U : UnicodeOps) (cfg : Cfg) (e : RustEnum) : Prop where
  generics : ∀ p ∈ genericParams U cfg e.decorators e.genericTypes, GPOk p
  structConf : ∀ c ∈ structConformances cfg e.decorators, NB W c
  enumConf : ∀ c ∈ enumConformances cfg e, NB W c

theorem algebraicCase_ok {U : UnicodeOps} {cfg : Cfg} (H : CfgOk cfg) (e : RustEnum) (he : EnumOk e) (v : RustEnumVariant)
    (hv : VariantOk v) (st : Swift.St) (c : EnumCase) (st' : Swift.St)
    (h : algebraicCase U cfg e v st = .ok (c, st')) : CaseOk c := by
  have hname := algebraicCaseName_ident U v hv.original
  unfold algebraicCase at h
  cases v with
  | unit id cs =>
    simp only at h; cases h
    exact ⟨hv.docs, KeyStr.name (IdentStr.key hname), kw_name (IdentStr.key hname), hv.renamed, by intro p hp; cases hp⟩
  | tuple id cs ty =>
    simp only at h
    obtain ⟨t, st1, ht, h⟩ := obind_pair_ok h
    cases h
    refine ⟨hv.docs, KeyStr.name (IdentStr.key hname), kw_name (IdentStr.key hname), hv.renamed, ?_⟩
    intro p hp; cases hp
    exact kw_nb (formatType_nb H _ ty st t _ hv.2.2.2 ht)
  | anonymousStruct id cs fs =>
    simp only at h; cases h
    refine ⟨hv.docs, KeyStr.name (IdentStr.key hname), kw_name (IdentStr.key hname), hv.renamed, ?_⟩
    intro p hp; cases hp
    simp only [anonymousStructName]
    nb_pieces
    · exact KeyStr.nb H.pfx
    · exact KeyStr.nb he.renamed
    · exact IdentStr.nb hv.original
    · nb_lit
    · refine NB.genericSuffix _ fun g hg => IdentStr.nb (he.generics g ?_)
      have := List.mem_eraseDups.mp hg
      simp only [List.mem_flatMap, List.mem_filter] at this
      obtain ⟨_, _, h, _⟩ := this
      exact h

theorem algebraicCases_ok {U : UnicodeOps} {cfg : Cfg} (H : CfgOk cfg) (e : RustEnum) (he : EnumOk e) :
    ∀ (vs : List RustEnumVariant) (st : Swift.St) (cs : List EnumCase) (st' : Swift.St), (∀ v ∈ vs, VariantOk v) →
      algebraicCases U cfg e vs st = .ok (cs, st') → ∀ c ∈ cs, CaseOk c
  | [], st, cs, st', _, h => by simp only [algebraicCases] at h; cases h; simp
  | v :: vs, st, cs, st', hv, h => by
    simp only [algebraicCases] at h
    obtain ⟨c, st1, hc, h⟩ := obind_pair_ok h
    obtain ⟨rest, st2, hrest, h⟩ := obind_pair_ok h
    cases h
    intro x hx
    simp only [List.mem_cons] at hx
    rcases hx with rfl | hx
    · exact algebraicCase_ok H e he v (hv v (by simp)) st _ st1 hc
    · exact algebraicCases_ok H e he vs st1 rest _ (fun w hw => hv w (by simp [hw])) hrest x hx

theorem unitCase_ok (U : UnicodeOps) (v : RustEnumVariant) (hv : VariantOk v) : CaseOk (unitCase U v) := by
  have hname := toCamel_ident (U := U) hv.original
  exact ⟨hv.docs, KeyStr.name (IdentStr.key hname), kw_name (IdentStr.key hname), hv.renamed, by intro p hp; cases hp⟩

theorem anonymousStructs_ok (U : UnicodeOps) {cfg : Cfg} (H : CfgOk cfg) (e : RustEnum) (he : EnumOk e)
    (hd : EnumDecorOk U cfg e) : ∀ (l : List (Id × List RustField)) (st : Swift.St) (ss : List SwiftStruct) (st' : Swift.St),
    (∀ p ∈ l, IdentStr p.1.original ∧ ∀ f ∈ p.2, FieldOk f) →
    anonymousStructs U cfg e l st = .ok (ss, st') → ∀ s ∈ ss, StructFactsOk s
  | [], st, ss, st', _, h => by simp only [anonymousStructs] at h; cases h; simp
  | (id, fields) :: rest, st, ss, st', hl, h => by
    simp only [anonymousStructs] at h
    obtain ⟨s, st1, hs, h⟩ := obind_pair_ok h
    obtain ⟨ss', st2, hss, h⟩ := obind_pair_ok h
    cases h
    intro x hx
    simp only [List.mem_cons] at hx
    rcases hx with rfl | hx
    · obtain ⟨hid, hfs⟩ := hl (id, fields) (by simp)
      have hsub : ∀ g ∈ (anonymousStruct e (anonymousStructName e id.original) id.original fields).genericTypes,
          g ∈ e.genericTypes := by
        intro g hg
        simp only [anonymousStruct] at hg
        have := List.mem_eraseDups.mp hg
        simp only [List.mem_flatMap, List.mem_filter] at this
        obtain ⟨_, _, h, _⟩ := this
        exact h
      refine structFacts_ok U H _ ⟨?_, ?_, ?_, hfs⟩ ⟨?_, hd.structConf⟩ st _ st1 hs
      · intro d hdm
        simp only [anonymousStruct, List.mem_singleton] at hdm
        subst hdm
        have h1 : '\n' ∉ id.original := KeyStr.no_nl (IdentStr.key hid)
        have h2 : '\n' ∉ e.id.original := KeyStr.no_nl (IdentStr.key he.original)
        simp [h1, h2]
      · exact KeyStr.append (KeyStr.append he.renamed (IdentStr.key hid)) (by decide : KeyStr s%"Inner")
      · exact fun g hg => he.generics g (hsub g hg)
      · exact fun p hp => hd.generics p (genericParams_sub U cfg _ _ _ hsub p hp)
    · exact anonymousStructs_ok U H e he hd rest st1 ss' _ (fun p hp => hl p (by simp [hp])) hss x hx

theorem structVariants_ok (e : RustEnum) (he : EnumOk e) :
    ∀ p ∈ structVariants e, IdentStr p.1.original ∧ ∀ f ∈ p.2, FieldOk f := by
  intro p hp
  simp only [structVariants, List.mem_filterMap] at hp
  obtain ⟨v, hv, hsome⟩ := hp
  have hvo := he.variants v hv
  cases v with
  | unit _ _ => simp at hsome
  | tuple _ _ _ => simp at hsome
  | anonymousStruct vid cs fs =>
    simp only [Option.some.injEq] at hsome
    subst hsome
    exact ⟨hvo.2.1, hvo.2.2.2⟩

theorem caseCodingKey_ok (c : EnumCase) (h : CaseOk c) :
    NB W (caseCodingKey c).caseName ∧ ∀ r, (caseCodingKey c).rawValue = some r → KeyStr r := by
  unfold caseCodingKey
  split
  · exact ⟨h.printedName.nb, by intro r hr; cases hr⟩
  · exact ⟨h.printedName.nb, by intro r hr; cases hr; exact h.wire⟩

theorem decodeArmOf_ok (c : EnumCase) (h : CaseOk c) : DecodeOk (decodeArmOf c) := by
  unfold decodeArmOf
  split
  · exact h.caseName.nb
  · rename_i p hp; exact ⟨h.caseName.nb, h.payload p hp⟩

theorem encodeArmOf_ok (c : EnumCase) (h : CaseOk c) : EncodeOk (encodeArmOf c) := by
  unfold encodeArmOf
  split
  · exact h.printedName.nb
  · exact h.caseName.nb

/-- **Swift enums** (raw-value and algebraic, with the helper structs, `CodingKeys`, and the
hand-written `init(from:)` / `encode(to:)`) -/
theorem writeEnum_nb (U : UnicodeOps) {cfg : Cfg} (H : CfgOk cfg) (e : RustEnum) (he : EnumOk e)
    (hd : EnumDecorOk U cfg e) (st : Swift.St) (text : Str) (st' : Swift.St)
    (h : writeEnum U cfg e st = .ok (text, st')) : NB W text := by
  unfold writeEnum at h
  obtain ⟨⟨structs, se, st1⟩, hf, h⟩ := obind_ok h
  cases h
  unfold enumFacts at hf
  obtain ⟨ss, st2, hss, hf⟩ := obind_pair_ok hf
  obtain ⟨cases, st3, hcs, hf⟩ := obind_pair_ok hf
  cases hf
  have hstructs := anonymousStructs_ok U H e he hd _ st _ st2 (structVariants_ok e he) hss
  have hcases : ∀ c ∈ cases, CaseOk c := by
    split at hcs
    · cases hcs
      intro c hc
      simp only [List.mem_map] at hc
      obtain ⟨v, hv, rfl⟩ := hc
      exact unitCase_ok U v (he.variants v hv)
    · exact algebraicCases_ok H e he e.variants st2 cases _ he.variants hcs
  have hnm : NameStr (kw (cfg.pfx ++ e.id.renamed)) := kw_name (KeyStr.append H.pfx he.renamed)
  refine NB.append (NB.append NB.nl (NB.flatMap _ _ fun s hs => renderStruct_nb U s (hstructs s hs))) (renderEnum_nb U _ ?_)
  refine ⟨he.docs, hnm.nb, hd.generics, hd.enumConf, hcases, ?_, ?_⟩
  · intro k hk
    simp only at hk
    split at hk
    · simp at hk
    · simp only [List.mem_map] at hk
      obtain ⟨c, hc, rfl⟩ := hk
      exact caseCodingKey_ok c (hcases c hc)
  · intro a ha
    simp only [Option.map] at ha
    split at ha
    · rename_i tag content hkeys
      cases ha
      refine ⟨IdentStr.nb (he.tag _ hkeys), KeyStr.nb (he.content _ hkeys), hnm, ?_, ?_⟩
      · intro x hx
        simp only [List.mem_map] at hx
        obtain ⟨c, hc, rfl⟩ := hx
        exact decodeArmOf_ok c (hcases c hc)
      · intro x hx
        simp only [List.mem_map] at hx
        obtain ⟨c, hc, rfl⟩ := hx
        exact encodeArmOf_ok c (hcases c hc)
    · cases ha

theorem writeStruct_nb (U : UnicodeOps) {cfg : Cfg} (H : CfgOk cfg) (rs : RustStruct) (hs : StructOk rs)
    (hd : DecorOk U cfg rs.decorators rs.genericTypes) (st : Swift.St) (text : Str) (st' : Swift.St)
    (h : writeStruct U cfg rs st = .ok (text, st')) : NB W text := by
  unfold writeStruct at h
  obtain ⟨s, st1, hs', h⟩ := obind_pair_ok h
  cases h
  exact renderStruct_nb U s (structFacts_ok U H rs hs hd st s _ hs')

end TsV.C10Swift
