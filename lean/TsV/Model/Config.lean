import TsV.Model.Outcome
/-!
# Model of `cli/src/config.rs` and `cli/src/main.rs::{override_configuration, language}`

`Rest` stands for the settings that exist only in `typeshare.toml` (type mappings, default
decorators, generic constraints, CodableVoid constraints, acronyms, no_pointer_slice): the model is
parametric in it, which is exactly the statement that the override step cannot look at them.
-/
namespace TsV.Config

/-- the settings that exist both in the file and on the command line -/
structure Shared where
  swiftPrefix : Str := []
  kotlinPrefix : Str := []
  kotlinPackage : Str := []
  kotlinModule : Str := []
  scalaPackage : Str := []
  scalaModule : Str := []
  goPackage : Str := []
deriving DecidableEq, Repr

structure Config (Rest : Type) where
  shared : Shared
  rest : Rest
  /-- `#[serde(skip)] target_os`: never read from nor written to the file -/
  targetOs : List Str := []

/-- the command line -/
structure Cli where
  swiftPrefix : Option Str := none
  kotlinPrefix : Option Str := none
  javaPackage : Option Str := none
  kotlinModule : Option Str := none
  scalaPackage : Option Str := none
  scalaModule : Option Str := none
  goPackage : Option Str := none
  targetOs : Option (List Str) := none
  langIsGo : Bool := false
deriving Repr

/-- `override_configuration` (`none` = the `anyhow::ensure!` about the Go package fails) -/
def overrideConfiguration {R} (c : Config R) (o : Cli) : Option (Config R) :=
  let s := c.shared
  let s := { s with swiftPrefix := o.swiftPrefix.getD s.swiftPrefix }
  let s := { s with kotlinPrefix := o.kotlinPrefix.getD s.kotlinPrefix }
  let s := { s with kotlinPackage := o.javaPackage.getD s.kotlinPackage }
  let s := { s with kotlinModule := o.kotlinModule.getD s.kotlinModule }
  let s := { s with scalaPackage := o.scalaPackage.getD s.scalaPackage }
  let s := { s with scalaModule := o.scalaModule.getD s.scalaModule }
  let s := { s with goPackage := o.goPackage.getD s.goPackage }
  if o.langIsGo && s.goPackage.isEmpty then none
  else some { shared := s, rest := c.rest, targetOs := o.targetOs.getD [] }

/-- `load_config`: the file if one is given or found, else the defaults -/
def loadConfig {R} (dflt : R) (file : Option (Shared × R)) : Config R :=
  match file with
  | some (s, r) => { shared := s, rest := r }
  | none => { shared := {}, rest := dflt }

/-- `store_config` with `create_new(true)`: refuses an existing path -/
def storeConfig {R} (exists_ : Bool) (c : Config R) : Option (Shared × R) :=
  if exists_ then none else some (c.shared, c.rest)

end TsV.Config
