import TsV.Model.Generate
import TsV.Lemmas.Outcome
import TsV.Props.C11_Coverage
/-!
# C07, generation side — shared helpers

* `np_auto`: a small tactic that walks a chain of `Outcome.bind`s / `match`es / `if`s and closes the
  `NP` obligations from hypotheses in the context (`apply_assumption`);
* the ordering pass never panics: `Pipeline.generateOrder d` is always `some` permutation of the
  items of `d` (`generateOrder_total`, from the C11 theorems `graph_total`, `graph_wf`, `topsort_perm`);
* the two well-formedness facts about parsed items that three back ends rely on
  (`no64`: no 64-bit primitive anywhere in a type; `unitOk`: an enum without tag/content keys has
  unit variants only), with their membership lemmas.
-/
namespace TsV.C07BE
open TsV TsV.Outcome

theorem np_absurd {α} {x : Outcome α} {s : Str} (h : NP x) (e : x = .panic s) : False := by
  rw [e] at h; simp [NP, isPanic] at h

theorem np_of_ok {α} {x : Outcome α} {a : α} (e : x = .ok a) : NP x := by rw [e]; rfl

/-- a computation that returns `ok` -/
def IsOk {α} (x : Outcome α) : Prop := ∃ a, x = .ok a

theorem IsOk.np {α} {x : Outcome α} (h : IsOk x) : NP x := by
  obtain ⟨a, e⟩ := h; exact np_of_ok e

theorem isOk_ok {α} (a : α) : IsOk (Outcome.ok a) := ⟨a, rfl⟩

theorem isOk_bind {α β} {x : Outcome α} {f : α → Outcome β} (hx : IsOk x) (hf : ∀ a, IsOk (f a)) :
    IsOk (x.bind f) := by
  obtain ⟨a, e⟩ := hx; rw [e]; exact hf a

/-- one step of `np_auto` -/
macro "np_step" : tactic => `(tactic| first
  | exact np_ok _
  | exact np_err _
  | exact np_pure _
  | assumption
  | (exfalso; have e := ‹_ = Outcome.panic _›; exact np_absurd (by first | assumption | apply_assumption -exfalso -symm) e)
  | intro _
  | with_reducible apply_assumption -exfalso -symm
  | with_reducible refine np_bind _ _ ?_ ?_
  | with_reducible refine np_bind' _ _ ?_ ?_
  | split)

/-- walk the binds / matches of the goal `NP (…)`, closing leaves from the context -/
macro "np_auto" : tactic => `(tactic| repeat' np_step)

/-! ## the ordering pass -/

/-- **`topsort` never hits `expect`/index panics and never loses an item**: for every program the
order exists and is a permutation of the items. -/
theorem topsort_total (items : List RustItem) : ∃ out, Deps.topsort items = some out ∧ out.Perm items := by
  obtain ⟨g, hg⟩ := C11.graph_total items
  exact C11.topsort_perm items g hg (C11.graph_wf items g hg)

/-- the items of one crate in the order `generate_types` hands them to `topsort` -/
def itemsOf (d : ParsedData) : List RustItem :=
  d.aliases.map .alias ++ d.structs.map .struct ++ d.enums.map .enum ++ d.consts.map .const

theorem generateOrder_total (d : ParsedData) :
    ∃ out, Pipeline.generateOrder d = some out ∧ out.Perm (itemsOf d) :=
  topsort_total _

theorem mem_itemsOf {d : ParsedData} {it : RustItem} : it ∈ itemsOf d ↔
    (∃ a ∈ d.aliases, it = .alias a) ∨ (∃ s ∈ d.structs, it = .struct s) ∨
    (∃ e ∈ d.enums, it = .enum e) ∨ (∃ c ∈ d.consts, it = .const c) := by
  simp only [itemsOf, List.mem_append, List.mem_map, or_assoc]
  constructor
  · rintro (⟨a, h, rfl⟩ | ⟨a, h, rfl⟩ | ⟨a, h, rfl⟩ | ⟨a, h, rfl⟩)
    · exact .inl ⟨a, h, rfl⟩
    · exact .inr (.inl ⟨a, h, rfl⟩)
    · exact .inr (.inr (.inl ⟨a, h, rfl⟩))
    · exact .inr (.inr (.inr ⟨a, h, rfl⟩))
  · rintro (⟨a, h, rfl⟩ | ⟨a, h, rfl⟩ | ⟨a, h, rfl⟩ | ⟨a, h, rfl⟩)
    · exact .inl ⟨a, h, rfl⟩
    · exact .inr (.inl ⟨a, h, rfl⟩)
    · exact .inr (.inr (.inl ⟨a, h, rfl⟩))
    · exact .inr (.inr (.inr ⟨a, h, rfl⟩))

/-! ## well-formedness of parsed items -/

/-- the four primitives `TryFrom<&syn::Type>` rejects (`UnsupportedType`) -/
def Prim.is64 : Prim → Bool
  | .u64 | .i64 | .isize | .usize => true
  | _ => false

mutual
  /-- no 64-bit primitive occurs anywhere in the type -/
  def no64 : RustType → Bool
    | .simple _ => true
    | .generic _ ps => no64List ps
    | .vec t | .array t _ | .slice t | .option t => no64 t
    | .hashMap k v => no64 k && no64 v
    | .prim p => !Prim.is64 p
  def no64List : List RustType → Bool
    | [] => true
    | t :: ts => no64 t && no64List ts
end

def variantNo64 : RustEnumVariant → Bool
  | .unit _ _ => true
  | .tuple _ _ ty => no64 ty
  | .anonymousStruct _ _ fs => fs.all fun f => no64 f.ty

/-- every type the item mentions is free of 64-bit primitives -/
def itemNo64 : RustItem → Bool
  | .struct s => s.fields.all fun f => no64 f.ty
  | .enum e => e.variants.all variantNo64
  | .alias a => no64 a.ty
  | .const c => no64 c.ty

/-- `RustEnum::Unit` holds unit variants only (what `parse_enum` guarantees and the
`unreachable!()` arms of go.rs / python.rs rely on) -/
def enumUnitOk (e : RustEnum) : Bool :=
  match e.keys with
  | none => e.variants.all Parser.variantIsUnit
  | some _ => true

def itemUnitOk : RustItem → Bool
  | .enum e => enumUnitOk e
  | _ => true

/-- both facts for every item of one crate -/
def dataNo64 (d : ParsedData) : Bool := (itemsOf d).all itemNo64
def dataUnitOk (d : ParsedData) : Bool := d.enums.all enumUnitOk

abbrev Job := Str × ParsedData × Option Pipeline.ScopedCrateTypes

def jobsNo64 (jobs : List Job) : Bool := jobs.all fun j => dataNo64 j.2.1
def jobsUnitOk (jobs : List Job) : Bool := jobs.all fun j => dataUnitOk j.2.1

theorem dataUnitOk_items {d : ParsedData} (h : dataUnitOk d = true) : ∀ it ∈ itemsOf d, itemUnitOk it = true := by
  intro it hit
  rcases mem_itemsOf.1 hit with ⟨a, _, rfl⟩ | ⟨a, _, rfl⟩ | ⟨e, he, rfl⟩ | ⟨a, _, rfl⟩
  · rfl
  · rfl
  · exact (List.all_eq_true.1 h) e he
  · rfl

theorem order_no64 {d : ParsedData} {items : List RustItem} (h : dataNo64 d = true)
    (ho : Pipeline.generateOrder d = some items) : ∀ it ∈ items, itemNo64 it = true := by
  obtain ⟨out, ho', hp⟩ := generateOrder_total d
  rw [ho] at ho'; cases ho'
  intro it hit
  exact (List.all_eq_true.1 h) it (hp.mem_iff.1 hit)

theorem order_unitOk {d : ParsedData} {items : List RustItem} (h : dataUnitOk d = true)
    (ho : Pipeline.generateOrder d = some items) : ∀ it ∈ items, itemUnitOk it = true := by
  obtain ⟨out, ho', hp⟩ := generateOrder_total d
  rw [ho] at ho'; cases ho'
  intro it hit
  exact dataUnitOk_items h it (hp.mem_iff.1 hit)

end TsV.C07BE
