use other_crate::Dup;
use third::Dup;
use fourth::*;
#[typeshare]
pub struct A { pub a: Dup, pub b: Glob }
