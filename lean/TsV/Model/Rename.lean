import TsV.Model.Outcome
import TsV.Model.Unicode
/-!
# Model of `core/src/rename.rs` and `parser.rs::rename_all_to_case`
-/
namespace TsV.Rename
open TsV Str

/-- `is_all_uppercase` (since the `fix:` commit 8f4a2d5): "all uppercase, such as URL or TOTP" = no
lowercase letter of any script, `!name.chars().any(char::is_lowercase)`.  Before it the test was
`self.to_ascii_uppercase() == *self` (`toAsciiUpper s == s`), true of every name without an *ASCII*
lowercase letter: `ΑλφαΒήτα` was "all uppercase". -/
def isAllUpper (U : UnicodeOps) (s : Str) : Bool := !(s.any U.isLower)

/-- loop body of `to_pascal_case`: state = capitalize flag -/
def pascalGo (toLower : Bool) : Bool → Str → Str
  | _, [] => []
  | cap, ch :: rest =>
    if ch = '_' then pascalGo toLower true rest
    else if cap then asciiUpper ch :: pascalGo toLower false rest
    else (if toLower then asciiLower ch else ch) :: pascalGo toLower false rest

/-- `RenameExt::to_pascal_case` -/
def toPascal (U : UnicodeOps) (s : Str) : Str := pascalGo (isAllUpper U s) true s

/-- `first.to_ascii_lowercase().to_string() + chars.as_str()`, the empty string unchanged
(since the `fix:` commit 0ee22df; before it the code byte-sliced `pascal[..1]` and panicked on an
empty Pascal form and on a non-ASCII first letter) -/
def lowerFirst : Str → Str
  | [] => []
  | c :: rest => asciiLower c :: rest

/-- `RenameExt::to_camel_case` -/
def toCamel (U : UnicodeOps) (s : Str) : Str := lowerFirst (toPascal U s)

/-- loop body of `to_snake_case`; `first` = `i == 0` -/
def snakeGo (U : UnicodeOps) (allUpper : Bool) : Bool → Str → Str
  | _, [] => []
  | first, ch :: rest =>
    (if !first && U.isUpper ch && !allUpper then ['_'] else []) ++
      asciiLower ch :: snakeGo U allUpper false rest

/-- `RenameExt::to_snake_case` -/
def toSnake (U : UnicodeOps) (s : Str) : Str := snakeGo U (isAllUpper U s) true s

def toScreamingSnake (U : UnicodeOps) (s : Str) : Str := toAsciiUpper (toSnake U s)
def toKebab (U : UnicodeOps) (s : Str) : Str := replaceChar (toSnake U s) '_' ['-']
def toScreamingKebab (U : UnicodeOps) (s : Str) : Str := toAsciiUpper (toKebab U s)

/-- `rename_all_to_case`.  `lowercase` / `UPPERCASE` are `str::to_ascii_lowercase` /
`to_ascii_uppercase` (since the `fix:` commit 7d1c05f, like serde_derive's `RenameRule`; before it
they were the Unicode mappings `U.lowerStr` / `U.upperStr`). -/
def renameAllToCase (U : UnicodeOps) (original : Str) (rule : Option Str) : Outcome Str :=
  match rule with
  | none => .ok original
  | some v =>
    if v = s%"lowercase" then .ok (toAsciiLower original)
    else if v = s%"UPPERCASE" then .ok (toAsciiUpper original)
    else if v = s%"PascalCase" then .ok (toPascal U original)
    else if v = s%"camelCase" then .ok (toCamel U original)
    else if v = s%"snake_case" then .ok (toSnake U original)
    else if v = s%"SCREAMING_SNAKE_CASE" then .ok (toScreamingSnake U original)
    else if v = s%"kebab-case" then .ok (toKebab U original)
    else if v = s%"SCREAMING-KEBAB-CASE" then .ok (toScreamingKebab U original)
    else .ok original

end TsV.Rename
