import TsV.Lemmas.C10_Lex
import TsV.Lemmas.Outcome
import TsV.Model.Lang.Scala
/-!
# C10 — Scala: every declaration the model renders is lexically well-formed
-/
namespace TsV.C10Scala
open TsV TsV.Lang TsV.C10Lex TsV.Lang.Scala

/-- Scala's lexer: generics are `[…]`, `<`/`>` mean nothing -/
def S : LexCfg := ⟨false, false⟩

theorem mapM'_mem {α β} (f : α → Outcome β) : ∀ (l : List α) (r : List β),
    Outcome.mapM' f l = .ok r → ∀ y ∈ r, ∃ x ∈ l, f x = .ok y
  | [], r, h => by simp only [Outcome.mapM'] at h; cases h; simp
  | a :: as, r, h => by
    simp only [Outcome.mapM'] at h
    cases hfa : f a with
    | ok b =>
      rw [hfa] at h
      cases ht : Outcome.mapM' f as with
      | ok bs =>
        rw [ht] at h; simp only at h; cases h
        intro y hy
        simp only [List.mem_cons] at hy
        rcases hy with rfl | hy
        · exact ⟨a, by simp, hfa⟩
        · obtain ⟨x, hx, hfx⟩ := mapM'_mem f as bs ht y hy
          exact ⟨x, by simp [hx], hfx⟩
      | err e => rw [ht] at h; cases h
      | panic s => rw [ht] at h; cases h
    | err e => rw [hfa] at h; cases h
    | panic s => rw [hfa] at h; cases h

/-- every type mapping maps to a balanced string -/
def CfgOk (cfg : Cfg) : Prop := ∀ p ∈ cfg.typeMappings, wellBracketed S p.2 = true

theorem CfgOk.mapped {cfg : Cfg} (H : CfgOk cfg) {k v : Str} (h : mapGet cfg.typeMappings k = some v) : NB S v := by
  obtain ⟨p, hp, rfl⟩ := mapGet_mem h
  exact nb_of_wb (H p hp)

theorem bracket_nb (ps : List Str) (h : ∀ p ∈ ps, NB S p) : NB S (bracket ps) :=
  NB.square (NB.intercalate _ nb_commaSep ps h)

theorem genericSq_nb (gs : List Str) (h : ∀ g ∈ gs, IdentStr g) : NB S (genericSq gs) := by
  unfold genericSq
  split
  · exact NB.nil
  · exact bracket_nb gs fun g hg => IdentStr.nb (h g hg)

theorem bind_ok {α β} {x : Outcome α} {f : α → Outcome β} {r : β} (h : x.bind f = .ok r) :
    ∃ a, x = .ok a ∧ f a = .ok r := by
  cases x with
  | ok a => exact ⟨a, rfl, h⟩
  | err e => cases h
  | panic s => cases h

mutual
  theorem formatType_nb {cfg : Cfg} (H : CfgOk cfg) (gens : List Str) :
      ∀ (t : RustType) (s : Str), TypeOk t → formatType cfg gens t = .ok s → NB S s
    | .simple id, s, ht, h => by
      simp only [formatType] at h; cases h
      cases hm : mapGet cfg.typeMappings id with
      | some m => simpa [hm] using H.mapped hm
      | none => simpa [hm] using (KeyStr.nb (ht id (by simp [typeNames])))
    | .generic id ps, s, ht, h => by
      simp only [formatType] at h
      split at h
      · rename_i m hm; cases h; exact H.mapped hm
      · rename_i hnone
        split at h
        · rename_i strs hs
          cases h
          have hall := formatTypes_nb H gens ps strs (fun n hn => ht n (by simp [typeNames, hn])) hs
          refine NB.append ?_ ?_
          · simpa [hnone] using (KeyStr.nb (ht id (by simp [typeNames])))
          · split
            · exact NB.nil
            · exact bracket_nb strs hall
        · cases h
        · cases h
    | .vec r, s, ht, h => by
      simp only [formatType] at h
      obtain ⟨x, hx, h⟩ := bind_ok h; cases h
      exact NB.wrap (b := '[') (fun _ => rfl) (formatType_nb H gens r x (by simpa [TypeOk, typeNames] using ht) hx) (fun _ => rfl)
    | .array r n, s, ht, h => by
      simp only [formatType] at h
      obtain ⟨x, hx, h⟩ := bind_ok h; cases h
      exact NB.wrap (b := '[') (fun _ => rfl) (formatType_nb H gens r x (by simpa [TypeOk, typeNames] using ht) hx) (fun _ => rfl)
    | .slice r, s, ht, h => by
      simp only [formatType] at h
      obtain ⟨x, hx, h⟩ := bind_ok h; cases h
      exact NB.wrap (b := '[') (fun _ => rfl) (formatType_nb H gens r x (by simpa [TypeOk, typeNames] using ht) hx) (fun _ => rfl)
    | .option r, s, ht, h => by
      simp only [formatType] at h
      obtain ⟨x, hx, h⟩ := bind_ok h; cases h
      exact NB.wrap (b := '[') (fun _ => rfl) (formatType_nb H gens r x (by simpa [TypeOk, typeNames] using ht) hx) (fun _ => rfl)
    | .hashMap k v, s, ht, h => by
      simp only [formatType] at h
      obtain ⟨ks, hk, h⟩ := bind_ok h
      obtain ⟨vs, hv, h⟩ := bind_ok h
      cases h
      have hkn := formatType_nb H gens k ks (fun n hn => ht n (by simp [typeNames, hn])) hk
      have hvn := formatType_nb H gens v vs (fun n hn => ht n (by simp [typeNames, hn])) hv
      intro stk
      have r1 : Run S s%"Map[" ⟨.code, stk⟩ ⟨.code, '[' :: stk⟩ := rfl
      have r3 : Run S s%", " ⟨.code, '[' :: stk⟩ ⟨.code, '[' :: stk⟩ := rfl
      have r5 : Run S s%"]" ⟨.code, '[' :: stk⟩ ⟨.code, stk⟩ := rfl
      exact (((r1.append (hkn _)).append r3).append (hvn _)).append r5
    | .prim p, s, _, h => by
      simp only [formatType] at h
      cases p <;> simp only at h <;> first | (cases h; nb_lit) | cases h
  theorem formatTypes_nb {cfg : Cfg} (H : CfgOk cfg) (gens : List Str) :
      ∀ (ts : List RustType) (ss : List Str), TypesOk ts → formatTypes cfg gens ts = .ok ss → ∀ s ∈ ss, NB S s
    | [], ss, _, h => by simp only [formatTypes] at h; cases h; simp
    | t :: ts, ss, ht, h => by
      simp only [formatTypes] at h
      obtain ⟨x, hx, h⟩ := bind_ok h
      obtain ⟨xs, hxs, h⟩ := bind_ok h
      cases h
      intro s hs
      simp only [List.mem_cons] at hs
      rcases hs with rfl | hs
      · exact formatType_nb H gens t _ (fun n hn => ht n (by simp [typeNamesList, hn])) hx
      · exact formatTypes_nb H gens ts xs (fun n hn => ht n (by simp [typeNamesList, hn])) hxs s hs
end

/-! ## comments, parameters, classes -/

/-- doc lines: no line break (C15's class for `//` comments) -/
def DocsOk (cs : List Str) : Prop := ∀ c ∈ cs, '\n' ∉ c
instance (cs : List Str) : Decidable (DocsOk cs) := by unfold DocsOk; infer_instance

theorem comments_nb (n : Nat) (cs : List Str) (h : DocsOk cs) : NB S (comments n cs) := by
  unfold comments
  apply NB.flatMap
  intro c hc
  have e : tabs n ++ s%"// " ++ c ++ nl = tabs n ++ (s%"//" ++ (s%" " ++ c) ++ s%"\n") := by simp [nl]
  rw [e]
  refine (NB.tabs n).append (NB.lineComment _ ?_)
  have := h c hc
  simp [this]

abbrev FieldOk := FieldScope Lang.scala S DocsOk
abbrev StructOk := StructScope Lang.scala S DocsOk
abbrev AliasOk := AliasScope DocsOk
abbrev VariantOk := VariantScope Lang.scala S DocsOk
abbrev EnumOk := EnumScope Lang.scala S DocsOk

structure ParamOk (p : ScParam) : Prop where
  docs : DocsOk p.comments
  name : NB S p.name
  ty : NB S p.ty
  default : NB S p.default

theorem renderParam_nb (p : ScParam) (h : ParamOk p) : NB S (renderParam p) := by
  unfold renderParam
  nb_pieces
  · exact comments_nb 1 _ h.docs
  · nb_lit
  · exact h.name
  · nb_lit
  · exact h.ty
  · exact h.default

theorem paramFacts_ok {cfg : Cfg} (H : CfgOk cfg) (gens : List Str) (f : RustField) (p : ScParam)
    (hf : FieldOk f) (h : paramFacts cfg gens f = .ok p) : ParamOk p := by
  unfold paramFacts at h
  obtain ⟨ty, hty, h⟩ := bind_ok h
  cases h
  refine ⟨hf.docs, KeyStr.nb (replaceDash_key hf.key), ?_, ?_⟩
  · split at hty
    · rename_i t ht; cases hty; exact nb_of_wb (hf.override _ ht)
    · exact formatType_nb H gens f.ty ty hf.ty hty
  · simp only
    split
    · nb_lit
    · split
      · nb_lit
      · exact NB.nil

structure ClassOk (c : ScClass) : Prop where
  docs : DocsOk c.comments
  name : NB S c.name
  generics : ∀ g ∈ c.generics, IdentStr g
  params : ∀ p ∈ c.params, ParamOk p

theorem renderClass_nb (c : ScClass) (h : ClassOk c) : NB S (renderClass c) := by
  unfold renderClass
  refine (comments_nb 0 _ h.docs).append ?_
  split
  · nb_pieces
    · nb_lit
    · exact h.name
    · nb_lit
  · intro stk
    have r1 : Run S s%"case class " ⟨.code, stk⟩ ⟨.code, stk⟩ := rfl
    have r4 : Run S s%" (\n" ⟨.code, stk⟩ ⟨.code, '(' :: stk⟩ := rfl
    have r5 : NB S (Str.intercalate s%",\n" (c.params.map renderParam)) := by
      refine NB.intercalate _ (by nb_lit) _ ?_
      intro x hx
      simp only [List.mem_map] at hx
      obtain ⟨p, hp, rfl⟩ := hx
      exact renderParam_nb p (h.params p hp)
    have r6 : Run S s%"\n)\n\n" ⟨.code, '(' :: stk⟩ ⟨.code, stk⟩ := rfl
    exact ((((r1.append (h.name _)).append (genericSq_nb _ h.generics _)).append r4).append (r5 _)).append r6

theorem classFacts_ok {cfg : Cfg} (H : CfgOk cfg) (rs : RustStruct) (c : ScClass) (hs : StructOk rs)
    (h : classFacts cfg rs = .ok c) : ClassOk c := by
  unfold classFacts at h
  obtain ⟨params, hp, h⟩ := bind_ok h
  cases h
  refine ⟨hs.docs, KeyStr.nb hs.name, hs.generics, ?_⟩
  intro p hpm
  obtain ⟨f, hf, hfp⟩ := mapM'_mem _ _ _ hp p hpm
  exact paramFacts_ok H _ f p (hs.fields f hf) hfp

/-! ## aliases -/

theorem aliasFacts_nb {cfg : Cfg} (H : CfgOk cfg) (a : RustTypeAlias) (f : ScAlias) (ha : AliasOk a)
    (h : aliasFacts cfg a = .ok f) : NB S (renderAlias f) := by
  unfold aliasFacts at h
  obtain ⟨ty, hty, h⟩ := bind_ok h
  cases h
  unfold renderAlias
  nb_pieces
  · exact comments_nb 0 _ ha.docs
  · nb_lit
  · exact KeyStr.nb ha.renamed
  · exact genericSq_nb _ ha.generics
  · nb_lit
  · exact formatType_nb H _ a.ty ty ha.ty hty
  · nb_lit

/-! ## enums -/

structure CaseOk (c : ScCase) : Prop where
  docs : DocsOk c.comments
  name : NB S c.name
  content : ∀ x, c.content = some x → (∀ g ∈ x.1, IdentStr g) ∧ NB S x.2.1 ∧ NB S x.2.2
  parent : NB S c.parent
  parentGenerics : ∀ g ∈ c.parentGenerics, IdentStr g

theorem renderCase_nb (c : ScCase) (h : CaseOk c) : NB S (renderCase c) := by
  unfold renderCase
  have hhead : NB S (match c.content with
      | none => s%"\tcase object " ++ c.name
      | some (gs, p, ty) => s%"\tcase class " ++ c.name ++ genericSq gs ++ s%"(" ++ p ++ s%": " ++ ty ++ s%")") := by
    split
    · refine NB.append ?_ h.name
      nb_lit
    · rename_i gs p ty heq
      obtain ⟨hg, hp, hty⟩ := h.content _ heq
      intro stk
      have r1 : Run S s%"\tcase class " ⟨.code, stk⟩ ⟨.code, stk⟩ := rfl
      have r4 : Run S s%"(" ⟨.code, stk⟩ ⟨.code, '(' :: stk⟩ := rfl
      have r6 : Run S s%": " ⟨.code, '(' :: stk⟩ ⟨.code, '(' :: stk⟩ := rfl
      have r8 : Run S s%")" ⟨.code, '(' :: stk⟩ ⟨.code, stk⟩ := rfl
      exact ((((((r1.append (h.name _)).append (genericSq_nb _ hg _)).append r4).append (hp _)).append r6).append (hty _)).append r8
  intro stk
  have r0 := comments_nb 1 _ h.docs stk
  have r2 : Run S s%" extends " ⟨.code, stk⟩ ⟨.code, stk⟩ := rfl
  have r5 : Run S s%" {\n" ⟨.code, stk⟩ ⟨.code, '{' :: stk⟩ := rfl
  have r6 : Run S s%"\t\tval serialName: String = " ⟨.code, '{' :: stk⟩ ⟨.code, '{' :: stk⟩ := rfl
  have r7 := NB.debugStr (cfg := S) c.serialName ('{' :: stk)
  have r8 : Run S s%"\n\t}\n" ⟨.code, '{' :: stk⟩ ⟨.code, stk⟩ := rfl
  exact (((((((r0.append (hhead stk)).append r2).append (h.parent _)).append (genericSq_nb _ h.parentGenerics _)).append r5).append
    r6).append r7).append r8

theorem variantName_ident {s : Str} (h : IdentStr s) : IdentStr (variantName s) := by
  unfold variantName
  split
  · split
    · intro c hc
      simp only [List.mem_cons] at hc
      rcases hc with rfl | hc
      · decide
      · exact h c (by simpa using hc)
    · exact h
  · exact h

theorem usedGenerics_sub (e : RustEnum) (fields : List RustField) : ∀ g ∈ usedGenerics e fields, g ∈ e.genericTypes := by
  intro g hg
  unfold usedGenerics at hg
  have := List.mem_eraseDups.mp hg
  simp only [List.mem_flatMap, List.mem_filter] at this
  obtain ⟨_, _, h, _⟩ := this
  exact h

theorem caseFacts_ok {cfg : Cfg} (H : CfgOk cfg) (e : RustEnum) (he : EnumOk e) (v : RustEnumVariant)
    (hv : VariantOk v) (c : ScCase) (h : caseFacts cfg e v = .ok c) : CaseOk c := by
  unfold caseFacts at h
  split at h
  · cases h
    exact ⟨hv.docs, IdentStr.nb hv.original, (by intro x hx; cases hx), KeyStr.nb he.renamed, (by simp)⟩
  · rename_i tag contentKey hk
    have hck := he.content _ hk
    have hname : NB S (variantName v.id.original) := IdentStr.nb (variantName_ident hv.original)
    have hparent : NB S e.id.renamed := KeyStr.nb he.renamed
    cases v with
    | unit id cs =>
      simp only at h; cases h
      exact ⟨hv.docs, hname, (by intro x hx; cases hx), hparent, he.generics⟩
    | tuple id cs ty =>
      simp only at h
      obtain ⟨t, ht, h⟩ := bind_ok h
      cases h
      refine ⟨hv.docs, hname, ?_, hparent, he.generics⟩
      intro x hx; cases hx
      exact ⟨he.generics, KeyStr.nb hck, formatType_nb H _ ty t hv.2.2.2 ht⟩
    | anonymousStruct id cs fs =>
      simp only at h; cases h
      refine ⟨hv.docs, hname, ?_, hparent, he.generics⟩
      intro x hx; cases hx
      refine ⟨he.generics, KeyStr.nb hck, ?_⟩
      nb_pieces
      · exact KeyStr.nb he.renamed
      · exact IdentStr.nb hv.original
      · nb_lit
      · exact genericSq_nb _ fun g hg => he.generics g (usedGenerics_sub e fs g hg)

theorem innerClasses_ok {cfg : Cfg} (H : CfgOk cfg) (e : RustEnum) (he : EnumOk e) (cs : List ScClass)
    (h : innerClasses cfg e = .ok cs) : ∀ c ∈ cs, ClassOk c := by
  intro c hc
  unfold innerClasses at h
  obtain ⟨⟨id, fields⟩, hmem, hcf⟩ := mapM'_mem _ _ _ h c hc
  simp only [structVariants, List.mem_filterMap] at hmem
  obtain ⟨v, hv, hsome⟩ := hmem
  have hvo := he.variants v hv
  cases v with
  | unit _ _ => simp at hsome
  | tuple _ _ _ => simp at hsome
  | anonymousStruct vid vcs fs =>
    simp only [Option.some.injEq, Prod.mk.injEq] at hsome
    obtain ⟨rfl, rfl⟩ := hsome
    refine classFacts_ok H _ c ⟨?_, ?_, ?_, ?_⟩ hcf
    · intro d hd
      simp only [anonymousStruct, List.mem_singleton] at hd
      subst hd
      have h1 : '\n' ∉ vid.original := KeyStr.no_nl (IdentStr.key hvo.2.1)
      have h2 : '\n' ∉ e.id.original := KeyStr.no_nl (IdentStr.key he.original)
      simp [h1, h2]
    · exact KeyStr.append (KeyStr.append he.renamed (IdentStr.key hvo.2.1)) (by decide : KeyStr s%"Inner")
    · intro g hg
      simp only [anonymousStruct] at hg
      have := List.mem_eraseDups.mp hg
      simp only [List.mem_flatMap, List.mem_filter] at this
      obtain ⟨_, _, h, _⟩ := this
      exact he.generics g h
    · exact hvo.2.2.2

theorem enumFacts_nb {cfg : Cfg} (H : CfgOk cfg) (e : RustEnum) (he : EnumOk e) (f : ScEnum)
    (h : enumFacts cfg e = .ok f) : NB S (renderEnum f) := by
  unfold enumFacts at h
  obtain ⟨inner, hi, h⟩ := bind_ok h
  obtain ⟨cases, hc, h⟩ := bind_ok h
  cases h
  have hin := innerClasses_ok H e he inner hi
  have hcs : ∀ c ∈ cases, CaseOk c := by
    intro c hcm
    obtain ⟨v, hv, hvc⟩ := mapM'_mem _ _ _ hc c hcm
    exact caseFacts_ok H e he v (he.variants v hv) c hvc
  unfold renderEnum
  intro stk
  have r1 := NB.flatMap (cfg := S) renderClass inner (fun c hcm => renderClass_nb c (hin c hcm)) stk
  have r2 := comments_nb 0 _ he.docs stk
  have r3 : Run S s%"sealed trait " ⟨.code, stk⟩ ⟨.code, stk⟩ := rfl
  have r4 := KeyStr.nb (cfg := S) he.renamed stk
  have r5 := genericSq_nb _ he.generics stk
  have r6 : Run S s%" {\n" ⟨.code, stk⟩ ⟨.code, '{' :: stk⟩ := rfl
  have r7 : Run S s%"\tdef serialName: String\n" ⟨.code, '{' :: stk⟩ ⟨.code, '{' :: stk⟩ := rfl
  have r8 : Run S s%"}\n" ⟨.code, '{' :: stk⟩ ⟨.code, stk⟩ := rfl
  have r9 : Run S s%"object " ⟨.code, stk⟩ ⟨.code, stk⟩ := rfl
  have r11 := NB.flatMap (cfg := S) renderCase cases (fun c hcm => renderCase_nb c (hcs c hcm)) ('{' :: stk)
  have r12 : Run S s%"}\n\n" ⟨.code, '{' :: stk⟩ ⟨.code, stk⟩ := rfl
  exact (((((((((((r1.append r2).append r3).append r4).append r5).append r6).append r7).append r8).append r9).append r4).append
    r6).append r11).append r12


/-! ## the file -/

theorem span_loop_append (p : Char → Bool) : ∀ (l acc : List Char),
    (List.span.loop p l acc).1 ++ (List.span.loop p l acc).2 = acc.reverse ++ l
  | [], acc => by simp [List.span.loop]
  | a :: t, acc => by
    simp only [List.span.loop]
    split
    · rw [span_loop_append p t (a :: acc)]; simp
    · simp

theorem span_append (p : Char → Bool) (l : List Char) : (l.span p).1 ++ (l.span p).2 = l := by
  simpa [List.span] using span_loop_append p l []

/-- the two halves `rsplit_once('.')` returns consist of characters of the string -/
theorem rsplitOnceDot_mem {s parent last : Str} (h : rsplitOnceDot s = some (parent, last)) :
    (∀ c ∈ parent, c ∈ s) ∧ (∀ c ∈ last, c ∈ s) := by
  unfold rsplitOnceDot at h
  have happ := span_append (· != '.') s.reverse
  split at h
  · cases h
  · rename_i lastRev x parentRev heq
    cases h
    rw [heq] at happ
    have hm : ∀ c, c ∈ lastRev ++ x :: parentRev → c ∈ s := by
      intro c hc; rw [happ] at hc; exact List.mem_reverse.1 hc
    exact ⟨fun c hc => hm c (by simp [List.mem_reverse.1 hc]), fun c hc => hm c (by simp [List.mem_reverse.1 hc])⟩

theorem dotted_of_subset {s t : Str} (hs : Dotted s) (h : ∀ c ∈ t, c ∈ s) : Dotted t := fun c hc => hs c (h c hc)

/-- `last_package_segment()` of a dotted name is a dotted fragment (the whole name when it has no dot) -/
theorem lastPackageSegment_dotted {pkg : Str} (h : Dotted pkg) : Dotted (lastPackageSegment pkg) := by
  unfold lastPackageSegment
  split
  · rename_i parent last hsp; exact dotted_of_subset h (rsplitOnceDot_mem hsp).2
  · exact h

/-- a file in scope: every piece of it is, the version text, the parent package (when there is one)
and the innermost package name are dotted identifier fragments.  (Since the `fix:` commit 653aee1
the package name need not contain a dot: `package object <last> {` / `package <last> {` are always
written, so their closing braces are always matched.) -/
structure FileOk (f : ScFile) : Prop where
  version : ∀ v, f.header = some v → Dotted v
  parent : ∀ p, f.parent = some p → Dotted p
  last : Dotted f.last
  aliases : ∀ x, f.packageObject = some x → ∀ a ∈ x.2, NB S (renderAlias a)
  body : ∀ x, f.packageBody = some x → (∀ c ∈ x.1, ClassOk c) ∧ ∀ e ∈ x.2, NB S (renderEnum e)

theorem renderFile_nb (f : ScFile) (h : FileOk f) : NB S (renderFile f) := by
  have hlast := h.last
  unfold renderFile
  refine NB.append (NB.append (NB.append ?_ ?_) ?_) ?_
  · split
    · rename_i v hv
      intro stk
      have r1 : Run S s%"/**\n * Generated by typeshare " ⟨.code, stk⟩ ⟨.block, stk⟩ := rfl
      have r3 : Run S s%"\n */\n" ⟨.block, stk⟩ ⟨.code, stk⟩ := rfl
      exact (r1.append (dotted_block v (h.version v hv) stk)).append r3
    · exact NB.nil
  · split
    · rename_i p hp
      refine NB.append (NB.append ?_ (h.parent p hp).nb) ?_ <;> nb_lit
    · exact NB.nil
  · split
    · rename_i unsigned aliases hpo
      intro stk
      have r1 : Run S s%"package object " ⟨.code, stk⟩ ⟨.code, stk⟩ := rfl
      have r3 : Run S s%" {\n\n" ⟨.code, stk⟩ ⟨.code, '{' :: stk⟩ := rfl
      have r4 : Run S (if unsigned = true then unsignedAliases else []) ⟨.code, '{' :: stk⟩ ⟨.code, '{' :: stk⟩ := by
        split <;> rfl
      have r5 := NB.flatMap (cfg := S) renderAlias aliases (h.aliases _ hpo) ('{' :: stk)
      have r6 : Run S s%"}\n" ⟨.code, '{' :: stk⟩ ⟨.code, stk⟩ := rfl
      exact ((((r1.append (hlast.nb _)).append r3).append r4).append r5).append r6
    · exact NB.nil
  · split
    · rename_i classes enums hpb
      obtain ⟨hc, he⟩ := h.body _ hpb
      intro stk
      have r1 : Run S s%"package " ⟨.code, stk⟩ ⟨.code, stk⟩ := rfl
      have r3 : Run S s%" {\n\n" ⟨.code, stk⟩ ⟨.code, '{' :: stk⟩ := rfl
      have r4 := NB.flatMap (cfg := S) renderClass classes (fun c hcm => renderClass_nb c (hc c hcm)) ('{' :: stk)
      have r5 := NB.flatMap (cfg := S) renderEnum enums he ('{' :: stk)
      have r6 : Run S s%"}\n" ⟨.code, '{' :: stk⟩ ⟨.code, stk⟩ := rfl
      exact ((((r1.append (hlast.nb _)).append r3).append r4).append r5).append r6
    · exact NB.nil

/-- the parsed data of one file is in scope -/
structure DataOk (d : ParsedData) : Prop where
  structs : ∀ s ∈ d.structs, StructOk s
  enums : ∀ e ∈ d.enums, EnumOk e
  aliases : ∀ a ∈ d.aliases, AliasOk a

theorem fileFacts_ok {cfg : Cfg} (H : CfgOk cfg) (d : ParsedData) (hd : DataOk d) (f : ScFile)
    (hv : ∀ v, cfg.versionHeader = some v → Dotted v)
    (hpkg : Dotted cfg.package)
    (h : fileFacts cfg d = .ok f) : FileOk f := by
  unfold fileFacts at h
  split at h
  · cases h
  split at h
  · cases h
  simp only at h
  obtain ⟨po, hpo, h⟩ := bind_ok h
  obtain ⟨pb, hpb, h⟩ := bind_ok h
  cases h
  refine ⟨hv, ?_, lastPackageSegment_dotted hpkg, ?_, ?_⟩
  · intro p hp
    simp only [Option.map_eq_some_iff] at hp
    obtain ⟨⟨parent, last⟩, hsp, rfl⟩ := hp
    exact dotted_of_subset hpkg (rsplitOnceDot_mem hsp).1
  · intro x hx
    simp only at hx
    subst hx
    split at hpo
    · obtain ⟨as, has, hpo⟩ := bind_ok hpo
      cases hpo
      intro a ha
      obtain ⟨ra, hra, hfa⟩ := mapM'_mem _ _ _ has a ha
      exact aliasFacts_nb H ra a (hd.aliases ra hra) hfa
    · cases hpo
  · intro x hx
    simp only at hx
    subst hx
    split at hpb
    · obtain ⟨cs, hcs, hpb⟩ := bind_ok hpb
      obtain ⟨es, hes, hpb⟩ := bind_ok hpb
      cases hpb
      refine ⟨?_, ?_⟩
      · intro c hc
        obtain ⟨rs, hrs, hfc⟩ := mapM'_mem _ _ _ hcs c hc
        exact classFacts_ok H rs c (hd.structs rs hrs) hfc
      · intro e he
        obtain ⟨re, hre, hfe⟩ := mapM'_mem _ _ _ hes e he
        exact enumFacts_nb H re (hd.enums re hre) e hfe
    · cases hpb

end TsV.C10Scala
