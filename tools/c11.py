"""C11 — definitions are emitted exactly once each and after the definitions they use (topsort.rs)."""
import itertools
from common import *


def all_graphs(n):
    """every digraph on n nodes (self loops included), adjacency lists in ascending order"""
    pairs = [(i, j) for i in range(n) for j in range(n)]
    for mask in range(1 << len(pairs)):
        g = [[] for _ in range(n)]
        for b, (i, j) in enumerate(pairs):
            if mask >> b & 1:
                g[i].append(j)
        yield g


def acyclic(g):
    n = len(g)
    state = [0] * n

    def dfs(u):
        state[u] = 1
        for v in g[u]:
            if state[v] == 1 or (state[v] == 0 and not dfs(v)):
                return False
        state[u] = 2
        return True
    return all(state[u] == 2 or dfs(u) for u in range(n))


def rand_graph(rng, n, dag):
    g = [[] for _ in range(n)]
    order = list(range(n))
    rng.shuffle(order)
    pos = {v: i for i, v in enumerate(order)}
    p = rng.choice([0.1, 0.2, 0.4])
    for i in range(n):
        for j in range(n):
            if rng.random() < p and (not dag or pos[j] < pos[i]):
                g[i].append(j)
        rng.shuffle(g[i])
        if rng.random() < 0.2 and g[i]:
            g[i].append(rng.choice(g[i]))       # duplicate edge
    return g


def multi_crate_part(check):
    """folder output: one back-end value writes the modules of all crates one after the other.  Two or three crates define items
    with the *same* names (plus their own); every module must hold each of its crate's items exactly once, in dependency order"""
    rng = check.rng
    ts = [m_path("typeshare")]
    g = Gen(rng)
    mreqs, rreqs, meta, names = [], [], [], set()
    for k in range(18 if check.thorough else 6):
        crates = rng.sample(["alpha", "beta", "gamma_x", "zeta"], rng.randint(2, 3))
        shared = rng.sample(["Settings", "Error", "Item", "Config"], 2)
        jobs, expect = [], {}
        for c in crates:
            own = "Own%s%d" % (c.title().replace("_", ""), k)
            items = [{"kind": "alias", "attrs": list(ts), "ident": shared[0] + "List", "generics": [], "ty": t_path("Vec", [t_path(shared[0])])},
                     {"kind": "struct", "attrs": list(ts), "ident": shared[0], "generics": [], "fields": ("named", [field([], "inner", t_path(shared[1]))])},
                     {"kind": "enum", "attrs": list(ts), "ident": shared[1], "generics": [],
                      "variants": [{"attrs": [], "ident": "A", "fields": ("unit",)}, {"attrs": [], "ident": "B", "fields": ("unit",)}]},
                     {"kind": "struct", "attrs": list(ts), "ident": own, "generics": [("ty", "T")],
                      "fields": ("named", [field([], "all", t_path(shared[0] + "List")), field([], "t", t_path("T"))])}]
            rng.shuffle(items)
            f = {"attrs": [], "items": items}
            jobs.append({"crate": c, "file_name": c + ".out", "path": "%s/src/lib.rs" % c, "file": f})
            expect[c] = [shared[0] + "List", shared[0], shared[1], own]
            names |= l2.names_of(f)
        for lang in ORDER_LANGS:
            cfg = {"package": "proto" if lang == "go" else "com.example", "type_mappings": {}}
            m, r, texts = l2.requests(lang, cfg, jobs, g, multi_file=True)
            mreqs.append(m); rreqs.append(r); meta.append((lang, expect, texts))
    mans = [l2.norm(a) for a in model(mreqs, names=names)]
    rans = [l2.norm(a) for a in runner(rreqs)]
    mismatch = None
    for (lang, expect, texts), ma, ra in zip(meta, mans, rans):
        check.saw(("multi-crate", lang, json.dumps(expect, sort_keys=True)), nontrivial=True)
        check.count("multi-crate-" + lang)
        if "ok" in ra:
            for c, want in expect.items():
                text = ra["ok"].get(c, "")
                defs = [next(x for x in (m.groups() if m.groups() else (m.group(0),)) if x) for m in re.finditer(DEF_RX[lang], text, re.M)]
                for w in want:
                    if defs.count(w) != 1:
                        check.violation("%s folder output: the module of crate `%s` defines `%s` %d time(s) (its crate has exactly one; other "
                                        "crates of the run define items of the same name)" % (lang, c, w, defs.count(w)),
                                        case={"lang": lang, "sources": texts}, impl=ra, model=ma, failing_input=True)
                        return
                pos = {d: i for i, d in enumerate(defs)}
                if not (pos[want[2]] < pos[want[1]] < pos[want[0]] < pos[want[3]]):
                    check.violation("%s folder output: the module of crate `%s` does not write its definitions after the ones they use: %s"
                                    % (lang, c, defs), case={"lang": lang, "sources": texts}, impl=ra, model=ma, failing_input=True)
                    return
        if ma != ra and mismatch is None:
            mismatch = (lang, texts, ma, ra)
    if mismatch:
        lang, texts, ma, ra = mismatch
        check.violation("%s folder output differs from the model on crates that define items of the same names" % lang,
                        case={"lang": lang, "sources": texts}, impl=ra, model=ma, failing_input=False,
                        broken="correspondence L2 generate (multi-file; theorems TsV.C11.*)")


def run(check):
    rng = check.rng
    nmax = 4 if check.thorough else 3
    graphs = [g for n in range(0, nmax + 1) for g in all_graphs(n)]
    n_ex = len(graphs)
    if not check.thorough:
        allg4 = list(itertools.islice(all_graphs(4), 0, None, 13))   # every 13th 4-node graph
        graphs += allg4
    for _ in range(20000 if check.thorough else 3000):
        graphs.append(rand_graph(rng, rng.randint(2, 12), dag=rng.random() < 0.5))
    perms = []
    for n in range(0, 7 if check.thorough else 6):
        perms += [list(p) for p in itertools.permutations(range(n))]
    for _ in range(5000 if check.thorough else 1000):
        n = rng.randint(7, 14)
        p = list(range(n))
        rng.shuffle(p)
        perms.append(p)
    check.rule = ("toposort_impl on every digraph with <= %d nodes (self loops, cycles; %d graphs)%s and random graphs "
                  "(DAGs and cyclic, duplicate edges, shuffled adjacency) to 12 nodes; sort_by_indices on every "
                  "permutation of <= %d elements and random ones to 14; non-trivial = the graph has an edge / the "
                  "permutation is not the identity" % (nmax, n_ex, "" if check.thorough else " plus every 13th 4-node graph", 6 if check.thorough else 5))
    mreq = [[S("toposort"), g] for g in graphs] + [[S("sortidx"), [100 + i for i in range(len(p))], p] for p in perms]
    rreq = [{"op": "toposort", "graph": g} for g in graphs] + \
           [{"op": "sortidx", "data": [100 + i for i in range(len(p))], "idx": p} for p in perms]
    mans, rans = model(mreq, with_unicode=False), runner(rreq)
    for i, (ma, ra, rq) in enumerate(zip(mans, rans, rreq)):
        if rq["op"] == "toposort":
            g = rq["graph"]
            check.saw(("g", json.dumps(g)), nontrivial=any(g))
            check.count("graph n=%d %s" % (len(g), "dag" if acyclic(g) else "cyclic"))
            if ma != ra:
                res = ra.get("ok")
                failing = None
                if res is None or sorted(res) != list(range(len(g))):
                    failing = "result is not a permutation of the nodes"
                elif acyclic(g):
                    posn = {v: k for k, v in enumerate(res)}
                    if any(posn[j] > posn[i] for i in range(len(g)) for j in g[i]):
                        failing = "a definition precedes one it depends on"
                check.violation("toposort_impl differs from the model" + (": " + failing if failing else ""),
                                case=rq, impl=ra, model=ma, failing_input=bool(failing),
                                broken=None if failing else "correspondence toposort_impl (theorems TsV.C11.toposort_*)")
        else:
            p, data = rq["idx"], rq["data"]
            check.saw(("p", tuple(p)), nontrivial=p != sorted(p))
            check.count("perm n=%d" % len(p))
            if ma != ra:
                want = [data[k] for k in p]
                failing = ra.get("ok") != want
                check.violation("sort_by_indices differs from the model", case=rq, impl=ra, model=ma,
                                failing_input=failing,
                                broken=None if failing else "correspondence sort_by_indices (theorems TsV.C11.sortByIndices_*)")
        if rng.random() < 0.0005:
            check.sample({"request": rq, "model": ma, "impl": ra})
    if not check.samples:
        check.sample({"request": rreq[5], "model": mans[5], "impl": rans[5]})
    check.exhaustive = True
    check.extra["exhaustive_scope"] = "digraphs with <= %d nodes; permutations of <= %d elements" % (nmax, 6 if check.thorough else 5)


# ----------------------------------------------------------------------------- definition order end to end (L2)

import re
from syn_gen import *
import l2
from gen import Gen

POSITIONS = ["field", "vec", "option", "hashmap-value", "array", "slice", "generic-arg", "nested-generic", "box",
             "tuple-variant", "struct-variant-field", "alias-target", "alias-vec", "unknown-generic", "same-head-nested", "pair-with-own-param",
             "hashmap-key", "hashmap-key-nested", "pair-first", "option-vec-map", "alias-generic"]
# positions `get_dependencies` does not look into (open known finding `uncovered-reference-positions`)
ORDER_LANGS = ["typescript", "python", "kotlin", "swift", "go"]


def ref_type(pos, target):
    t = t_path(target)
    if pos in ("field", "tuple-variant", "struct-variant-field", "alias-target"):
        return t
    if pos in ("vec", "alias-vec"):
        return t_path("Vec", [t])
    if pos == "alias-generic":
        return t_path("Wrap", [t])                       # an alias whose target is an instantiation of a user-defined generic type
    if pos == "option":
        return t_path("Option", [t])
    if pos == "hashmap-value":
        return t_path("HashMap", [t_path("String"), t])
    if pos == "array":
        return ("array", t, 2)
    if pos == "slice":
        return ("ref", ("slice", t), False)
    if pos == "generic-arg":
        return t_path("Wrap", [t])
    if pos == "nested-generic":
        return t_path("Wrap", [t_path("Vec", [t])])
    if pos == "unknown-generic":
        return t_path("Ext", [t])                       # `Ext` is not a typeshared item of the file
    if pos == "same-head-nested":
        return t_path("Wrap", [t_path("Wrap", [t])])
    if pos == "pair-with-own-param":
        return t_path("Pair", [t_path("T"), t])          # the referring struct is generic over T
    if pos == "box":
        return t_path("Box", [t])
    if pos == "hashmap-key":
        return t_path("HashMap", [t, t_path("u32")])     # the only mention is the key type
    if pos == "hashmap-key-nested":
        return t_path("Option", [t_path("HashMap", [t_path("String"), t_path("HashMap", [t, t_path("bool")])])])
    if pos == "pair-first":
        return t_path("Pair", [t, t_path("u8")])          # the first of two generic arguments
    if pos == "option-vec-map":
        return t_path("Option", [t_path("Vec", [t_path("HashMap", [t_path("String"), t_path("Vec", [t])])])])
    raise ValueError(pos)


def build_program(rng, n, edges, renamed=(), const_alias=False):
    """n items T0..T{n-1}; edges: (i, j, position) = Ti refers to Tj at that position; plus a generic `Wrap<T>`"""
    # type names: the conventional `T3`, and legitimate unconventional spellings (lower-case, leading underscore, all capitals)
    scheme = rng.choice(["T%d"] * 3 + ["mixed", "mixed", "item_%d", "_Meta%d"])
    names = [(rng.choice(["T%d", "item_%d", "_Meta%d", "t%d", "ALLCAPS%d", "camelCase%d"]) if scheme == "mixed" else scheme) % i for i in range(n)]
    kinds = []
    for i in range(n):
        mine = [e for e in edges if e[0] == i]
        if any(p in ("tuple-variant", "struct-variant-field") for _, _, p in mine):
            kinds.append("enum")
        elif mine and all(p in ("alias-target", "alias-vec", "alias-generic") for _, _, p in mine):
            kinds.append("alias")
        elif not mine and rng.random() < 0.4:
            kinds.append("alias-leaf")      # an alias of a primitive: referred to, refers to nothing
        else:
            kinds.append("struct")
    items = []
    ts = [m_path("typeshare")]
    for i in range(n):
        mine = [e for e in edges if e[0] == i]
        attrs = list(ts)
        if i in renamed:
            attrs.append(m_list("serde", [m_nv("rename", lit_s("R%d" % i))]))
        if kinds[i] == "alias-leaf":
            items.append({"kind": "alias", "attrs": attrs, "ident": names[i], "generics": [], "ty": t_path(rng.choice(["String", "u32"]))})
        elif kinds[i] == "alias":
            for extra in mine[1:]:
                edges.remove(extra)          # an alias has one target: drop the other drawn edges
            _, j, p = mine[0]
            items.append({"kind": "alias", "attrs": attrs, "ident": names[i], "generics": [], "ty": ref_type(p, names[j])})
        elif kinds[i] == "enum":
            variants = []
            for k, (_, j, p) in enumerate(mine):
                if p == "struct-variant-field":
                    variants.append({"attrs": [], "ident": "V%d" % k, "fields": ("named", [field([], "x", ref_type(p, names[j]))])})
                else:
                    variants.append({"attrs": [], "ident": "V%d" % k, "fields": ("unnamed", [field([], None, ref_type(p if p == "tuple-variant" else p, names[j]))])})
            variants.append({"attrs": [], "ident": "Unit", "fields": ("unit",)})
            attrs.append(m_list("serde", [m_nv("tag", lit_s("t")), m_nv("content", lit_s("c"))]))
            items.append({"kind": "enum", "attrs": attrs, "ident": names[i], "generics": [], "variants": variants})
        else:
            fs = [field([], "f%d" % k, ref_type(p, names[j])) for k, (_, j, p) in enumerate(mine)]
            fs.append(field([], "plain", t_path("u8")))
            gens = [("ty", "T")] if any(p == "pair-with-own-param" for _, _, p in mine) else []
            items.append({"kind": "struct", "attrs": attrs, "ident": names[i], "generics": gens, "fields": ("named", fs)})
    items.append({"kind": "struct", "attrs": list(ts), "ident": "Wrap", "generics": [("ty", "T")],
                  "fields": ("named", [field([], "inner", t_path("T"))])})
    items.append({"kind": "struct", "attrs": list(ts), "ident": "Pair", "generics": [("ty", "A"), ("ty", "B")],
                  "fields": ("named", [field([], "a", t_path("A")), field([], "b", t_path("B"))])})
    if const_alias:
        # a const whose declared type is a same-file alias (consts are emitted by TypeScript, Go and Python only)
        items.append({"kind": "alias", "attrs": list(ts), "ident": "NumAlias", "generics": [], "ty": t_path("u32")})
        items.append({"kind": "const", "attrs": list(ts), "ident": "LIMIT_X", "ty": t_path("NumAlias"), "expr_text": "7", "init": ("i", 7, "")})
    rng.shuffle(items)
    return {"attrs": [], "items": items, "kinds": kinds}, names


DEF_RX = {
    "typescript": r"^export (?:interface|type|enum) (\w+)",
    "python": r"^(?:class (\w+)\(|(\w+) = (?!TypeVar\())",      # a TypeVar declaration is a generic parameter, not a definition
    "kotlin": r"^(?:data class|sealed class|enum class|typealias|object|value class) (\w+)",
    "swift": r"^public (?:struct|enum|indirect enum|typealias) (\w+)",
    "go": r"^type (\w+)[ \[]",
}


def definition_order(lang, text):
    out = []
    for m in re.finditer(DEF_RX[lang], text, re.M):
        name = next(g for g in m.groups() if g)
        if name not in out:
            out.append(name)
    return out


def acyclic_edges(n, edges):
    g = [[] for _ in range(n)]
    for i, j, _ in edges:
        g[i].append(j)
    return acyclic(g)


def order_part(check):
    rng = check.rng
    ncases = 600 if check.thorough else 300
    mreqs, rreqs, meta = [], [], []
    for c in range(ncases):
        n = rng.randint(2, 8 if not check.thorough else 10)
        dag = rng.random() < 0.75
        order = list(range(n))
        rng.shuffle(order)
        rank = {v: k for k, v in enumerate(order)}
        edges = []
        for i in range(n):
            for j in range(n):
                if rng.random() < 0.3 and (not dag or rank[j] < rank[i]) and (i != j or not dag):
                    edges.append((i, j, rng.choice(POSITIONS)))
        if rng.random() < 0.4:
            # alias-heavy programs: about half of the referring items are aliases (one target each)
            for i in range(n):
                mine = [e for e in edges if e[0] == i]
                if mine and rng.random() < 0.5:
                    keep = rng.choice(mine)
                    edges = [e for e in edges if e[0] != i] + [(i, keep[1], rng.choice(["alias-target", "alias-vec", "alias-generic"]))]
        renamed = [i for i in range(n) if rng.random() < 0.1]
        const_alias = rng.random() < 0.3
        f, names = build_program(rng, n, edges, renamed, const_alias=const_alias)
        f["const_alias"] = const_alias
        g = Gen(rng)
        for lang in ORDER_LANGS:
            cfg = {"package": "proto" if lang == "go" else "com.example", "type_mappings": {}}
            mreq, rreq, texts = l2.requests(lang, cfg, [{"crate": "", "file_name": "o", "path": "src/lib.rs", "file": f}], g)
            mreqs.append(mreq)
            rreqs.append(rreq)
            meta.append((lang, n, edges, renamed, texts[0], l2.names_of(f), f["kinds"], names))
    allnames = set().union(*[m[5] for m in meta])
    mans = [l2.norm(a) for a in model(mreqs, names=allnames)]
    rans = [l2.norm(a) for a in runner(rreqs)]
    mismatch = None
    for (lang, n, edges, renamed, text, _, kinds, inames), ma, ra, rq in zip(meta, mans, rans, rreqs):
        check.saw(("order", lang, text), nontrivial=bool(edges))
        check.count("order-%s-%s" % (lang, "dag" if acyclic_edges(n, edges) else "cyclic"))
        if "ok" in ra:
            out = ra["ok"][""]
            order = definition_order(lang, out)
            pos = {nm: k for k, nm in enumerate(order)}

            def defname(i):
                # the name the item is defined under in this language (C09 matters aside: accept either)
                for cand in ("R%d" % i, inames[i]):
                    if cand in pos:
                        return cand
                return None
            problem = None
            if "LIMIT_X" in out and "NumAlias" in out:
                ca = re.search(r"^(?:export const LIMIT_X|const LimitX|LIMIT_X\b)", out, re.M) or re.search(r"LIMIT_X|LimitX", out)
                aa = re.search(r"^(?:export type NumAlias|type NumAlias|NumAlias =)", out, re.M)
                check.count("order-const-with-alias-type-" + lang)
                if ca and aa and ca.start() < aa.start():
                    check.violation("%s definition order: the const LIMIT_X (type NumAlias) precedes the alias NumAlias it refers to" % lang,
                                    case={"lang": lang, "source": text}, impl=out, model=ma.get("ok"), failing_input=True)
                    return
            missing = [i for i in range(n) if defname(i) is None]
            if missing:
                problem = ("definition missing", missing)
            elif acyclic_edges(n, edges):
                bad = [(i, j, p) for i, j, p in edges if pos[defname(j)] > pos[defname(i)]]
                if bad:
                    # a known finding only if every mis-ordered edge involves a serde-renamed type (reconcile has rewritten the
                    # reference to the new name, the sorter looks names up by the original one)
                    if all(j in renamed or i in renamed for i, j, p in bad):
                        if check.known("renamed-types-not-ordered", {"lang": lang, "source": text, "misordered": bad}):
                            bad = []
                    if bad:
                        problem = ("a definition precedes one it refers to", bad)
            if problem:
                check.violation("%s definition order: %s %s" % (lang, problem[0], problem[1]),
                                case={"lang": lang, "source": text, "edges": edges}, impl=out, model=ma.get("ok"), failing_input=True)
                return
        if ma != ra and mismatch is None:
            # keep looking: a later program may show the property itself failing (a concrete mis-ordered definition)
            mismatch = dict(what="%s generation differs from the model on a reference-graph program: %s" % (
                lang, l2.text_diff(ma["ok"][""], ra["ok"][""]) if "ok" in ma and "ok" in ra else (ma, ra)),
                case={"lang": lang, "source": text, "request": rq}, impl=ra, model=ma)
    if mismatch:
        check.violation(mismatch["what"], case=mismatch["case"], impl=mismatch["impl"], model=mismatch["model"], failing_input=False,
                        broken="correspondence L2 topsort/get_dependencies (theorems TsV.C11.*)")
        return
    # stored witness of the open finding: T0 (renamed) is used by T1; the sorter cannot see the edge
    wf, _ = build_program(random.Random(1), 2, [(1, 0, "field")], renamed=[0])
    wf["items"].sort(key=lambda it: it["ident"], reverse=True)     # source order T1, T0: only sorting could fix it
    a = runner([l2.requests("python", {"type_mappings": {}}, [{"crate": "", "file_name": "o", "path": "w.rs", "file": wf}], Gen(rng))[1]])[0]
    if "ok" in a:
        o = definition_order("python", a["ok"][""])
        if "T1" in o and "R0" in o and o.index("T1") < o.index("R0"):
            check.known("renamed-types-not-ordered", {"lang": "python", "witness": "struct T1 { f0: T0 } with #[serde(rename = \"R0\")] struct T0 is emitted before R0"})


_run_graphs = run


def run(check):
    _run_graphs(check)
    if not check.has_failing():
        order_part(check)
    if not check.has_failing():
        multi_crate_part(check)
    check.rule += ("; end to end: programs of 2-8 (thorough 10) items whose reference graph (DAGs and cyclic) is placed at 13 kinds of "
                   "positions (field, Vec, Option, HashMap value, array, slice, generic argument, nested generic argument, Box, tuple "
                   "variant, struct-variant field, alias target), random source order, optional serde renames, through "
                   "parse->reconcile->generate for TS/Python/Kotlin/Swift/Go: definition order extracted from the real output must "
                   "be a permutation and, for DAGs, topological; byte-exact against the model")
