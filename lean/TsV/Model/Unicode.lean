import TsV.Model.Str
/-!
# Unicode case mapping as a parameter

`char::is_uppercase`, `char::is_lowercase`, `str::to_lowercase`, `str::to_uppercase`, `str::trim`
are Rust `std` behaviour, not typeshare's: the model takes them as a structure of functions.  The
only facts theorems use are stated as the explicit hypothesis `AsciiCorrect`; the driver
instantiates the structure with a table that the correspondence check compares with Rust `std`.
(`str::to_lowercase` is char-wise except for the final-sigma rule; `Σ` is outside the table.)
-/
namespace TsV

structure UnicodeOps where
  isUpper : Char → Bool
  isLower : Char → Bool
  toLower : Char → Str
  toUpper : Char → Str
  isWhite : Char → Bool

namespace UnicodeOps

def lowerStr (U : UnicodeOps) (s : Str) : Str := s.flatMap U.toLower
def upperStr (U : UnicodeOps) (s : Str) : Str := s.flatMap U.toUpper
/-- `str::trim` -/
def trim (U : UnicodeOps) (s : Str) : Str :=
  ((s.dropWhile U.isWhite).reverse.dropWhile U.isWhite).reverse

/-- on ASCII the operations are the ASCII ones -/
structure AsciiCorrect (U : UnicodeOps) : Prop where
  upper : ∀ c : Char, c.toNat < 128 → U.isUpper c = Str.isAsciiUpper c
  lower : ∀ c : Char, c.toNat < 128 → U.isLower c = Str.isAsciiLower c
  toLower : ∀ c : Char, c.toNat < 128 → U.toLower c = [Str.asciiLower c]
  toUpper : ∀ c : Char, c.toNat < 128 → U.toUpper c = [Str.asciiUpper c]

/-- the ASCII-only instance (used in examples) -/
def ascii : UnicodeOps where
  isUpper := Str.isAsciiUpper
  isLower := Str.isAsciiLower
  toLower c := [Str.asciiLower c]
  toUpper c := [Str.asciiUpper c]
  isWhite c := c == ' ' || c == '\n' || c == '\t' || c == '\r' || c.toNat == 11 || c.toNat == 12

theorem ascii_correct : AsciiCorrect ascii :=
  ⟨fun _ _ => rfl, fun _ _ => rfl, fun _ _ => rfl, fun _ _ => rfl⟩

end UnicodeOps
end TsV
