import TsV.Lemmas.Capstone_Items
import TsV.Lemmas.Capstone_Order
/-!
# Capstone — Python: from `writeItem … = .ok (b, st')` to the fact records and the clauses
-/
namespace TsV.Cap.Py
open TsV TsV.Syn TsV.Parser TsV.Pipeline TsV.Generate TsV.C03E TsV.Lang TsV.Lang.Python TsV.Outcome

theorem writeItem_struct (E : Ext) (cfg : Cfg) (rs : RustStruct) (st st' : St) (b : Str)
    (h : writeItem E cfg (.struct rs) st = .ok (b, st')) :
    ∃ c, structFacts E cfg rs st = .ok (c, st') ∧ b = renderClass c := by
  simp only [writeItem, writeStruct] at h
  obtain ⟨⟨c, st1⟩, hc, h⟩ := bindOk h
  simp only [Outcome.ok.injEq, Prod.mk.injEq] at h
  obtain ⟨rfl, rfl⟩ := h
  exact ⟨c, hc, rfl⟩

theorem writeItem_enum (E : Ext) (cfg : Cfg) (e : RustEnum) (st st' : St) (b : Str)
    (h : writeItem E cfg (.enum e) st = .ok (b, st')) :
    ∃ d, C02.Py.enumFacts E cfg e st = .ok (d, st') ∧ b = C02.Py.renderDecl d := by
  have h' : writeEnum E cfg e st = .ok (b, st') := h
  rw [C02.Py.writeEnum_eq] at h'
  obtain ⟨⟨d, st1⟩, hd, h'⟩ := bindOk h'
  simp only [Outcome.ok.injEq, Prod.mk.injEq] at h'
  obtain ⟨rfl, rfl⟩ := h'
  exact ⟨d, hd, rfl⟩

/-- the helper classes of the struct variants -/
def innerOf : C02.Py.EnumDecl → List PyClass
  | .unit inner _ => inner
  | .union u => u.inner

theorem enumFacts_inner (E : Ext) (cfg : Cfg) (e : RustEnum) (st st' : St) (d : C02.Py.EnumDecl)
    (h : C02.Py.enumFacts E cfg e st = .ok (d, st')) :
    ∃ st1, innerFacts E cfg e (structVariants e) st = .ok (innerOf d, st1) := by
  unfold C02.Py.enumFacts at h
  cases hk : e.keys with
  | none =>
    simp only [hk] at h
    obtain ⟨⟨inner, st1⟩, hi, h⟩ := bindOk h
    obtain ⟨members, _, h⟩ := bindOk h
    simp only [Outcome.ok.injEq, Prod.mk.injEq] at h
    obtain ⟨rfl, _⟩ := h
    exact ⟨st1, hi⟩
  | some kc =>
    obtain ⟨t, c⟩ := kc
    simp only [hk] at h
    obtain ⟨⟨u, st1⟩, hu, h⟩ := bindOk h
    simp only [Outcome.ok.injEq, Prod.mk.injEq] at h
    obtain ⟨rfl, rfl⟩ := h
    exact C01.C01_python_enum_classes E cfg e t c st _ u hu

theorem structKeys_eq (E : Ext) (cfg : Cfg) (rs : RustStruct) (st st' : St) (c : PyClass)
    (h : structFacts E cfg rs st = .ok (c, st')) :
    C01.structKeys E .python (cfg, st) rs = .ok (c.fields.map C01.Python.boundKey) := by
  simp [C01.structKeys, h]

/-- C04's reading of one pydantic field is a relation (`Py.Denotes`: the same text reads bare or as
`Annotated[…]`) -/
theorem struct_c04 (E : Ext) (cfg : Cfg) (rs : RustStruct) (st st' : St) (c : PyClass)
    (h : structFacts E cfg rs st = .ok (c, st')) :
    C04.Pointwise (fun rf' p => C04.InScope rs.genericTypes rf' (.python cfg) →
      C04.Known_scalaDefaultNonOption (.python cfg) rf' = false →
      ∃ o core, C04.Py.Denotes p o core ∧ o = C04.opt rf' ∧
        C04.Translates E rs.genericTypes (C04.stripOption rf'.ty) (.python cfg) core) rs.fields c.fields := by
  refine (C04.python_struct h).imp ?_
  intro rf' p hp hs _
  obtain ⟨core, st0, st1, hf, hden⟩ := hp hs.2.1
  exact ⟨_, core, hden, rfl, ⟨st0, st1, hf⟩⟩

/-- **clauses 2 + 3 for the class of a source struct** -/
theorem struct_ok (E : Ext) (hU : E.U.AsciiCorrect) (cfg : Cfg) (targetOs : List Str) (c : Str) (r : Renames)
    (attrs : List Attr) (ident : Str) (gens : List GenericParam) (fs : List Field) (rs : RustStruct)
    (st st' : St) (cl : PyClass)
    (hparse : parseStruct E targetOs attrs ident gens (.named fs) = .ok (.struct rs))
    (hd : structFacts E cfg (recStruct c r rs) st = .ok (cl, st')) :
    StructClauses E .python (.python cfg) targetOs c r attrs fs (recStruct c r rs)
      (cl.fields.map C01.Python.boundKey) C04.Py.Denotes cl.fields :=
  struct_clauses E hU .python (.python cfg) (cfg, st) targetOs c r attrs ident gens fs rs _ C04.Py.Denotes _ hparse
    (structKeys_eq E cfg _ st st' cl hd) (struct_c04 E cfg _ st st' cl hd)

/-- **clauses 2 + 4 for the declarations of a source enum** -/
theorem enum_ok (E : Ext) (hU : E.U.AsciiCorrect) (cfg : Cfg) (targetOs : List Str) (c : Str) (r : Renames)
    (attrs : List Attr) (ident : Str) (gens : List GenericParam) (vs : List Variant) (e : RustEnum)
    (st st' : St) (d : C02.Py.EnumDecl) (acronyms : List Str)
    (hparse : parseEnum E targetOs attrs ident gens vs = .ok (.enum e))
    (hd : C02.Py.enumFacts E cfg (recEnum c r e) st = .ok (d, st')) :
    EnumClauses E .python targetOs attrs vs (recEnum c r e) acronyms
      ((innerOf d).map (·.fields.map C01.Python.boundKey)) (C02.Py.wire d) := by
  obtain ⟨st1, hi⟩ := enumFacts_inner E cfg _ st st' d hd
  refine enum_clauses E hU .python (cfg, st) targetOs c r attrs ident gens vs e acronyms _ _ hparse
    (by simp [C01.enumKeys, hi]) ?_
  intro hsc hk
  exact C02.C02_backend .python E hU acronyms _ hsc hk cfg st d st' hd

theorem block_of (E : Ext) (cfg : Cfg) {items emitted : List RustItem} {blocks : List Str}
    {st0 stN : St} (hperm : items.Perm emitted) (ht : Threaded (writeItem E cfg) items st0 blocks stN)
    {x : RustItem} (hx : x ∈ emitted) :
    ∃ (k : Nat) (b : Str) (st st' : St), items[k]? = some x ∧ blocks[k]? = some b ∧
      writeItem E cfg x st = .ok (b, st') := by
  obtain ⟨k, hk⟩ := getElem?_of_perm_mem hperm hx
  obtain ⟨sts, _, _, _, hall⟩ := ht.nth
  obtain ⟨s, s', b, _, _, hb, hw⟩ := hall k x hk
  exact ⟨k, b, s, s', hk, hb, hw⟩

end TsV.Cap.Py
