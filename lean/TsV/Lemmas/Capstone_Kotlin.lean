import TsV.Lemmas.Capstone_Items
import TsV.Lemmas.Capstone_Order
/-!
# Capstone — Kotlin: from `writeItem … = .ok b` to the fact records and the clauses
-/
namespace TsV.Cap.Kt
open TsV TsV.Syn TsV.Parser TsV.Pipeline TsV.Generate TsV.C03E TsV.Lang TsV.Lang.Kotlin TsV.Outcome

/-- C04's reading of one constructor parameter -/
def Reads (p : KtParam) (o : Bool) (core : Str) : Prop := o = C04.Kt.isOptional p ∧ core = C04.Kt.stripOptional p

theorem writeItem_struct (cfg : Cfg) (rs : RustStruct) (b : Str) (h : C03E.Kt.writeItem cfg (.struct rs) = .ok b) :
    ∃ d, structFacts cfg rs = .ok d ∧ b = renderDecl d := by
  unfold C03E.Kt.writeItem at h
  obtain ⟨ds, hds, h⟩ := bindOk h
  cases h
  simp only [itemFacts] at hds
  obtain ⟨d, hd, hds⟩ := bindOk hds
  cases hds
  exact ⟨d, hd, by simp⟩

theorem writeItem_enum (cfg : Cfg) (e : RustEnum) (b : Str) (h : C03E.Kt.writeItem cfg (.enum e) = .ok b) :
    ∃ ds, enumFacts cfg e = .ok ds ∧ b = ds.flatMap renderDecl := by
  unfold C03E.Kt.writeItem at h
  obtain ⟨ds, hds, h⟩ := bindOk h
  cases h
  exact ⟨ds, hds, rfl⟩

theorem structKeys_eq (E : Ext) (cfg : Cfg) (rs : RustStruct) (d : KtDecl) (h : structFacts cfg rs = .ok d) :
    C01.structKeys E .kotlin cfg rs = .ok ((C01.Kotlin.declParams d).map C01.Kotlin.boundKey) := by
  simp [C01.structKeys, h]

/-- C04's field clause on the parameters of a data class -/
theorem struct_c04 (E : Ext) (cfg : Cfg) (rs : RustStruct) (d : KtDecl) (h : structFacts cfg rs = .ok d) :
    C04.Pointwise (fun rf' p => C04.InScope rs.genericTypes rf' (.kotlin cfg) →
      C04.Known_scalaDefaultNonOption (.kotlin cfg) rf' = false →
      ∃ o core, Reads p o core ∧ o = C04.opt rf' ∧
        C04.Translates E rs.genericTypes (C04.stripOption rf'.ty) (.kotlin cfg) core) rs.fields (C04.Kt.params d) := by
  refine (C04.Kt.struct_fields h).imp ?_
  rintro rf' p ⟨rsn, priv, hp⟩ hs _
  obtain ⟨h1, h2⟩ := C04.Kt.field hs.1 hp
  exact ⟨_, _, ⟨rfl, rfl⟩, h1, h2⟩

/-- **clauses 2 + 3 for the data class of a source struct** -/
theorem struct_ok (E : Ext) (hU : E.U.AsciiCorrect) (cfg : Cfg) (targetOs : List Str) (c : Str) (r : Renames)
    (attrs : List Attr) (ident : Str) (gens : List GenericParam) (fs : List Field) (rs : RustStruct) (d : KtDecl)
    (hparse : parseStruct E targetOs attrs ident gens (.named fs) = .ok (.struct rs))
    (hd : structFacts cfg (recStruct c r rs) = .ok d) :
    StructClauses E .kotlin (.kotlin cfg) targetOs c r attrs fs (recStruct c r rs)
      ((C01.Kotlin.declParams d).map C01.Kotlin.boundKey) Reads (C04.Kt.params d) :=
  struct_clauses E hU .kotlin (.kotlin cfg) cfg targetOs c r attrs ident gens fs rs _ Reads _ hparse
    (structKeys_eq E cfg _ d hd) (struct_c04 E cfg _ d hd)

/-- the keys bound by the helper classes of the struct variants -/
def innerKeys (ds : List KtDecl) : List (List Str) :=
  ds.map fun d => (C01.Kotlin.declParams d).map C01.Kotlin.boundKey

/-- **clauses 2 + 4 for the declarations of a source enum**: `inners` are the helper data classes of
the struct variants, which come first -/
theorem enum_ok (E : Ext) (hU : E.U.AsciiCorrect) (cfg : Cfg) (hcU : cfg.U.AsciiCorrect) (targetOs : List Str) (c : Str) (r : Renames)
    (attrs : List Attr) (ident : Str) (gens : List GenericParam) (vs : List Variant) (e : RustEnum)
    (ds : List KtDecl) (acronyms : List Str)
    (hparse : parseEnum E targetOs attrs ident gens vs = .ok (.enum e))
    (hd : enumFacts cfg (recEnum c r e) = .ok ds) :
    ∃ inners rest, ds = inners ++ rest ∧ structsFacts cfg (innerStructs (recEnum c r e)) = .ok inners ∧
      EnumClauses E .kotlin targetOs attrs vs (recEnum c r e) acronyms (innerKeys inners) (C02.Kt.wire ds) := by
  obtain ⟨inners, rest, hi, hds⟩ := C01.Kotlin.enumFacts_inners cfg _ ds hd
  refine ⟨inners, rest, hds, hi, ?_⟩
  refine enum_clauses E hU .kotlin cfg targetOs c r attrs ident gens vs e acronyms _ _ hparse
    (by simp [C01.enumKeys, hi, innerKeys]) ?_
  intro hs hk
  exact C02.C02_backend .kotlin E hU acronyms _ hs hk cfg ds hcU hd

/-! ## finding the block of a source item -/

theorem block_of (cfg : Cfg) {items emitted : List RustItem} {blocks : List Str} (hperm : items.Perm emitted)
    (hpair : Paired (fun it b => C03E.Kt.writeItem cfg it = .ok b) items blocks) {x : RustItem} (hx : x ∈ emitted) :
    ∃ (k : Nat) (b : Str), items[k]? = some x ∧ blocks[k]? = some b ∧ C03E.Kt.writeItem cfg x = .ok b := by
  obtain ⟨k, hk⟩ := getElem?_of_perm_mem hperm hx
  obtain ⟨b, hb, hw⟩ := hpair.nth k x hk
  exact ⟨k, b, hk, hb, hw⟩

end TsV.Cap.Kt
