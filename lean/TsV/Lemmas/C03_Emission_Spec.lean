import TsV.Lemmas.C09_Defs
import TsV.Props.C03
/-!
# C03, emission clause — trusted specification (no proofs in this file)

What it means, at the level of the generated *text*, that a block of output "defines the name `n`",
and — per back end — which top-level definitions the block written for one `RustItem` is supposed
to make (`*Defs`: keyword and name, in output order).  `TsV.Lemmas.C03_Emission_*` prove that the
models' `writeItem`s do exactly that; `TsV.Props.C03_Emission` composes this with the parse half.
-/
namespace TsV.C03E
open TsV TsV.Lang TsV.Generate

/-! ## "this text defines `n`" -/

/-- the characters that may follow a defined name in the six target languages (generic parameter
list, space, parameter list, end of line, type annotation) -/
def delims : List Char := ['<', ' ', '(', '\n', ':', '[']

/-- `pre` is empty or ends a line: what follows starts at the beginning of a line -/
def LineStart (pre : Str) : Prop := pre = [] ∨ pre.getLast? = some '\n'

/-- `post` begins with a delimiter: the name before it is complete -/
def NameEnd (post : Str) : Prop := ∃ c r, post = c :: r ∧ c ∈ delims

/-- `chunk` contains, at the start of a line, the keyword(s) `kw` directly followed by the complete
name `n` (`kw` is empty for the languages that define by plain assignment: Python aliases, unions
and constants) -/
def DefinesHead (kw n chunk : Str) : Prop :=
  ∃ pre post, chunk = pre ++ kw ++ n ++ post ∧ LineStart pre ∧ NameEnd post

/-- two lists of the same length whose elements are related position by position -/
inductive Paired {α β : Type} (R : α → β → Prop) : List α → List β → Prop
  | nil : Paired R [] []
  | cons {a : α} {b : β} {as : List α} {bs : List β} : R a b → Paired R as bs → Paired R (a :: as) (b :: bs)

/-- `block` is — after at most some empty lines — the concatenation of exactly `defs.length`
pieces of text, the k-th of which defines `defs[k] = (keyword, name)` -/
def SplitsInto (defs : List (Str × Str)) (block : Str) : Prop :=
  ∃ (lead : Str) (chunks : List Str), block = lead ++ chunks.flatten ∧ (∀ c ∈ lead, c = '\n') ∧
    Paired (fun d c => DefinesHead d.1 d.2 c) defs chunks

/-! ## the definitions a block has to make, per back end (keyword, name), in output order -/

/-- the struct variants of an enum: `(variant id, fields)` (same as `Lang.structVariants`) -/
def structVariantsOf (e : RustEnum) : List (Id × List RustField) :=
  e.variants.filterMap fun v => match v with
    | .anonymousStruct id _ fs => some (id, fs)
    | _ => none

/-- TypeScript (struct variants are printed inline: no helper definitions) -/
def tsDefs (U : UnicodeOps) : RustItem → List (Str × Str)
  | .struct s => [(s%"export interface ", s.id.renamed)]
  | .enum e => [(if e.keys.isNone then s%"export enum " else s%"export type ", e.id.renamed)]
  | .alias a => [(s%"export type ", a.id.renamed)]
  | .const c => [(s%"export const ", U.upperStr (Rename.toSnake U c.id.renamed))]

/-- Kotlin: an empty struct is an `object`; the helper classes of the struct variants come first,
named `<prefix><Enum renamed><Variant original>Inner`; consts are not supported -/
def ktStructKw (fields : List RustField) : Str := if fields.isEmpty then s%"object " else s%"data class "

def ktDefs (cfg : Kotlin.Cfg) : RustItem → List (Str × Str)
  | .struct s => [(ktStructKw s.fields, cfg.pfx ++ s.id.renamed)]
  | .enum e =>
    ((structVariantsOf e).map fun p => (ktStructKw p.2, cfg.pfx ++ (e.id.renamed ++ p.1.original ++ s%"Inner"))) ++
    [(if e.keys.isNone then s%"enum class " else s%"sealed class ", cfg.pfx ++ e.id.renamed)]
  | .alias a =>
    -- (the `typealias` is named after `id.renamed` since the `fix:` commit 0c924cd; was `id.original`)
    if Kotlin.isInline a.decorators then [(s%"value class ", cfg.pfx ++ a.id.renamed)]
    else [(s%"typealias ", cfg.pfx ++ a.id.renamed)]
  | .const _ => []

/-- Swift: names that are Swift keywords are printed inside back-ticks (`Swift.kw`) -/
def swDefs (cfg : Swift.Cfg) : RustItem → List (Str × Str)
  | .struct s => [(s%"public struct ", Swift.kw (cfg.pfx ++ s.id.renamed))]
  | .enum e =>
    ((structVariantsOf e).map fun p =>
      (s%"public struct ", Swift.kw (cfg.pfx ++ (e.id.renamed ++ p.1.original ++ s%"Inner")))) ++
    [(if e.isRecursive then s%"public indirect enum " else s%"public enum ", Swift.kw (cfg.pfx ++ e.id.renamed))]
  | .alias a => [(s%"public typealias ", Swift.kw (cfg.pfx ++ a.id.renamed))]
  | .const _ => []

/-- Scala: a struct without fields is a plain `class`; an enum is a sealed trait plus its companion
object; aliases are named after `id.renamed` (since the `fix:` commit 0c924cd; was `id.original`);
consts are not supported -/
def scStructKw (fields : List RustField) : Str := if fields.isEmpty then s%"class " else s%"case class "

def scDefs : RustItem → List (Str × Str)
  | .struct s => [(scStructKw s.fields, s.id.renamed)]
  | .enum e =>
    ((structVariantsOf e).map fun p => (scStructKw p.2, e.id.renamed ++ p.1.original ++ s%"Inner")) ++
    [(s%"sealed trait ", e.id.renamed), (s%"object ", e.id.renamed)]
  | .alias a => [(s%"type ", a.id.renamed)]
  | .const _ => []

/-- Go: every type name goes through `uppercase_acronyms` (`Go.acr`, which can panic on a non-ASCII
acronym — hence an `Outcome`); the helper struct of a struct variant goes through it twice
(`make_anonymous_struct_name` and then `write_struct`); an algebraic enum also defines the string type of its tags
(`<Name><Tag>s`, followed by the `const (…)` block of the tag values) before the enum struct
itself (which is followed by its methods and `New…` constructors); a unit enum is `type N string`
followed by its `const (…)` block -/
def goDefs (U : UnicodeOps) (cfg : Go.Cfg) : RustItem → Outcome (List (Str × Str))
  | .struct s => (Go.acr U cfg s.id.renamed).bind fun n => .ok [(s%"type ", n)]
  | .alias a => (Go.acr U cfg a.id.renamed).bind fun n => .ok [(s%"type ", n)]   -- (`id.original` before 0c924cd)
  | .const c => .ok [(s%"const ", Rename.toPascal U c.id.renamed)]
  | .enum e =>
    (Outcome.mapM' (fun (p : Id × List RustField) =>
        (Go.acr U cfg (e.id.original ++ p.1.original ++ s%"Inner")).bind (Go.acr U cfg))
      (structVariantsOf e)).bind fun inner =>
    (Go.acr U cfg e.id.original).bind fun n =>
    match e.keys with
    | none => .ok (inner.map (fun i => (s%"type ", i)) ++ [(s%"type ", n)])
    | some (tag, _) =>
      (Go.acr U cfg tag).bind fun t =>
        .ok (inner.map (fun i => (s%"type ", i)) ++
             [(s%"type ", n ++ Rename.toPascal U t ++ s%"s"), (s%"type ", n)])

/-- Python: aliases, unions and constants are plain assignments (empty keyword); an algebraic enum
defines the helper classes of its struct variants, the `<Name>Types` enumeration of its tags, one
class `<Name><Variant original>` per variant and finally `<Name> = Union[…]` -/
def pyDefs (E : Ext) : RustItem → List (Str × Str)
  | .struct s => [(s%"class ", s.id.renamed)]
  | .alias a => [([], a.id.renamed)]
  | .const c => [([], E.U.upperStr (Rename.toSnake E.U c.id.renamed))]
  | .enum e =>
    ((structVariantsOf e).map fun p => (s%"class ", e.id.renamed ++ p.1.original ++ s%"Inner")) ++
    match e.keys with
    | none => [(s%"class ", e.id.renamed)]
    | some _ =>
      [(s%"class ", e.id.renamed ++ s%"Types")] ++
      (e.variants.map fun v => (s%"class ", e.id.renamed ++ v.id.original)) ++
      [([], e.id.renamed)]

/-! ## which items a back end can print -/

def isConst : RustItem → Bool
  | .const _ => true
  | _ => false

/-! ## the parse half, as lists (`TsV.C03` proves that the visitor computes exactly this) -/

/-- the parse context `Generate.run` uses for a single-file run -/
def ctxOf (lang : LangCfg) (targetOs : List Str) : ParseContext :=
  { ignoredTypes := ignoredTypes lang, multiFile := false, targetOs }

/-- the annotated, accepted items of one source file in visit order (`C03.annotatedList`); none when
the file does not contain the text `typeshare` at all (`marker`, the quick check of `parser::parse`)
or its inner `#![cfg(target_os = …)]` is rejected -/
def sourceItems (ctx : ParseContext) (f : Syn.File) : List Syn.Item :=
  if f.marker && (TargetOs.accept f.attrs ctx.targetOs).getD true then C03.annotatedList ctx f.items else []

/-- the items that parsed, in order -/
def okItems : List (Outcome RustItem) → List RustItem
  | [] => []
  | .ok it :: r => it :: okItems r
  | _ :: r => okItems r

/-- the parse errors, in order -/
def errKinds : List (Outcome RustItem) → List ErrKind
  | [] => []
  | .err e :: r => e :: errKinds r
  | _ :: r => errKinds r

/-- every annotated accepted item of the file that parses, as parsed -/
def parsedItems (E : Ext) (ctx : ParseContext) (f : Syn.File) : List RustItem :=
  okItems ((sourceItems ctx f).map (C03.parseItem E ctx))

/-- the errors of those that do not -/
def parseErrs (E : Ext) (ctx : ParseContext) (f : Syn.File) : List ErrKind :=
  errKinds ((sourceItems ctx f).map (C03.parseItem E ctx))

def structsOf (l : List RustItem) : List RustStruct := l.filterMap fun | .struct s => some s | _ => none
def enumsOf (l : List RustItem) : List RustEnum := l.filterMap fun | .enum e => some e | _ => none
def aliasesOf (l : List RustItem) : List RustTypeAlias := l.filterMap fun | .alias a => some a | _ => none
def constsOf (l : List RustItem) : List RustConst := l.filterMap fun | .const c => some c | _ => none

/-- the `serde(rename)` table `reconcile_aliases` builds from the parsed items of a one-crate run -/
def renamesFor (crate : Str) (l : List RustItem) : Pipeline.Renames :=
  Pipeline.collectSerdeRenames
    [(crate, { structs := structsOf l, enums := enumsOf l, aliases := aliasesOf l })]

/-- what `reconcile_aliases` does to one item (single-file mode: no imports): the types inside are
rewritten (`check_type`), nothing else changes — not the kind, not a name, not the members -/
def recItem (crate : Str) (r : Pipeline.Renames) : RustItem → RustItem
  | .struct s => .struct { s with fields := s.fields.map (Pipeline.checkField crate r []) }
  | .enum e => .enum { e with variants := e.variants.map (Pipeline.checkVariant crate r []) }
  | .alias a => .alias { a with ty := Pipeline.checkType crate r [] a.ty }
  | .const c => .const c

end TsV.C03E
