import TsV.Lemmas.C12_Modules
import TsV.Props.C12
import TsV.Props.C14_Helpers
/-!
# C12_Modules — "every helper name is defined or imported", module by module of a folder run

In a folder run (`generateAll … jobs`, one module per crate) one printer value writes all modules,
and Python, Go, TypeScript and Swift never reset their printer state between two crates.  The
theorems of `Props/C12.lean` are stated per file *for an arbitrary start state*; this module lifts
them to every module of a run and adds what an arbitrary start state cannot give:

* `scala_modules` — Scala keeps no state: the text of a module is `Scala.generate` of that crate's
  data alone, and a module whose formatted types mention `UByte` / `UShort` / `UInt` / `ULong`
  contains the alias block itself (whatever the modules before it contained).
* `swift_modules` — the crate modules of a folder run never define `CodableVoid`; `Codable.swift`
  does, and it is written iff some module of the run mentions it (`C14_Helpers`), so every module
  that mentions it finds it.
* `python_modules` — every module of a run is `header(st) ++ functions(st) ++ body` for a state `st`
  that provides every import, `TypeVar` and (de)serialiser function the module's items use
  (`C12L.Python.used`), **and the header is closed in itself**: if it declares any
  `X = TypeVar("X")` — for this module's generics or leaked from an earlier module — it imports
  `TypeVar` (`Py.Inv`, an invariant of the run, false for an arbitrary start state:
  `arbitrary_state_not_closed`).  `python_modules_text` spells the three clauses out on the text.
* `python_leak_only_adds` — the state only grows from module to module: what leaks makes a later
  module *carry* imports, type variables and functions it does not use (outside C12:
  provided-but-unused), never lack one (`python_leak_example`).
* `go_modules`, `typescript_modules` — the lifts of `C12_go` / `C12_typescript`;
  `kotlin_modules` — no state; the known class `kotlin-empty-package` is per module.
* `C12_Modules : C12_Modules_full`.

Nothing is false on the model: no leaked state makes a module lack a helper it uses.
-/
namespace TsV.C12_Modules
open TsV TsV.Lang TsV.C12L

/-! ## Scala -/

/-- every module of a Scala run is generated from its own crate's data alone, and contains the
alias block whenever one of its formatted types prints an unsigned alias name -/
def Scala_modules_full : Prop :=
  ∀ (E : Ext) (cfg : Scala.Cfg) (multi : Bool) (jobs : List Job) (res : List (Str × Str)),
    Scala.generateAll E cfg multi jobs = .ok res →
    res.map (·.1) = jobs.map (·.1) ∧
    ∀ p ∈ jobs.zip res, Scala.generate cfg p.1.2.1 = .ok p.2.2 ∧
      (C12L.Scala.used cfg p.1.2.1 = true → Scala.unsignedAliases <:+: p.2.2)

theorem scala_modules : Scala_modules_full := by
  intro E cfg multi jobs res h
  obtain ⟨hn, hall⟩ := Sc.generateFrom_each cfg jobs res h
  refine ⟨hn, fun p hp => ⟨hall p hp, fun hu => ?_⟩⟩
  have hg := hall p hp
  unfold Scala.generate at hg
  obtain ⟨f, hf, hr⟩ := (bind_ok_iff _ _ _).1 hg
  simp only [Outcome.ok.injEq] at hr
  rw [← hr]
  exact (C12.C12_scala_text cfg _ f hf hu).2

/-- "mentions": a formatted type for which `unsignedIn` holds prints one of the four names -/
theorem scala_mentions (cfg : Scala.Cfg) (gens : List Str) (t : RustType) (s : Str)
    (h : Scala.formatType cfg gens t = .ok s) (hu : C12L.Scala.unsignedIn cfg t = true) :
    ∃ n ∈ C12L.Scala.aliasNames, n <:+: s := C12.scala_used_mentions cfg gens t s h hu

/-! ## Swift -/

/-- folder output: no crate module defines `CodableVoid`, `Codable.swift` does and is written iff
some module mentions it — so each module that mentions it finds it there -/
theorem swift_modules (E : Ext) (cfg : Swift.Cfg) (jobs : List Job) (res : List (Str × Str))
    (h : Swift.generateAll E cfg true jobs = .ok res) (hn : ∀ j ∈ jobs, j.1 ≠ C14_Helpers.helperPath) :
    ∃ outs, res = outs ++ C14_Helpers.helperFiles cfg (C14H.runUses cfg jobs) ∧ outs.map (·.1) = jobs.map (·.1) ∧
      (∀ p ∈ jobs.zip outs, p.2.1 = p.1.1 ∧
        (∃ body, C14H.IsBody E.U cfg p.1.2.1 body ∧ p.2.2 = Swift.beginFile cfg ++ body) ∧
        (C12L.Swift.used cfg p.1.2.1 = true → (C14_Helpers.helperPath, Swift.writeCodable cfg) ∈ res)) ∧
      ((C14_Helpers.helperPath, Swift.writeCodable cfg) ∈ res ↔ ∃ j ∈ jobs, C12L.Swift.used cfg j.2.1 = true) ∧
      s%"public struct CodableVoid: " <:+: Swift.writeCodable cfg := by
  obtain ⟨outs, hres, hnames, hz⟩ := C14_Helpers.C14_Helpers_folder E cfg jobs res h
  have hiff := (C14_Helpers.C14_Helpers_iff E cfg jobs res h hn).1
  have hru : C14H.runUses cfg jobs = true ↔ ∃ j ∈ jobs, C12L.Swift.used cfg j.2.1 = true := by
    simp [C14H.runUses, List.any_eq_true]
  refine ⟨outs, hres, hnames, ?_, hiff.trans hru, C14_Helpers.helper_defines cfg⟩
  intro p hp
  refine ⟨(hz p hp).1, (hz p hp).2, fun hu => hiff.2 (hru.2 ⟨p.1, (List.of_mem_zip hp).1, hu⟩)⟩

/-! ## Python -/

/-- what it means for the module written for `d` to be closed: it is header, function block and body
for one printer state `st`; `st` provides every name the items of `d` use on typeshare's account;
and if the header declares a type variable at all, it imports `TypeVar` -/
def PyModuleClosed (E : Ext) (cfg : Python.Cfg) (d : ParsedData) (text : Str) : Prop :=
  ∃ (st : Python.St) (body : Str),
    text = Python.beginFile cfg ++ Python.writeAllImports st ++ Python.writeCustomFns st ++ body ∧
    (∀ n ∈ C12L.Python.used E cfg d st, C12L.Python.Provides st n) ∧
    (st.typeVars ≠ [] → C12L.Python.Provides st C12L.Python.impTypeVar)

def Python_modules_full : Prop :=
  ∀ (E : Ext) (cfg : Python.Cfg) (multi : Bool) (jobs : List Job) (res : List (Str × Str)),
    Python.generateAll E cfg multi jobs = .ok res →
    res.map (·.1) = jobs.map (·.1) ∧ ∀ p ∈ jobs.zip res, PyModuleClosed E cfg p.1.2.1 p.2.2

/-- **every module of a Python run is closed**, whatever the modules before it left in the printer -/
theorem python_modules : Python_modules_full := by
  intro E cfg multi jobs res h
  obtain ⟨hn, hall⟩ := Py.generateFrom_each E cfg jobs {} res h Py.inv_empty
  refine ⟨hn, fun p hp => ?_⟩
  obtain ⟨stIn, st, hi, _, hg⟩ := hall p hp
  obtain ⟨_, hused, body, hb⟩ := C12L.Python.generate_spec E cfg _ stIn _ st hg
  exact ⟨st, body, hb, hused, Py.generate_inv E cfg _ stIn _ st hg hi⟩

/-- the three clauses of the property text, on the text of a closed module:
* every `X = TypeVar("X")` line of the header comes with a `from typing import …TypeVar…` line;
* a module with a generic struct imports `Generic` and `TypeVar` and declares the struct's parameters;
* the (de)serialiser functions a field of the module names are defined in the module -/
theorem python_modules_text (E : Ext) (cfg : Python.Cfg) (d : ParsedData) (text : Str) (h : PyModuleClosed E cfg d text) :
    ∃ (st : Python.St) (body : Str),
      text = Python.beginFile cfg ++ Python.writeAllImports st ++ Python.writeCustomFns st ++ body ∧
      (∀ x ∈ st.typeVars, (x ++ s%" = TypeVar(\"" ++ x ++ s%"\")") <:+: Python.writeAllImports st ∧
        ∃ ids, s%"TypeVar" ∈ ids ∧
          (s%"from typing import " ++ Str.intercalate s%", " ids) <:+: Python.writeAllImports st) ∧
      (∀ s ∈ d.structs, s.genericTypes ≠ [] →
        (∃ ids, s%"Generic" ∈ ids ∧ (s%"from typing import " ++ Str.intercalate s%", " ids) <:+: Python.writeAllImports st) ∧
        (∃ ids, s%"TypeVar" ∈ ids ∧ (s%"from typing import " ++ Str.intercalate s%", " ids) <:+: Python.writeAllImports st) ∧
        ∀ g ∈ s.genericTypes, (g ++ s%" = TypeVar(\"" ++ g ++ s%"\")") <:+: Python.writeAllImports st) ∧
      (∀ s ∈ d.structs, ∀ f ∈ s.fields, ∀ t c, C12L.Python.customTy cfg s.genericTypes f = some t →
        Python.jsonTranslation t = some c →
        c.serializationContent <:+: Python.writeCustomFns st ∧ c.deserializationContent <:+: Python.writeCustomFns st) := by
  obtain ⟨st, body, hb, hused, hinv⟩ := h
  have hstruct : ∀ s ∈ d.structs, ∀ n ∈ C12L.Python.structSafe E cfg s, C12L.Python.Provides st n := by
    intro s hs n hn
    apply hused
    simp only [C12L.Python.used, C12L.Python.safe, List.mem_append, List.mem_flatMap]
    exact .inl ⟨.struct s, by simp [itemsOf, hs], hn⟩
  refine ⟨st, body, hb, ?_, ?_, ?_⟩
  · intro x hx
    have hne : st.typeVars ≠ [] := fun h0 => by rw [h0] at hx; cases hx
    refine ⟨C12L.Python.writeAllImports_typeVar st x hx, ?_⟩
    obtain ⟨ids, hi, hl⟩ := C12L.Python.writeAllImports_import st _ _ (hinv hne)
    exact ⟨ids, hi, hl⟩
  · intro s hs hg
    have hne : s.genericTypes.isEmpty = false := by cases h : s.genericTypes <;> simp_all
    have h1 : C12L.Python.Provides st C12L.Python.impGeneric :=
      hstruct s hs _ (by simp [C12L.Python.structSafe, hne])
    have h2 : C12L.Python.Provides st C12L.Python.impTypeVar :=
      hstruct s hs _ (by simp [C12L.Python.structSafe, hne])
    obtain ⟨ids1, hi1, hl1⟩ := C12L.Python.writeAllImports_import st _ _ h1
    obtain ⟨ids2, hi2, hl2⟩ := C12L.Python.writeAllImports_import st _ _ h2
    refine ⟨⟨ids1, hi1, hl1⟩, ⟨ids2, hi2, hl2⟩, fun g hgm => ?_⟩
    exact C12L.Python.writeAllImports_typeVar st g
      (hstruct s hs (.typeVar g) (by simp [C12L.Python.structSafe, hgm]))
  · intro s hs f hf t c hct hc
    have : C12L.Python.Provides st (.fns t) := by
      apply hstruct s hs
      simp only [C12L.Python.structSafe, List.mem_cons, List.mem_append, List.mem_flatMap]
      exact .inr (.inr ⟨f, hf, by simp [C12L.Python.fieldSafe, hct]⟩)
    exact C12L.Python.writeCustomFns_defines st t c this hc

/-- **leaked state only adds**: the printer states `sts` the modules of a run are written from
(module k: `header(sts[k]) ++ functions(sts[k]) ++ body`) grow — whatever an earlier module's header
and function block provide, every later one's provide too -/
theorem python_leak_only_adds (E : Ext) (cfg : Python.Cfg) (multi : Bool) (jobs : List Job) (res : List (Str × Str))
    (h : Python.generateAll E cfg multi jobs = .ok res) :
    ∃ sts : List Python.St, sts.length = jobs.length ∧
      sts.Pairwise (fun a b => ∀ n, C12L.Python.Provides a n → C12L.Python.Provides b n) ∧
      ∀ p ∈ (jobs.zip res).zip sts, ∃ body,
        p.1.2.2 = Python.beginFile cfg ++ Python.writeAllImports p.2 ++ Python.writeCustomFns p.2 ++ body := by
  obtain ⟨sts, hl, hp, _, hz⟩ := Py.generateFrom_grows E cfg jobs {} res h
  exact ⟨sts, hl, hp, hz⟩

/-- why the invariant is needed: for an *arbitrary* start state (what `C12.Python_full` quantifies
over) the header is not closed — a state with a type variable and no imports, and a module without
generics: everything the items use is provided, yet `T = TypeVar("T")` is written without the import.
No run reaches such a state (`python_modules`). -/
theorem arbitrary_state_not_closed :
    let st0 : Python.St := { typeVars := [s%"T"] }
    st0.typeVars ≠ [] ∧ ¬ C12L.Python.Provides st0 C12L.Python.impTypeVar ∧ ¬ Py.Inv st0 ∧ Py.Inv {} := by
  decide

/-! ## Go, TypeScript, Kotlin -/

/-- every module of a Go run lists in its import block every package its text refers to -/
theorem go_modules (E : Ext) (cfg : Go.Cfg) (multi : Bool) (jobs : List Job) (res : List (Str × Str))
    (h : Go.generateAll E cfg multi jobs = .ok res) :
    res.map (·.1) = jobs.map (·.1) ∧
    ∀ p ∈ jobs.zip res, ∃ (st : Go.Imports) (body : Str),
      p.2.2 = Go.beginFile cfg ++ Go.renderImports st ++ body ∧ ∀ q ∈ C12L.Go.used cfg p.1.2.1, q ∈ st := by
  obtain ⟨hn, hall⟩ := Go'.generateFrom_each E.U cfg jobs [] res h
  refine ⟨hn, fun p hp => ?_⟩
  obtain ⟨stIn, st, hg⟩ := hall p hp
  obtain ⟨⟨body, hb⟩, hu⟩ := C12.C12_go E.U cfg _ stIn _ st hg
  exact ⟨st, body, hb, hu⟩

/-- every module of a TypeScript run ends with the reviver / replacer footer, which has a clause for
every custom-translated type a field of the module is printed with -/
theorem typescript_modules (E : Ext) (cfg : TypeScript.Cfg) (multi : Bool) (jobs : List Job) (res : List (Str × Str))
    (h : TypeScript.generateAll E cfg multi jobs = .ok res) :
    res.map (·.1) = jobs.map (·.1) ∧
    ∀ p ∈ jobs.zip res, ∃ (st : TypeScript.CustomMap) (pre : Str),
      p.2.2 = pre ++ TypeScript.endFile st ∧
      ∀ t ∈ C12L.TypeScript.used cfg p.1.2.1, C12L.TypeScript.clauseFor st t ∈ C12L.TypeScript.clauses st := by
  obtain ⟨hn, hall⟩ := TS.generateFrom_each E.U cfg jobs [] res h
  refine ⟨hn, fun p hp => ?_⟩
  obtain ⟨stIn, st, hg⟩ := hall p hp
  obtain ⟨⟨pre, hb⟩, hu⟩ := C12.C12_typescript E.U cfg _ _ stIn _ st hg
  exact ⟨st, pre, hb, fun t ht => (hu t ht).1⟩

/-- Kotlin keeps no state: a module is `Kotlin.generate` of its crate's data and imports; with a
package configured it ends its header with the two serialization imports (without one: the known
class `kotlin-empty-package`, per module as per file) -/
theorem kotlin_modules (E : Ext) (cfg : Kotlin.Cfg) (multi : Bool) (jobs : List Job) (res : List (Str × Str))
    (h : Kotlin.generateAll E cfg multi jobs = .ok res) :
    res.map (·.1) = jobs.map (·.1) ∧
    ∀ p ∈ jobs.zip res, Kotlin.generate cfg p.1.2.1 p.1.2.2 = .ok p.2.2 ∧
      (cfg.package.isEmpty = false → C12L.Kotlin.importLines <:+ Kotlin.beginFile cfg p.1.2.1) := by
  obtain ⟨hn, hall⟩ := Kt.generateFrom_each cfg jobs res h
  exact ⟨hn, fun p hp => ⟨hall p hp, fun hpk => C12.kotlin_header_imports cfg _ hpk⟩⟩

/-! ## the statement at full strength -/

/-- **C12_Modules**: in every folder run of every back end with helpers of its own, every module
defines or imports what it uses (Swift: finds it in `Codable.swift`), whatever printer state the
modules before it left behind -/
def C12_Modules_full : Prop :=
  Scala_modules_full ∧ Python_modules_full ∧
  (∀ (E : Ext) (cfg : Swift.Cfg) (jobs : List Job) (res : List (Str × Str)),
    Swift.generateAll E cfg true jobs = .ok res → (∀ j ∈ jobs, j.1 ≠ C14_Helpers.helperPath) →
    ∀ j ∈ jobs, C12L.Swift.used cfg j.2.1 = true → (C14_Helpers.helperPath, Swift.writeCodable cfg) ∈ res) ∧
  (∀ (E : Ext) (cfg : Go.Cfg) (multi : Bool) (jobs : List Job) (res : List (Str × Str)),
    Go.generateAll E cfg multi jobs = .ok res →
    ∀ p ∈ jobs.zip res, ∃ (st : Go.Imports) (body : Str),
      p.2.2 = Go.beginFile cfg ++ Go.renderImports st ++ body ∧ ∀ q ∈ C12L.Go.used cfg p.1.2.1, q ∈ st) ∧
  (∀ (E : Ext) (cfg : TypeScript.Cfg) (multi : Bool) (jobs : List Job) (res : List (Str × Str)),
    TypeScript.generateAll E cfg multi jobs = .ok res →
    ∀ p ∈ jobs.zip res, ∃ (st : TypeScript.CustomMap) (pre : Str),
      p.2.2 = pre ++ TypeScript.endFile st ∧
      ∀ t ∈ C12L.TypeScript.used cfg p.1.2.1, C12L.TypeScript.clauseFor st t ∈ C12L.TypeScript.clauses st)

theorem C12_Modules : C12_Modules_full := by
  refine ⟨scala_modules, python_modules, ?_, fun E cfg multi jobs res h => (go_modules E cfg multi jobs res h).2,
    fun E cfg multi jobs res h => (typescript_modules E cfg multi jobs res h).2⟩
  intro E cfg jobs res h hn j hj hu
  obtain ⟨_, _, _, _, hiff, _⟩ := swift_modules E cfg jobs res h hn
  exact hiff.2 ⟨j, hj, hu⟩

/-! ## non-vacuity, kernel-checked -/

open C12 in
/-- crate `a`: `struct G<T> { t: T, d: OffsetDateTime }`; crate `b`: `struct P { n: u8 }` -/
def pyItemA : RustItem :=
  .struct (mkStruct s%"G" [mkField s%"t" (.simple s%"T"), mkField s%"d" (.prim .dateTime)] [s%"T"])
open C12 in
def pyItemB : RustItem := .struct (mkStruct s%"P" [mkField s%"n" (.prim .u8)])
open C12 in
def pyA : ParsedData :=
  { structs := [mkStruct s%"G" [mkField s%"t" (.simple s%"T"), mkField s%"d" (.prim .dateTime)] [s%"T"]], crateName := s%"a" }
open C12 in
def pyB : ParsedData := { structs := [mkStruct s%"P" [mkField s%"n" (.prim .u8)]], crateName := s%"b" }

/-- the printer states the two modules of the run `a`, `b` are written from -/
def pyStates : Option (Python.St × Python.St) :=
  match Python.writeItems C12.exE {} [pyItemA] {} with
  | .ok (_, st1) =>
    (match Python.writeItems C12.exE {} [pyItemB] (Python.addDatetimeImport st1) with
     | .ok (_, st2) => some (Python.addDatetimeImport st1, Python.addDatetimeImport st2)
     | _ => none)
  | _ => none

/-- the hypothesis of `python_modules` / `python_leak_only_adds` is met: the run succeeds, with
exactly these two states -/
theorem python_run_example : ∃ res s1 s2 bodyA bodyB, pyStates = some (s1, s2) ∧
    Python.generateAll C12.exE {} true [(s%"a", pyA, some []), (s%"b", pyB, some [])] = .ok res ∧
    res = [(s%"a", Python.beginFile {} ++ Python.writeAllImports s1 ++ Python.writeCustomFns s1 ++ bodyA),
           (s%"b", Python.beginFile {} ++ Python.writeAllImports s2 ++ Python.writeCustomFns s2 ++ bodyB)] := by
  have hoA : Pipeline.generateOrder pyA = some [pyItemA] := topsort_single _ (by decide +kernel)
  have hoB : Pipeline.generateOrder pyB = some [pyItemB] := topsort_single _ (by decide +kernel)
  have hok : pyStates.isSome = true := by decide +kernel
  unfold pyStates at hok ⊢
  cases hA : Python.writeItems C12.exE {} [pyItemA] {} with
  | ok r =>
    obtain ⟨bodyA, st1⟩ := r
    rw [hA] at hok
    simp only at hok ⊢
    cases hB : Python.writeItems C12.exE {} [pyItemB] (Python.addDatetimeImport st1) with
    | ok r2 =>
      obtain ⟨bodyB, st2⟩ := r2
      refine ⟨_, _, _, bodyA, bodyB, rfl, ?_, rfl⟩
      simp [Python.generateAll, Python.generateFrom, Python.generate, hoA, hoB, hA, hB]
    | err e => rw [hB] at hok; simp at hok
    | panic e => rw [hB] at hok; simp at hok
  | err e => rw [hA] at hok; simp at hok
  | panic e => rw [hA] at hok; simp at hok

/-- **what leaks**: module `b` (`struct P { n: u8 }`, which uses `BaseModel` and nothing else of its
own) is written from a state that still declares `T`, imports `Generic`, `TypeVar`, `Annotated`, … and
holds the `datetime` functions of module `a` — all provided, none missing: its header is
`from datetime import datetime / from pydantic import BaseModel, BeforeValidator, PlainSerializer /
from typing import Annotated, Generic, TypeVar / T = TypeVar("T")` (same bytes from the real
generator) -/
theorem python_leak_example :
    pyStates.map (fun p => (p.1.typeVars, p.2.typeVars, p.2.customJson)) = some ([s%"T"], [s%"T"], [s%"datetime"]) ∧
    pyStates.map (fun p => p.2.imports) =
      some [(s%"datetime", [s%"datetime"]), (s%"pydantic", [s%"BaseModel", s%"BeforeValidator", s%"PlainSerializer"]),
            (s%"typing", [s%"Annotated", s%"Generic", s%"TypeVar"])] ∧
    pyStates.map (fun p => (C12L.Python.used C12.exE {} pyB p.2, decide (Py.Inv p.2))) =
      some ([C12L.Python.impBaseModel, C12L.Python.impDatetime], true) := by
  decide +kernel

/-- Scala: three crates, the first two print an unsigned alias name (`UByte`, `Vector[UShort]`) and
each carries the alias block, the third does not and has none -/
theorem scala_run_example :
    Scala.generateAll C12.exE C12.scalaCfg true
      [(s%"a", { structs := [C12.mkStruct s%"A" [C12.mkField s%"a" (.prim .u8)]], crateName := s%"a" }, some []),
       (s%"b", { structs := [C12.mkStruct s%"B" [C12.mkField s%"n" (.vec (.prim .u16))]], crateName := s%"b" }, some []),
       (s%"c", { structs := [C12.mkStruct s%"C" [C12.mkField s%"s" (.prim .string)]], crateName := s%"c" }, some [])] =
      .ok [(s%"a", s%"package com\n\npackage object example {\n\ntype UByte = Byte\ntype UShort = Short\ntype UInt = Int\ntype ULong = Int\n\n}\npackage example {\n\ncase class A (\n\ta: UByte\n)\n\n}\n"),
           (s%"b", s%"package com\n\npackage object example {\n\ntype UByte = Byte\ntype UShort = Short\ntype UInt = Int\ntype ULong = Int\n\n}\npackage example {\n\ncase class B (\n\tn: Vector[UShort]\n)\n\n}\n"),
           (s%"c", s%"package com\n\npackage example {\n\ncase class C (\n\ts: String\n)\n\n}\n")] := by
  decide +kernel

/-- Swift: the folder run of `C14_Helpers.ex_folder` (crate `a` mentions `CodableVoid`, crate `b` does
not) meets the hypotheses of `swift_modules` -/
example : (∃ res, Swift.generateAll C14_Helpers.E0 C14_Helpers.cfg0 true
      [(s%"a", C14_Helpers.crateA, some []), (s%"b", C14_Helpers.crateB, some [])] = .ok res) ∧
    (∀ j ∈ ([(s%"a", C14_Helpers.crateA, some []), (s%"b", C14_Helpers.crateB, some [])] : List Job),
      j.1 ≠ C14_Helpers.helperPath) := by
  refine ⟨?_, ?_⟩
  · obtain ⟨res, h, _⟩ := C14_Helpers.ex_folder
    exact ⟨res, h⟩
  · intro j hj
    simp only [List.mem_cons, List.not_mem_nil, or_false] at hj
    rcases hj with rfl | rfl <;> decide

end TsV.C12_Modules
