/-!
# Text

Model text is `List Char` (code points), not `String`: structural recursion and the core `List`
lemmas apply directly.  Rust's `String` ordering (bytewise on UTF-8) coincides with code-point
lexicographic order, which is what `strLt` below gives.
-/
namespace TsV

abbrev Str := List Char

/-- `s%"abc"` elaborates to the literal list `['a','b','c']`, which kernel-reduces under `decide`. -/
syntax:max "s%" str : term
macro_rules
  | `(s% $s:str) => do
    let cs := s.getString.toList
    let elems : Array (Lean.TSyntax `term) := (cs.map fun c => (Lean.quote c : Lean.TSyntax `term)).toArray
    `(([$elems,*] : List Char))

namespace Str

/-- ASCII predicates / maps (Rust `u8::is_ascii_*`, `to_ascii_*`). -/
def isAsciiUpper (c : Char) : Bool := 'A'.toNat ≤ c.toNat && c.toNat ≤ 'Z'.toNat
def isAsciiLower (c : Char) : Bool := 'a'.toNat ≤ c.toNat && c.toNat ≤ 'z'.toNat
def isAsciiDigit (c : Char) : Bool := '0'.toNat ≤ c.toNat && c.toNat ≤ '9'.toNat
def isAscii (c : Char) : Bool := c.toNat < 128

def asciiUpper (c : Char) : Char := if isAsciiLower c then Char.ofNat (c.toNat - 32) else c
def asciiLower (c : Char) : Char := if isAsciiUpper c then Char.ofNat (c.toNat + 32) else c

def toAsciiUpper (s : Str) : Str := s.map asciiUpper
def toAsciiLower (s : Str) : Str := s.map asciiLower

/-- `str::replace(from: char, to: &str)` -/
def replaceChar (s : Str) (c : Char) (r : Str) : Str :=
  s.flatMap fun x => if x = c then r else [x]

/-- is `p` a prefix of `s` -/
def startsWith : Str → Str → Bool
  | _, [] => true
  | [], _ :: _ => false
  | a :: s, b :: p => a == b && startsWith s p

/-- `str::contains(&str)` -/
def containsSub : Str → Str → Bool
  | [], p => p.isEmpty
  | s@(_ :: t), p => startsWith s p || containsSub t p

/-- `str::replace(&str, &str)`: non-overlapping, left to right (pattern non-empty). -/
def replaceSub (s pat rep : Str) : Str :=
  if pat.isEmpty then s else go s.length s
where
  go : Nat → Str → Str
    | 0, s => s
    | _, [] => []
    | fuel+1, s@(c :: t) =>
      if startsWith s pat then rep ++ go fuel (s.drop pat.length) else c :: go fuel t

/-- code-point lexicographic `<` (= Rust `String` `Ord`) -/
def lt : Str → Str → Bool
  | [], [] => false
  | [], _ :: _ => true
  | _ :: _, [] => false
  | a :: s, b :: t => a.toNat < b.toNat || (a == b && lt s t)

def le (a b : Str) : Bool := !(lt b a)

def intercalate (sep : Str) : List Str → Str
  | [] => []
  | [x] => x
  | x :: xs => x ++ sep ++ intercalate sep xs

def natToStr (n : Nat) : Str := (toString n).toList
def intToStr (n : Int) : Str := (toString n).toList

end Str
end TsV
