"""C19 — #[typeshare] is transparent to the Rust compiler and to serde (annotation/src/lib.rs)."""
import re
from common import *

NEEDS = ()

OTHER_ATTRS = [(["serde"], '(rename = "x")'), (["serde"], "(skip)"), (["cfg"], '(feature = "f")'), (["doc"], ' = " a doc "'),
               (["allow"], "(dead_code)"), (["serde"], '(default, rename_all = "camelCase")'), (["derive"], "(Debug, Clone)"),
               (["cfg_attr"], '(feature = "x", derive(Debug))'), (["foo", "bar"], "(1 + 2)"), (["typeshare", "typeshare"], "")]
HELPERS = [(["typeshare"], "(skip)"), (["typeshare"], '(serialized_as = "String")'), (["typeshare"], "(typescript(readonly))"),
           (["typeshare"], '(swift = "Equatable")'), (["typeshare"], "(redacted)"), (["typeshare"], ""),
           (["typeshare"], '(kotlin(type = "x"), go(note = "y"))')]
ARGS = ["", "(swift = \"Equatable, Hashable\")", "(redacted)", "(serialized_as = \"String\")", "(kotlin = \"JvmInline\", swift = \"Codable\")"]


def rand_attrs(rng, allow_helpers):
    out = []
    for _ in range(rng.choice([0, 0, 1, 1, 2, 3, 4])):
        if allow_helpers and rng.random() < 0.45:
            out.append(rng.choice(HELPERS))
        else:
            a = rng.choice(OTHER_ATTRS)
            # rustc itself evaluates cfg / cfg_attr on the *item* before any attribute macro runs; keep
            # them to the inner positions, where they reach the macro untouched
            if not allow_helpers and a[0][0] in ("cfg", "cfg_attr"):
                continue
            out.append(a)
    return out


def r_attrs(attrs):
    return "".join("#[%s%s] " % ("::".join(p), t) for p, t in attrs)


def gen_item(rng, idx):
    """abstract item (the Lean AItem shape) + how to render it"""
    kind = rng.choice(["struct", "struct", "tuple", "unit", "enum", "enum", "union", "alias", "const", "fn"])
    name = "T%d" % idx
    gens = rng.choice(["", "", "<T>", "<'a, T: Clone>", "<const N: usize>"])
    where = rng.choice(["", "", " where T: Copy"]) if "T" in gens else ""
    vis = rng.choice(["pub ", "", "pub(crate) "])
    attrs = rand_attrs(rng, allow_helpers=False)
    if kind in ("struct", "tuple", "unit", "union"):
        n = 0 if kind == "unit" else rng.randint(1, 4)
        fields = []
        for i in range(n):
            fa = rand_attrs(rng, True)
            ty = rng.choice(["u8", "Vec<T>" if "T" in gens else "Vec<u8>", "Option<String>", "&'a str" if "'a" in gens else "String", "[u8; 4]"])
            rest = ("%s%s" % (rng.choice(["pub ", ""]), ty)) if kind == "tuple" else "%sf%d: %s" % (rng.choice(["pub ", ""]), i, ty)
            fields.append({"attrs": fa, "rest": rest})
        kw = "union" if kind == "union" else "struct"
        return {"kind": "union" if kind == "union" else "struct", "style": kind, "attrs": attrs,
                "head": "%s%s %s%s" % (vis, kw, name, gens), "where": where, "fields": fields}
    if kind == "enum":
        variants = []
        for i in range(rng.randint(0, 4)):
            va = rand_attrs(rng, True)
            style = rng.choice(["unit", "unit", "tuple", "struct"])
            fs = []
            for j in range(0 if style == "unit" else rng.randint(0, 3)):
                fa = rand_attrs(rng, True)
                ty = rng.choice(["u8", "String", "Box<Self>", "Option<u32>"])
                fs.append({"attrs": fa, "rest": ty if style == "tuple" else "g%d: %s" % (j, ty)})
            disc = " = %d" % i if style == "unit" and rng.random() < 0.2 else ""
            variants.append({"attrs": va, "name": "V%d" % i, "style": style, "fields": fs, "rest": disc})
        return {"kind": "enum", "attrs": attrs, "head": "%senum %s%s" % (vis, name, gens), "where": where, "variants": variants}
    if kind == "alias":
        return {"kind": "other", "attrs": attrs, "tokens": "%stype %s%s = Vec<u8>;" % (vis, name, "<T>" if gens == "<T>" else "")}
    if kind == "const":
        return {"kind": "other", "attrs": attrs, "tokens": "%sconst C%d: u32 = %d;" % (vis, idx, idx)}
    return {"kind": "other", "attrs": attrs, "tokens": "%sfn f%d(#[typeshare(skip)] x: u8) -> u8 { #[typeshare] struct Inner; x }" % (vis, idx)}


def render(it, attrs_of=lambda x: x["attrs"]):
    """Rust source of the item; `attrs_of` selects the attribute lists (source item or model result)"""
    a = r_attrs(it["attrs"])
    if it["kind"] == "other":
        return a + it["tokens"]
    if it["kind"] in ("struct", "union"):
        fs = ", ".join(r_attrs(attrs_of(f)) + f["rest"] for f in it["fields"])
        if it["style"] == "unit":
            return a + it["head"] + it["where"] + ";"
        if it["style"] == "tuple":
            return a + it["head"] + "(" + fs + ")" + it["where"] + ";"
        return a + it["head"] + it["where"] + " { " + fs + " }"
    vs = []
    for v in it["variants"]:
        fs = ", ".join(r_attrs(attrs_of(f)) + f["rest"] for f in v["fields"])
        body = "" if v["style"] == "unit" else "(" + fs + ")" if v["style"] == "tuple" else " { " + fs + " }"
        vs.append(r_attrs(attrs_of(v)) + v["name"] + body + v["rest"])
    return a + it["head"] + it["where"] + " { " + ", ".join(vs) + " }"


def sx_attrs(attrs):
    return [[list(p), t] for p, t in attrs]


def sx_item(it):
    if it["kind"] == "other":
        return [S("other"), r_attrs(it["attrs"]) + it["tokens"]]
    if it["kind"] in ("struct", "union"):
        return [S(it["kind"]), sx_attrs(it["attrs"]), it["head"], [[sx_attrs(f["attrs"]), f["rest"]] for f in it["fields"]]]
    return [S("enum"), sx_attrs(it["attrs"]), it["head"],
            [[sx_attrs(v["attrs"]), v["name"], [[sx_attrs(f["attrs"]), f["rest"]] for f in v["fields"]], v["rest"]] for v in it["variants"]]]


def apply_model(it, ans):
    """the item with the attribute lists the model's `expand` returned"""
    out = json.loads(json.dumps(it))
    m = ans["ok"]
    if it["kind"] == "other":
        return out
    if it["kind"] in ("struct", "union"):
        for f, mf in zip(out["fields"], m["fields"]):
            f["attrs"] = [(p, t) for p, t in mf["attrs"]]
    else:
        for v, mv in zip(out["variants"], m["variants"]):
            v["attrs"] = [(p, t) for p, t in mv["attrs"]]
            for f, mf in zip(v["fields"], mv["fields"]):
                f["attrs"] = [(p, t) for p, t in mf["attrs"]]
    return out


def squeeze(s):
    return re.sub(r"\s+", "", s)


def run(check):
    rng = check.rng
    n = 6000 if check.thorough else 800
    check.rule = ("generated structs (named/tuple/unit), enums (unit/tuple/struct variants, discriminants), unions, type aliases, "
                  "consts and fns with generics, lifetimes, where-clauses and arbitrary mixes of serde/derive/cfg/doc/unknown "
                  "attributes and typeshare(...) helper attributes on fields, variants, variant fields and union fields; each is "
                  "expanded by the real #[typeshare] macro inside rustc and the tokens rustc hands on (captured by a second "
                  "attribute macro) are compared with the Lean model's expansion; non-trivial = the item carries at least one "
                  "helper attribute")
    items = [gen_item(rng, i) for i in range(n)]
    answers = model([[S("expand"), sx_item(it)] for it in items], with_unicode=False)
    with Scratch() as sc:
        dump = sc.path("dump.txt")
        src = []
        for i, it in enumerate(items):
            src.append("#[typeshare_annotation::typeshare%s] #[attrdump::dump(\"%d\")] %s\n" % (rng.choice(ARGS), i, render(it)))
        sc.write("crate/src/lib.rs", "#![allow(unused)]\n" + "".join(src))
        sc.write("crate/Cargo.toml", '[package]\nname = "c19probe"\nversion = "0.1.0"\nedition = "2021"\n\n[workspace]\n\n[dependencies]\n'
                 'typeshare-annotation = { path = "%s/annotation" }\nattrdump = { path = "%s/harness/attrdump" }\n' % (REPO, VERIF))
        shutil.copyfile(os.path.join(REPO, "Cargo.lock"), sc.path("crate/Cargo.lock"))
        env = dict(ENV, ATTRDUMP_OUT=dump)
        lock = open(os.path.join(BUILD, "cargo-c19.lock"), "w")
        fcntl.flock(lock, fcntl.LOCK_EX)
        p = subprocess.run(["cargo", "build", "--offline", "--target-dir", os.path.join(BUILD, "target-c19")], cwd=sc.path("crate"),
                           env=env, stdout=subprocess.PIPE, stderr=subprocess.STDOUT, text=True)
        if p.returncode != 0 or not os.path.exists(dump):
            # every item is swallowed by `attrdump::dump`, so the crate compiles unless the #[typeshare] macro itself emits an error
            # (or panics).  Cross-check: the same crate without the #[typeshare] attributes must build; then this is a violation
            plain = re.sub(r"#\[typeshare_annotation::typeshare(\([^\n]*?\))?\] #\[attrdump", "#[attrdump", "#![allow(unused)]\n" + "".join(src))
            sc.write("crate/src/lib.rs", plain)
            p2 = subprocess.run(["cargo", "build", "--offline", "--target-dir", os.path.join(BUILD, "target-c19")], cwd=sc.path("crate"),
                                env=env, stdout=subprocess.PIPE, stderr=subprocess.STDOUT, text=True)
            lock.close()
            if p2.returncode != 0:
                raise InfraError("C19 probe crate does not build even without #[typeshare]:\n" + p2.stdout[-3000:])
            errs = [l for l in p.stdout.split("\n") if l.startswith("error")][:4]
            where = re.findall(r"--> src/lib.rs:(\d+):", p.stdout)
            bad_src = src[int(where[0]) - 2] if where and 0 <= int(where[0]) - 2 < len(src) else None
            check.saw(("probe-build", "failed"), nontrivial=True)
            check.violation("the program with #[typeshare] does not compile although the same items without it do: %s" % "; ".join(errs),
                            case={"source": bad_src or "".join(src)[:4000]}, impl={"rustc": p.stdout[-3000:]}, failing_input=True)
            return
        lock.close()
        got = {}
        for line in open(dump, encoding="utf-8"):
            k, _, v = line.rstrip("\n").partition("\t")
            got[int(k)] = v
    for i, (it, ans) in enumerate(zip(items, answers)):
        helpers = sum(1 for p, t in all_attrs(it) if p == ["typeshare"])
        check.saw(render(it), nontrivial=helpers > 0)
        check.count(it["kind"] + ("+helpers" if helpers else ""))
        expected_model = squeeze(render(apply_model(it, ans)))
        impl = squeeze(got.get(i, "<missing>"))
        if len(check.samples) < 4 and helpers >= 2:
            check.sample({"source": render(it), "macro_output": got.get(i), "model_expansion": render(apply_model(it, ans))})
        if impl != expected_model:
            # the property itself on the implementation: exactly the helper attributes removed, nothing else
            twin = json.loads(json.dumps(it))
            strip(twin)
            failing = impl != squeeze(render(twin))
            check.violation("the #[typeshare] macro's output differs from the model's expansion" +
                            (": it is not the item with exactly the typeshare helper attributes removed" if failing else ""),
                            case={"source": render(it)}, impl=got.get(i), model=render(apply_model(it, ans)),
                            failing_input=failing, broken=None if failing else "correspondence annotation macro (theorems TsV.C19.*)")
            break
    twin_part(check)
    check.assumptions += ["rustc and derive macros are functions of the token stream they receive: syntactic identity of the expansion with the stripped twin implies identical compilation and serialisation behaviour for items written directly in source (trusted, not proved); for macro_rules!-generated items the text of the token stream is not everything (hygiene of `$crate`, spans, the origin of None-delimited fragment groups): those are not modelled and are covered only by the twin programs compiled and run by this check (nine fragment/hygiene scenarios per round, helpers and arguments randomised)",
                          "token streams are compared modulo white-space"]


# ----------------------------------------------------------------------------- twin programs through macro_rules!
# Items a user's (exported or local) macro_rules! macro generates: the tokens reach #[typeshare] with the macro's
# hygiene (`$crate`), with None-delimited fragment groups ($ty, $expr, $vis, $meta) and with macro-site spans.  The text
# comparison above cannot see any of that, so these programs are compiled twice and run.
TWIN_HELPERS = ["#[typeshare(skip)]", '#[typeshare(serialized_as = "String")]', "#[typeshare(typescript(readonly))]", ""]

TWIN_SCENARIOS = [
    # (name, macro parameters, body with @TS@ / @H@ markers, invocation arguments, probe expressions over module M)
    ("dollar-crate-struct", "($name:ident)",
     "@TS@ #[derive(serde::Serialize, Default)] pub struct $name { @H@ pub inner: $crate::Inner, @H@ pub deep: $crate::deep::Inner, pub n: u8 }",
     "S", ["serde_json::to_string(&M::S::default()).unwrap()", "std::mem::size_of::<M::S>().to_string()"]),
    ("dollar-crate-enum", "($name:ident)",
     '@TS@ #[derive(serde::Serialize, Default)] #[serde(tag = "t", content = "c")] pub enum $name { #[default] @H@ A, @H@ B($crate::Inner), '
     "C { @H@ x: $crate::deep::Inner, y: Option<$crate::Inner> } }",
     "S", ["serde_json::to_string(&[M::S::default(), M::S::B(Default::default()), M::S::C { x: Default::default(), y: None }]).unwrap()"]),
    ("dollar-crate-union", "($name:ident)",
     "@TS@ #[repr(C)] pub union $name { @H@ pub a: $crate::Inner, @H@ pub b: u32 }",
     "S", ["std::mem::size_of::<M::S>().to_string()", "unsafe { M::S { b: 7 }.b }.to_string()"]),
    ("dollar-crate-alias-const", "($name:ident)",
     "@TS@ pub type $name = $crate::deep::Inner; @TS@ pub const LIMIT: $crate::Inner = $crate::Inner(9);",
     "S", ["serde_json::to_string(&M::S::default()).unwrap()", "M::LIMIT.0.to_string()"]),
    ("ty-vis-meta-fragments", "($(#[$m:meta])* $vis:vis $name:ident : $ty:ty)",
     "@TS@ $(#[$m])* #[derive(Default)] pub struct $name { @H@ $vis first_field: $ty, @H@ pub second_field: Vec<$ty> }",
     '#[derive(serde::Serialize)] #[serde(rename_all = "UPPERCASE")] pub(crate) S : Option<u8>',
     ["serde_json::to_string(&M::S::default()).unwrap()", "std::mem::size_of::<M::S>().to_string()"]),
    ("expr-fragment-array", "($name:ident, $n:expr)",
     "@TS@ #[derive(serde::Serialize, Default)] pub struct $name { @H@ pub bytes: [u8; $n], pub tail: u8 }",
     "S, 1 + 2", ["serde_json::to_string(&M::S::default()).unwrap()", "std::mem::size_of::<M::S>().to_string()"]),
    ("expr-fragment-precedence", "($name:ident, $n:expr)",
     "@TS@ #[derive(serde::Serialize, Default)] pub struct $name { @H@ pub bytes: [u8; $n * 2], pub tail: u8 }",
     "S, 1 + 2", ["serde_json::to_string(&M::S::default()).unwrap()", "std::mem::size_of::<M::S>().to_string()"]),
    ("literal-discriminant", "($name:ident, $d:literal)",
     "@TS@ #[derive(serde::Serialize, Clone, Copy)] #[repr(u8)] pub enum $name { @H@ A = $d, @H@ B }",
     "S, 41", ["(M::S::B as u8).to_string()", "serde_json::to_string(&M::S::A).unwrap()"]),
    ("lifetime-generics", "($name:ident, $lt:lifetime, $g:ident)",
     "@TS@ #[derive(serde::Serialize, Default)] pub struct $name<$lt, $g: Default> where $g: Clone { @H@ pub s: &$lt str, @H@ pub t: $g, "
     "pub i: $crate::Inner }",
     "S, 'x, G", ["serde_json::to_string(&M::S::<'static, u16>::default()).unwrap()"]),
    ("nested-module-macro", "($name:ident)",
     "@TS@ #[derive(serde::Serialize, Default)] pub struct $name(@H@ pub $crate::deep::Inner, @H@ pub $crate::Inner);",
     "S", ["serde_json::to_string(&M::S::default()).unwrap()"]),
]

TWIN_LIB = """#![allow(unused)]
#[derive(serde::Serialize, Default, Debug, Clone, Copy, PartialEq)]
pub struct Inner(pub u8);
pub mod deep {
    #[derive(serde::Serialize, Default, Debug, Clone, Copy, PartialEq)]
    pub struct Inner { pub v: u8 }
}
"""


def twin_part(check):
    rng = check.rng
    rounds = 4 if check.thorough else 1
    for rnd in range(rounds):
        lib, main_mods, probes, feats = [TWIN_LIB], [], [], []
        chosen = []
        for k, (sname, params, body, inv, exprs) in enumerate(TWIN_SCENARIOS):
            exported = rng.random() < 0.5       # macro exported by the library crate / local to the binary crate
            ts = "#[typeshare::typeshare%s]" % rng.choice(ARGS)
            annotated = body.replace("@TS@", ts)
            while "@H@" in annotated:
                annotated = annotated.replace("@H@", rng.choice(TWIN_HELPERS), 1)
            plain = body.replace("@TS@", "").replace("@H@", "")
            chosen.append({"scenario": sname, "exported": exported, "annotated_macro_body": annotated, "invocation": inv})
            for flavour, text in (("plain", plain), ("annot", annotated)):
                mac = "macro_rules! gen_%d_%s { (%s) => { %s }; }\n" % (k, flavour, params[1:-1], text)
                if exported:
                    lib.append("#[macro_export]\n" + mac)
                    call = "c19twin::gen_%d_%s!(%s);" % (k, flavour, inv)
                else:
                    # a binary-local macro: `$crate` is the binary crate, which re-exports the library's items
                    main_mods.append(mac)
                    call = "gen_%d_%s!(%s);" % (k, flavour, inv)
                gate = '#[cfg(feature = "annot_%d")] ' % k if flavour == "annot" else ""
                main_mods.append("%spub mod %s_%d { use super::*; %s }\n" % (gate, flavour, k, call))
            for j, e in enumerate(exprs):
                probes.append('    println!("%d.%d plain {}", %s);\n' % (k, j, e.replace("M::", "plain_%d::" % k)))
                probes.append('    #[cfg(feature = "annot_%d")] println!("%d.%d annot {}", %s);\n' % (k, k, j, e.replace("M::", "annot_%d::" % k)))
            feats.append("annot_%d" % k)
        main = ("#![allow(unused)]\npub use c19twin::{deep, Inner};\n" + "".join(main_mods) + "fn main() {\n" + "".join(probes) + "}\n")
        with Scratch() as sc:
            sc.write("crate/src/lib.rs", "".join(lib))
            sc.write("crate/src/main.rs", main)
            sc.write("crate/Cargo.toml", '[package]\nname = "c19twin"\nversion = "0.1.0"\nedition = "2021"\n\n[workspace]\n\n[features]\n'
                     + "".join("%s = []\n" % f for f in feats) + "annot = [%s]\n" % ", ".join('"%s"' % f for f in feats)
                     + '\n[dependencies]\ntypeshare = { path = "%s/lib" }\nserde = { version = "1", features = ["derive"] }\nserde_json = "1"\n' % REPO)
            shutil.copyfile(os.path.join(REPO, "Cargo.lock"), sc.path("crate/Cargo.lock"))
            lock = open(os.path.join(BUILD, "cargo-c19.lock"), "w")
            fcntl.flock(lock, fcntl.LOCK_EX)

            def build_run(features):
                p = subprocess.run(["cargo", "run", "-q", "--offline", "--target-dir", os.path.join(BUILD, "target-c19")] +
                                   (["--features", ",".join(features)] if features else []), cwd=sc.path("crate"), env=ENV,
                                   stdout=subprocess.PIPE, stderr=subprocess.PIPE, text=True)
                return p
            try:
                p0 = build_run([])
                if p0.returncode != 0:
                    raise InfraError("C19 twin crate: the un-annotated programs do not build:\n" + p0.stderr[-3000:])
                p1 = build_run(["annot"])
                outs = {}
                if p1.returncode != 0:
                    # which scenario stops compiling?
                    for k, f in enumerate(feats):
                        pk = build_run([f])
                        check.count("twin-bisect")
                        if pk.returncode != 0:
                            check.saw(("twin", rnd, k), nontrivial=True)
                            errs = [l for l in pk.stderr.split("\n") if l.startswith("error")][:3]
                            check.violation("macro_rules!-generated item (%s, %s macro): the program with #[typeshare] does not compile "
                                            "although its un-annotated twin does: %s" % (chosen[k]["scenario"], "exported" if chosen[k]["exported"]
                                                                                          else "local", "; ".join(errs)),
                                            case=chosen[k], impl={"rustc": pk.stderr[-2500:]}, failing_input=True)
                            return
                    # each annotated item compiles on its own, the annotated program as a whole does not (the un-annotated one does):
                    # the macro makes the items depend on each other
                    errs = [l for l in p1.stderr.split("\n") if l.startswith("error")][:3]
                    check.saw(("twin-whole", rnd), nontrivial=True)
                    check.violation("the program whose macro_rules!-generated items carry #[typeshare] does not compile although every item "
                                    "compiles alone and the un-annotated program compiles: %s" % "; ".join(errs),
                                    case={"scenarios": chosen, "main.rs": main}, impl={"rustc": p1.stderr[-2500:]}, failing_input=True)
                    return
                lines = {}
                for l in p1.stdout.split("\n"):
                    m = re.match(r"(\d+)\.(\d+) (plain|annot) (.*)$", l)
                    if m:
                        lines[(int(m.group(1)), int(m.group(2)), m.group(3))] = m.group(4)
            finally:
                lock.close()
        for k, (sname, params, body, inv, exprs) in enumerate(TWIN_SCENARIOS):
            check.saw(("twin", chosen[k]["annotated_macro_body"], chosen[k]["exported"]), nontrivial=True)
            check.count("twin-" + sname)
            for j in range(len(exprs)):
                a, b = lines.get((k, j, "plain")), lines.get((k, j, "annot"))
                if a is None or b is None:
                    raise InfraError("C19 twin crate: missing probe output %d.%d" % (k, j))
                if a != b and sname == "expr-fragment-precedence" and check.known(
                        "macro-expr-fragment-regrouped", "`[u8; $n * 2]` with $n = `1 + 2`: annotated %s, twin %s" % (b, a)):
                    continue
                if a != b:
                    check.violation("macro_rules!-generated item (%s): the annotated type behaves differently from its un-annotated twin: "
                                    "`%s` gives %s, the twin %s" % (sname, exprs[j], b, a), case=chosen[k], impl={"annotated": b, "twin": a},
                                    failing_input=True)
                    return


def all_attrs(it):
    if it["kind"] == "other":
        return []
    if it["kind"] in ("struct", "union"):
        return [a for f in it["fields"] for a in f["attrs"]]
    return [a for v in it["variants"] for a in v["attrs"]] + [a for v in it["variants"] for f in v["fields"] for a in f["attrs"]]


def strip(it):
    keep = lambda attrs: [(p, t) for p, t in attrs if p != ["typeshare"]]
    if it["kind"] in ("struct", "union"):
        for f in it["fields"]:
            f["attrs"] = keep(f["attrs"])
    elif it["kind"] == "enum":
        for v in it["variants"]:
            v["attrs"] = keep(v["attrs"])
            for f in v["fields"]:
                f["attrs"] = keep(f["attrs"])
